#!/bin/bash
# usage: tools/benign_sweep2.sh <Bxx>  — every check against every edit of the third independent benign corpus (/tmp/mut/<Bxx>.out3)
B=$1
for K in 1 2 3 4 5 6 7 8; do
  [ -f /tmp/mut/$B.out3/b$K.diff ] || continue
  echo "#### $B b$K $(head -1 /tmp/mut/$B.out3/b$K.md)"
  /verif/tools/try_all.sh /tmp/mut/$B /tmp/mut/$B.out3/b$K.diff
done
