# Table of claims. Only properties whose rules are implemented in checker/ are claimed.
STATIC_NOTE = "Trusted base: go/packages+go/types resolution of the pinned toolchain, go/ssa translation, the checker's own RFC/kind/helper tables (checker/e1.go). Decides the structural clauses listed in the evidence explanation, not the runtime behaviour as such."

claim("C01",
      "Static conformance of every RR type's pack/unpack to an independent RFC layout table, dual codecs per field, header bit tables, RCODE split, option registries, RDLENGTH patch guards. Necessary structural conditions of lossless encoding, decided for all 81 types and all paths; value-level codec behaviour and the round-trip equality are not decided.",
      STATIC_NOTE, "AST/type-level sibling conformance against RFC layout table; CFG edge-dominance; constant agreement")

claim("C20",
      "Static, per-type and per-path: every generated isDuplicate compares each RDATA field with the same field of the other record through the comparator of the field's wire kind (names case-insensitively), nothing but RDATA takes part; copy initialises field i from field i; header comparison reads class/type/name only; equal() folds both sides identically; Dedup only lowers the survivor's TTL and compacts in order. Necessary structural conditions; the equivalence-relation and wire-octet equality clauses over all value pairs are not decided.",
      STATIC_NOTE, "AST sibling conformance of 80 generated comparators against the struct tags; SSA edge-dominance guards for IsDuplicate/Dedup")

claim("C04",
      "Static, all paths: the compressible-name set (tags and pack flags of all 81 types and every other caller of packDomainName) equals the RFC 1035 list; PackBuffer compresses only under Compress && isCompressible(); map insertion only below 1<<14 and at the offset the label is written; pointers only from map hits under compress, xor 0xC000; keys are unmodified substrings of the name (case preserved) including inside the map accessors; every name field of every type is unpacked through the pointer-following decoder, whose 14-bit target decode is fingerprinted. Necessary structural conditions; 'decodes to the same message' and 'never longer' are not decided.",
      STATIC_NOTE, "AST tag/flag conformance against RFC 3597 s.4 list; SSA edge-dominance and value-identity rules on packDomainName/UnpackDomainName")
claim("C08",
      "Static, all 81 types and all paths: symbolic evaluation of every len method into a linear form compared with the per-kind length terms (exact for integer/address/name/character-string kinds, upper bound for blobs), name terms measured at the accumulated offset with the RFC 1035 compress flag; running offset threaded through msgLenWithCompressionMap; Pack buffer = uncompressed length + 1, reused iff large enough; Len/PackBuffer share the compression gate; simulated compression obeys the 1<<14 limit; escapedNameLen subtract/skip pairing. Numeric equality of simulated vs real compression and bitmap arithmetic are not decided.",
      STATIC_NOTE, "symbolic linear-form evaluation of len bodies (AST) against kind table; SSA guards")

claim("C17",
      "Static: NSEC3.Cover/Match decided for all 13 orderings of (name hash, owner hash, next hash) by abstract interpretation of the CFG over the finite ordering domain, plus zone guards; case-independence and digest-input order of HashName/ToDS; digest-type table; dnskeyWireFmt conformance and fill sites; private-key writer/reader field agreement; RSA size limits of decoder vs generator. Numeric equality of key tags/digests/hashes with the RFCs, key generation and validity arithmetic are not decided (values/cryptography).",
      STATIC_NOTE, "abstract interpretation over total preorders (E6); SSA guards; table agreement")

claim("C13",
      "Static lockset discipline and start/stop ordering of server.go on every path and (thorough) every build configuration: started/conns only under Server.lock (write lock for writes), acquire/release pairing incl. unlockOnce, deadline re-arm only under RLock on the started edge, already-started/not-started tests before any effect, started=false before unblocking readers, drain wait before return, wg.Add before go and wg.Done on all paths, close(shutdown) after wg.Wait. These are necessary structural conditions; the behavioural statement over all interleavings (graceful drain, no leak, race freedom) is not decided.",
      STATIC_NOTE, "must-hold lockset dataflow on SSA CFG; edge-dominance guards; must-pass")

claim("C14",
      "Static: complete path enumeration of the loop-free per-message function (handler at most once, only after accept and decode; otherwise refused, ignored or reported), reject/NOTIMP/ignore reply construction, the default accept policy as a decision list with bit-provenance of QR and opcode, effect summaries of the reply skeletons, and the multiplexer's lock discipline, canonical keys, label-boundary walk, DS continuation, root-last and REFUSED edge. 'Never panics' and longest-suffix optimality over all pattern sets are not decided.",
      STATIC_NOTE, "path enumeration over SSA CFG; edge-dominance guards; bit provenance; lockset")

claim("C10",
      "Static, all paths: RRSIG.Verify's success only from the verifier's verdict and only after all twelve listed pre-checks (edge dominance on the SSA CFG with field-path-exact guard matching), digest input order, rrsigWireFmt conformance and both fill sites, rawSignatureData writes only to copies / substitutes OrigTtl and canonical owner on every path / lower-cases every embedded name of every RFC 4034 s.6.2 type / sorts then de-duplicates / orders by RDATA, RRSIG.Sign field filling, RSA size limits. The equality of the signed octet string with RFC 4034 for all inputs and the cryptographic facts are not decided.",
      STATIC_NOTE, "guarded-success (edge dominance) on SSA; must-pass; type-switch exhaustiveness against RFC list and struct tags")

claim("C11",
      "Static, all paths: tsigVerify's success only after strip, digest-input construction, the provider's verdict on exactly those values and then the 64-bit fudge window; HMAC provider accepts only on hmac.Equal, algorithm table, key lookup by owner name; RFC 8945 layouts of the three digest-input structs, their packers and fill sites; digest-input composition (original ID, timers-only selection, request MAC always covered when given); generation framing (TSIG stripped before packing, appended last, ARCOUNT+1, no MAC for BADKEY/BADSIG); stripTsig's cut offset and ARCOUNT-1. Equality with the RFC 8945 HMAC for all inputs, single-bit alteration facts and envelope-chain histories are not decided.",
      STATIC_NOTE, "guarded-success (edge dominance) on SSA; side-struct conformance; byte-access provenance; buffer composition classes")

claim("C15",
      "Static, all paths of the receive loops (with path-sensitive enumeration of loop iterations where loop-carried flags correlate branches): connection closed before channel in a deferred function installed before the loop, every exit preceded by a send, error-free envelopes only after read-ok / ID match / RCODE 0 on every envelope and SOA-first in the first iteration, timers-only on before the second read, every message verified against the running MAC when a provider is configured with the verdict returned, sender-side per-envelope reply/write/timers-only and MAC chaining in both writers. The exact delivery/termination behaviour for every envelope composition (IXFR serial counting) is not decided: histories.",
      STATIC_NOTE, "guarded-success and must-pass on SSA CFG; iteration-path enumeration with correlated-branch pruning")

claim("C18",
      "Static, all paths of sig0.go: Verify's success only from the verifier's verdict, inside the validity window read in RRSIG order, with the key's owner as signer; digest input order and the big-endian ARCOUNT-1 octets by bit provenance; Sign's RDLENGTH/ARCOUNT read-modify-write patches as 16-bit quantities after the 65535 test and its digest operands; the buffer contract (a buffer PackBuffer must reuse is sized from the uncompressed length); affine guard coverage of every variable-offset read in Verify; RSA size limits. Cryptographic tamper-evidence and success for every message are not decided.",
      STATIC_NOTE, "guarded-success on SSA; byte-access and bit provenance; affine guard normalisation; stated-belief rule")

claim("C09",
      "Static, all paths of Truncate/truncateLoop/popEdns0: TSIG opt-out before any effect, size floored before any use, popped OPT re-appended on every path and last, order-preserving OPT removal, TC = old TC or dropped-from-some-section with matching section/count pairs, sections only cut to prefixes with counts from truncateLoop of the same section, running offset threaded, later sections walked only below the budget. The numeric clauses (packed length <= max(size,512), first dropped record would not have fitted) are not decided.",
      STATIC_NOTE, "SSA edge-dominance, must-pass, value-identity and phi-structure rules")

claim("C12",
      "Static, all paths (thorough: all build configurations): length-prefixed stream reads (2-octet big-endian length, io.ReadFull of exactly that many from the same connection, over-long lengths refused), raw reads only on the packet edge, framed stream writes (fresh buffer 2+len, prefix, copy, refusal above 65535), nil error from an exchange only with reply ID == query ID and the skip loop only on packet connections, no use of the receive buffer after it went back to the pool, a fresh unshared response writer per request. The decoded request not aliasing the receive buffer is decided under C16.R2. All interleavings, short reads/writes and early EOF are not decided: schedules / fault sequences.",
      STATIC_NOTE, "SSA edge-dominance with edge facts on phi-merged returns; byte-access provenance; use-after-release reachability")

claim("C16",
      "Proof by a sound may-alias / may-write analysis over the SSA form of the whole module (summary-based, interprocedural, global fixed point, all paths, all inputs): every copy implementation (81 RR + 16 EDNS0 + 10 SVCB + helpers + Msg.Copy/CopyTo) returns memory disjoint from its source; every unpacker (81 RR + 16 EDNS0 + 10 SVCB + Msg.Unpack, UnpackRR, ...) stores into its result nothing that is memory of the input buffer; every read-only operation (Pack, PackBuffer, PackRR, Len, 107 String methods, IsDuplicate and 81 isDuplicate methods, Copy, RRSIG.Sign/Verify, SIG.Verify, ...) writes nothing reachable from its read-only arguments except RDLENGTH / the OPT's extended-RCODE bits. obligations == discharged is required.",
      "Trusted base: go/ssa's translation; the standard-library behaviour table (checker/e2.go extBehaviourOf; unlisted callees are treated as aliasing and writing everything); strings and function values are immutable; user-supplied PrivateRdata/TsigProvider/crypto.Signer/Handler implementations are outside the module; reflection only in the read-only accessors Field/NumField (asserted).",
      "interprocedural may-alias / may-write abstract interpretation (roots x contents x summaries), proof obligations per function", cat="proof")

claim("C07",
      "Static, all paths of scan.go/generate.go: file opening only in the $INCLUDE state behind includeAllowed and the depth limit (who-may-call over the whole package), gate fields written only by the setter and gated sub-parser creation, $GENERATE range guard / nested ban / sub-parser flag / wrap-around stop / offset guard, sticky parser and lexer errors with every (_, false) return classified, an inductive (coinductive) proof that every store into the hand-grown token and comment buffers is in bounds, error positions. Termination and memory proportional to the input for all byte strings and the absence of other panics are not decided.",
      STATIC_NOTE, "who-may-call, SSA edge-dominance, interval facts, inductive index/length relation prover over phis")

claim("C06",
      "Static, all paths: every name field of every parse method completed through toAbsoluteName(token, origin) on success paths (must-pass over success exits), toAbsoluteName's three cases guarded by '@' / IsFqdn / non-empty origin, origin written only by the constructor and $ORIGIN, the three sibling explicit-TTL sites with the exact 'none yet or not by $TTL' update guard, $TTL by-directive, line start defaults, sub-parser inheritance for $INCLUDE and $GENERATE, iterator step/stop. The denotational equalities over all renderings (line-shape state machine outcome, comments/parentheses/quoting, TTL unit arithmetic, $GENERATE text) are not decided.",
      STATIC_NOTE, "must-pass over success exits (SSA), sibling-guard comparison with edge facts, who-may-write")

claim("C03",
      "Static: the three name-walking functions accept exactly the same limits after threshold normalisation (sum of label+1 <= 254, label <= 63); the two text-side siblings reject leading and adjacent dots and account escapes in step; the octets the name printers emit unescaped are disjoint from the zone lexer's structural characters, '.' and '@' (tables extracted from the code); the packer writes nothing unless IsFqdn(s); Fqdn's two cases. Octet-for-octet round trips over all 256 values and positions are not decided (value-level).",
      STATIC_NOTE, "accumulator/threshold normalisation on SSA; character-class table extraction (AST); edge dominance")

claim("C05",
      "Static for all record types: String's transitive read set and parse's transitive write set (E2 effect summaries) cover every wire field (listed derived-length exceptions); mnemonic tables unique and fixed points of the parsers' upper-casing; TYPE/CLASS/\\# spellings agree between printer and parser; character-strings printed through the quoting helpers or between literal quotes; escape sets of the TXT and SVCB printers; bitmaps printed through Type.String; no case folding of names; TTL parser range = 32-bit field range. Seven genuine defects are listed as known findings (None/Reserved mnemonics; unquoted X25, GPOS x3, CAA.Tag). Octet-identical RDATA after a round trip and numeric formatting are not decided.",
      STATIC_NOTE, "interprocedural read/write effect sets; table extraction and agreement; AST quoting idioms")

claim("C02",
      "Static, for all 326 functions reachable from the decoders: a lexicographic ranking argument for the compression-pointer loop; no allocation sized by message integers; count-bounded loops stop when the offset stops advancing, input-bounded loops redefine the offset; explicit panics discharged by a checked impossibility argument; and for every index/slice/fixed-width access on a byte buffer the upper bound is entailed by dominating comparisons (linear inequalities, bounded Farkas search) together with proven success postconditions of the helpers, caller-established preconditions and stride facts. Lower bounds, nil dereferences, integer conversions, the numeric work/memory bound and 'accepted messages print/pack without panicking' are not decided.",
      STATIC_NOTE, "affine guard entailment over SSA (linear facts + interprocedural pre/postconditions), ranking function, taint of allocation sizes, call-graph reachability")

_pending = "rules for this property are designed (DESIGN.md §4) but not implemented yet; not claimed until they run"
for p in []:
    na(p, _pending)
na("C19", "every clause is an equality between index arithmetic on a runtime string and its label sequence; no pairing/ownership/ordering/table structure to decide statically (DESIGN.md §8)")
