# Table of claims. Only properties whose rules are implemented in checker/ are claimed.
STATIC_NOTE = "Trusted base: go/packages+go/types resolution of the pinned toolchain, go/ssa translation, the checker's own RFC/kind/helper tables (checker/e1.go). Decides the structural clauses listed in the evidence explanation, not the runtime behaviour as such."

claim("C01",
      "Static conformance of every RR type's pack/unpack to an independent RFC layout table, dual codecs per field, header bit tables, RCODE split, option registries, RDLENGTH patch guards. Necessary structural conditions of lossless encoding, decided for all 81 types and all paths; value-level codec behaviour and the round-trip equality are not decided.",
      STATIC_NOTE, "AST/type-level sibling conformance against RFC layout table; CFG edge-dominance; constant agreement")

claim("C20",
      "Static, per-type and per-path: every generated isDuplicate compares each RDATA field with the same field of the other record through the comparator of the field's wire kind (names case-insensitively), nothing but RDATA takes part; copy initialises field i from field i; header comparison reads class/type/name only; equal() folds both sides identically; Dedup only lowers the survivor's TTL and compacts in order. Necessary structural conditions; the equivalence-relation and wire-octet equality clauses over all value pairs are not decided.",
      STATIC_NOTE, "AST sibling conformance of 80 generated comparators against the struct tags; SSA edge-dominance guards for IsDuplicate/Dedup")

_pending = "rules for this property are designed (DESIGN.md §4) but not implemented yet; not claimed until they run"
for p in ["C02","C03","C04","C05","C06","C07","C08","C09","C10","C11","C12","C13","C14","C15","C16","C17","C18"]:
    na(p, _pending)
na("C19", "every clause is an equality between index arithmetic on a runtime string and its label sequence; no pairing/ownership/ordering/table structure to decide statically (DESIGN.md §8)")
