#!/bin/bash
# usage: [W=W1] tools/try_b.sh <Bxx> <K> <Cxx> [Cyy ...]  — run checks against benign edit K of /tmp/mut/<Bxx>.out in scratch worktree $W
B=$1; K=$2; shift 2
LINES_SHOWN=${LINES_SHOWN:-4} /verif/tools/try_wt.sh /tmp/mut/${W:-W1} /tmp/mut/$B.out/b$K.diff "$@" 2>&1 | cut -c1-${WIDTH:-700}
