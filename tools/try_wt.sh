#!/bin/bash
# usage: tools/try_wt.sh <worktree> <patch.diff> <Cxx> [Cyy ...]   (ALL = every property)
# Applies the patch inside a scratch worktree (never /repo), runs the quick checks against it with --repo, restores the worktree.
# Prints "<Cxx> DETECTED|MISSED" per property and the first failure lines.
set -u
WT=$1; P=$2; shift 2
[ "$1" = ALL ] && set -- $(seq -f 'C%02g' 1 20)
cd "$WT" || exit 2
git checkout -q -- . && git clean -fdq
git apply "$P" || { echo "apply failed"; exit 2; }
TV=$(mktemp -d); cp /verif/known_findings.json "$TV/"
trap 'cd "$WT" && git checkout -q -- . && git clean -fdq; rm -rf "$TV"' EXIT
for c in "$@"; do
  out=$(/verif/run check $c --tier quick --repo "$WT" --verif "$TV" 2>&1); rc=$?
  if [ $rc = 0 ]; then echo "$c MISSED"; else echo "$c DETECTED rc=$rc"; echo "$out" | grep -v '^VIOLATION\|^\[\|^KNOWN-FINDING\|^OK\|^FAIL property' | head -${LINES_SHOWN:-3} | cut -c1-400; fi
done
