#!/bin/bash
# usage: tools/r10try.sh <Cxx>  — try the round's changes of one property against all 20 checks (one load each), in its own worktree
P=$1; D=/tmp/mut/$P.${ROUND:-r10}
for K in 1 2 3; do
  [ -f $D/m$K.diff ] || continue
  echo "#### $P m$K $(head -1 $D/m$K.md | cut -c1-200)"
  LINES_SHOWN=${LINES_SHOWN:-6} /verif/tools/try_all.sh /tmp/mut/$P $D/m$K.diff 2>&1
done
