#!/bin/bash
# usage: tools/recheck2.sh <list of "Bxx bK" lines>  — re-run all checks (triage mode) for the listed edits of the second benign corpus, 4 at a time in W1..W4
LIST=$1
run_slot() { # slot index
  i=0
  while read -r b k; do
    i=$((i+1))
    [ $((i % 4)) = "$1" ] || continue
    echo "#### $b $k $(head -1 /tmp/mut/$b.out2/$k.md | cut -c1-100)"
    WIDTH=400 LINES_SHOWN=4 /verif/tools/try_all.sh /tmp/mut/W$(( $1 + 1 )) /tmp/mut/$b.out2/$k.diff
  done < "$LIST" > /tmp/mut/recheck2.$1.log 2>&1
}
for s in 0 1 2 3; do run_slot $s & done
wait
cat /tmp/mut/recheck2.[0-3].log
