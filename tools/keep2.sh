#!/bin/bash
# usage: tools/keep2.sh <Cxx> <K> <detected|missed> "<note>" [detected_by csv] — keep a confirmed round-2 change as seeded/<Cxx>-m<K+3>
P=$1; K=$2; shift 2
MUT_SRC=/tmp/mut/$P.${ROUND:-r2} MUT_ID=$((K+${OFFSET:-3})) python3 /verif/tools/keep_mutant.py $P $K "$@"
