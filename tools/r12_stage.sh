#!/bin/bash
# usage: tools/r12_stage.sh <Cxx> — copy an author's output out of /tmp into /verif/staging/r12/<Cxx> and commit it (nothing confirmed yet)
P=$1; R=${ROUND:-r12}
mkdir -p /verif/staging/$R/$P && cp -a /tmp/mut/$P.$R/. /verif/staging/$R/$P/ && cd /verif && git add staging/$R/$P && git commit -qm "staging: $R output of the author for $P (not yet confirmed)" && echo staged $P
