#!/bin/bash
# usage: tools/r2try.sh <Cxx> [extra checks...]
P=$1; shift; D=/tmp/mut/$P.${ROUND:-r2}
for K in 1 2 3; do
  [ -f $D/m$K.diff ] || continue
  echo "#### $P r2 m$K"
  LINES_SHOWN=2 /verif/tools/try_mutant.sh $D/m$K.diff $P "$@" 2>&1
done
