#!/bin/bash
# usage: tools/benign_sweep.sh <Bxx>  — every check against every behaviour-preserving edit of /tmp/mut/<Bxx>.out
B=$1
for K in 1 2 3 4 5 6 7 8; do
  [ -f /tmp/mut/$B.out/b$K.diff ] || continue
  echo "#### $B b$K $(head -1 /tmp/mut/$B.out/b$K.md)"
  /verif/tools/try_all.sh /tmp/mut/$B /tmp/mut/$B.out/b$K.diff
done
