#!/bin/bash
# usage: tools/try_all.sh <worktree> <patch.diff>   — one load, all 20 checks (triage; ./run checkall), in a scratch worktree
set -u
WT=$1; P=$2
cd "$WT" || exit 2
git checkout -q -- . && git clean -fdq
git apply "$P" || { echo "apply failed"; exit 2; }
TV=$(mktemp -d); cp /verif/known_findings.json "$TV/"
trap 'cd "$WT" && git checkout -q -- . && git clean -fdq; rm -rf "$TV"' EXIT
out=$(${DNSVERIF_BIN:-/verif/run} checkall --repo "$WT" --verif "$TV" 2>&1)
echo "$out" | grep '^=== ' | awk '{printf "%s:%s ", $2, $3} END {print ""}'
echo "$out" | grep -v '^VIOLATION\|^\[\|^KNOWN-FINDING\|^OK\|^FAIL property\|^=== ' | cut -c1-${WIDTH:-500} | head -${LINES_SHOWN:-12}
