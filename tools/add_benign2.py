#!/usr/bin/env python3
"""Adds the edits of the second independent benign corpus (/tmp/mut/Bxx.out2) to /verif/benign as R10b-Cxx-bK.
properties = the property the edit was written for + every property that alarmed on it before the corrections (sweep3)."""
import json, os, re, shutil, sys
def alarms(log):
    out = {}
    k = None
    for line in open(log, errors="replace"):
        m = re.match(r"#### (B\d\d) (b\d)", line)
        if m:
            k = m.group(2); out.setdefault(k, []); continue
        if k and re.match(r"C01:rc=", line):
            out[k] = [t.split(":")[0] for t in line.split() if not t.endswith("rc=0")]
    return out
n = 0
for i in range(1, 21):
    b = "B%02d" % i; own = "C%02d" % i
    before = alarms("/tmp/mut/%s.sweep3.log" % b)
    after = alarms(sys.argv[1] % b) if len(sys.argv) > 1 else {}
    for k in range(1, 9):
        kk = "b%d" % k
        d = "/tmp/mut/%s.out2/%s.diff" % (b, kk)
        if not os.path.exists(d):
            continue
        if after.get(kk):
            print("still alarming, not added:", b, kk, after[kk]); continue
        dst = "/verif/benign/R10b-%s-%s" % (own, kk)
        os.makedirs(dst, exist_ok=True)
        shutil.copy(d, dst + "/patch.diff")
        why = open("/tmp/mut/%s.out2/%s.md" % (b, kk), errors="replace").read()[:1800]
        props = sorted(set([own] + before.get(kk, [])))
        json.dump({"id": "R10b-%s-%s" % (own, kk),
                   "kind": "behaviour-preserving edit by an independent author (second corpus of round 10): every check listed must stay silent on it",
                   "origin": "fresh sub-agent given the property text and a scratch worktree, asked for strictly behaviour-preserving refactors (other functions and other kinds of edit than the first corpus); suite passes with it",
                   "why_behaviour_preserving": why,
                   "properties": props,
                   "alarmed_before_the_corrections": before.get(kk, [])}, open(dst + "/meta.json", "w"), indent=1)
        n += 1
print("added", n)
