#!/bin/bash
# usage: tools/r2.sh <Cxx> [extra checks...]  — confirm and try the round-2 sub-agent changes of one property
P=$1; shift
D=/tmp/mut/$P.r2
for K in 1 2 3; do
  [ -f $D/m$K.diff ] || continue
  echo "#### $P r2 m$K"
  /verif/tools/confirm_mutant.sh $D $K /tmp/mut/$P 2>&1 | tail -2
  LINES_SHOWN=3 /verif/tools/try_mutant.sh $D/m$K.diff $P "$@" 2>&1
done
