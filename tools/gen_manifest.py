#!/usr/bin/env python3
"""Writes /verif/MANIFEST.json from the table below. Run after changing which properties are claimed."""
import json, os, sys
HERE = os.path.dirname(os.path.dirname(os.path.abspath(__file__)))

# id -> (level category, level text, level note, technique, design_ref)
CLAIMED = {}
NOT_APPLICABLE = {}

def claim(pid, text, note, technique, cat="other", ref=None):
    CLAIMED[pid] = dict(cat=cat, text=text, note=note, technique=technique, ref=ref or ("DESIGN.md §4 " + pid))

def na(pid, reason):
    NOT_APPLICABLE[pid] = reason

exec(open(os.path.join(HERE, "tools", "claims.py")).read())

checks = []
for pid in sorted(CLAIMED):
    c = CLAIMED[pid]
    checks.append({
        "property_id": pid,
        "quick_cmd": f"./run check {pid} --tier quick",
        "thorough_cmd": f"./run check {pid} --tier thorough",
        "evidence_file": f"/verif/evidence/{pid}.json",
        "replay_cmd_template": "./run replay {path}",
        "engine": "dnsverif",
        "level_claimed": {"category": c["cat"], "text": c["text"], "design_ref": c["ref"]},
        "level_note": c["note"],
        "technique": c["technique"],
    })
m = {
    "version": 1,
    "setup_cmd": "./run build",
    "hooks": {
        "guard": "verif",
        "enable": "none needed: the checks are static analyses of /repo's working tree (go/packages + go/types + go/ssa); no hook code exists in /repo",
        "baseline_off_cmd": "cd /repo && GOFLAGS=-mod=mod go test -vet=off -count=1 -timeout 25m ./...",
        "source_commits": [],
        "add_only": True,
    },
    "engines": [{
        "name": "dnsverif",
        "path": "/verif/checker",
        "serves_properties": sorted(CLAIMED),
        "kind_free_text": "repository-specific static analyser (Go, golang.org/x/tools v0.50.0: go/packages, go/types, go/ast, go/ssa, dominators, call graph); rules instantiated from /repo's own struct tags, registries and interfaces and compared with independent RFC tables; before the rules run the analysed copy is normalised (helpers, local closures and table loops the pinned tree does not have are written back / written out; method-function conversions and renames keep their anchors), path facts are refined through tests of merged values, a linear bounds prover with memory versions, bit provenance, and finite-domain abstract execution over octet / token / algorithm classes",
    }],
    "checks": checks,
    "not_applicable": [{"property_id": p, "reason": NOT_APPLICABLE[p]} for p in sorted(NOT_APPLICABLE)],
    "notes": "Every check decides a named set of structural clauses of its property (see DESIGN.md §4 and each evidence file's coverage.explanation); value-level clauses are declared not decided. Known genuine defects: /verif/known_findings.json. The thorough tier additionally replays, on scratch copies of /repo, every seeded breaking change the check is recorded to catch (/verif/seeded, must alarm) and every behaviour-preserving edit of /verif/benign (must stay silent); those replays validate the checker, the verdict on /repo is the quick tier's.",
}
json.dump(m, open(os.path.join(HERE, "MANIFEST.json"), "w"), indent=1)
all_ids = [json.loads(l)["id"] for l in open(os.path.join(HERE, "properties.jsonl"))]
missing = [i for i in all_ids if i not in CLAIMED and i not in NOT_APPLICABLE]
if missing:
    print("WARNING: neither claimed nor not_applicable:", missing)
print("claimed", sorted(CLAIMED), "n/a", sorted(NOT_APPLICABLE))
