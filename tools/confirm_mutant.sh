#!/bin/bash
# usage: tools/confirm_mutant.sh <dir-with-mK.diff> <K> <worktree>
# Confirms in a scratch worktree: suite passes with the change, demo fails with it, demo passes without it.
set -u
D=$1; K=$2; WT=$3
export GOFLAGS=-mod=mod GOPROXY=off
cd "$WT" || exit 2
git checkout -q -- . && git clean -fdq
TEST=$(grep -o 'func TestSeeded[A-Za-z0-9_]*' "$D/m${K}_demo_test.go" | head -1 | sed 's/func //')
PKGDIR=.; grep -q '^package dnsutil' "$D/m${K}_demo_test.go" && PKGDIR=./dnsutil
cp "$D/m${K}_demo_test.go" "$WT/$PKGDIR/zz_seeded_demo_test.go"
echo "== demo on pristine ($TEST)"
go test -vet=off -count=1 -run "^${TEST}\$" $PKGDIR 2>&1 | tail -3; P=${PIPESTATUS[0]}
git apply "$D/m${K}.diff" || { echo "APPLY FAILED"; rm -f $PKGDIR/zz_seeded_demo_test.go; exit 2; }
echo "== demo with change"
go test -vet=off -count=1 -run "^${TEST}\$" $PKGDIR 2>&1 | tail -5; F=${PIPESTATUS[0]}
rm -f $PKGDIR/zz_seeded_demo_test.go
echo "== suite with change"
go test -vet=off -count=1 ./... 2>&1 | tail -3; S=${PIPESTATUS[0]}
git checkout -q -- . && git clean -fdq
echo "RESULT pristine_demo=$P mutant_demo=$F mutant_suite=$S"
if [ $P = 0 ] && [ $F != 0 ] && [ $S = 0 ]; then echo CONFIRMED; exit 0; else echo NOT-CONFIRMED; exit 1; fi
