#!/bin/bash
# usage: tools/benign_recheck.sh [alarms-file]  — re-run the (edit, checks) pairs that alarmed, 4 at a time, print what still alarms
F=${1:-/tmp/mut/alarms.txt}
n=0
while read -r B K CS; do
  n=$((n+1)); W=W$(( (n % 4) + 1 ))
  echo "$B $K $CS" >> /tmp/mut/recheck.$W.list
done < "$F"
for W in W1 W2 W3 W4; do
  ( while read -r B K CS; do
      out=$(LINES_SHOWN=3 W=$W /verif/tools/try_b.sh $B $K $CS 2>&1)
      if echo "$out" | grep -q DETECTED; then echo "== $B b$K"; echo "$out" | grep -v MISSED; fi
    done < /tmp/mut/recheck.$W.list > /tmp/mut/recheck.$W.out 2>&1; rm -f /tmp/mut/recheck.$W.list ) &
done
wait
cat /tmp/mut/recheck.W?.out
