#!/bin/bash
# usage: tools/r2confirm.sh <Cxx>  — confirm the round-2 changes of one property in its own worktree
P=$1; D=/tmp/mut/$P.${ROUND:-r2}
for K in 1 2 3; do
  [ -f $D/m$K.diff ] || continue
  echo "#### $P r2 m$K $(/verif/tools/confirm_mutant.sh $D $K /tmp/mut/$P 2>&1 | tail -2 | tr '\n' ' ')"
done
