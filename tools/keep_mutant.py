#!/usr/bin/env python3
"""usage: keep_mutant.py <Cxx> <K> <detected|missed|out-of-scope> "<checks/rules that catch it or why not>"
Copies a confirmed sub-agent mutant from /tmp/mut/<Cxx>.out into /verif/seeded/<Cxx>-m<K>/."""
import sys, os, shutil, json, datetime
p, k, status, note = sys.argv[1], sys.argv[2], sys.argv[3], sys.argv[4]
src = os.environ.get("MUT_SRC", f"/tmp/mut/{p}.out")
kk = os.environ.get("MUT_ID", k)
dst = f"/verif/seeded/{p}-m{kk}"
os.makedirs(dst, exist_ok=True)
shutil.copy(f"{src}/m{k}.diff", f"{dst}/patch.diff")
shutil.copy(f"{src}/m{k}_demo_test.go", f"{dst}/demo_test.go.txt")
desc = open(f"{src}/m{k}.md").read()
meta = {
    "id": f"{p}-m{kk}",
    "property": p,
    "origin": "independent sub-agent given only the property text and a scratch worktree",
    "description": desc,
    "confirmed_by": "tools/confirm_mutant.sh in a scratch worktree of /repo: demo passes on the pristine tree, fails with patch.diff applied; the whole existing suite passes with patch.diff applied",
    "checked_with": f"tools/try_mutant.sh seeded/{p}-m{kk}/patch.diff {p} (git -C /repo apply; ./run check {p}; git -C /repo checkout -- .)",
    "status": status,
    "caught_by_or_reason": note,
    "demo": "demo_test.go.txt (drop into the repository root as *_test.go, package dns)",
    "detected_by": ([p] if status == "detected" else []) if len(sys.argv) < 6 else sys.argv[5].split(","),
}
json.dump(meta, open(f"{dst}/meta.json", "w"), indent=1)
print("kept", dst, status)
