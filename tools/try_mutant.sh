#!/bin/bash
# usage: tools/try_mutant.sh <patch.diff> <Cxx> [Cyy ...]
# Applies the patch to /repo, runs the quick checks, always restores /repo. Prints DETECTED/MISSED per property.
set -u
P=$1; shift
cd /verif
if [ -n "$(git -C /repo status --porcelain)" ]; then echo "/repo not clean"; exit 2; fi
git -C /repo apply "$P" || { echo "apply failed"; exit 2; }
trap 'git -C /repo checkout -- .' EXIT
# evidence of these runs goes to a scratch directory, never to /verif/evidence
TV=$(mktemp -d); cp /verif/known_findings.json "$TV/"; trap 'git -C /repo checkout -- .; rm -rf "$TV"' EXIT
for c in "$@"; do
  out=$(./run check $c --tier ${TIER:-quick} --verif "$TV" 2>&1); rc=$?
  if [ $rc = 0 ]; then echo "$c MISSED"; else echo "$c DETECTED rc=$rc"; echo "$out" | grep -v '^VIOLATION\|^\[\|^KNOWN-FINDING' | head -${LINES_SHOWN:-4}; fi
done
