package main

import (
	"fmt"
	"go/constant"
	"go/token"
	"go/types"
	"sort"
	"strings"

	"golang.org/x/tools/go/ssa"
)

// Rules added after the ninth round of independent breaking changes.

// base32Agreement: the base32hex text of hashed owner names is written and read with one and the same encoding value
// (without padding): toBase32, fromBase32's Decode and the DecodedLen that sizes its buffer.
func base32Agreement(c *Ctx, r *Report, rule, consequence string) {
	r.rule(rule, 1, "toBase32 and fromBase32 use one base32 encoding value for Encode, Decode and DecodedLen")
	set := map[string][]string{}
	for _, name := range []string{"toBase32", "fromBase32"} {
		fn := c.ssaFunc(name)
		if fn == nil {
			r.cerr(rule, name, "function not found")
			return
		}
		r.fn(name)
		allInstrs(fn, func(in ssa.Instruction) {
			call, ok := in.(*ssa.Call)
			if !ok || !strings.Contains(calleeNameSSA(&call.Call), "base32.Encoding)") || len(call.Call.Args) == 0 {
				return
			}
			for _, e := range encodingGlobals(call.Call.Args[0]) {
				set[e] = append(set[e], fmt.Sprintf("%s in %s", strings.TrimPrefix(calleeNameSSA(&call.Call), "(base32.Encoding)."), name))
			}
		})
	}
	var keys []string
	for k := range set {
		keys = append(keys, k)
	}
	sort.Strings(keys)
	var parts []string
	for _, k := range keys {
		parts = append(parts, k+": "+strings.Join(uniqStrings(set[k]), ", "))
	}
	r.check(len(keys) == 1, rule, "toBase32/fromBase32", "", strings.Join(keys, ""), "the base32 codec uses %d encoding values (%s): %s", len(keys), strings.Join(parts, "; "), consequence)
}

// optionCodes: the EDNS0 option code constants have the values IANA assigned.
var ianaOptionCodes = map[string]int64{
	"EDNS0LLQ": 1, "EDNS0UL": 2, "EDNS0NSID": 3, "EDNS0ESU": 4, "EDNS0DAU": 5, "EDNS0DHU": 6, "EDNS0N3U": 7, "EDNS0SUBNET": 8,
	"EDNS0EXPIRE": 9, "EDNS0COOKIE": 10, "EDNS0TCPKEEPALIVE": 11, "EDNS0PADDING": 12, "EDNS0EDE": 15, "EDNS0REPORTING": 18,
	"EDNS0ZONEVERSION": 19, "EDNS0LOCALSTART": 65001, "EDNS0LOCALEND": 65534,
}

func optionCodes(c *Ctx, r *Report, rule string) {
	r.rule(rule, 12, "the EDNS0 option code constants equal the IANA registry values on file")
	var names []string
	for n := range ianaOptionCodes {
		names = append(names, n)
	}
	sort.Strings(names)
	for _, n := range names {
		v, ok := c.constInt(n)
		if !ok {
			continue // an option this version does not have
		}
		r.check(v == ianaOptionCodes[n], rule, n, "", fmt.Sprint(v), "%s = %d, the IANA registry says %d: the option goes out under another option's code (pack and unpack agree with each other, so round trips succeed), and the real code is decoded as an opaque local option", n, v, ianaOptionCodes[n])
	}
}

// noQuadraticScan: a decoder does not, for each element it decodes, walk over all the elements decoded so far.
func noQuadraticScan(c *Ctx, r *Report, rule string, fns []*ssa.Function) {
	r.rule(rule, 1, "no decoder loop scans, for each element, the list it is building")
	n := 0
	for _, fn := range fns {
		allInstrs(fn, func(in ssa.Instruction) {
			phi, ok := in.(*ssa.Phi)
			if !ok {
				return
			}
			if _, isSl := phi.Type().Underlying().(*types.Slice); !isSl {
				return
			}
			// loop-carried through an append
			grows := false
			for i, e := range phi.Edges {
				if !phi.Block().Dominates(phi.Block().Preds[i]) {
					continue
				}
				for o := range sliceOf(e) {
					if call, ok := o.(*ssa.Call); ok && calleeNameSSA(&call.Call) == "builtin.append" {
						grows = true
					}
				}
			}
			if !grows {
				return
			}
			n++
			// an inner loop over the growing list: a loop header inside this loop whose condition compares an index
			// with len(phi)
			var inner []string
			for _, b := range fn.Blocks {
				if b == phi.Block() || !phi.Block().Dominates(b) || !reach(b, nil, nil)[phi.Block()] {
					continue
				}
				isHeader := false
				for _, p := range b.Preds {
					if b.Dominates(p) {
						isHeader = true
					}
				}
				if !isHeader {
					continue
				}
				for _, x := range b.Instrs {
					bin, ok := x.(*ssa.BinOp)
					if !ok || bin.Op != token.LSS {
						continue
					}
					lc, ok := bin.Y.(*ssa.Call)
					if ok && calleeNameSSA(&lc.Call) == "builtin.len" && lc.Call.Args[0] == ssa.Value(phi) {
						inner = append(inner, c.pos(bin.Pos()))
					}
				}
			}
			r.check(len(inner) == 0, rule, fmt.Sprintf("%s:%s", fnDisplay(fn), phi.Comment), c.pos(phi.Pos()), "one pass", "for every element decoded the list built so far is walked again (inner loop at %s): decoding takes time quadratic in the size of the field (a 64 KB record with 32000 entries takes thousands of times longer than its octets warrant)", strings.Join(uniqStrings(inner), ", "))
		})
	}
	if n == 0 {
		r.ok(rule, "none", "", "no decoder builds a list in a loop")
	}
}

// classTtlStates: the record-line state machine of ZoneParser.Next goes, after a class, to the state that expects
// "anything but a class" and, after a TTL, to the state that expects "anything but a TTL", in every state that
// accepts the token.
func classTtlStates(c *Ctx, r *Report, rule string) {
	r.rule(rule, 2, "after storing a class the parser's next state is zExpectAnyNoClassBl, after storing a TTL zExpectAnyNoTTLBl (or a state that ends the header)")
	fn := c.ssaFunc("ZoneParser.Next")
	noClass, ok1 := c.constInt("zExpectAnyNoClassBl")
	noTTL, ok2 := c.constInt("zExpectAnyNoTTLBl")
	if fn == nil || !ok1 || !ok2 {
		r.cerr(rule, "ZoneParser.Next", "function or state constants not found")
		return
	}
	r.fn("ZoneParser.Next")
	// the state variable: the phi named st at the loop header
	var st *ssa.Phi
	allInstrs(fn, func(in ssa.Instruction) {
		// the state variable: the phi with the most incoming edges all of whose values are constants or phis
		if p, ok := in.(*ssa.Phi); ok && len(p.Edges) > 4 && (st == nil || len(p.Edges) > len(st.Edges)) {
			allConst := true
			for _, e := range p.Edges {
				_, isK := e.(*ssa.Const)
				_, isP := e.(*ssa.Phi)
				if !isK && !isP {
					allConst = false
				}
			}
			if b, isB := p.Type().Underlying().(*types.Basic); allConst && isB && b.Info()&types.IsInteger != 0 {
				st = p
			}
		}
	})
	if st == nil {
		r.undecided(rule, "ZoneParser.Next", c.pos(fn.Pos()), "the state variable was not found")
		return
	}
	// value of st carried out of a block: follow the phi edges back to the block
	nextOf := func(b *ssa.BasicBlock) (int64, bool) {
		var find func(p *ssa.Phi, depth int) (int64, bool)
		find = func(p *ssa.Phi, depth int) (int64, bool) {
			if depth > 6 {
				return 0, false
			}
			for i, e := range p.Edges {
				pr := p.Block().Preds[i]
				if pr == b || (len(pr.Instrs) == 1 && len(pr.Preds) == 1 && pr.Preds[0] == b) {
					if k, isK := constIntOf(e); isK {
						return k, true
					}
				}
				if p2, ok := e.(*ssa.Phi); ok && p2 != p {
					if k, ok := find(p2, depth+1); ok {
						return k, true
					}
				}
			}
			return 0, false
		}
		return find(st, 0)
	}
	n := 0
	allInstrs(fn, func(in ssa.Instruction) {
		s, ok := in.(*ssa.Store)
		if !ok {
			return
		}
		fa, ok := s.Addr.(*ssa.FieldAddr)
		if !ok {
			return
		}
		var want int64
		var what string
		switch {
		case fieldNameOf(fa) == "Class" && anyIn(sliceOf(s.Val), readsField("lex", "torc")):
			want, what = noClass, "class"
		case fieldNameOf(fa) == "Ttl" && anyIn(sliceOf(s.Val), callsFunc("stringToTTL")):
			want, what = noTTL, "TTL"
		default:
			return
		}
		got, ok := nextOf(s.Block())
		if !ok {
			return
		}
		// states that end the header (a blank before the type) are fine after either token
		if got != noClass && got != noTTL {
			return
		}
		n++
		r.check(got == want, rule, fmt.Sprintf("ZoneParser.Next:%s@%s", what, c.pos(s.Pos())), c.pos(s.Pos()), "the matching state", "after the %s has been stored the parser goes to the state that still expects a %s and refuses the other field: a line written in that order (`IN 300 A ...` after an omitted owner) is refused, and a second %s is accepted", what, what, what)
	})
	if n == 0 {
		r.undecided(rule, "ZoneParser.Next", c.pos(fn.Pos()), "no class / TTL store with a following state found")
	}
}

// nestedGenerateBanned: every sub-parser ZoneParser.generate starts has generateDisallowed set before it is run.
func nestedGenerateBanned(c *Ctx, r *Report, rule string) {
	r.rule(rule, 1, "every call of subNext in ZoneParser.generate is behind the store generateDisallowed = true")
	fn := c.ssaFunc("ZoneParser.generate")
	if fn == nil {
		r.cerr(rule, "ZoneParser.generate", "function not found")
		return
	}
	r.fn("ZoneParser.generate")
	removed := map[*ssa.BasicBlock]bool{}
	for _, st := range storesToField(fn, "ZoneParser", "generateDisallowed") {
		if b, isB := constBool(st.Val); isB && b {
			removed[st.Block()] = true
		}
	}
	n := 0
	for _, ci := range callsIn(fn, "(ZoneParser).subNext") {
		n++
		blk := ci.(ssa.Instruction).Block()
		okPath := len(removed) > 0 && (removed[blk] || !reach(fn.Blocks[0], nil, removed)[blk])
		r.check(okPath, rule, fmt.Sprintf("ZoneParser.generate:subNext#%d", n), c.pos(ci.Pos()), "ban set first", "the generated text is parsed on a way on which the sub-parser was not forbidden to obey $GENERATE: a nested directive multiplies the records (65536 x 65536) instead of being an error")
	}
	if n == 0 {
		r.undecided(rule, "ZoneParser.generate", c.pos(fn.Pos()), "no call of subNext found")
	}
}

// stickyOnErrorOnly: the early returns of zlexer.Next, before any octet is read, depend on the pending token and
// on the error flag of the last token only: a read error (the end of the input included) is dealt with at the end
// of the scan, where an unbalanced parenthesis is reported.
func stickyOnErrorOnly(c *Ctx, r *Report, rule string) {
	r.rule(rule, 1, "no return of zlexer.Next that precedes the first readByte is conditioned on zl.readErr")
	fn := c.ssaFunc("zlexer.Next")
	if fn == nil {
		r.cerr(rule, "zlexer.Next", "function not found")
		return
	}
	r.fn("zlexer.Next")
	after := map[*ssa.BasicBlock]bool{}
	for _, ci := range callsIn(fn, "(zlexer).readByte") {
		for b := range reach(ci.(ssa.Instruction).Block(), nil, nil) {
			after[b] = true
		}
	}
	n := 0
	var bad []string
	for _, b := range fn.Blocks {
		ret, ok := b.Instrs[len(b.Instrs)-1].(*ssa.Return)
		if !ok || after[b] {
			continue
		}
		n++
		for _, p := range b.Preds {
			for _, f := range factsOnEdge(fn, p, b) {
				if anyIn(sliceOf(f.Atom), readsField("zlexer", "readErr")) {
					bad = append(bad, c.pos(ret.Pos()))
				}
			}
		}
	}
	r.check(n > 0 && len(bad) == 0, rule, "zlexer.Next:early-returns", c.pos(fn.Pos()), "pending token / l.err only", "the lexer gives up at %s because a read error (or the end of the input) is pending, before the scan that reports an unbalanced parenthesis has run: a `(` that is never closed goes unreported when the input ends right behind the last token", strings.Join(uniqStrings(bad), ", "))
}

// lenSearchKey: domainNameLen looks the name up as it is spelled: the packer's map is case-sensitive.
func lenSearchKey(c *Ctx, r *Report, rule, consequence string) {
	r.rule(rule, 1, "domainNameLen hands compressionLenSearch the name as it was given")
	fn := c.ssaFunc("domainNameLen")
	if fn == nil {
		r.cerr(rule, "domainNameLen", "function not found")
		return
	}
	r.fn("domainNameLen")
	s := paramOf(fn, "s")
	n := 0
	for _, ci := range callsIn(fn, "compressionLenSearch") {
		n++
		arg := ci.Common().Args[1]
		r.check(arg == s, rule, fmt.Sprintf("domainNameLen:search#%d", n), c.pos(ci.Pos()), "s itself", "the name is looked up as %s, not as it is spelled: the packer compresses case-sensitively, so Len() finds suffixes (and counts pointers) the packer will not use: %s", describeValue(arg), consequence)
	}
	if n == 0 {
		r.undecided(rule, "domainNameLen", c.pos(fn.Pos()), "no call of compressionLenSearch found")
	}
}

// oneBudget: the three sections are cut against one and the same budget (the size less the OPT that is re-appended).
func oneBudget(c *Ctx, r *Report, rule string) {
	r.rule(rule, 1, "the three truncateLoop calls of Truncate get the same size value")
	fn := c.ssaFunc("Msg.Truncate")
	if fn == nil {
		r.cerr(rule, "Msg.Truncate", "function not found")
		return
	}
	r.fn("Msg.Truncate")
	var sizes []ssa.Value
	var where []string
	for _, ci := range callsIn(fn, "truncateLoop") {
		sizes = append(sizes, ci.Common().Args[1])
		where = append(where, fmt.Sprintf("%s: %s", c.pos(ci.Pos()), describeValue(ci.Common().Args[1])))
	}
	if len(sizes) < 3 {
		r.undecided(rule, "Msg.Truncate", c.pos(fn.Pos()), "fewer than three truncateLoop calls")
		return
	}
	same := true
	for _, v := range sizes {
		if v != sizes[0] {
			same = false
		}
	}
	r.check(same, rule, "Msg.Truncate:budget", c.pos(fn.Pos()), "one budget", "the sections are cut against different sizes (%s): the section cut against the larger one can use the room reserved for the OPT record, and the reply exceeds the size asked for by up to the length of the OPT", strings.Join(where, "; "))
}

// readErrorKept: a read that delivered octets together with an error (a frame cut by an early end of input) is
// not turned into success: the error Transfer.ReadMsg got from Read is among the values its final return hands out.
func readErrorKept(c *Ctx, r *Report, rule string) {
	r.rule(rule, 1, "the error of Transfer.ReadMsg's read flows into the error it returns with the message")
	fn := c.ssaFunc("Transfer.ReadMsg")
	if fn == nil {
		r.cerr(rule, "Transfer.ReadMsg", "function not found")
		return
	}
	r.fn("Transfer.ReadMsg")
	var readErr ssa.Value
	for _, ci := range callsIn(fn, "(Conn).Read") {
		if call, ok := ci.(*ssa.Call); ok {
			for _, ref := range *call.Referrers() {
				if ex, isEx := ref.(*ssa.Extract); isEx && ex.Index == 1 {
					readErr = ex
				}
			}
		}
	}
	if readErr == nil {
		r.undecided(rule, "Transfer.ReadMsg", c.pos(fn.Pos()), "the read and its error were not found")
		return
	}
	n, kept := 0, 0
	for _, b := range fn.Blocks {
		ret, ok := b.Instrs[len(b.Instrs)-1].(*ssa.Return)
		if !ok || len(ret.Results) != 2 || isNilConst(ret.Results[0]) {
			continue
		}
		n++
		// the returned error variable may live in an Alloc (captured) or be a phi
		for o := range sliceOf(ret.Results[1]) {
			if o == readErr {
				kept++
				break
			}
		}
	}
	r.check(n > 0 && kept == n, rule, "Transfer.ReadMsg:read-error", c.pos(fn.Pos()), "read error handed on", "the message is returned with an error value that cannot be the read's error (it was overwritten by a later step's nil): an envelope cut by an early end of input at a record boundary is delivered with Error == nil")
}

// readersCutToCount: the datagram readers hand back the buffer cut to the number of octets read.
func readersCutToCount(c *Ctx, r *Report, rule string) {
	r.rule(rule, 2, "readUDP and readPacketConn return the buffer re-sliced to the count the read returned")
	for _, name := range []string{"Server.readUDP", "Server.readPacketConn"} {
		fn := c.ssaFunc(name)
		if fn == nil {
			r.cerr(rule, name, "function not found")
			continue
		}
		r.fn(name)
		n, okCut := 0, 0
		for _, b := range fn.Blocks {
			ret, ok := b.Instrs[len(b.Instrs)-1].(*ssa.Return)
			if !ok || len(ret.Results) != 3 || isNilConst(ret.Results[0]) {
				continue
			}
			n++
			if sl, ok := ret.Results[0].(*ssa.Slice); ok && sl.High != nil {
				if ex, ok := sl.High.(*ssa.Extract); ok && ex.Index == 0 {
					if _, isCall := ex.Tuple.(*ssa.Call); isCall {
						okCut++
					}
				}
			}
		}
		r.check(n > 0 && okCut == n, rule, name, c.pos(fn.Pos()), "m[:n]", "%s returns the buffer without cutting it to the octets just read: the pooled buffer still holds earlier datagrams behind them, so a short datagram is decoded together with another client's leftover octets and the handler runs with a request nobody sent", name)
	}
}

// onceUnlockOnly: a start function that has registered `defer unlock()` (the once wrapper) releases the lock
// through that wrapper only: a direct Unlock makes the deferred one the second.
func onceUnlockOnly(c *Ctx, r *Report, rule string) {
	r.rule(rule, 2, "functions that use unlockOnce never call Unlock on srv.lock directly")
	for _, name := range []string{"Server.ListenAndServe", "Server.ActivateAndServe"} {
		fn := c.ssaFunc(name)
		if fn == nil {
			r.cerr(rule, name, "function not found")
			continue
		}
		r.fn(name)
		if len(callsIn(fn, "unlockOnce")) == 0 {
			r.ok(rule, name, c.pos(fn.Pos()), "does not use unlockOnce")
			continue
		}
		var bad []string
		for _, sub := range withAnon(fn) {
			allInstrs(sub, func(in ssa.Instruction) {
				ci, ok := in.(ssa.CallInstruction)
				if !ok {
					return
				}
				name := calleeNameSSA(ci.Common())
				if (name == "(sync.RWMutex).Unlock" || name == "(sync.Mutex).Unlock") && len(ci.Common().Args) > 0 && anyIn(sliceOf(ci.Common().Args[0]), readsField("Server", "lock")) {
					bad = append(bad, c.pos(in.Pos()))
				}
			})
		}
		r.check(len(bad) == 0, rule, name, c.pos(fn.Pos()), "through unlock() only", "srv.lock is released directly at %s although the deferred once-wrapper is armed: when the serve call returns the lock is unlocked a second time and the process dies with 'sync: Unlock of unlocked RWMutex'", strings.Join(bad, ", "))
	}
}

// freshReplies: the canned handlers build their reply in a message of their own.
func freshReplies(c *Ctx, r *Report, rule string) {
	r.rule(rule, 2, "handleRefused and HandleFailed write a Msg allocated by the call itself")
	for _, name := range []string{"handleRefused", "HandleFailed"} {
		fn := c.ssaFunc(name)
		if fn == nil {
			r.cerr(rule, name, "function not found")
			continue
		}
		r.fn(name)
		n := 0
		for _, ci := range fnCallsInvoke(fn, "WriteMsg") {
			n++
			arg := ci.Common().Args[0]
			_, fresh := arg.(*ssa.Alloc)
			r.check(fresh, rule, name, c.pos(ci.Pos()), "new(Msg)", "%s writes %s, not a message allocated for this reply: what the previous use left in it (its question, RD/CD, sections) goes out where SetRcode / SetReply assign only conditionally, and one client gets another's question echoed back", name, describeValue(arg))
		}
		if n == 0 {
			r.undecided(rule, name, c.pos(fn.Pos()), "no WriteMsg call found")
		}
	}
}

func fnCallsInvoke(fn *ssa.Function, method string) []ssa.CallInstruction {
	var out []ssa.CallInstruction
	allInstrs(fn, func(in ssa.Instruction) {
		if ci, ok := in.(ssa.CallInstruction); ok && ci.Common().IsInvoke() && ci.Common().Method.Name() == method {
			out = append(out, ci)
		}
	})
	return out
}

// dsForEveryKey: ToDS refuses a key only for what it cannot do (nil key, unknown digest type, a key that does not
// pack): no refusal depends on the key's flags, protocol or algorithm.
func dsForEveryKey(c *Ctx, r *Report, rule string) {
	r.rule(rule, 1, "no nil return of DNSKEY.ToDS is conditioned on a field of the key")
	fn := c.ssaFunc("DNSKEY.ToDS")
	if fn == nil {
		r.cerr(rule, "DNSKEY.ToDS", "function not found")
		return
	}
	r.fn("DNSKEY.ToDS")
	k := fn.Params[0]
	var bad []string
	n := 0
	for _, b := range fn.Blocks {
		ret, ok := b.Instrs[len(b.Instrs)-1].(*ssa.Return)
		if !ok || len(ret.Results) != 1 || !isNilConst(ret.Results[0]) {
			continue
		}
		n++
		for _, p := range b.Preds {
			for _, f := range factsOnEdge(fn, p, b) {
				bin, ok := f.Atom.(*ssa.BinOp)
				if !ok {
					continue
				}
				// a test of a field of k itself (possibly masked), not of something computed from the key
				direct := func(v ssa.Value) (string, bool) {
					if m, ok := v.(*ssa.BinOp); ok && (m.Op == token.AND || m.Op == token.AND_NOT) {
						v = m.X
					}
					if cv, ok := v.(*ssa.Convert); ok {
						v = cv.X
					}
					ld, ok := v.(*ssa.UnOp)
					if !ok {
						return "", false
					}
					fa, ok := ld.X.(*ssa.FieldAddr)
					if !ok || fa.X != ssa.Value(k) {
						return "", false
					}
					return fieldNameOf(fa), true
				}
				for _, side := range []ssa.Value{bin.X, bin.Y} {
					if name, ok := direct(side); ok {
						bad = append(bad, fmt.Sprintf("%s on k.%s", c.pos(ret.Pos()), name))
					}
				}
			}
		}
	}
	r.check(n > 0 && len(bad) == 0, rule, "DNSKEY.ToDS", c.pos(fn.Pos()), "no field-dependent refusal", "ToDS returns nil depending on a field of the key (%s): for keys with that value no DS is produced although the digest is defined for every key", strings.Join(uniqStrings(bad), "; "))
}

// symmetricTests: a function of two names that tests one of them with a library predicate tests the other the same
// way (a guard that looks at s1 twice and never at s2 is a copy-paste slip).
func symmetricTests(c *Ctx, r *Report, rule string, names []string) {
	r.rule(rule, len(names), "library predicates applied to one of the two name parameters are applied to the other as often")
	for _, name := range names {
		fn := c.ssaFunc(name)
		if fn == nil || len(fn.Params) < 2 {
			r.cerr(rule, name, "function not found")
			continue
		}
		r.fn(name)
		a, b := fn.Params[0], fn.Params[1]
		count := map[string][2]int{}
		allInstrs(fn, func(in ssa.Instruction) {
			call, ok := in.(*ssa.Call)
			if !ok || len(call.Call.Args) == 0 {
				return
			}
			cn := calleeNameSSA(&call.Call)
			if !strings.HasPrefix(cn, "strings.") && !strings.HasPrefix(cn, "bytes.") {
				return
			}
			// the first argument is the parameter itself or a slice of it
			first := call.Call.Args[0]
			if sl, ok := first.(*ssa.Slice); ok {
				first = sl.X
			}
			key := cn
			for _, x := range call.Call.Args[1:] {
				if kc, ok := x.(*ssa.Const); ok && kc.Value != nil {
					if kc.Value.Kind() == constant.String {
						key += " " + constant.StringVal(kc.Value)
					} else {
						key += " " + kc.Value.ExactString()
					}
				}
			}
			cur := count[key]
			switch first {
			case ssa.Value(a):
				cur[0]++
			case ssa.Value(b):
				cur[1]++
			default:
				return
			}
			count[key] = cur
		})
		var bad []string
		for k, v := range count {
			if v[0] != v[1] {
				bad = append(bad, fmt.Sprintf("%s: %d times on %s, %d times on %s", k, v[0], a.Name(), v[1], b.Name()))
			}
		}
		sort.Strings(bad)
		r.check(len(bad) == 0, rule, name, c.pos(fn.Pos()), "symmetric", "%s tests its two names differently (%s): a shortcut meant for names both of which have a property is taken when only one has it, and the answer depends on which argument the name is", name, strings.Join(bad, "; "))
	}
}

// dotRemovedBehindIsFqdn: dnsutil.TrimDomainName removes a final dot (or cuts at dots) only by index from Split or
// behind dns.IsFqdn: the strings.Trim* functions do not know about escaped dots.
func dotRemovedBehindIsFqdn(c *Ctx, r *Report, rule string) {
	r.rule(rule, 1, "dnsutil.TrimDomainName applies no strings.Trim* function with a dot to the name unless dns.IsFqdn(s) is known")
	fn := c.ssaFuncIn("dnsutil", "TrimDomainName")
	if fn == nil {
		r.cerr(rule, "dnsutil.TrimDomainName", "function not found")
		return
	}
	r.fn("dnsutil.TrimDomainName")
	origin := fn.Params[1]
	var bad []string
	n := 0
	allInstrs(fn, func(in ssa.Instruction) {
		call, ok := in.(*ssa.Call)
		if !ok {
			return
		}
		cn := calleeNameSSA(&call.Call)
		if !strings.HasPrefix(cn, "strings.Trim") || len(call.Call.Args) != 2 {
			return
		}
		n++
		// what is trimmed: a constant ".", or the origin where the origin is known to be "."
		cut := call.Call.Args[1]
		isDot := false
		if kc, ok := cut.(*ssa.Const); ok && kc.Value != nil && kc.Value.Kind() == constant.String && strings.Contains(constant.StringVal(kc.Value), ".") {
			isDot = true
		}
		if cut == ssa.Value(origin) {
			for _, f := range factsAt(fn, call.Block()) {
				if bin, ok := f.Atom.(*ssa.BinOp); ok && bin.X == ssa.Value(origin) {
					if kc, ok := bin.Y.(*ssa.Const); ok && kc.Value != nil && kc.Value.Kind() == constant.String && constant.StringVal(kc.Value) == "." && ((bin.Op == token.EQL && f.Holds) || (bin.Op == token.NEQ && !f.Holds)) {
						isDot = true
					}
				}
			}
		}
		if !isDot {
			return
		}
		fq := false
		for _, f := range factsAt(fn, call.Block()) {
			if cl, ok := f.Atom.(*ssa.Call); ok && cl.Call.StaticCallee() != nil && cl.Call.StaticCallee().Name() == "IsFqdn" && f.Holds {
				fq = true
			}
		}
		if !fq {
			bad = append(bad, fmt.Sprintf("%s: %s", c.pos(call.Pos()), cn))
		}
	})
	_ = n
	r.check(len(bad) == 0, rule, "dnsutil.TrimDomainName", c.pos(fn.Pos()), "by index, or behind IsFqdn", "a dot is trimmed off the name with a strings function (%s) without dns.IsFqdn having said that the final dot is a separator: for a relative name that ends in an escaped dot (`a\\.`) an octet of the last label is cut off and a dangling backslash is left", strings.Join(bad, "; "))
}

// pointerReaders: the two pointer bits of a length octet are interpreted by UnpackDomainName only: it alone follows
// a pointer to where it points (both octets of the offset) under the hop limit.
func pointerReaders(c *Ctx, r *Report, rule string) {
	r.rule(rule, 1, "a wire octet is tested against the pointer flag 0xC0 in UnpackDomainName only")
	n := 0
	var bad []string
	for _, fn := range c.allFuncs() {
		if fn.Synthetic != "" {
			continue
		}
		allInstrs(fn, func(in ssa.Instruction) {
			bin, ok := in.(*ssa.BinOp)
			if !ok || bin.Op != token.AND {
				return
			}
			k, isK := constIntOf(bin.Y)
			if !isK || k != 0xC0 {
				return
			}
			// on an octet loaded from a byte slice
			fromBuf := anyIn(sliceOf(bin.X), func(v ssa.Value) bool {
				ld, ok := v.(*ssa.UnOp)
				if !ok {
					return false
				}
				_, isIA := ld.X.(*ssa.IndexAddr)
				return isIA
			})
			if !fromBuf {
				return
			}
			n++
			if fnDisplay(fn) != "UnpackDomainName" {
				bad = append(bad, fmt.Sprintf("%s in %s", c.pos(bin.Pos()), fnDisplay(fn)))
			}
		})
	}
	sort.Strings(bad)
	r.check(n > 0 && len(bad) == 0, rule, "0xC0", "", "only UnpackDomainName", "compression pointers are recognised outside UnpackDomainName (%s): a shortcut that looks at part of the pointer only (its low octet) takes a pointer to another offset for the one it expects, and the record silently decodes with another name", strings.Join(bad, "; "))
}

// noPackageState: the listed functions (and the package functions they call) read no package-level variable except
// error values: what they compute depends on their arguments alone.
func noPackageState(c *Ctx, r *Report, rule string, names []string, consequence string) {
	r.rule(rule, len(names), "the listed functions and what they call read no package-level variable but error values and constants tables of the standard library")
	for _, name := range names {
		fn := c.ssaFunc(name)
		if fn == nil {
			r.cerr(rule, name, "function not found")
			continue
		}
		var fns []*ssa.Function
		seen := map[*ssa.Function]bool{}
		var collect func(f *ssa.Function, depth int)
		collect = func(f *ssa.Function, depth int) {
			if f == nil || seen[f] || depth > 3 || len(f.Blocks) == 0 || f.Pkg != fn.Pkg {
				return
			}
			seen[f] = true
			fns = append(fns, f)
			allInstrs(f, func(in ssa.Instruction) {
				if ci, ok := in.(ssa.CallInstruction); ok {
					collect(ci.Common().StaticCallee(), depth+1)
				}
			})
		}
		collect(fn, 0)
		var bad []string
		for _, f := range fns {
			r.fn(fnDisplay(f))
			allInstrs(f, func(in ssa.Instruction) {
				for _, op := range in.Operands(nil) {
					g, ok := (*op).(*ssa.Global)
					if !ok || g.Pkg != fn.Pkg {
						continue
					}
					t := g.Type().(*types.Pointer).Elem()
					if types.Identical(t, types.Universe.Lookup("error").Type()) {
						continue
					}
					bad = append(bad, fmt.Sprintf("%s reads %s (%s)", c.pos(in.Pos()), g.Name(), typeStr(t)))
				}
			})
		}
		sort.Strings(bad)
		r.check(len(bad) == 0, rule, name, c.pos(fn.Pos()), "no package state", "%s: %s", strings.Join(uniqStrings(bad), "; "), consequence)
	}
}
