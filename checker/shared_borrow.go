package main

// borrow runs a rule that was written for another property and records its obligations under a rule id of this
// property: the same structural clause is a necessary condition of both (which ones, and why, is said in doc).
// filter selects constructs (nil: all); suffix is appended to failing details to say what the clause means here.
func borrow(c *Ctx, r *Report, run func(*Ctx, *Report), srcRule, dstRule string, floor int, doc string, filter func(construct string) bool, suffix string) {
	r.rule(dstRule, floor, doc)
	sub := newReport("tmp", r.Tier)
	run(c, sub)
	n := 0
	for _, o := range sub.obls {
		if o.Rule != srcRule || (filter != nil && !filter(o.Construct)) {
			continue
		}
		n++
		detail := o.Detail
		if o.Status != stOK && suffix != "" {
			detail += " (" + suffix + ")"
		}
		r.add(dstRule, o.Construct, o.Status, o.Pos, detail)
	}
	if n == 0 {
		r.cerr(dstRule, srcRule, "the borrowed rule produced no obligation")
	}
	for f := range sub.funcs {
		r.funcs[f] = true
	}
}

// borrowClause is borrow restricted to one clause of the source rule: a failing obligation whose detail does not
// mention the clause (relevant returns false) is about something this property does not state, and is recorded
// as discharged here (the source property still reports it).
func borrowClause(c *Ctx, r *Report, run func(*Ctx, *Report), srcRule, dstRule string, floor int, doc string, filter func(construct string) bool, relevant func(detail string) bool, suffix string) {
	r.rule(dstRule, floor, doc)
	sub := newReport("tmp", r.Tier)
	run(c, sub)
	n := 0
	for _, o := range sub.obls {
		if o.Rule != srcRule || (filter != nil && !filter(o.Construct)) {
			continue
		}
		n++
		detail, status := o.Detail, o.Status
		if status != stOK && !relevant(detail) {
			status, detail = stOK, "the clause borrowed holds (the source rule reports another clause)"
		} else if status != stOK && suffix != "" {
			detail += " (" + suffix + ")"
		}
		r.add(dstRule, o.Construct, status, o.Pos, detail)
	}
	if n == 0 {
		r.cerr(dstRule, srcRule, "the borrowed rule produced no obligation")
	}
	for f := range sub.funcs {
		r.funcs[f] = true
	}
}
