package main

// E3 — path rules on the SSA control-flow graph: edge dominance, must-pass, condition facts, slices.

import (
	"fmt"
	"go/constant"
	"go/token"
	"go/types"
	"sort"
	"strings"

	"golang.org/x/tools/go/ssa"
)

// reach computes the blocks reachable from start, never crossing the removed edges nor entering removed blocks.
type edge struct{ from, to *ssa.BasicBlock }

func reach(start *ssa.BasicBlock, removedEdges map[edge]bool, removedBlocks map[*ssa.BasicBlock]bool) map[*ssa.BasicBlock]bool {
	seen := map[*ssa.BasicBlock]bool{}
	if removedBlocks[start] {
		return seen
	}
	stack := []*ssa.BasicBlock{start}
	seen[start] = true
	for len(stack) > 0 {
		b := stack[len(stack)-1]
		stack = stack[:len(stack)-1]
		for _, s := range b.Succs {
			if removedEdges[edge{b, s}] || removedBlocks[s] || seen[s] {
				continue
			}
			seen[s] = true
			stack = append(stack, s)
		}
	}
	return seen
}

// edgeDominates: target is unreachable from entry once the edge from->to is removed.
func edgeDominates(fn *ssa.Function, from, to, target *ssa.BasicBlock) bool {
	if len(fn.Blocks) == 0 {
		return false
	}
	// if both successors of from are `to` the edge carries no information
	n := 0
	for _, s := range from.Succs {
		if s == to {
			n++
		}
	}
	if n != 1 {
		return false
	}
	r := reach(fn.Blocks[0], map[edge]bool{{from, to}: true}, nil)
	return !r[target]
}

// condAtom strips negations: returns the underlying atom and the polarity with which cond==true implies atom.
func condAtom(v ssa.Value) (ssa.Value, bool) {
	pol := true
	for {
		if u, ok := v.(*ssa.UnOp); ok && u.Op == token.NOT {
			v = u.X
			pol = !pol
			continue
		}
		break
	}
	return v, pol
}

// Fact: on every path to the block, atom evaluated to Holds.
type Fact struct {
	If    *ssa.If
	Atom  ssa.Value
	Holds bool
}

// factsAt lists the branch outcomes that edge-dominate block b, and those that follow from a dominating test of a
// merged value: after `r := phi(nil, e)` a test r != nil that went the "nil" way tells which ways into the merge were
// taken, and what held on every one of those ways holds (see mergedFacts).
func factsAt(fn *ssa.Function, b *ssa.BasicBlock) []Fact { return factsAtD(fn, b, 0) }

func factsAtD(fn *ssa.Function, b *ssa.BasicBlock, depth int) []Fact {
	out := factsAtBase(fn, b)
	if depth >= 2 {
		return out
	}
	n := len(out)
	for i := 0; i < n; i++ {
		for _, f := range mergedFacts(fn, b, out[i], depth) {
			dup := false
			for _, o := range out {
				if o.Atom == f.Atom && o.Holds == f.Holds {
					dup = true
				}
			}
			if !dup {
				out = append(out, f)
			}
		}
	}
	return out
}

// mergedFacts: fact is the outcome of a test of a merged value (a phi compared with nil, or a boolean phi) that
// decides which of the ways into the merge were taken. Returned: the outcomes known on every one of those ways, as
// far as nothing between the merge and b can have evaluated them again.
//
// Soundness. Let P be the block of the phi and e the edge of the test. (A) Without e, b is not reachable from P: after
// the last entry into P before b the test is made, on the value of that entry, and goes the way of e. So that entry
// came by one of the ways whose value agrees with the outcome. (B) An outcome F known on each of those ways is kept
// only when its test is not reachable from P without entering P again: between that last entry and b it is not made
// again, so it still stands.
func mergedFacts(fn *ssa.Function, b *ssa.BasicBlock, fact Fact, depth int) []Fact {
	if fact.If == nil {
		return nil
	}
	var phi *ssa.Phi
	wantNil, isNilTest := false, false
	switch t := fact.Atom.(type) {
	case *ssa.Phi:
		phi = t
	case *ssa.BinOp:
		if t.Op != token.EQL && t.Op != token.NEQ {
			return nil
		}
		x, y := t.X, t.Y
		if isNilConst(x) {
			x, y = y, x
		}
		p, ok := x.(*ssa.Phi)
		if !ok || !isNilConst(y) {
			return nil
		}
		phi, isNilTest = p, true
		wantNil = (t.Op == token.EQL) == fact.Holds
	default:
		return nil
	}
	P := phi.Block()
	if len(P.Preds) < 2 || len(P.Preds) != len(phi.Edges) {
		return nil
	}
	blk := fact.If.Block()
	_, pol := condAtom(fact.If.Cond)
	succ := blk.Succs[1]
	if fact.Holds == pol {
		succ = blk.Succs[0]
	}
	if P == b || reach(P, map[edge]bool{{blk, succ}: true}, nil)[b] {
		return nil
	}
	var common []Fact
	first := true
	excluded := 0
	for i, e := range phi.Edges {
		fs := factsOnEdgeD(fn, P.Preds[i], P, depth+1)
		feasible := true
		if isNilTest {
			switch {
			case isNilConst(e):
				feasible = wantNil
			case knownNonNil(e, fs):
				feasible = !wantNil
			}
		} else if cb, isC := constBool(e); isC {
			feasible = cb == fact.Holds
		}
		if !feasible {
			excluded++
			continue
		}
		if first {
			common, first = fs, false
			continue
		}
		var keep []Fact
		for _, f := range common {
			for _, g := range fs {
				if f.Atom == g.Atom && f.Holds == g.Holds {
					keep = append(keep, f)
					break
				}
			}
		}
		common = keep
	}
	if excluded == 0 || len(common) == 0 {
		return nil
	}
	into := map[edge]bool{}
	for _, p := range P.Preds {
		into[edge{p, P}] = true
	}
	after := reach(P, into, nil)
	var out []Fact
	for _, f := range common {
		if f.If != nil && !after[f.If.Block()] {
			out = append(out, f)
		}
	}
	return out
}

// knownNonNil: the value cannot be nil — by what it is, or by a test on the way it comes in by.
func knownNonNil(v ssa.Value, facts []Fact) bool {
	switch v.(type) {
	case *ssa.MakeInterface, *ssa.Alloc, *ssa.MakeChan, *ssa.MakeMap, *ssa.MakeSlice, *ssa.MakeClosure, *ssa.FieldAddr, *ssa.IndexAddr, *ssa.Function:
		return true
	}
	for _, f := range facts {
		if b, ok := f.Atom.(*ssa.BinOp); ok && (b.Op == token.EQL || b.Op == token.NEQ) {
			if (b.X == v && isNilConst(b.Y) || b.Y == v && isNilConst(b.X)) && (b.Op == token.NEQ) == f.Holds {
				return true
			}
		}
	}
	return false
}

func factsAtBase(fn *ssa.Function, b *ssa.BasicBlock) []Fact {
	var out []Fact
	for _, blk := range fn.Blocks {
		if len(blk.Instrs) == 0 {
			continue
		}
		ifi, ok := blk.Instrs[len(blk.Instrs)-1].(*ssa.If)
		if !ok || len(blk.Succs) != 2 {
			continue
		}
		atom, pol := condAtom(ifi.Cond)
		if edgeDominates(fn, blk, blk.Succs[0], b) {
			out = append(out, Fact{ifi, atom, pol})
		}
		if edgeDominates(fn, blk, blk.Succs[1], b) {
			out = append(out, Fact{ifi, atom, !pol})
		}
	}
	return out
}

// factsOnEdge lists the branch outcomes known when control passes from block from to its successor to: those that
// edge-dominate from, plus the outcome of from's own branch when to is reached by exactly one of its arms.
func factsOnEdge(fn *ssa.Function, from, to *ssa.BasicBlock) []Fact {
	return factsOnEdgeD(fn, from, to, 0)
}

func factsOnEdgeD(fn *ssa.Function, from, to *ssa.BasicBlock, depth int) []Fact {
	out := factsAtD(fn, from, depth)
	if len(from.Instrs) == 0 {
		return out
	}
	ifi, ok := from.Instrs[len(from.Instrs)-1].(*ssa.If)
	if !ok || len(from.Succs) != 2 || from.Succs[0] == from.Succs[1] {
		return out
	}
	atom, pol := condAtom(ifi.Cond)
	if from.Succs[0] == to {
		out = append(out, Fact{ifi, atom, pol})
	} else if from.Succs[1] == to {
		out = append(out, Fact{ifi, atom, !pol})
	}
	return out
}

// ---- backward slices ----

// sliceOf returns the set of values v transitively depends on through operands; loads from local
// allocations additionally depend on every value stored into that allocation (flow-insensitive).
func sliceOf(v ssa.Value) map[ssa.Value]bool {
	seen := map[ssa.Value]bool{}
	var visit func(v ssa.Value)
	visit = func(v ssa.Value) {
		if v == nil || seen[v] {
			return
		}
		seen[v] = true
		if in, ok := v.(ssa.Instruction); ok {
			for _, op := range in.Operands(nil) {
				if *op != nil {
					visit(*op)
				}
			}
		}
		// a local allocation depends on everything stored into it (composite literals, spilled locals)
		if a, ok := v.(*ssa.Alloc); ok {
			for _, ref := range *a.Referrers() {
				collectStores(ref, a, visit, map[ssa.Instruction]bool{})
			}
		}
		// loads through local allocs: add stored values
		if u, ok := v.(*ssa.UnOp); ok && u.Op == token.MUL {
			if a := rootAlloc(u.X); a != nil {
				for _, ref := range *a.Referrers() {
					collectStores(ref, a, visit, map[ssa.Instruction]bool{})
				}
			}
		}
	}
	visit(v)
	return seen
}

func rootAlloc(v ssa.Value) *ssa.Alloc {
	for {
		switch t := v.(type) {
		case *ssa.Alloc:
			return t
		case *ssa.FieldAddr:
			v = t.X
		case *ssa.IndexAddr:
			v = t.X
		default:
			return nil
		}
	}
}

func collectStores(in ssa.Instruction, a *ssa.Alloc, visit func(ssa.Value), seen map[ssa.Instruction]bool) {
	if seen[in] {
		return
	}
	seen[in] = true
	switch t := in.(type) {
	case *ssa.Store:
		if rootAlloc(t.Addr) == a {
			visit(t.Val)
		}
	case *ssa.FieldAddr:
		for _, ref := range *t.Referrers() {
			collectStores(ref, a, visit, seen)
		}
	case *ssa.IndexAddr:
		for _, ref := range *t.Referrers() {
			collectStores(ref, a, visit, seen)
		}
	}
}

// value predicates used to describe guards

type vpred func(v ssa.Value) bool

func anyIn(s map[ssa.Value]bool, p vpred) bool {
	for v := range s {
		if p(v) {
			return true
		}
	}
	return false
}

func derefNamed(t types.Type) *types.Named {
	for {
		switch tt := t.(type) {
		case *types.Pointer:
			t = tt.Elem()
		case *types.Named:
			return tt
		case *types.Alias:
			t = types.Unalias(tt)
		default:
			return nil
		}
	}
}

// readsField matches a FieldAddr/Field selecting field `field` of struct type `typ` ("" = any type).
func readsField(typ, field string) vpred {
	return func(v ssa.Value) bool {
		var x ssa.Value
		var idx int
		switch t := v.(type) {
		case *ssa.FieldAddr:
			x, idx = t.X, t.Field
		case *ssa.Field:
			x, idx = t.X, t.Field
		default:
			return false
		}
		n := derefNamed(x.Type())
		var st *types.Struct
		if n != nil {
			st, _ = n.Underlying().(*types.Struct)
		} else if p, ok := x.Type().Underlying().(*types.Pointer); ok {
			st, _ = p.Elem().Underlying().(*types.Struct)
		} else {
			st, _ = x.Type().Underlying().(*types.Struct)
		}
		if st == nil || idx >= st.NumFields() || st.Field(idx).Name() != field {
			return false
		}
		if typ == "" {
			return true
		}
		return n != nil && n.Obj().Name() == typ
	}
}

// calleeNameSSA names the static callee or interface method of a call.
func calleeNameSSA(cc *ssa.CallCommon) string {
	if cc.IsInvoke() {
		return "(" + typeStr(cc.Value.Type()) + ")." + cc.Method.Name()
	}
	if f := cc.StaticCallee(); f != nil {
		if f.Object() != nil {
			return objName(f.Object())
		}
		return f.Name()
	}
	if b, ok := cc.Value.(*ssa.Builtin); ok {
		return "builtin." + b.Name()
	}
	return ""
}

func callsFunc(names ...string) vpred {
	return func(v ssa.Value) bool {
		c, ok := v.(*ssa.Call)
		if !ok {
			return false
		}
		n := calleeNameSSA(&c.Call)
		for _, w := range names {
			if n == w {
				return true
			}
		}
		return false
	}
}

func isConstInt(val int64) vpred {
	return func(v ssa.Value) bool {
		c, ok := v.(*ssa.Const)
		if !ok || c.Value == nil || c.Value.Kind() != constant.Int {
			return false
		}
		i, ok := constant.Int64Val(c.Value)
		return ok && i == val
	}
}

func isParamNamed(name string) vpred {
	return func(v ssa.Value) bool {
		p, ok := v.(*ssa.Parameter)
		return ok && p.Name() == name
	}
}

func isGlobal(name string) vpred {
	return func(v ssa.Value) bool {
		g, ok := v.(*ssa.Global)
		return ok && g.Name() == name
	}
}

func isNilConst(v ssa.Value) bool {
	c, ok := v.(*ssa.Const)
	return ok && c.Value == nil
}

func constBool(v ssa.Value) (bool, bool) {
	c, ok := v.(*ssa.Const)
	if !ok || c.Value == nil || c.Value.Kind() != constant.Bool {
		return false, false
	}
	return constant.BoolVal(c.Value), true
}

func constIntOf(v ssa.Value) (int64, bool) {
	c, ok := v.(*ssa.Const)
	if !ok || c.Value == nil || c.Value.Kind() != constant.Int {
		return 0, false
	}
	return constant.Int64Val(c.Value)
}

// ---- guard specs ----

// Guard describes a condition that must hold on the way to a success point.
type Guard struct {
	Name string
	// Op: "eq" (atom is ==/!= comparison, both operand slices matched by A and B in either order),
	//     "lt" (atom is an ordering comparison normalised to A < B),
	//     "call" (atom is a call matched by A), "val" (atom's slice matched by A, any shape)
	Op    string
	A, B  vpred
	Holds bool   // required truth value of the normalised atom on the way to success
	Alt   *Guard // an equivalent way of writing the same test
}

// matchGuard tells whether fact f establishes guard g.
func matchGuard(f Fact, g Guard) bool {
	if g.Alt != nil && matchGuard(f, *g.Alt) {
		return true
	}
	switch g.Op {
	case "eq":
		b, ok := f.Atom.(*ssa.BinOp)
		if !ok || (b.Op != token.EQL && b.Op != token.NEQ) {
			return false
		}
		holds := f.Holds
		if b.Op == token.NEQ {
			holds = !holds
		}
		if holds != g.Holds {
			return false
		}
		sx, sy := sliceOf(b.X), sliceOf(b.Y)
		return (anyIn(sx, g.A) && anyIn(sy, g.B)) || (anyIn(sx, g.B) && anyIn(sy, g.A))
	case "lt":
		b, ok := f.Atom.(*ssa.BinOp)
		if !ok {
			return false
		}
		x, y, holds := b.X, b.Y, f.Holds
		switch b.Op {
		case token.LSS:
		case token.GTR:
			x, y = y, x
		case token.GEQ: // x >= y  ==  !(x < y)
			holds = !holds
		case token.LEQ: // x <= y == !(y < x)
			x, y = y, x
			holds = !holds
		default:
			return false
		}
		return holds == g.Holds && anyIn(sliceOf(x), g.A) && anyIn(sliceOf(y), g.B)
	case "call":
		return f.Holds == g.Holds && g.A(f.Atom)
	case "val":
		return f.Holds == g.Holds && anyIn(sliceOf(f.Atom), g.A)
	}
	return false
}

// guardsHeld returns the names of the guards of gs not established at block b.
func guardsMissing(fn *ssa.Function, b *ssa.BasicBlock, gs []Guard) []string {
	return guardsMissingFacts(fn, factsAt(fn, b), gs)
}

// guardsMissingFacts: the same for a given set of branch outcomes (those of an edge, say).
func guardsMissingFacts(fn *ssa.Function, facts []Fact, gs []Guard) []string {
	var missing []string
	for _, g := range gs {
		found := false
		for _, f := range facts {
			if matchGuard(f, g) || (f.Holds && impliedBy(fn, f.Atom, g, 0)) {
				found = true
				break
			}
		}
		if !found {
			missing = append(missing, g.Name)
		}
	}
	return missing
}

// impliedBy: the boolean value v being true implies guard g. v is a conjunction kept in a local
// (`ok := a && b`, a phi of false and the last conjunct): on every way into the phi either the value is false, or g is
// established on that way, or the incoming value implies g itself.
func impliedBy(fn *ssa.Function, v ssa.Value, g Guard, depth int) bool {
	if depth > 4 || v == nil {
		return false
	}
	atom, pol := condAtom(v)
	if !pol {
		return false
	}
	if b, isConst := constBool(atom); isConst {
		return !b
	}
	if _, isPhi := atom.(*ssa.Phi); !isPhi {
		return matchGuard(Fact{Atom: atom, Holds: true}, g)
	}
	phi := atom.(*ssa.Phi)
	for i, e := range phi.Edges {
		if b, isConst := constBool(e); isConst && !b {
			continue
		}
		okEdge := false
		for _, f := range factsOnEdge(fn, phi.Block().Preds[i], phi.Block()) {
			if matchGuard(f, g) {
				okEdge = true
				break
			}
		}
		if !okEdge && !impliedBy(fn, e, g, depth+1) {
			return false
		}
	}
	return true
}

// flagImplies: the boolean value passed as a flag is true only when all the guards hold: a constant false, a constant
// true at a point where the guards are established, or a conjunction that implies them.
func flagImplies(fn *ssa.Function, at *ssa.BasicBlock, flag ssa.Value, gs []Guard) []string {
	if b, isConst := constBool(flag); isConst && !b {
		return nil
	}
	missing := guardsMissing(fn, at, gs)
	if len(missing) == 0 {
		return nil
	}
	var still []string
	for _, g := range gs {
		need := false
		for _, m := range missing {
			if m == g.Name {
				need = true
			}
		}
		if need && !impliedBy(fn, flag, g, 0) {
			still = append(still, g.Name)
		}
	}
	return still
}

// ---- returns ----

// retPoint is one way of leaving the function with given result values; Block is the block whose
// facts describe the path (the predecessor for phi-merged results).
type retPoint struct {
	Block   *ssa.BasicBlock
	Results []ssa.Value
	Pos     token.Pos
	// EdgeFacts: outcomes of the conditional edges taken from Block into the phi chain that carries the result
	EdgeFacts []Fact
}

// factsOf: the branch outcomes known when the function returns through this point.
func (rp retPoint) factsOf(fn *ssa.Function) []Fact {
	return append(factsAt(fn, rp.Block), rp.EdgeFacts...)
}

// returnPoints expands each Return over phi-merged results (one level, every result index in idxs).
func returnPoints(fn *ssa.Function, idx int) []retPoint {
	var out []retPoint
	for _, b := range fn.Blocks {
		if len(b.Instrs) == 0 {
			continue
		}
		ret, ok := b.Instrs[len(b.Instrs)-1].(*ssa.Return)
		if !ok {
			continue
		}
		if idx >= len(ret.Results) {
			continue
		}
		results := unspill(b, ret)
		pos := ret.Pos()
		out = append(out, expandPhi(b, results, idx, pos, map[*ssa.Phi]bool{}, nil)...)
	}
	return out
}

func expandPhi(b *ssa.BasicBlock, results []ssa.Value, idx int, pos token.Pos, seen map[*ssa.Phi]bool, edgeFacts []Fact) []retPoint {
	v := results[idx]
	phi, ok := v.(*ssa.Phi)
	if !ok || seen[phi] {
		return []retPoint{{Block: b, Results: results, Pos: pos, EdgeFacts: edgeFacts}}
	}
	seen[phi] = true
	var out []retPoint
	// a way the tests made since the merge rule out is not a way to this return: `r := phi(nil, e); if r != nil {
	// return r }` returns e only
	var tests []Fact
	if b.Parent() != nil && phi.Block() != b {
		tests = factsAtBase(b.Parent(), b)
	}
	for i, e := range phi.Edges {
		ruledOut := false
		for _, t := range tests {
			switch a := t.Atom.(type) {
			case *ssa.Phi:
				if cb, isC := constBool(e); a == phi && isC && cb != t.Holds {
					ruledOut = true
				}
			case *ssa.BinOp:
				if (a.Op == token.EQL || a.Op == token.NEQ) && (a.X == ssa.Value(phi) && isNilConst(a.Y) || a.Y == ssa.Value(phi) && isNilConst(a.X)) {
					wantNil := (a.Op == token.EQL) == t.Holds
					if isNilConst(e) && !wantNil || knownNonNil(e, nil) && wantNil {
						ruledOut = true
					}
				}
			}
		}
		if ruledOut && phi.Block().Dominates(b) {
			continue
		}
		rs := append([]ssa.Value(nil), results...)
		rs[idx] = e
		// other results that are phis of the same block follow the same edge
		for j, r := range rs {
			if p2, ok := r.(*ssa.Phi); ok && j != idx && p2.Block() == phi.Block() {
				rs[j] = p2.Edges[i]
			}
		}
		pred := phi.Block().Preds[i]
		ef := append([]Fact(nil), edgeFacts...)
		if ifi, ok := pred.Instrs[len(pred.Instrs)-1].(*ssa.If); ok && len(pred.Succs) == 2 && pred.Succs[0] != pred.Succs[1] {
			atom, pol := condAtom(ifi.Cond)
			if pred.Succs[0] == phi.Block() {
				ef = append(ef, Fact{ifi, atom, pol})
			} else if pred.Succs[1] == phi.Block() {
				ef = append(ef, Fact{ifi, atom, !pol})
			}
		}
		out = append(out, expandPhi(pred, rs, idx, pos, seen, ef)...)
	}
	return out
}

// ---- must-pass ----

// mustPass: every path from just after instruction fromIdx of block `from` (fromIdx=-1: the block's start)
// to a normal exit (Return; panicking exits are not normal) executes an instruction satisfying hit.
// On failure the block of the unguarded Return is returned.
func mustPass(fn *ssa.Function, from *ssa.BasicBlock, fromIdx int, hit func(ssa.Instruction) bool) (bool, *ssa.BasicBlock) {
	seen := map[*ssa.BasicBlock]bool{}
	type item struct {
		b     *ssa.BasicBlock
		start int
	}
	stack := []item{{from, fromIdx + 1}}
	for len(stack) > 0 {
		it := stack[len(stack)-1]
		stack = stack[:len(stack)-1]
		satisfied := false
		for i := it.start; i < len(it.b.Instrs); i++ {
			in := it.b.Instrs[i]
			if hit(in) {
				satisfied = true
				break
			}
			if _, ok := in.(*ssa.Return); ok {
				return false, it.b
			}
		}
		if satisfied {
			continue
		}
		for _, s := range succsFrom(from, it.b) {
			if !seen[s] {
				seen[s] = true
				stack = append(stack, item{s, 0})
			}
		}
	}
	return true, nil
}

// succsFrom: the successors of b that a path starting in block start can take. When b ends in a test of a merged
// value (r := phi(...) compared with nil, or a boolean phi), every path from start to b passes the merge, and every
// way into the merge that start can reach carries a value the test decides the same way, only that way out of b is
// possible: `r0, err := nil, &Error{}` on the refusing way and `if err != nil { return err }` after the merge is not an
// exit of the ways that did not refuse.
func succsFrom(start, b *ssa.BasicBlock) []*ssa.BasicBlock {
	if len(b.Instrs) == 0 || len(b.Succs) != 2 {
		return b.Succs
	}
	ifi, ok := b.Instrs[len(b.Instrs)-1].(*ssa.If)
	if !ok {
		return b.Succs
	}
	atom, pol := condAtom(ifi.Cond)
	var phi *ssa.Phi
	var bin *ssa.BinOp
	switch t := atom.(type) {
	case *ssa.Phi:
		phi = t
	case *ssa.BinOp:
		if t.Op != token.EQL && t.Op != token.NEQ {
			return b.Succs
		}
		if p, isPhi := t.X.(*ssa.Phi); isPhi && isNilConst(t.Y) {
			phi, bin = p, t
		} else if p, isPhi := t.Y.(*ssa.Phi); isPhi && isNilConst(t.X) {
			phi, bin = p, t
		}
	}
	if phi == nil {
		return b.Succs
	}
	P := phi.Block()
	if P == start || start == b || len(P.Preds) != len(phi.Edges) || !P.Dominates(b) {
		return b.Succs
	}
	if reach(start, nil, map[*ssa.BasicBlock]bool{P: true})[b] {
		return b.Succs // b can be reached from start without a new entry into the merge
	}
	R := reach(start, nil, nil)
	decided, value, n := true, false, 0
	for i, e := range phi.Edges {
		if p := P.Preds[i]; p != start && !R[p] {
			continue
		}
		var v bool
		switch {
		case bin != nil && isNilConst(e):
			v = bin.Op == token.EQL
		case bin != nil && knownNonNil(e, nil):
			v = bin.Op == token.NEQ
		case bin == nil:
			cb, isC := constBool(e)
			if !isC {
				return b.Succs
			}
			v = cb
		default:
			return b.Succs
		}
		if n > 0 && v != value {
			decided = false
		}
		value = v
		n++
	}
	if n == 0 || !decided {
		return b.Succs
	}
	if value == pol {
		return b.Succs[:1]
	}
	return b.Succs[1:]
}

// instrIndex finds the position of an instruction in its block.
func instrIndex(in ssa.Instruction) int {
	for i, x := range in.Block().Instrs {
		if x == in {
			return i
		}
	}
	return -1
}

// precedes: instruction a is executed before b on every path that reaches b (a dominates b).
func precedes(a, b ssa.Instruction) bool {
	if a.Block() == b.Block() {
		return instrIndex(a) < instrIndex(b)
	}
	return a.Block().Dominates(b.Block())
}

// ---- misc helpers ----

func allInstrs(fn *ssa.Function, f func(in ssa.Instruction)) {
	for _, b := range fn.Blocks {
		for _, in := range b.Instrs {
			f(in)
		}
	}
}

// callsIn returns the call instructions (Call, Go, Defer) of fn whose callee name matches.
func callsIn(fn *ssa.Function, names ...string) []ssa.CallInstruction {
	var out []ssa.CallInstruction
	allInstrs(fn, func(in ssa.Instruction) {
		ci, ok := in.(ssa.CallInstruction)
		if !ok {
			return
		}
		n := calleeNameSSA(ci.Common())
		for _, w := range names {
			if n == w {
				out = append(out, ci)
			}
		}
	})
	return out
}

func describeFacts(fs []Fact) string {
	var s []string
	for _, f := range fs {
		s = append(s, fmt.Sprintf("%v=%v", f.Atom, f.Holds))
	}
	sort.Strings(s)
	return strings.Join(s, ", ")
}

// storesToField lists the Store instructions of fn whose address is field `field` of a struct of type typ.
func storesToField(fn *ssa.Function, typ, field string) []*ssa.Store {
	var out []*ssa.Store
	p := readsField(typ, field)
	allInstrs(fn, func(in ssa.Instruction) {
		if st, ok := in.(*ssa.Store); ok && p(st.Addr) {
			out = append(out, st)
		}
	})
	return out
}

// anonFuncs returns fn and its nested closures, recursively.
func withAnon(fn *ssa.Function) []*ssa.Function {
	out := []*ssa.Function{fn}
	for _, a := range fn.AnonFuncs {
		out = append(out, withAnon(a)...)
	}
	return out
}

// shallowOrigins walks through conversions, arithmetic and tuple extraction only, stopping at calls, phis, loads.
func shallowOrigins(v ssa.Value) map[ssa.Value]bool {
	out := map[ssa.Value]bool{}
	var walk func(v ssa.Value)
	walk = func(v ssa.Value) {
		if v == nil || out[v] {
			return
		}
		switch t := v.(type) {
		case *ssa.Convert:
			walk(t.X)
		case *ssa.ChangeType:
			walk(t.X)
		case *ssa.BinOp:
			walk(t.X)
			walk(t.Y)
		case *ssa.Extract:
			out[v] = true
			walk(t.Tuple)
		default:
			out[v] = true
		}
	}
	walk(v)
	return out
}

// intervalAt derives, from the branch outcomes that edge-dominate block b, the interval [lo, hi] of values allowed
// for the integer expression identified by isX (comparisons of X with constants only). Unbounded sides are
// reported as ok=false.
func intervalAt(fn *ssa.Function, b *ssa.BasicBlock, isX vpred) (lo, hi int64, hasLo, hasHi bool) {
	for _, f := range factsAt(fn, b) {
		bin, ok := f.Atom.(*ssa.BinOp)
		if !ok {
			continue
		}
		x, y, op := bin.X, bin.Y, bin.Op
		k, isK := constIntOf(y)
		if !isK {
			// const on the left: mirror
			k, isK = constIntOf(x)
			if !isK {
				continue
			}
			x = y
			switch op {
			case token.LSS:
				op = token.GTR
			case token.GTR:
				op = token.LSS
			case token.LEQ:
				op = token.GEQ
			case token.GEQ:
				op = token.LEQ
			}
		}
		if !isX(x) {
			continue
		}
		holds := f.Holds
		// constraint on X
		var newLo, newHi *int64
		v := func(n int64) *int64 { return &n }
		switch op {
		case token.LSS: // X < k
			if holds {
				newHi = v(k - 1)
			} else {
				newLo = v(k)
			}
		case token.LEQ:
			if holds {
				newHi = v(k)
			} else {
				newLo = v(k + 1)
			}
		case token.GTR:
			if holds {
				newLo = v(k + 1)
			} else {
				newHi = v(k)
			}
		case token.GEQ:
			if holds {
				newLo = v(k)
			} else {
				newHi = v(k - 1)
			}
		case token.EQL:
			if holds {
				newLo, newHi = v(k), v(k)
			}
		case token.NEQ:
			if !holds {
				newLo, newHi = v(k), v(k)
			}
		}
		if newLo != nil && (!hasLo || *newLo > lo) {
			lo, hasLo = *newLo, true
		}
		if newHi != nil && (!hasHi || *newHi < hi) {
			hi, hasHi = *newHi, true
		}
	}
	return
}

// unspill resolves results that go/ssa spilled to locals because of defers: `*t = v; rundefers; r = *t; return r`.
// A deferred closure could still overwrite the local; only functions whose deferred calls do not capture the
// result locals are resolved (otherwise the load is kept as is).
func unspill(b *ssa.BasicBlock, ret *ssa.Return) []ssa.Value {
	out := append([]ssa.Value(nil), ret.Results...)
	for i, v := range out {
		u, ok := v.(*ssa.UnOp)
		if !ok || u.Op != token.MUL {
			continue
		}
		al, ok := u.X.(*ssa.Alloc)
		if !ok || al.Heap {
			continue
		}
		// referrers: only stores and loads in this function (not captured)
		captured := false
		for _, ref := range *al.Referrers() {
			switch ref.(type) {
			case *ssa.Store, *ssa.UnOp, *ssa.DebugRef:
			default:
				captured = true
			}
		}
		if captured {
			continue
		}
		for j := len(b.Instrs) - 1; j >= 0; j-- {
			if st, ok := b.Instrs[j].(*ssa.Store); ok && st.Addr == al {
				out[i] = st.Val
				break
			}
		}
	}
	return out
}

// ---- path enumeration for loop-free functions ----

type pathStep struct {
	Block *ssa.BasicBlock
	// outcome of the block's terminating If on this path (true edge taken), valid when the block ends in If
	Taken bool
}

// enumPaths enumerates every acyclic path from the entry to a Return (panicking exits are skipped).
// It gives up (returns false) beyond maxPaths or when a cycle is met.
func enumPaths(fn *ssa.Function, maxPaths int, visit func(path []pathStep, ret *ssa.Return)) bool {
	n := 0
	ok := true
	var dfs func(b *ssa.BasicBlock, path []pathStep, on map[*ssa.BasicBlock]bool)
	dfs = func(b *ssa.BasicBlock, path []pathStep, on map[*ssa.BasicBlock]bool) {
		if !ok {
			return
		}
		if on[b] {
			ok = false // loop
			return
		}
		on[b] = true
		defer delete(on, b)
		last := b.Instrs[len(b.Instrs)-1]
		switch t := last.(type) {
		case *ssa.Return:
			n++
			if n > maxPaths {
				ok = false
				return
			}
			visit(append(path, pathStep{Block: b}), t)
		case *ssa.If:
			// a test of a merged value (a flag set on the ways into a merge, a result taken out of a helper written
			// back): the path says by which way the merge was entered, so the value is known and only one arm is a path
			if v, known := mergedOnPath(t.Cond, b, path); known {
				if v {
					dfs(b.Succs[0], append(path, pathStep{b, true}), on)
				} else {
					dfs(b.Succs[1], append(append([]pathStep(nil), path...), pathStep{b, false}), on)
				}
				return
			}
			dfs(b.Succs[0], append(path, pathStep{b, true}), on)
			dfs(b.Succs[1], append(append([]pathStep(nil), path...), pathStep{b, false}), on)
		case *ssa.Jump:
			dfs(b.Succs[0], append(path, pathStep{Block: b}), on)
		}
	}
	if len(fn.Blocks) > 0 {
		dfs(fn.Blocks[0], nil, map[*ssa.BasicBlock]bool{})
	}
	return ok
}

// pathFacts lists the condition outcomes along a path.
func pathFacts(path []pathStep) []Fact {
	var out []Fact
	for _, s := range path {
		if ifi, ok := s.Block.Instrs[len(s.Block.Instrs)-1].(*ssa.If); ok {
			atom, pol := condAtom(ifi.Cond)
			out = append(out, Fact{ifi, atom, pol == s.Taken})
		}
	}
	return out
}

func pathHas(facts []Fact, g Guard) bool {
	for _, f := range facts {
		if matchGuard(f, g) {
			return true
		}
	}
	return false
}

// countOnPath counts instructions satisfying p in the blocks of the path.
func countOnPath(path []pathStep, p func(ssa.Instruction) bool) int {
	n := 0
	for _, s := range path {
		for _, in := range s.Block.Instrs {
			if p(in) {
				n++
			}
		}
	}
	return n
}

// fieldPathOf matches the address (FieldAddr chain) or loaded value of field path "A.B" rooted at a value
// satisfying root. For value-typed roots ssa.Field is accepted too.
func fieldPathOf(root vpred, path string) vpred {
	parts := strings.Split(path, ".")
	return func(v ssa.Value) bool {
		if u, ok := v.(*ssa.UnOp); ok && u.Op == token.MUL {
			v = u.X
		}
		for i := len(parts) - 1; i >= 0; i-- {
			var x ssa.Value
			var idx int
			switch t := v.(type) {
			case *ssa.FieldAddr:
				x, idx = t.X, t.Field
			case *ssa.Field:
				x, idx = t.X, t.Field
			default:
				return false
			}
			var st *types.Struct
			tt := x.Type()
			if p, ok := tt.Underlying().(*types.Pointer); ok {
				tt = p.Elem()
			}
			st, _ = tt.Underlying().(*types.Struct)
			if st == nil || idx >= st.NumFields() || st.Field(idx).Name() != parts[i] {
				// embedded promotion: the selector may go through an embedded struct field implicitly
				return false
			}
			v = x
		}
		// strip loads of the root pointer
		for {
			if root(v) {
				return true
			}
			if u, ok := v.(*ssa.UnOp); ok && u.Op == token.MUL {
				v = u.X
				continue
			}
			return false
		}
	}
}

// loadOf lifts an address predicate to the loaded value.
func loadOf(p vpred) vpred {
	return func(v ssa.Value) bool {
		if p(v) {
			return true
		}
		u, ok := v.(*ssa.UnOp)
		return ok && u.Op == token.MUL && p(u.X)
	}
}

func isValue(x ssa.Value) vpred { return func(v ssa.Value) bool { return v == x } }

// paramOf returns the parameter of fn named name (nil if absent).
func paramOf(fn *ssa.Function, name string) ssa.Value {
	for _, p := range fn.Params {
		if p.Name() == name {
			return p
		}
	}
	// renamed since the pinned tree: the parameter at the position that name had there
	if base, ok := baselineParams[fnDisplay(fn)]; ok {
		shift := 0
		if fn.Signature.Recv() != nil {
			shift = 1
		}
		if len(base)+shift == len(fn.Params) {
			for i, n := range base {
				if n == name {
					return fn.Params[i+shift]
				}
			}
		}
	}
	return nil
}

// paramAlias matches the named parameter or a load of the heap cell it was spilled to because a closure captures it.
func paramAlias(fn *ssa.Function, name string) vpred {
	p := paramOf(fn, name)
	cells := map[ssa.Value]bool{}
	if p != nil {
		for _, ref := range *p.Referrers() {
			if st, ok := ref.(*ssa.Store); ok && st.Val == p {
				if al, ok := st.Addr.(*ssa.Alloc); ok {
					cells[al] = true
				}
			}
		}
	}
	return func(v ssa.Value) bool {
		if v == p && p != nil {
			return true
		}
		u, ok := v.(*ssa.UnOp)
		return ok && u.Op == token.MUL && cells[u.X]
	}
}

// ---- path enumeration with correlated-branch pruning (one loop iteration / first iteration) ----

// evalOnPath evaluates boolean / small integer SSA values along a concrete path: phis are resolved through the
// predecessor actually taken, branch outcomes recorded in known are reused, constants fold through !, ==, !=, <, >.
func evalOnPath(v ssa.Value, path []pathStep, known map[ssa.Value]bool) (val int64, ok bool) {
	if b, has := known[v]; has {
		if b {
			return 1, true
		}
		return 0, true
	}
	switch t := v.(type) {
	case *ssa.Const:
		if b, isB := constBool(t); isB {
			if b {
				return 1, true
			}
			return 0, true
		}
		return constIntOf(t)
	case *ssa.UnOp:
		if t.Op == token.NOT {
			x, ok := evalOnPath(t.X, path, known)
			if !ok {
				return 0, false
			}
			return 1 - x, true
		}
	case *ssa.Phi:
		blk := t.Block()
		for i := len(path) - 1; i >= 0; i-- {
			if path[i].Block == blk {
				if i == 0 {
					return 0, false
				}
				pred := path[i-1].Block
				for j, p := range blk.Preds {
					if p == pred {
						return evalOnPath(t.Edges[j], path[:i], known)
					}
				}
				return 0, false
			}
		}
	case *ssa.BinOp:
		x, okx := evalOnPath(t.X, path, known)
		y, oky := evalOnPath(t.Y, path, known)
		if okx && oky {
			b2i := func(b bool) int64 {
				if b {
					return 1
				}
				return 0
			}
			switch t.Op {
			case token.EQL:
				return b2i(x == y), true
			case token.NEQ:
				return b2i(x != y), true
			case token.LSS:
				return b2i(x < y), true
			case token.GTR:
				return b2i(x > y), true
			case token.LEQ:
				return b2i(x <= y), true
			case token.GEQ:
				return b2i(x >= y), true
			case token.ADD:
				return x + y, true
			case token.SUB:
				return x - y, true
			}
		}
	}
	return 0, false
}

// enumIterPaths enumerates paths from start that never take a back edge; a path ends at a Return ("return") or at
// the source of a back edge ("backedge"). Branches whose condition is decided by evalOnPath are pruned.
func enumIterPaths(fn *ssa.Function, start *ssa.BasicBlock, prefix []pathStep, maxPaths int, visit func(path []pathStep, kind string)) bool {
	back := backEdges(fn)
	n := 0
	ok := true
	var dfs func(b *ssa.BasicBlock, path []pathStep, known map[ssa.Value]bool)
	dfs = func(b *ssa.BasicBlock, path []pathStep, known map[ssa.Value]bool) {
		if !ok {
			return
		}
		last := b.Instrs[len(b.Instrs)-1]
		next := func(s *ssa.BasicBlock, step pathStep, kn map[ssa.Value]bool) {
			p2 := append(append([]pathStep(nil), path...), step)
			if back[edge{b, s}] {
				n++
				if n > maxPaths {
					ok = false
					return
				}
				visit(p2, "backedge")
				return
			}
			dfs(s, p2, kn)
		}
		switch t := last.(type) {
		case *ssa.Return:
			n++
			if n > maxPaths {
				ok = false
				return
			}
			visit(append(append([]pathStep(nil), path...), pathStep{Block: b}), "return")
		case *ssa.Jump:
			next(b.Succs[0], pathStep{Block: b}, known)
		case *ssa.If:
			cur := append(append([]pathStep(nil), path...), pathStep{Block: b})
			if v, decided := evalOnPath(t.Cond, cur, known); decided {
				if v != 0 {
					next(b.Succs[0], pathStep{b, true}, known)
				} else {
					next(b.Succs[1], pathStep{b, false}, known)
				}
				return
			}
			for _, taken := range []bool{true, false} {
				kn := map[ssa.Value]bool{}
				for k, v := range known {
					kn[k] = v
				}
				kn[t.Cond] = taken
				atom, pol := condAtom(t.Cond)
				kn[atom] = taken == pol
				idx := 1
				if taken {
					idx = 0
				}
				next(b.Succs[idx], pathStep{b, taken}, kn)
			}
		}
	}
	dfs(start, prefix, map[ssa.Value]bool{})
	return ok
}

// sameExpr: structural equality of pure SSA expressions (go/ssa performs no common-subexpression elimination).
func sameExpr(a, b ssa.Value) bool {
	if a == b {
		return true
	}
	switch x := a.(type) {
	case *ssa.BinOp:
		y, ok := b.(*ssa.BinOp)
		return ok && x.Op == y.Op && sameExpr(x.X, y.X) && sameExpr(x.Y, y.Y)
	case *ssa.Convert:
		y, ok := b.(*ssa.Convert)
		return ok && types.Identical(x.Type(), y.Type()) && sameExpr(x.X, y.X)
	case *ssa.Const:
		y, ok := b.(*ssa.Const)
		if !ok || x.Value == nil || y.Value == nil {
			return ok && x.Value == y.Value
		}
		return x.Value.ExactString() == y.Value.ExactString()
	case *ssa.UnOp:
		y, ok := b.(*ssa.UnOp)
		return ok && x.Op == y.Op && x.Op != token.MUL && x.Op != token.ARROW && sameExpr(x.X, y.X)
	}
	return false
}

// valueOfInstr: the instruction as a value, nil when it has none.
func valueOfInstr(in ssa.Instruction) ssa.Value {
	v, _ := in.(ssa.Value)
	return v
}

// mergedOnPath: cond (at the end of block b, reached by path) is a phi of boolean constants, or a phi compared with
// nil, possibly negated; the path fixes the way the phi's block was entered, hence the value.
func mergedOnPath(cond ssa.Value, b *ssa.BasicBlock, path []pathStep) (bool, bool) {
	atom, pol := condAtom(cond)
	var phi *ssa.Phi
	var bin *ssa.BinOp
	switch t := atom.(type) {
	case *ssa.Phi:
		phi = t
	case *ssa.BinOp:
		if t.Op != token.EQL && t.Op != token.NEQ {
			return false, false
		}
		if p, ok := t.X.(*ssa.Phi); ok && isNilConst(t.Y) {
			phi, bin = p, t
		} else if p, ok := t.Y.(*ssa.Phi); ok && isNilConst(t.X) {
			phi, bin = p, t
		}
	}
	if phi == nil {
		return false, false
	}
	P := phi.Block()
	// the way P was entered: the step before P's last occurrence on the path (or b itself when b == P)
	seq := make([]*ssa.BasicBlock, 0, len(path)+1)
	for _, st := range path {
		seq = append(seq, st.Block)
	}
	seq = append(seq, b)
	idx := -1
	for i := len(seq) - 1; i >= 0; i-- {
		if seq[i] == P {
			idx = i
			break
		}
	}
	if idx <= 0 {
		return false, false
	}
	from := seq[idx-1]
	var val ssa.Value
	n := 0
	for i, p := range P.Preds {
		if p == from && i < len(phi.Edges) {
			val = phi.Edges[i]
			n++
		}
	}
	if n != 1 {
		return false, false
	}
	var atomVal bool
	if bin == nil {
		cb, ok := constBool(val)
		if !ok {
			return false, false
		}
		atomVal = cb
	} else {
		switch {
		case isNilConst(val):
			atomVal = bin.Op == token.EQL
		case knownNonNil(val, nil):
			atomVal = bin.Op == token.NEQ
		default:
			return false, false
		}
	}
	return atomVal == pol, true
}
