package main

// Evaluation of constant initialisers: var t = func() (t [256]byte) { for c := range t { ... }; return t }().
//
// A package-level table is sometimes computed by a function literal the initialiser calls at once. Such a function has
// no inputs: its result is a constant of the program, and computing it is not "running the library" on any input, it is
// folding a constant the compiler happens not to fold. evalInitTable interprets the function's SSA form over integers,
// booleans and local arrays of integers (bounded number of steps; anything else — a call, a load from a global, a
// pointer that is not an element of a local array — makes it give up), and returns the array it returns.

import (
	"go/constant"
	"go/token"
	"go/types"

	"golang.org/x/tools/go/ssa"
)

type cval struct {
	i    int64
	arr  []int64    // an array value
	al   *ssa.Alloc // a pointer to a local array (idx < 0) or to its element idx
	idx  int64
	kind byte // 'i' integer / bool, 'a' array value, 'p' pointer
}

func evalInitTable(fn *ssa.Function) (map[int64]int64, bool) {
	if len(fn.Params) != 0 || len(fn.FreeVars) != 0 || len(fn.Blocks) == 0 {
		return nil, false
	}
	mem := map[*ssa.Alloc][]int64{}
	env := map[ssa.Value]cval{}
	norm := func(v int64, t types.Type) int64 {
		b, ok := t.Underlying().(*types.Basic)
		if !ok {
			return v
		}
		switch b.Kind() {
		case types.Uint8:
			return int64(uint8(v))
		case types.Int8:
			return int64(int8(v))
		case types.Uint16:
			return int64(uint16(v))
		case types.Int16:
			return int64(int16(v))
		case types.Uint32:
			return int64(uint32(v))
		case types.Int32:
			return int64(int32(v))
		}
		return v
	}
	get := func(v ssa.Value) (cval, bool) {
		if k, ok := v.(*ssa.Const); ok {
			if k.Value == nil {
				return cval{}, false
			}
			switch k.Value.Kind() {
			case constant.Int:
				i, exact := constant.Int64Val(k.Value)
				return cval{i: i, kind: 'i'}, exact
			case constant.Bool:
				if constant.BoolVal(k.Value) {
					return cval{i: 1, kind: 'i'}, true
				}
				return cval{kind: 'i'}, true
			}
			return cval{}, false
		}
		c, ok := env[v]
		return c, ok
	}
	blk := fn.Blocks[0]
	var prev *ssa.BasicBlock
	for steps := 0; steps < 200000; steps++ {
		// phis first, all read before any is written
		type upd struct {
			v ssa.Value
			c cval
		}
		var ups []upd
		for _, in := range blk.Instrs {
			phi, ok := in.(*ssa.Phi)
			if !ok {
				break
			}
			found := false
			for i, p := range blk.Preds {
				if p == prev {
					c, ok := get(phi.Edges[i])
					if !ok {
						return nil, false
					}
					ups = append(ups, upd{phi, c})
					found = true
					break
				}
			}
			if !found {
				return nil, false
			}
		}
		for _, u := range ups {
			env[u.v] = u.c
		}
		for _, in := range blk.Instrs {
			switch t := in.(type) {
			case *ssa.Phi, *ssa.DebugRef:
			case *ssa.Alloc:
				pt, ok := t.Type().Underlying().(*types.Pointer)
				if !ok {
					return nil, false
				}
				arr, ok := pt.Elem().Underlying().(*types.Array)
				if !ok || arr.Len() > 4096 {
					return nil, false
				}
				if eb, ok := arr.Elem().Underlying().(*types.Basic); !ok || eb.Info()&(types.IsInteger|types.IsBoolean) == 0 {
					return nil, false
				}
				mem[t] = make([]int64, arr.Len())
				env[t] = cval{al: t, idx: -1, kind: 'p'}
			case *ssa.IndexAddr:
				p, ok1 := get(t.X)
				i, ok2 := get(t.Index)
				if !ok1 || !ok2 || p.kind != 'p' || p.idx >= 0 || i.kind != 'i' || i.i < 0 || i.i >= int64(len(mem[p.al])) {
					return nil, false
				}
				env[t] = cval{al: p.al, idx: i.i, kind: 'p'}
			case *ssa.Index:
				a, ok1 := get(t.X)
				i, ok2 := get(t.Index)
				if !ok1 || !ok2 || a.kind != 'a' || i.i < 0 || i.i >= int64(len(a.arr)) {
					return nil, false
				}
				env[t] = cval{i: a.arr[i.i], kind: 'i'}
			case *ssa.Store:
				p, ok1 := get(t.Addr)
				v, ok2 := get(t.Val)
				if !ok1 || !ok2 || p.kind != 'p' {
					return nil, false
				}
				if p.idx < 0 {
					if v.kind != 'a' || len(v.arr) != len(mem[p.al]) {
						return nil, false
					}
					copy(mem[p.al], v.arr)
				} else {
					if v.kind != 'i' {
						return nil, false
					}
					mem[p.al][p.idx] = v.i
				}
			case *ssa.UnOp:
				x, ok := get(t.X)
				if !ok {
					return nil, false
				}
				switch t.Op {
				case token.MUL:
					if x.kind != 'p' {
						return nil, false
					}
					if x.idx < 0 {
						env[t] = cval{arr: append([]int64(nil), mem[x.al]...), kind: 'a'}
					} else {
						env[t] = cval{i: mem[x.al][x.idx], kind: 'i'}
					}
				case token.NOT:
					env[t] = cval{i: 1 - x.i, kind: 'i'}
				case token.SUB:
					env[t] = cval{i: norm(-x.i, t.Type()), kind: 'i'}
				case token.XOR:
					env[t] = cval{i: norm(^x.i, t.Type()), kind: 'i'}
				default:
					return nil, false
				}
			case *ssa.Convert:
				x, ok := get(t.X)
				if !ok || x.kind != 'i' {
					return nil, false
				}
				if b, isB := t.Type().Underlying().(*types.Basic); !isB || b.Info()&types.IsInteger == 0 {
					return nil, false
				}
				env[t] = cval{i: norm(x.i, t.Type()), kind: 'i'}
			case *ssa.ChangeType:
				x, ok := get(t.X)
				if !ok {
					return nil, false
				}
				env[t] = x
			case *ssa.BinOp:
				x, ok1 := get(t.X)
				y, ok2 := get(t.Y)
				if !ok1 || !ok2 || x.kind != 'i' || y.kind != 'i' {
					return nil, false
				}
				b2i := func(b bool) int64 {
					if b {
						return 1
					}
					return 0
				}
				var rv int64
				switch t.Op {
				case token.ADD:
					rv = x.i + y.i
				case token.SUB:
					rv = x.i - y.i
				case token.MUL:
					rv = x.i * y.i
				case token.QUO:
					if y.i == 0 {
						return nil, false
					}
					rv = x.i / y.i
				case token.REM:
					if y.i == 0 {
						return nil, false
					}
					rv = x.i % y.i
				case token.AND:
					rv = x.i & y.i
				case token.OR:
					rv = x.i | y.i
				case token.XOR:
					rv = x.i ^ y.i
				case token.AND_NOT:
					rv = x.i &^ y.i
				case token.SHL:
					if y.i < 0 || y.i > 62 {
						return nil, false
					}
					rv = x.i << uint(y.i)
				case token.SHR:
					if y.i < 0 || y.i > 62 {
						return nil, false
					}
					rv = x.i >> uint(y.i)
				case token.EQL:
					rv = b2i(x.i == y.i)
				case token.NEQ:
					rv = b2i(x.i != y.i)
				case token.LSS:
					rv = b2i(x.i < y.i)
				case token.LEQ:
					rv = b2i(x.i <= y.i)
				case token.GTR:
					rv = b2i(x.i > y.i)
				case token.GEQ:
					rv = b2i(x.i >= y.i)
				default:
					return nil, false
				}
				env[t] = cval{i: norm(rv, t.Type()), kind: 'i'}
			case *ssa.If:
				c, ok := get(t.Cond)
				if !ok {
					return nil, false
				}
				prev = blk
				if c.i != 0 {
					blk = blk.Succs[0]
				} else {
					blk = blk.Succs[1]
				}
			case *ssa.Jump:
				prev = blk
				blk = blk.Succs[0]
			case *ssa.Return:
				if len(t.Results) != 1 {
					return nil, false
				}
				r, ok := get(t.Results[0])
				if !ok || r.kind != 'a' {
					return nil, false
				}
				out := map[int64]int64{}
				for i, v := range r.arr {
					out[int64(i)] = v
				}
				return out, true
			default:
				return nil, false
			}
		}
	}
	return nil, false
}
