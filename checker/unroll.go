package main

// Normalisation before the analysis, second kind: loops over a fixed table that the pinned tree does not have are
// written out.
//
// The second commonest behaviour-preserving edit (after moving a block into a helper, inline.go) is to fold copy-pasted
// statements into a loop over a fixed table:
//
//	for _, f := range [...]struct{ p *bool; m uint16 }{{&dns.Response, _QR}, {&dns.Authoritative, _AA}} { *f.p = bits&f.m != 0 }
//	for k := 0; k < 6; k++ { i = i<<8 | uint64(msg[off+k]) }
//
// The rules are anchored in the straight-line form (one store per header flag, one octet per shift). Rather than teach
// every rule to execute loops, such a loop is written out in the analysed copy: one block per element, the loop
// variable's fields replaced by the element's expressions (or the counter declared as a constant). This is done only
// where it is plainly the same program:
//   - the counter loop has constant bounds and step, at most 32 turns, and its body neither assigns the counter, takes
//     its address, captures it in a function literal, nor leaves the loop by break / continue / goto / a label;
//   - the range is over an array or slice literal written in the range clause itself, with positional elements, at
//     most 32 of them; the body has the same restrictions; every use of the loop variable is a field selection (for
//     struct elements) or the variable itself (for scalar elements);
//   - every element expression is made of constants, addresses of selector chains (&x.f.g) and reads of selector
//     chains; when elements read (rather than take the address of) variables, the body makes no call and assigns
//     nothing but plain variables and selector chains that are not among (nor prefixes of) what the elements read: the
//     literal is evaluated once before the loop, the written-out form evaluates each element at its turn, and the two
//     agree only if the body cannot change what a later element reads.
// Loops the pinned tree has (by function and loop header, baselineLoops) stay as they are: nothing is rewritten on the
// pinned tree. When the rewritten package does not type-check the normalisation is dropped.

import (
	"bytes"
	"fmt"
	"go/ast"
	"go/constant"
	"go/format"
	"go/token"
	"go/types"
	"sort"
	"strings"

	"golang.org/x/tools/go/ast/astutil"
)

const maxUnroll = 32

// loopHeader: the text the loop is known by in baselineLoops.
func loopHeader(c *Ctx, n ast.Node) string {
	var buf bytes.Buffer
	switch t := n.(type) {
	case *ast.ForStmt:
		for _, p := range []ast.Node{t.Init, t.Cond, t.Post} {
			if p != nil && !isNilNode(p) {
				format.Node(&buf, c.Fset, p)
			}
			buf.WriteString("; ")
		}
	case *ast.RangeStmt:
		buf.WriteString("range ")
		format.Node(&buf, c.Fset, t.X)
	}
	return strings.Join(strings.Fields(buf.String()), " ")
}

func isNilNode(n ast.Node) bool {
	switch t := n.(type) {
	case ast.Stmt:
		return t == nil
	case ast.Expr:
		return t == nil
	}
	return false
}

// unrollCandidates lists, per declared function, the loops that could be written out (used by dump-params too).
type unrollCand struct {
	key    string // function
	header string
	stmt   ast.Stmt
	fd     *ast.FuncDecl
}

func unrollCandidates(c *Ctx) []unrollCand {
	var out []unrollCand
	var keys []string
	for k := range c.decls {
		keys = append(keys, k)
	}
	sort.Strings(keys)
	for _, k := range keys {
		fd := c.decls[k]
		if fd.Body == nil {
			continue
		}
		ast.Inspect(fd.Body, func(n ast.Node) bool {
			switch t := n.(type) {
			case *ast.FuncLit:
				return false
			case *ast.ForStmt:
				if _, ok := counterLoop(c, t); ok {
					out = append(out, unrollCand{k, loopHeader(c, t), t, fd})
				}
			case *ast.RangeStmt:
				if _, ok := tableLoop(c, t); ok {
					out = append(out, unrollCand{k, loopHeader(c, t), t, fd})
				}
			}
			return true
		})
	}
	return out
}

// bodyKeepsLoopVar: the body does not assign v, take its address, or capture it; it does not leave the loop by break,
// continue, goto or a label, and declares nothing else under v's name.
func bodyKeepsLoopVar(c *Ctx, body *ast.BlockStmt, vars []types.Object) bool {
	ok := true
	isVar := func(e ast.Expr) bool {
		id, isId := ast.Unparen(e).(*ast.Ident)
		if !isId {
			return false
		}
		o := c.objOfIdent(id)
		for _, v := range vars {
			if v != nil && o == v {
				return true
			}
		}
		return false
	}
	names := map[string]bool{}
	for _, v := range vars {
		if v != nil {
			names[v.Name()] = true
		}
	}
	var walk func(n ast.Node, inSwitch, inLoop bool)
	walk = func(n ast.Node, inSwitch, inLoop bool) {
		ast.Inspect(n, func(m ast.Node) bool {
			if m == nil || !ok {
				return false
			}
			switch t := m.(type) {
			case *ast.FuncLit:
				ast.Inspect(t, func(x ast.Node) bool {
					if id, isId := x.(*ast.Ident); isId && isVar(id) {
						ok = false
					}
					return true
				})
				return false
			case *ast.LabeledStmt, *ast.DeferStmt, *ast.GoStmt:
				ok = false
			case *ast.BranchStmt:
				switch t.Tok {
				case token.GOTO, token.FALLTHROUGH:
					if t.Tok == token.GOTO {
						ok = false
					}
				case token.BREAK:
					if t.Label != nil || !(inSwitch || inLoop) {
						ok = false
					}
				case token.CONTINUE:
					if t.Label != nil || !inLoop {
						ok = false
					}
				}
			case *ast.ForStmt:
				if t != n {
					walk(t.Body, false, true)
					if t.Init != nil {
						walk(t.Init, inSwitch, inLoop)
					}
					if t.Post != nil {
						walk(t.Post, inSwitch, inLoop)
					}
					return false
				}
			case *ast.RangeStmt:
				if t != n {
					if t.Tok == token.ASSIGN && (t.Key != nil && isVar(t.Key) || t.Value != nil && isVar(t.Value)) {
						ok = false
					}
					walk(t.Body, false, true)
					return false
				}
			case *ast.SwitchStmt:
				if t != n {
					if t.Init != nil {
						walk(t.Init, inSwitch, inLoop)
					}
					walk(t.Body, true, inLoop)
					return false
				}
			case *ast.TypeSwitchStmt:
				if t != n {
					walk(t.Body, true, inLoop)
					return false
				}
			case *ast.SelectStmt:
				if t != n {
					walk(t.Body, true, inLoop)
					return false
				}
			case *ast.AssignStmt:
				for _, l := range t.Lhs {
					if isVar(l) {
						ok = false
					}
					if id, isId := l.(*ast.Ident); isId && t.Tok == token.DEFINE && names[id.Name] {
						ok = false
					}
				}
			case *ast.IncDecStmt:
				if isVar(t.X) {
					ok = false
				}
			case *ast.UnaryExpr:
				if t.Op == token.AND && isVar(t.X) {
					ok = false
				}
			case *ast.ValueSpec:
				for _, id := range t.Names {
					if names[id.Name] {
						ok = false
					}
				}
			}
			return true
		})
	}
	walk(body, false, false)
	return ok
}

type counterSpec struct {
	name  string
	typ   string
	turns []int64
}

func (c *Ctx) constInt64(e ast.Expr) (int64, bool) {
	tv, ok := c.Info.Types[e]
	if !ok || tv.Value == nil || tv.Value.Kind() != constant.Int {
		return 0, false
	}
	return constant.Int64Val(tv.Value)
}

// counterLoop: for k := A; k < N; k++ (or <=, or k += S) with constants.
func counterLoop(c *Ctx, f *ast.ForStmt) (counterSpec, bool) {
	var sp counterSpec
	init, ok := f.Init.(*ast.AssignStmt)
	if !ok || init.Tok != token.DEFINE || len(init.Lhs) != 1 || len(init.Rhs) != 1 {
		return sp, false
	}
	id, ok := init.Lhs[0].(*ast.Ident)
	if !ok {
		return sp, false
	}
	v := c.Info.Defs[id]
	if v == nil {
		return sp, false
	}
	bt, ok := v.Type().Underlying().(*types.Basic)
	if !ok || bt.Info()&types.IsInteger == 0 {
		return sp, false
	}
	a, ok := c.constInt64(init.Rhs[0])
	if !ok {
		return sp, false
	}
	cond, ok := f.Cond.(*ast.BinaryExpr)
	if !ok || !c.isIdentOf(cond.X, v) || (cond.Op != token.LSS && cond.Op != token.LEQ) {
		return sp, false
	}
	n, ok := c.constInt64(cond.Y)
	if !ok {
		return sp, false
	}
	if cond.Op == token.LEQ {
		n++
	}
	step := int64(0)
	switch p := f.Post.(type) {
	case *ast.IncDecStmt:
		if p.Tok == token.INC && c.isIdentOf(p.X, v) {
			step = 1
		}
	case *ast.AssignStmt:
		if p.Tok == token.ADD_ASSIGN && len(p.Lhs) == 1 && len(p.Rhs) == 1 && c.isIdentOf(p.Lhs[0], v) {
			if s, ok := c.constInt64(p.Rhs[0]); ok && s > 0 {
				step = s
			}
		}
	}
	if step == 0 {
		return sp, false
	}
	for k := a; k < n; k += step {
		sp.turns = append(sp.turns, k)
		if len(sp.turns) > maxUnroll {
			return sp, false
		}
	}
	if len(sp.turns) == 0 || !bodyKeepsLoopVar(c, f.Body, []types.Object{v}) {
		return sp, false
	}
	sp.name, sp.typ = id.Name, types.TypeString(v.Type(), func(p *types.Package) string {
		if p == c.Types {
			return ""
		}
		return p.Name()
	})
	return sp, true
}

type tableSpec struct {
	keyName string // "" when not used
	keyType string
	valName string
	// per element: field name -> expression text ("" key: the element itself, for scalar elements)
	elems []map[string]string
}

// stableExpr classifies an element expression: 0 not acceptable, 1 made of constants and addresses only, 2 reads
// variables (selector chains); reads are collected.
func stableExpr(c *Ctx, e ast.Expr, reads *[]string) int {
	e = ast.Unparen(e)
	if tv, ok := c.Info.Types[e]; ok && tv.Value != nil {
		return 1
	}
	chain := func(x ast.Expr) bool {
		for {
			switch t := ast.Unparen(x).(type) {
			case *ast.Ident:
				_, isVar := c.objOfIdent(t).(*types.Var)
				return isVar
			case *ast.SelectorExpr:
				if c.fieldOf(t) == nil {
					return false
				}
				x = t.X
			default:
				return false
			}
		}
	}
	switch t := e.(type) {
	case *ast.UnaryExpr:
		if t.Op == token.AND && chain(t.X) {
			// the address is computed from the chain's base variable: the body must not assign that variable
			x := ast.Unparen(t.X)
			for {
				if se, ok := x.(*ast.SelectorExpr); ok {
					x = ast.Unparen(se.X)
					continue
				}
				break
			}
			if id, ok := x.(*ast.Ident); ok {
				*reads = append(*reads, "&"+id.Name)
			}
			return 1
		}
		return 0
	case *ast.Ident, *ast.SelectorExpr:
		if chain(e) {
			*reads = append(*reads, types.ExprString(e))
			return 2
		}
		if id, ok := e.(*ast.Ident); ok {
			if _, isNil := c.objOfIdent(id).(*types.Nil); isNil {
				return 1
			}
		}
		return 0
	}
	return 0
}

// tableLoop: for i, x := range [...]T{e0, e1, ...} { body }.
func tableLoop(c *Ctx, rs *ast.RangeStmt) (tableSpec, bool) {
	var sp tableSpec
	if rs.Tok != token.DEFINE {
		return sp, false
	}
	lit, ok := ast.Unparen(rs.X).(*ast.CompositeLit)
	if !ok || len(lit.Elts) == 0 || len(lit.Elts) > maxUnroll {
		return sp, false
	}
	var elemT types.Type
	switch t := c.Info.TypeOf(lit).Underlying().(type) {
	case *types.Array:
		elemT = t.Elem()
	case *types.Slice:
		elemT = t.Elem()
	default:
		return sp, false
	}
	var vars []types.Object
	var keyObj, valObj types.Object
	if id, ok := rs.Key.(*ast.Ident); ok && id.Name != "_" {
		keyObj = c.Info.Defs[id]
		sp.keyName = id.Name
		sp.keyType = "int"
		vars = append(vars, keyObj)
	} else if rs.Key != nil && !ok {
		return sp, false
	}
	if rs.Value != nil {
		id, ok := rs.Value.(*ast.Ident)
		if !ok {
			return sp, false
		}
		if id.Name != "_" {
			valObj = c.Info.Defs[id]
			sp.valName = id.Name
			vars = append(vars, valObj)
		}
	}
	if !bodyKeepsLoopVar(c, rs.Body, vars) {
		return sp, false
	}
	st, isStruct := elemT.Underlying().(*types.Struct)
	var reads []string
	level := 1
	for _, el := range lit.Elts {
		if _, keyed := el.(*ast.KeyValueExpr); keyed {
			return sp, false // index: value elements
		}
		m := map[string]string{}
		if cl, isCL := ast.Unparen(el).(*ast.CompositeLit); isCL && isStruct {
			for i, fe := range cl.Elts {
				name := ""
				val := fe
				if kv, isKV := fe.(*ast.KeyValueExpr); isKV {
					kid, ok := kv.Key.(*ast.Ident)
					if !ok {
						return sp, false
					}
					name, val = kid.Name, kv.Value
				} else if i < st.NumFields() {
					name = st.Field(i).Name()
				} else {
					return sp, false
				}
				lv := stableExpr(c, val, &reads)
				if lv == 0 {
					return sp, false
				}
				if lv > level {
					level = lv
				}
				m[name] = typeExprString(c, val)
			}
		} else if !isStruct {
			lv := stableExpr(c, el, &reads)
			if lv == 0 {
				return sp, false
			}
			if lv > level {
				level = lv
			}
			m[""] = typeExprString(c, el)
		} else {
			return sp, false
		}
		sp.elems = append(sp.elems, m)
	}
	// every use of the value variable: x.f for struct elements (f given by every element), x itself for scalars
	okUses := true
	if valObj != nil {
		parentSel := map[*ast.Ident]*ast.SelectorExpr{}
		ast.Inspect(rs.Body, func(n ast.Node) bool {
			if se, ok := n.(*ast.SelectorExpr); ok {
				if id, ok := ast.Unparen(se.X).(*ast.Ident); ok {
					parentSel[id] = se
				}
			}
			return true
		})
		ast.Inspect(rs.Body, func(n ast.Node) bool {
			id, ok := n.(*ast.Ident)
			if !ok || c.Info.Uses[id] != valObj {
				return true
			}
			if isStruct {
				se := parentSel[id]
				if se == nil {
					okUses = false
					return true
				}
				for _, m := range sp.elems {
					if _, has := m[se.Sel.Name]; !has {
						okUses = false
					}
				}
			}
			return true
		})
	}
	if !okUses {
		return sp, false
	}
	// the base variable of an address element is not assigned in the body
	for _, rd := range reads {
		if !strings.HasPrefix(rd, "&") {
			continue
		}
		base := rd[1:]
		okBase := true
		ast.Inspect(rs.Body, func(n ast.Node) bool {
			switch t := n.(type) {
			case *ast.AssignStmt:
				for _, l := range t.Lhs {
					if identName(l) == base {
						okBase = false
					}
				}
			case *ast.IncDecStmt:
				if identName(t.X) == base {
					okBase = false
				}
			case *ast.UnaryExpr:
				if t.Op == token.AND && identName(t.X) == base {
					okBase = false
				}
			}
			return true
		})
		if !okBase {
			return sp, false
		}
	}
	if level == 2 {
		// the elements read variables: the body must not be able to change what they read
		safe := true
		ast.Inspect(rs.Body, func(n ast.Node) bool {
			switch t := n.(type) {
			case *ast.CallExpr:
				if tv, ok := c.Info.Types[t.Fun]; ok && tv.IsType() {
					return true // a conversion
				}
				if id, ok := ast.Unparen(t.Fun).(*ast.Ident); ok {
					if _, isB := c.Info.Uses[id].(*types.Builtin); isB && (id.Name == "len" || id.Name == "cap") {
						return true
					}
				}
				safe = false
			case *ast.AssignStmt:
				for _, l := range t.Lhs {
					if !plainTarget(c, l, reads, sp.valName) {
						safe = false
					}
				}
			case *ast.IncDecStmt:
				if !plainTarget(c, t.X, reads, sp.valName) {
					safe = false
				}
			case *ast.UnaryExpr:
				if t.Op == token.AND || t.Op == token.ARROW {
					safe = false
				}
			case *ast.SendStmt:
				safe = false
			}
			return true
		})
		if !safe {
			return sp, false
		}
	}
	return sp, true
}

// plainTarget: an assignment target that is a variable or a selector chain on a variable, is not reached through the
// loop variable, and is neither one of the expressions the elements read nor a prefix of one.
func plainTarget(c *Ctx, l ast.Expr, reads []string, valName string) bool {
	x := ast.Unparen(l)
	for {
		switch t := x.(type) {
		case *ast.Ident:
			if t.Name == "_" {
				return true
			}
			if t.Name == valName {
				return false
			}
			text := types.ExprString(ast.Unparen(l))
			for _, rd := range reads {
				if strings.HasPrefix(rd, "&") {
					continue
				}
				if rd == text || strings.HasPrefix(rd, text+".") || strings.HasPrefix(text, rd+".") {
					return false
				}
			}
			return true
		case *ast.SelectorExpr:
			if c.fieldOf(t) == nil {
				return false
			}
			x = ast.Unparen(t.X)
		default:
			return false // *p = ..., a[i] = ...
		}
	}
}

// unrollNewLoops returns the overlay (file name -> new source) and a description of the loops written out, or nil.
func unrollNewLoops(c *Ctx) (map[string][]byte, []string) {
	changed := map[*ast.File]bool{}
	var notes []string
	for _, cand := range unrollCandidates(c) {
		if baselineLoops[cand.key+"/"+cand.header] {
			continue
		}
		var blocks []ast.Stmt
		okAll := true
		switch t := cand.stmt.(type) {
		case *ast.ForStmt:
			sp, _ := counterLoop(c, t)
			body := nodeString(c, t.Body)
			for _, k := range sp.turns {
				src := fmt.Sprintf("{\nconst %s %s = %d\n%s\n}", sp.name, sp.typ, k, body)
				sts, ok := parseStmts(src)
				if !ok || len(sts) != 1 {
					okAll = false
					break
				}
				blocks = append(blocks, sts[0])
			}
		case *ast.RangeStmt:
			sp, _ := tableLoop(c, t)
			body := nodeString(c, t.Body)
			for i, m := range sp.elems {
				src := "{\n"
				if sp.keyName != "" {
					src += fmt.Sprintf("const %s %s = %d\n", sp.keyName, sp.keyType, i)
				}
				src += body + "\n}"
				sts, ok := parseStmts(src)
				if !ok || len(sts) != 1 {
					okAll = false
					break
				}
				blk := sts[0]
				if sp.valName != "" {
					astutil.Apply(blk, func(cur *astutil.Cursor) bool {
						switch n := cur.Node().(type) {
						case *ast.SelectorExpr:
							if id, ok := ast.Unparen(n.X).(*ast.Ident); ok && id.Name == sp.valName {
								if txt, has := m[n.Sel.Name]; has {
									cur.Replace(&ast.ParenExpr{X: parseExpr(txt)})
									return false
								}
							}
						case *ast.Ident:
							if txt, has := m[""]; has && n.Name == sp.valName {
								if _, isSel := cur.Parent().(*ast.SelectorExpr); isSel && cur.Name() == "Sel" {
									return true
								}
								if _, isKV := cur.Parent().(*ast.KeyValueExpr); isKV && cur.Name() == "Key" {
									return true
								}
								cur.Replace(&ast.ParenExpr{X: parseExpr(txt)})
								return false
							}
						}
						return true
					}, nil)
				}
				// *(&x.f) is x.f
				astutil.Apply(blk, nil, func(cur *astutil.Cursor) bool {
					if st, ok := cur.Node().(*ast.StarExpr); ok {
						if u, ok := ast.Unparen(st.X).(*ast.UnaryExpr); ok && u.Op == token.AND {
							cur.Replace(ast.Unparen(u.X))
						}
					}
					return true
				})
				blocks = append(blocks, blk)
			}
		}
		if !okAll || len(blocks) == 0 {
			continue
		}
		done := false
		astutil.Apply(cand.fd.Body, func(cur *astutil.Cursor) bool {
			if cur.Node() == ast.Node(cand.stmt) {
				cur.Replace(&ast.BlockStmt{List: blocks})
				done = true
				return false
			}
			return !done
		}, nil)
		if done {
			changed[c.fileOf[cand.fd]] = true
			notes = append(notes, fmt.Sprintf("%s: for %s (%d turns)", cand.key, cand.header, len(blocks)))
		}
	}
	if len(changed) == 0 {
		return nil, nil
	}
	overlay := map[string][]byte{}
	for f := range changed {
		f.Comments = nil
		var buf bytes.Buffer
		if err := format.Node(&buf, token.NewFileSet(), f); err != nil {
			return nil, nil
		}
		overlay[c.Fset.Position(f.Package).Filename] = buf.Bytes()
	}
	return overlay, notes
}

func nodeString(c *Ctx, n ast.Node) string {
	var buf bytes.Buffer
	format.Node(&buf, c.Fset, n)
	return buf.String()
}
