package main

import (
	"fmt"
	"go/token"
	"go/types"
	"sort"
	"strings"

	"golang.org/x/tools/go/ssa"
)

// Rules added after the fourth round of independent breaking changes (part 3: nil guards, formatted text).

// nullableFuncs: module functions with a single result of interface or pointer type that return the nil constant
// on some path (makeSVCBKeyValue for the reserved key). A caller has to test the result before using it.
func nullableFuncs(c *Ctx) map[*ssa.Function]bool {
	out := map[*ssa.Function]bool{}
	for _, f := range c.allFuncs() {
		res := f.Signature.Results()
		if res.Len() != 1 {
			continue
		}
		switch res.At(0).Type().Underlying().(type) {
		case *types.Interface, *types.Pointer:
		default:
			continue
		}
		for _, b := range f.Blocks {
			if len(b.Instrs) == 0 {
				continue
			}
			ret, ok := b.Instrs[len(b.Instrs)-1].(*ssa.Return)
			if !ok || len(ret.Results) != 1 {
				continue
			}
			if k, ok := ret.Results[0].(*ssa.Const); ok && k.Value == nil {
				out[f] = true
			}
		}
	}
	return out
}

// derefUses: the instructions that need v to be non-nil: a method call through the interface, a field or element
// selected through the pointer, a load through it.
func derefUses(v ssa.Value) []ssa.Instruction {
	var out []ssa.Instruction
	for _, ref := range *v.Referrers() {
		switch t := ref.(type) {
		case ssa.CallInstruction:
			if t.Common().IsInvoke() && t.Common().Value == v {
				out = append(out, ref)
			}
		case *ssa.FieldAddr:
			if t.X == v {
				out = append(out, ref)
			}
		case *ssa.UnOp:
			if t.Op == token.MUL && t.X == v {
				out = append(out, ref)
			}
		case *ssa.TypeAssert:
			if !t.CommaOk && t.X == v {
				out = append(out, ref)
			}
		}
	}
	return out
}

// nonNilAt: a dominating branch outcome says that `same(x)` is not nil.
func nonNilAt(fn *ssa.Function, blk *ssa.BasicBlock, same func(ssa.Value) bool) bool {
	for _, f := range factsAt(fn, blk) {
		bin, ok := f.Atom.(*ssa.BinOp)
		if !ok || (bin.Op != token.EQL && bin.Op != token.NEQ) {
			continue
		}
		x, y := bin.X, bin.Y
		if k, isK := x.(*ssa.Const); isK && k.Value == nil {
			x, y = y, x
		}
		k, isK := y.(*ssa.Const)
		if !isK || k.Value != nil || !same(x) {
			continue
		}
		if (bin.Op == token.NEQ && f.Holds) || (bin.Op == token.EQL && !f.Holds) {
			return true
		}
	}
	return false
}

// c02NilResults: in the decoders, the result of a function that may return nil is tested before it is used.
func c02NilResults(c *Ctx, r *Report, rule string, fns []*ssa.Function) {
	r.rule(rule, 1, "the result of a constructor that returns nil for some codes (makeSVCBKeyValue) is tested against nil before a method is called on it or a field is selected through it")
	nullable := nullableFuncs(c)
	n := 0
	for _, f := range fns {
		allInstrs(f, func(in ssa.Instruction) {
			call, ok := in.(*ssa.Call)
			if !ok {
				return
			}
			g := call.Call.StaticCallee()
			if g == nil || !nullable[g] {
				return
			}
			uses := derefUses(call)
			// through one phi / one change of interface type
			for _, ref := range *call.Referrers() {
				switch t := ref.(type) {
				case *ssa.Phi:
					uses = append(uses, derefUses(t)...)
				case *ssa.ChangeInterface:
					uses = append(uses, derefUses(t)...)
				}
			}
			for _, u := range uses {
				n++
				construct := fmt.Sprintf("%s:%s#%d", fnDisplay(f), g.Name(), n)
				guarded := nonNilAt(f, u.Block(), func(v ssa.Value) bool { return v == ssa.Value(call) })
				r.check(guarded, rule, construct, c.pos(u.Pos()), "tested != nil on every path to the use", "the result of %s is used here without a nil test on the way: %s returns nil for some inputs, and the decoder then panics with a nil dereference instead of returning an error", g.Name(), g.Name())
			}
		})
	}
	if n == 0 {
		r.undecided(rule, "decoders", "", "no use of a nullable constructor's result found in the decoders")
	}
}

// nullableFields: unexported pointer fields of module structs that some module code compares with nil.
func nullableFields(c *Ctx) map[*types.Var]bool {
	out := map[*types.Var]bool{}
	for _, f := range c.allFuncs() {
		for _, sub := range withAnon(f) {
			allInstrs(sub, func(in ssa.Instruction) {
				bin, ok := in.(*ssa.BinOp)
				if !ok || (bin.Op != token.EQL && bin.Op != token.NEQ) {
					return
				}
				x, y := bin.X, bin.Y
				if k, isK := x.(*ssa.Const); isK && k.Value == nil {
					x, y = y, x
				}
				if k, isK := y.(*ssa.Const); !isK || k.Value != nil {
					return
				}
				ld, ok := x.(*ssa.UnOp)
				if !ok || ld.Op != token.MUL {
					return
				}
				fa, ok := ld.X.(*ssa.FieldAddr)
				if !ok {
					return
				}
				v := fieldVarOf(fa)
				if v == nil || v.Exported() {
					return
				}
				if _, isPtr := v.Type().Underlying().(*types.Pointer); isPtr {
					out[v] = true
				}
			})
		}
	}
	return out
}

// nilFieldExempt: optional fields the rule does not decide, one line of reason each.
var nilFieldExempt = map[string]string{
	"ZoneParser.sub": "the sub-parser is driven through zp.sub.Next(), which writes the same field of another object (the sub-parser's own sub); the type-based may-write oracle cannot tell the two objects apart, so no nil test survives the call",
}

// c07NilFields: "reading records terminates without panicking", the nil-dereference part for the parser's own
// optional state: a pointer field of ZoneParser / zlexer that the code itself compares with nil somewhere (so nil is
// a legal value of it) is dereferenced only where a test of the same memory version, or the allocation that was just
// stored into it, shows it non-nil.
func c07NilFields(c *Ctx, r *Report, rule string) {
	r.rule(rule, 4, "an optional (nil-compared) pointer field of the parser state is dereferenced only under a nil test of the same value or right after an allocation was stored into it")
	if theModOracle == nil || theModOracle.prog != c.Prog {
		theModOracle = newModOracle(c)
	}
	nullable := nullableFields(c)
	e := newAliasEngine(c)
	var entries []*ssa.Function
	for _, n := range []string{"ZoneParser.Next", "ZoneParser.generate", "generateReader.ReadByte", "zlexer.Next", "ZoneParser.subNext", "ZoneParser.Err", "ZoneParser.Comment"} {
		if f := c.ssaFunc(n); f != nil {
			entries = append(entries, f)
		}
	}
	scope := e.reachable(entries)
	var fns []*ssa.Function
	for f := range scope {
		fns = append(fns, f)
	}
	sort.Slice(fns, func(i, j int) bool { return fnDisplay(fns[i]) < fnDisplay(fns[j]) })
	counter := map[string]int{}
	noted := map[*types.Var]bool{}
	for _, f := range fns {
		allInstrs(f, func(in ssa.Instruction) {
			ld, ok := in.(*ssa.UnOp)
			if !ok || ld.Op != token.MUL {
				return
			}
			fa, ok := ld.X.(*ssa.FieldAddr)
			if !ok {
				return
			}
			v := fieldVarOf(fa)
			if v == nil || !nullable[v] {
				return
			}
			if why, ex := nilFieldExempt[derefNamed(fa.X.Type()).Obj().Name()+"."+v.Name()]; ex {
				if !noted[v] {
					noted[v] = true
					r.note("%s: %s.%s is not decided: %s", rule, derefNamed(fa.X.Type()).Obj().Name(), v.Name(), why)
				}
				return
			}
			uses := derefUses(ld)
			if len(uses) == 0 {
				return
			}
			key, isCell := cellEpoch(ld)
			for _, u := range uses {
				base := fmt.Sprintf("%s:%s", fnDisplay(f), v.Name())
				counter[base]++
				construct := fmt.Sprintf("%s#%d", base, counter[base])
				guarded := nonNilAt(f, u.Block(), func(x ssa.Value) bool {
					if x == ssa.Value(ld) {
						return true
					}
					if !isCell {
						return false
					}
					k2, ok := cellEpoch(x)
					return ok && k2 == key
				})
				why := "tested != nil in the same memory version"
				if !guarded && isCell {
					// every write the value can stem from stores a fresh allocation
					if _, base, path, okc := cellOf(ld); okc {
						prefix := fmt.Sprintf("%p%s@", base, path)
						if strings.HasPrefix(key, prefix) {
							defs, okd := versionDefs(f, base, path, key[len(prefix):])
							all := okd && len(defs) > 0
							for _, d := range defs {
								st, isSt := d.(*ssa.Store)
								if !isSt {
									all = false
									break
								}
								if _, isAlloc := st.Val.(*ssa.Alloc); !isAlloc {
									all = false
								}
							}
							if all {
								guarded, why = true, "an allocation was stored into the field on every path"
							}
						}
					}
				}
				r.check(guarded, rule, construct, c.pos(u.Pos()), why, "%s.%s is compared with nil elsewhere (it is optional state) but is dereferenced here with no nil test of the same value on the way: a zone text that reaches this line while the field is still nil makes the parser panic", derefNamed(fa.X.Type()).Obj().Name(), v.Name())
			}
		})
	}
}

// fmtMinLen: the smallest length a fmt.Sprintf format can produce, from literal text and from the minimum widths /
// precisions of integer verbs (%04d, %0.16X, %12.12x). ok is false for formats with * or argument indexes.
func fmtMinLen(format string) (n int64, ok bool) {
	i := 0
	for i < len(format) {
		if format[i] != '%' {
			n++
			i++
			continue
		}
		i++
		if i >= len(format) {
			return n, false
		}
		if format[i] == '%' {
			n++
			i++
			continue
		}
		for i < len(format) && strings.ContainsRune("+-# 0", rune(format[i])) {
			i++
		}
		width, prec := int64(0), int64(0)
		for i < len(format) && format[i] >= '0' && format[i] <= '9' {
			width = width*10 + int64(format[i]-'0')
			i++
		}
		if i < len(format) && format[i] == '.' {
			i++
			for i < len(format) && format[i] >= '0' && format[i] <= '9' {
				prec = prec*10 + int64(format[i]-'0')
				i++
			}
		}
		if i >= len(format) || format[i] == '*' || format[i] == '[' {
			return n, false
		}
		verb := format[i]
		i++
		m := width
		if strings.ContainsRune("dxXobB", rune(verb)) && prec > m {
			m = prec // precision is the minimum number of digits for integers
		}
		n += m
	}
	return n, true
}

// c02PrintFormatted: "whatever it accepts can then be printed without panicking", for the printers that cut a
// formatted number into groups: every slice of a string produced by a formatting call is within the length the format
// guarantees (a fixed width / precision in the fmt.Sprintf format).
func c02PrintFormatted(c *Ctx, r *Report, rule string) {
	r.rule(rule, 20, "every slice of a formatted number in the String methods stays within the minimum length its fmt.Sprintf format guarantees")
	e := newAliasEngine(c)
	var entries []*ssa.Function
	for _, T := range c.rrTypes() {
		if f := c.ssaFunc(T.Name + ".String"); f != nil {
			entries = append(entries, f)
		}
	}
	scope := e.reachable(entries)
	var fns []*ssa.Function
	for f := range scope {
		fns = append(fns, f)
	}
	sort.Slice(fns, func(i, j int) bool { return fnDisplay(fns[i]) < fnDisplay(fns[j]) })
	saved := withStrings
	withStrings = true
	defer func() { withStrings = saved }()
	bp := newBoundsProver(c, e, scope)
	counter := map[string]int{}
	isFormatted := func(v ssa.Value) bool {
		for _, l := range phiLeaves(v) {
			call, ok := l.(*ssa.Call)
			if !ok {
				continue
			}
			g := call.Call.StaticCallee()
			if g != nil && g.Pkg != nil && g.Pkg != c.SSA {
				switch g.Pkg.Pkg.Path() {
				case "fmt", "strconv", "strings", "encoding/hex":
					return true
				}
			}
		}
		return false
	}
	for _, f := range fns {
		for _, s := range boundSites(f) {
			if !isFormatted(s.Buf) {
				continue
			}
			bp.prove(s)
			r.fn(fnDisplay(f))
			base := fmt.Sprintf("%s:%s", fnDisplay(f), s.describe())
			counter[base]++
			construct := base
			if counter[base] > 1 {
				construct = fmt.Sprintf("%s#%d", base, counter[base])
			}
			r.check(s.Proven, rule, construct, c.pos(s.Instr.Pos()), s.Why, "the slice %s of a formatted value is not within the length the formatting call guarantees (%s): for field values that print shorter (leading zeros) String() panics on a record the decoder accepted", s.describe(), s.Why)
		}
	}
}

// c05DDDGuards: every walker over presentation text recognises a \DDD escape by isDDD(rest) alone. A length test
// conjoined with it is harmless exactly when isDDD's own postcondition (true only for arguments of at least three
// octets) together with what is known on entry to the escape case implies it; a stricter test makes this walker
// disagree with the others about where an escape ends (the 255-octet chunker cutting a string inside its last \DDD).
func c05DDDGuards(c *Ctx, r *Report, rule string) {
	r.rule(rule, 5, "an ordering test conjoined with isDDD(rest) in an escape walker is implied by isDDD's postcondition (len(rest) >= 3): no walker recognises fewer \\DDD escapes than isDDD does")
	isDDD := c.ssaFunc("isDDD")
	if isDDD == nil {
		r.cerr(rule, "isDDD", "function not found")
		return
	}
	e := newAliasEngine(c)
	var fns []*ssa.Function
	scope := map[*ssa.Function]bool{}
	for _, f := range c.allFuncs() {
		for _, sub := range withAnon(f) {
			if len(callsOfGeneric(sub, isDDD)) > 0 {
				fns = append(fns, sub)
				scope[sub] = true
			}
		}
	}
	sort.Slice(fns, func(i, j int) bool { return fnDisplay(fns[i]) < fnDisplay(fns[j]) })
	saved := withStrings
	withStrings = true
	defer func() { withStrings = saved }()
	bp := newBoundsProver(c, e, scope)
	for _, f := range fns {
		r.fn(fnDisplay(f))
		for i, ci := range callsOfGeneric(f, isDDD) {
			call, ok := ci.(*ssa.Call)
			if !ok {
				continue
			}
			construct := fmt.Sprintf("%s:isDDD#%d", fnDisplay(f), i+1)
			// the branch on the result
			var iff *ssa.If
			for _, ref := range *call.Referrers() {
				if x, ok := ref.(*ssa.If); ok {
					iff = x
				}
			}
			if iff == nil {
				r.undecided(rule, construct, c.pos(call.Pos()), "the result of isDDD does not directly decide a branch")
				continue
			}
			bTrue := iff.Block().Succs[0]
			facts := factsAt(f, bTrue)
			// the entry of the escape case: the latest dominating comparison of a character with '\\'
			var entry, bsTest *ssa.BasicBlock
			for _, ft := range facts {
				bin, ok := ft.Atom.(*ssa.BinOp)
				if !ok || (bin.Op != token.EQL && bin.Op != token.NEQ) {
					continue
				}
				k, isK := constIntOf(bin.Y)
				if !isK || k != '\\' || ft.If == nil {
					continue
				}
				isBackslash := (bin.Op == token.EQL) == ft.Holds
				if !isBackslash {
					continue
				}
				bsTest = ft.If.Block()
				if ft.Holds {
					entry = ft.If.Block().Succs[0]
				} else {
					entry = ft.If.Block().Succs[1]
				}
			}
			if entry == nil {
				r.undecided(rule, construct, c.pos(call.Pos()), "no dominating test of a character against the backslash found")
				continue
			}
			atEntry := map[*ssa.If]bool{}
			for _, ft := range factsAt(f, entry) {
				atEntry[ft.If] = true
			}
			env := newLinEnv()
			base := bp.factsAtPoint(f, entry, []Fact{{If: iff, Atom: call, Holds: true}}, env)
			var bad []string
			for _, ft := range facts {
				if ft.If == iff || atEntry[ft.If] {
					continue
				}
				bin, ok := ft.Atom.(*ssa.BinOp)
				if !ok {
					continue
				}
				switch bin.Op {
				case token.LSS, token.LEQ, token.GTR, token.GEQ:
				default:
					continue
				}
				// conjoined with the recogniser: the other outcome of this test falls into the not-\DDD handling
				// (a test whose other outcome leaves the walker, e.g. an error return, constrains both arms alike)
				other := ft.If.Block().Succs[1]
				if !ft.Holds {
					other = ft.If.Block().Succs[0]
				}
				bFalse := iff.Block().Succs[1]
				if !reach(other, nil, map[*ssa.BasicBlock]bool{iff.Block(): true, bsTest: true})[bFalse] {
					continue
				}
				for _, lf := range env.factsFrom(ft) {
					if !env.entailsLin(base, lf.lf) {
						bad = append(bad, fmt.Sprintf("%s: %v=%v is not implied by isDDD(rest)", c.pos(ft.If.Pos()), ft.Atom, ft.Holds))
					}
				}
			}
			r.check(len(bad) == 0, rule, construct, c.pos(call.Pos()), "isDDD alone (or with tests it implies)", "%s: a \\DDD escape at the position that test excludes is read as a quoted pair followed by digits here, while isDDD and the other walkers take it as one octet (a 255-octet string ending in a non-printable octet is cut inside its last escape and reads back as different RDATA)", strings.Join(bad, "; "))
		}
	}
}

// callsOfGeneric: the calls in g of callee or of one of its instantiations.
func callsOfGeneric(g, callee *ssa.Function) []ssa.CallInstruction {
	var out []ssa.CallInstruction
	allInstrs(g, func(in ssa.Instruction) {
		ci, ok := in.(ssa.CallInstruction)
		if !ok {
			return
		}
		sc := ci.Common().StaticCallee()
		if sc != nil && (sc == callee || sc.Origin() == callee) {
			out = append(out, ci)
		}
	})
	return out
}

// ttlNoWrap: stringToTTL's accumulators cannot wrap: they are 64 bits wide on every platform and each value carried
// round the loop is bounded by a rejecting comparison with a constant of at most 2^32 (so the largest product,
// bound * 604800, stays far below 2^64).
func ttlNoWrap(c *Ctx, r *Report, rule string) {
	r.rule(rule, 2, "stringToTTL's accumulators are 64-bit on every platform and are bounded by 2^32 on every way round the loop (no wrap-around)")
	fn := c.ssaFunc("stringToTTL")
	if fn == nil {
		r.cerr(rule, "stringToTTL", "function not found")
		return
	}
	r.fn("stringToTTL")
	sizes32 := types.SizesFor("gc", "386")
	n := 0
	allInstrs(fn, func(in ssa.Instruction) {
		phi, ok := in.(*ssa.Phi)
		if !ok {
			return
		}
		bt, ok := phi.Type().Underlying().(*types.Basic)
		if !ok || bt.Info()&types.IsInteger == 0 {
			return
		}
		// a loop-header phi: one of its edges comes from a block it dominates
		hdr := phi.Block()
		isHeader := false
		for _, p := range hdr.Preds {
			if hdr.Dominates(p) {
				isHeader = true
			}
		}
		if !isHeader {
			return
		}
		// only accumulators: some back-edge value is arithmetic on the phi (through the switch's merge phis)
		arith := false
		for _, l := range phiLeaves(phi) {
			if b, ok := l.(*ssa.BinOp); ok && (b.Op == token.ADD || b.Op == token.MUL) {
				arith = true
			}
		}
		if !arith {
			return
		}
		// an index over the text (i := 0; i < len(token); i++) is not an accumulator: it steps by one below a length
		if isLenBoundedCounter(phi) {
			return
		}
		n++
		name := phi.Comment
		if name == "" {
			name = phi.Name()
		}
		construct := "stringToTTL:" + name
		var problems []string
		if sizes32.Sizeof(bt) < 8 {
			problems = append(problems, fmt.Sprintf("the accumulator is a %s, 32 bits wide on 32-bit platforms: 4294967296 wraps to 0 there", bt.Name()))
		}
		for i, e := range phi.Edges {
			pred := hdr.Preds[i]
			if !hdr.Dominates(pred) {
				continue
			}
			if _, isK := e.(*ssa.Const); isK {
				continue
			}
			_, hi, _, hasHi := intervalAt(fn, pred, isValue(e))
			if ef, ok := edgeFact(pred, hdr); ok {
				if _, h2, _, has2 := intervalFromFact(ef, isValue(e)); has2 && (!hasHi || h2 < hi) {
					hi, hasHi = h2, true
				}
			}
			if !hasHi || hi > 1<<32 {
				problems = append(problems, fmt.Sprintf("the value carried round the loop (%s) is not bounded by a rejecting comparison: enough digits (or a unit suffix after a large number) wrap the accumulator, and a TTL such as 18446744073709551617 is accepted as 1", describeValue(e)))
			}
		}
		r.check(len(problems) == 0, rule, construct, c.pos(phi.Pos()), "64-bit, bounded by 2^32 each round", "%s", strings.Join(problems, "; "))
	})
	if n == 0 {
		r.undecided(rule, "stringToTTL", c.pos(fn.Pos()), "no accumulator found in stringToTTL's loop")
	}
}

// endingConsumesLine: the ending* helpers read up to and including the end of the line; a parse method that reads
// another token afterwards (directly or through slurpRemainder) takes it from the next line.
func endingConsumesLine(c *Ctx, r *Report, rule string) {
	r.rule(rule, 20, "no RDATA parser reads a further token after endingToString / endingToTxtSlice returned (they consume the end of the line)")
	enders := map[string]bool{"endingToString": true, "endingToTxtSlice": true}
	readers := map[string]bool{"(zlexer).Next": true, "slurpRemainder": true, "(zlexer).Peek": true}
	for _, T := range c.rrTypes() {
		fn := c.ssaFunc(T.Name + ".parse")
		if fn == nil {
			continue
		}
		for _, sub := range withAnon(fn) {
			n := 0
			allInstrs(sub, func(in ssa.Instruction) {
				ci, ok := in.(ssa.CallInstruction)
				if !ok || !enders[calleeNameSSA(ci.Common())] {
					return
				}
				n++
				r.fn(fnDisplay(sub))
				// any reader call reachable after this call
				var bad []string
				blk := in.Block()
				check := func(x ssa.Instruction) {
					if cj, ok := x.(ssa.CallInstruction); ok && readers[calleeNameSSA(cj.Common())] {
						bad = append(bad, fmt.Sprintf("%s calls %s", c.pos(x.Pos()), calleeNameSSA(cj.Common())))
					}
				}
				for i := instrIndex(in) + 1; i < len(blk.Instrs); i++ {
					check(blk.Instrs[i])
				}
				seen := map[*ssa.BasicBlock]bool{}
				stack := append([]*ssa.BasicBlock{}, blk.Succs...)
				for len(stack) > 0 {
					b := stack[len(stack)-1]
					stack = stack[:len(stack)-1]
					if seen[b] {
						continue
					}
					seen[b] = true
					if b == blk {
						continue // round a loop: the ender itself is called again first
					}
					for _, x := range b.Instrs {
						check(x)
					}
					stack = append(stack, b.Succs...)
				}
				construct := fmt.Sprintf("%s:%s#%d", fnDisplay(sub), calleeNameSSA(ci.Common()), n)
				r.check(len(bad) == 0, rule, construct, c.pos(in.Pos()), "nothing read afterwards", "%s after the rest of the line (newline included) was consumed: the first token of the next line is swallowed, and a record or directive that directly follows this one fails with 'garbage after rdata'", strings.Join(uniqStrings(bad), "; "))
			})
		}
	}
}

// rfc3597Whole: converting the generic \# form into the known type decodes exactly the stated octets: the offset
// the type's unpack returns is compared with the length of the RDATA.
func rfc3597Whole(c *Ctx, r *Report, rule string) {
	r.rule(rule, 1, "fromRFC3597 checks that the known type's unpack consumed the RDATA exactly")
	fn := c.ssaFunc("RFC3597.fromRFC3597")
	if fn == nil {
		r.cerr(rule, "RFC3597.fromRFC3597", "function not found")
		return
	}
	r.fn("RFC3597.fromRFC3597")
	n := 0
	allInstrs(fn, func(in ssa.Instruction) {
		call, ok := in.(*ssa.Call)
		if !ok || !call.Call.IsInvoke() || call.Call.Method.Name() != "unpack" {
			return
		}
		n++
		compared := false
		for _, ref := range *call.Referrers() {
			ex, ok := ref.(*ssa.Extract)
			if !ok || ex.Index != 0 {
				continue
			}
			for _, r2 := range *ex.Referrers() {
				bin, ok := r2.(*ssa.BinOp)
				if !ok || (bin.Op != token.EQL && bin.Op != token.NEQ) {
					continue
				}
				other := bin.Y
				if other == ssa.Value(ex) {
					other = bin.X
				}
				if lc, ok := other.(*ssa.Call); ok && calleeNameSSA(&lc.Call) == "builtin.len" && lc.Call.Args[0] == call.Call.Args[0] {
					compared = true
				}
			}
		}
		r.check(compared, rule, fmt.Sprintf("fromRFC3597:unpack#%d", n), c.pos(call.Pos()), "off == len(msg)", "the offset returned by the known type's unpack is not compared with the RDATA length: surplus octets of `A \\# 5 0102030405` are dropped silently and the record reads back as something its text does not say (UnpackRR refuses the same octets)")
	})
	if n == 0 {
		r.undecided(rule, "RFC3597.fromRFC3597", c.pos(fn.Pos()), "no call of the known type's unpack found")
	}
}

// c07RdataErrorRebuild: ZoneParser.Next re-issues the RDATA parser's error with the file name filled in. The new
// error keeps all of the old one: the message, the wrapped error (several parsers report through wrappedErr only),
// and the failing token - or the current token when the parser gave none.
func c07RdataErrorRebuild(c *Ctx, r *Report, rule string) {
	nx := c.ssaFunc("ZoneParser.Next")
	if nx == nil {
		r.cerr(rule, "ZoneParser.Next", "function not found")
		return
	}
	var perr ssa.Value
	allInstrs(nx, func(in ssa.Instruction) {
		if call, ok := in.(*ssa.Call); ok && call.Call.IsInvoke() && call.Call.Method.Name() == "parse" {
			perr = call
		}
	})
	if perr == nil {
		r.undecided(rule, "Next:rdata-error", c.pos(nx.Pos()), "the call of the RDATA parser was not found")
		return
	}
	fromErr := func(field string) vpred {
		return func(v ssa.Value) bool {
			ld, ok := v.(*ssa.UnOp)
			if !ok || ld.Op != token.MUL {
				return false
			}
			fa, ok := ld.X.(*ssa.FieldAddr)
			return ok && fa.X == perr && fieldNameOf(fa) == field
		}
	}
	var ps []string
	// where the message goes
	rebuilt := 0
	allInstrs(nx, func(in ssa.Instruction) {
		switch t := in.(type) {
		case ssa.CallInstruction:
			if calleeNameSSA(t.Common()) == "(ZoneParser).setParseError" && anyIn(sliceOf(t.Common().Args[1]), fromErr("err")) {
				rebuilt++
				ps = append(ps, fmt.Sprintf("%s: only the message string of the RDATA parser's error is passed on; an error reported through wrappedErr (APL, IPSECKEY / AMTRELAY gateways, SVCB values, private types) has an empty message, so its text and errors.Unwrap are lost", c.pos(in.Pos())))
			}
		case *ssa.Store:
			fa, ok := t.Addr.(*ssa.FieldAddr)
			if !ok || fieldNameOf(fa) != "err" || !fromErr("err")(t.Val) {
				return
			}
			if nm := derefNamed(fa.X.Type()); nm == nil || nm.Obj().Name() != "ParseError" {
				return
			}
			rebuilt++
			got := map[string]ssa.Value{}
			for _, ref := range *fa.X.Referrers() {
				if f2, ok := ref.(*ssa.FieldAddr); ok {
					for _, r2 := range *f2.Referrers() {
						if s, ok := r2.(*ssa.Store); ok {
							got[fieldNameOf(f2)] = s.Val
						}
					}
				}
			}
			if v := got["file"]; v == nil || !anyIn(sliceOf(v), readsField("ZoneParser", "file")) {
				ps = append(ps, fmt.Sprintf("%s: the re-issued error does not carry zp.file", c.pos(in.Pos())))
			}
			if v := got["wrappedErr"]; v == nil || !fromErr("wrappedErr")(v) {
				ps = append(ps, fmt.Sprintf("%s: the re-issued error drops wrappedErr: errors reported through it lose their text and errors.Unwrap", c.pos(in.Pos())))
			}
			if v := got["lex"]; v == nil || !fromErr("lex")(v) {
				ps = append(ps, fmt.Sprintf("%s: the re-issued error does not carry the failing token", c.pos(in.Pos())))
			} else {
				// a position-less error gets the current token: a store into err.lex under err.lex == lex{}
				sub := false
				allInstrs(nx, func(x ssa.Instruction) {
					s, ok := x.(*ssa.Store)
					if !ok {
						return
					}
					f2, ok := s.Addr.(*ssa.FieldAddr)
					if !ok || f2.X != perr || fieldNameOf(f2) != "lex" {
						return
					}
					for _, f := range factsAt(nx, s.Block()) {
						if b, ok := f.Atom.(*ssa.BinOp); ok && (b.Op == token.EQL || b.Op == token.NEQ) && anyIn(sliceOf(b), fromErr("lex")) {
							sub = true
						}
					}
				})
				if !sub {
					ps = append(ps, fmt.Sprintf("%s: a position-less rdata error is re-issued without substituting the current token", c.pos(in.Pos())))
				}
			}
		}
	})
	if rebuilt == 0 {
		r.undecided(rule, "Next:rdata-error", c.pos(nx.Pos()), "the RDATA parser's error is not re-issued in a recognised way")
		return
	}
	r.check(len(ps) == 0, rule, "Next:rdata-error", c.pos(perr.Pos()), "file, message, wrapped error, token", "%s", strings.Join(ps, "; "))
}

// headerWritten: packRR patches the RDLENGTH into the two octets before headerEnd; that is only sound when
// packHeader, on every success return, has written the whole fixed part of the header (name, type, class, TTL and the
// RDLENGTH placeholder). A success return that skips the writes (an "at the end of the buffer" shortcut) makes packRR
// overwrite the tail of the previous record, or slice msg[-2:] on a short buffer.
func headerWritten(c *Ctx, r *Report, rule, consequence string) {
	r.rule(rule, 1, "every success return of RR_Header.packHeader has passed the writes of name, type, class, TTL and the RDLENGTH placeholder")
	fn := c.ssaFunc("RR_Header.packHeader")
	if fn == nil {
		r.cerr(rule, "RR_Header.packHeader", "function not found")
		return
	}
	r.fn("RR_Header.packHeader")
	want := []string{"packDomainName", "packUint16", "packUint16", "packUint32", "packUint16"}
	var calls []ssa.CallInstruction
	allInstrs(fn, func(in ssa.Instruction) {
		if ci, ok := in.(ssa.CallInstruction); ok {
			switch calleeNameSSA(ci.Common()) {
			case "packDomainName", "packUint16", "packUint32":
				calls = append(calls, ci)
			}
		}
	})
	var ps []string
	if len(calls) != len(want) {
		ps = append(ps, fmt.Sprintf("%d field writes, expected %d", len(calls), len(want)))
	}
	for _, ci := range calls {
		removed := map[*ssa.BasicBlock]bool{ci.Block(): true}
		reached := reach(fn.Blocks[0], nil, removed)
		if removed[fn.Blocks[0]] {
			continue
		}
		for b := range reached {
			ret, ok := b.Instrs[len(b.Instrs)-1].(*ssa.Return)
			if !ok || len(ret.Results) != 2 {
				continue
			}
			if k, isK := ret.Results[1].(*ssa.Const); isK && k.Value == nil {
				ps = append(ps, fmt.Sprintf("the success return at %s is reached without the %s at %s", c.pos(ret.Pos()), calleeNameSSA(ci.Common()), c.pos(ci.Pos())))
			}
		}
	}
	r.check(len(ps) == 0, rule, "RR_Header.packHeader", c.pos(fn.Pos()), "5 writes on every success path", "%s: %s", strings.Join(uniqStrings(ps), "; "), consequence)
}

// c16CopyTo: Msg.CopyTo(dst) writes dst's section slices before it reads the receiver's: it must stand aside when
// dst is the receiver; and the copy equals the source only if every section of dst is assigned on every path (a
// destination that is reused keeps nothing of its own).
func c16CopyTo(c *Ctx, r *Report, rule string) {
	r.rule(rule, 2, "Msg.CopyTo returns at once when the destination is the receiver, and otherwise assigns Question, Answer, Ns and Extra of the destination on every path")
	fn := c.ssaFunc("Msg.CopyTo")
	if fn == nil || len(fn.Params) < 2 {
		r.cerr(rule, "Msg.CopyTo", "function not found")
		return
	}
	r.fn("Msg.CopyTo")
	src, dst := fn.Params[0], fn.Params[1]
	var guardRet *ssa.BasicBlock
	for _, b := range fn.Blocks {
		iff, ok := b.Instrs[len(b.Instrs)-1].(*ssa.If)
		if !ok {
			continue
		}
		bin, ok := iff.Cond.(*ssa.BinOp)
		if !ok || (bin.Op != token.EQL && bin.Op != token.NEQ) {
			continue
		}
		if !((bin.X == ssa.Value(src) && bin.Y == ssa.Value(dst)) || (bin.X == ssa.Value(dst) && bin.Y == ssa.Value(src))) {
			continue
		}
		t := b.Succs[0]
		if bin.Op == token.NEQ {
			t = b.Succs[1]
		}
		if _, isRet := t.Instrs[len(t.Instrs)-1].(*ssa.Return); isRet && b == fn.Blocks[0] {
			guardRet = t
		}
	}
	selfSafe := guardRet != nil
	if !selfSafe {
		// the other sound shape: every section of the receiver is read before any section of dst is written
		selfSafe = true
		sections := []string{"Question", "Answer", "Ns", "Extra"}
		for _, wf := range sections {
			for _, st := range storesToField(fn, "Msg", wf) {
				fa, ok := st.Addr.(*ssa.FieldAddr)
				if !ok || fa.X != ssa.Value(dst) {
					continue
				}
				after := reach(st.Block(), nil, nil)
				allInstrs(fn, func(in ssa.Instruction) {
					ld, ok := in.(*ssa.UnOp)
					if !ok || ld.Op != token.MUL {
						return
					}
					lf, ok := ld.X.(*ssa.FieldAddr)
					if !ok || lf.X != ssa.Value(src) {
						return
					}
					isSection := false
					for _, s2 := range sections {
						if fieldNameOf(lf) == s2 {
							isSection = true
						}
					}
					if !isSection {
						return
					}
					if (ld.Block() == st.Block() && instrIndex(ld) > instrIndex(st)) || (ld.Block() != st.Block() && after[ld.Block()]) {
						selfSafe = false
					}
				})
			}
		}
	}
	r.check(selfSafe, rule, "Msg.CopyTo:self", c.pos(fn.Pos()), "dst == receiver returns first (or all reads precede all writes)", "CopyTo re-slices the destination's Answer, Ns and Extra to empty before it ranges over the receiver's; without a `dst == receiver` test first, m.CopyTo(m) empties the message it was asked to copy (a read-only operation destroying its argument)")
	var ps []string
	for _, field := range []string{"Question", "Answer", "Ns", "Extra"} {
		removed := map[*ssa.BasicBlock]bool{}
		for _, st := range storesToField(fn, "Msg", field) {
			if fa, ok := st.Addr.(*ssa.FieldAddr); ok && fa.X == ssa.Value(dst) {
				removed[st.Block()] = true
			}
		}
		if removed[fn.Blocks[0]] {
			continue
		}
		for b := range reach(fn.Blocks[0], nil, removed) {
			if b == guardRet {
				continue
			}
			if ret, ok := b.Instrs[len(b.Instrs)-1].(*ssa.Return); ok {
				ps = append(ps, fmt.Sprintf("the return at %s is reached without dst.%s having been assigned", c.pos(ret.Pos()), field))
			}
		}
	}
	r.check(len(ps) == 0, rule, "Msg.CopyTo:sections", c.pos(fn.Pos()), "4 sections on every path", "%s: a destination that held another message keeps that section, so the copy differs from its source", strings.Join(uniqStrings(ps), "; "))
}

// ecdsaSigLength: an ECDSA signature on the wire is r | s, each exactly as long as the order of the curve
// (RFC 6605 s.4). A verifier that splits whatever it is given in the middle accepts padded variants of a valid
// signature: the length is compared (== / !=) with the curve's size before ecdsa.Verify is reached.
func ecdsaSigLength(c *Ctx, r *Report, rule, fname, consequence string) {
	fn := c.ssaFunc(fname)
	if fn == nil {
		r.cerr(rule, fname, "function not found")
		return
	}
	r.fn(fname)
	n := 0
	for _, ci := range callsIn(fn, "crypto/ecdsa.Verify", "ecdsa.Verify") {
		n++
		args := ci.Common().Args
		// the buffer r and s are cut from: SetBytes(buf[...])
		var buf ssa.Value
		for _, a := range args[len(args)-2:] {
			for o := range sliceOf(a) {
				if call, ok := o.(*ssa.Call); ok && strings.HasSuffix(calleeNameSSA(&call.Call), "Int).SetBytes") {
					if sl, ok := call.Call.Args[len(call.Call.Args)-1].(*ssa.Slice); ok {
						buf = sl.X
					}
				}
			}
		}
		construct := fmt.Sprintf("%s:ecdsa.Verify#%d", fname, n)
		if buf == nil {
			r.undecided(rule, construct, c.pos(ci.Pos()), "r and s are not cut from a byte slice with SetBytes(buf[..])")
			continue
		}
		checked := false
		for _, f := range factsAt(fn, ci.(ssa.Instruction).Block()) {
			bin, ok := f.Atom.(*ssa.BinOp)
			if !ok || (bin.Op != token.EQL && bin.Op != token.NEQ) {
				continue
			}
			isLen := func(v ssa.Value) bool {
				call, ok := v.(*ssa.Call)
				return ok && calleeNameSSA(&call.Call) == "builtin.len" && call.Call.Args[0] == buf
			}
			if (isLen(bin.X) || isLen(bin.Y)) && ((bin.Op == token.EQL && f.Holds) || (bin.Op == token.NEQ && !f.Holds)) {
				checked = true
			}
		}
		r.check(checked, rule, construct, c.pos(ci.Pos()), "len(signature) == 2 * curve size", "the signature is split in the middle without its length having been compared with twice the curve size: %s", consequence)
	}
	if n == 0 {
		r.undecided(rule, fname, c.pos(fn.Pos()), "no ecdsa.Verify call found")
	}
}

// namesEscaped: a domain name held in a record is a string in which special and non-printable octets are escaped
// only if it came from the wire decoder or the zone parser; names set by a program (and accepted by PackDomainName)
// may hold raw octets. Every name field is therefore printed through sprintName, which brings both to the one
// escaped spelling the parser reads back.
func namesEscaped(c *Ctx, r *Report, rule, consequence string) {
	r.rule(rule, 30, "every domain-name field a String method prints goes through sprintName (types without presentation format excepted)")
	nameKinds := map[string]bool{"domain-name": true, "cdomain-name": true, "ipsechost": true, "amtrelayhost": true}
	// no presentation format: String is a comment line (Appendix D)
	noText := map[string]bool{"TSIG": true, "TKEY": true, "OPT": true, "ANY": true, "NULL": true, "NXNAME": true}
	for _, T := range c.rrTypes() {
		if noText[T.Name] {
			continue
		}
		fn := c.ssaFunc(T.Name + ".String")
		if fn == nil {
			continue
		}
		isName := map[string]bool{}
		for _, f := range T.Fields {
			if nameKinds[dnsTagKind(f)] {
				isName[f.Name] = true
			}
		}
		if len(isName) == 0 {
			continue
		}
		counter := map[string]int{}
		for _, sub := range withAnon(fn) {
			allInstrs(sub, func(in ssa.Instruction) {
				ld, ok := in.(*ssa.UnOp)
				if !ok || ld.Op != token.MUL {
					return
				}
				fa, ok := ld.X.(*ssa.FieldAddr)
				if !ok || !isName[fieldNameOf(fa)] {
					return
				}
				if bt, ok := ld.Type().Underlying().(*types.Basic); !ok || bt.Info()&types.IsString == 0 {
					return
				}
				r.fn(fnDisplay(sub))
				field := fieldNameOf(fa)
				counter[field]++
				construct := fmt.Sprintf("%s.%s", T.Name, field)
				if counter[field] > 1 {
					construct = fmt.Sprintf("%s#%d", construct, counter[field])
				}
				var raw []string
				var walk func(v ssa.Value, d int)
				walk = func(v ssa.Value, d int) {
					for _, ref := range *v.Referrers() {
						switch t := ref.(type) {
						case *ssa.Call:
							if calleeNameSSA(&t.Call) == "sprintName" {
								continue
							}
							raw = append(raw, fmt.Sprintf("%s: passed to %s", c.pos(t.Pos()), calleeNameSSA(&t.Call)))
						case *ssa.BinOp:
							if t.Op == token.ADD {
								raw = append(raw, fmt.Sprintf("%s: concatenated as it is", c.pos(t.Pos())))
							}
						case *ssa.Phi:
							if d < 3 {
								walk(t, d+1)
							}
						case *ssa.Store:
							// a local that is printed later
							if al, ok := t.Addr.(*ssa.Alloc); ok && d < 3 {
								for _, r2 := range *al.Referrers() {
									if l2, ok := r2.(*ssa.UnOp); ok {
										walk(l2, d+1)
									}
								}
							}
						case *ssa.Return:
							raw = append(raw, fmt.Sprintf("%s: returned as it is", c.pos(t.Pos())))
						}
					}
				}
				walk(ld, 0)
				r.check(len(raw) == 0, rule, construct, c.pos(ld.Pos()), "through sprintName", "%s.%s is printed without sprintName (%s): %s", T.Name, field, strings.Join(uniqStrings(raw), "; "), consequence)
			})
		}
	}
}

// dnsTagKind: the wire kind named by a field's dns tag (the part before any ':' or ',' qualifier).
func dnsTagKind(f wireField) string {
	t := f.Tag
	if i := strings.IndexAny(t, ":,"); i >= 0 {
		t = t[:i]
	}
	return t
}

// c02PrintBounds: "whatever it accepts can then be printed without panicking", the index part: every index and
// slice expression on text and buffers in the functions the String methods reach is entailed in bounds. Functions that
// the packers and the length walk reach as well (OPT.String packs unknown options to print them) belong to the
// re-pack clause and are left out here; they are listed in the evidence.
func c02PrintBounds(c *Ctx, r *Report, rule string) {
	r.rule(rule, 60, "every index / slice on text and buffers in the functions reachable from the String methods (and not from the packers) is entailed in bounds")
	e := newAliasEngine(c)
	var entries, packEntries []*ssa.Function
	var names []string
	for name := range c.decls {
		names = append(names, name)
	}
	sort.Strings(names)
	for _, name := range names {
		if strings.HasSuffix(name, ".String") {
			if f := c.ssaFunc(name); f != nil {
				entries = append(entries, f)
			}
		}
	}
	for _, n := range []string{"Msg.PackBuffer", "PackRR", "Msg.Len", "Len", "PackDomainName"} {
		if f := c.ssaFunc(n); f != nil {
			packEntries = append(packEntries, f)
		}
	}
	scope := e.reachable(entries)
	packScope := e.reachable(packEntries)
	var fns []*ssa.Function
	var left []string
	for f := range scope {
		if packScope[f] {
			left = append(left, fnDisplay(f))
			continue
		}
		fns = append(fns, f)
	}
	sort.Strings(left)
	r.extra["print_scope_left_to_the_repack_clause"] = left
	sort.Slice(fns, func(i, j int) bool { return fnDisplay(fns[i]) < fnDisplay(fns[j]) })
	saved, savedAll := withStrings, withAllSlices
	withStrings, withAllSlices = true, true
	defer func() { withStrings, withAllSlices = saved, savedAll }()
	bp := newBoundsProver(c, e, scope)
	counter := map[string]int{}
	for _, f := range fns {
		sites := boundSites(f)
		if len(sites) > 0 {
			r.fn(fnDisplay(f))
		}
		for _, s := range sites {
			bp.prove(s)
			base := fmt.Sprintf("%s:%s", fnDisplay(f), s.describe())
			counter[base]++
			construct := base
			if counter[base] > 1 {
				construct = fmt.Sprintf("%s#%d", base, counter[base])
			}
			r.check(s.Proven, rule, construct, c.pos(s.Instr.Pos()), s.Why, "the access %s is not covered by a dominating test (%s): printing a record the decoder accepted can panic", s.describe(), s.Why)
		}
	}
}

// isLenBoundedCounter: a loop-header phi every back edge of which is phi+1, in a loop whose header lets the body run
// only under phi < len(...): it cannot pass the length of a string or slice, so it cannot wrap.
func isLenBoundedCounter(phi *ssa.Phi) bool {
	hdr := phi.Block()
	for i, e := range phi.Edges {
		if !hdr.Dominates(hdr.Preds[i]) {
			continue
		}
		b, ok := e.(*ssa.BinOp)
		if !ok || b.Op != token.ADD || b.X != ssa.Value(phi) {
			return false
		}
		if k, isK := constIntOf(b.Y); !isK || k != 1 {
			return false
		}
	}
	ifi, ok := hdr.Instrs[len(hdr.Instrs)-1].(*ssa.If)
	if !ok {
		return false
	}
	cmp, ok := ifi.Cond.(*ssa.BinOp)
	if !ok || cmp.Op != token.LSS || cmp.X != ssa.Value(phi) {
		return false
	}
	call, ok := cmp.Y.(*ssa.Call)
	if !ok || calleeNameSSA(&call.Call) != "builtin.len" {
		return false
	}
	// every back edge comes from the side of the test on which the counter is below the length
	for i := range phi.Edges {
		if p := hdr.Preds[i]; hdr.Dominates(p) && !(hdr.Succs[0] == p || hdr.Succs[0].Dominates(p)) {
			return false
		}
	}
	return true
}
