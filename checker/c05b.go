package main

import (
	"fmt"
	"go/token"
	"go/types"
	"sort"
	"strings"

	"golang.org/x/tools/go/ssa"
)

// Rules added after the second round of independent breaking changes.

// c05R6: a length that is stored into a narrow integer field is narrowed as the last step: arithmetic on it
// (the halving of a count of hex digits) happens at full width. uint8(len(x))/2 and uint8(len(x)/2) differ for
// every length of 256 and more.
func c05R6(c *Ctx, r *Report) {
	r.rule("C05.R6.derived-lengths", 3, "a length octet derived by parse from its blob is computed at full width and narrowed last")
	sizes := types.SizesFor("gc", "amd64")
	for _, T := range c.rrTypes() {
		name := T.Name
		fn := c.ssaFunc(name + ".parse")
		if fn == nil {
			continue
		}
		for _, sub := range withAnon(fn) {
			allInstrs(sub, func(in ssa.Instruction) {
				st, ok := in.(*ssa.Store)
				if !ok {
					return
				}
				fa, ok := st.Addr.(*ssa.FieldAddr)
				if !ok {
					return
				}
				bt, ok := st.Val.Type().Underlying().(*types.Basic)
				if !ok || bt.Info()&types.IsInteger == 0 || sizes.Sizeof(bt) >= 8 {
					return
				}
				// expression tree of the stored value (arithmetic and conversions only)
				hasLen := false
				var narrowedInside []string
				var walk func(v ssa.Value, underArith bool, depth int)
				walk = func(v ssa.Value, underArith bool, depth int) {
					if depth > 12 {
						return
					}
					switch t := v.(type) {
					case *ssa.BinOp:
						walk(t.X, true, depth+1)
						walk(t.Y, true, depth+1)
					case *ssa.Convert:
						from, ok1 := t.X.Type().Underlying().(*types.Basic)
						to, ok2 := t.Type().Underlying().(*types.Basic)
						if ok1 && ok2 && underArith && sizes.Sizeof(to) < sizes.Sizeof(from) && dependsOnLen(t.X, 0) {
							narrowedInside = append(narrowedInside, fmt.Sprintf("narrowed to %s at %s before the arithmetic on it (lengths of 256 and more lose their high bits first; compare uint8(len(x)/2))", to.Name(), c.pos(t.Pos())))
						}
						walk(t.X, underArith, depth+1)
					case *ssa.Call:
						if calleeNameSSA(t.Common()) == "builtin.len" {
							hasLen = true
							// the measured value is the decoded blob itself, not a buffer sized by an upper bound
							for o := range shallowOrigins(t.Common().Args[0]) {
								if mk, ok := o.(*ssa.MakeSlice); ok && anyIn(sliceOf(mk.Len), func(v ssa.Value) bool {
									cl, ok := v.(*ssa.Call)
									return ok && strings.HasSuffix(calleeNameSSA(&cl.Call), ".DecodedLen")
								}) {
									narrowedInside = append(narrowedInside, fmt.Sprintf("len of a buffer sized by DecodedLen at %s (an upper bound: base64 padding is counted as data)", c.pos(mk.Pos())))
								}
							}
						}
					}
				}
				walk(st.Val, false, 0)
				if !hasLen {
					return
				}
				fld := fieldNameOf(fa)
				construct := name + "." + fld
				r.check(len(narrowedInside) == 0, "C05.R6.derived-lengths", construct, c.pos(st.Pos()), "narrowed last", "%s is not the length of its blob: %s; the record then packs into RDATA whose length field disagrees with the blob", construct, strings.Join(narrowedInside, ", "))
			})
		}
	}
}

func dependsOnLen(v ssa.Value, depth int) bool {
	if depth > 12 {
		return false
	}
	switch t := v.(type) {
	case *ssa.BinOp:
		return dependsOnLen(t.X, depth+1) || dependsOnLen(t.Y, depth+1)
	case *ssa.Convert:
		return dependsOnLen(t.X, depth+1)
	case *ssa.Call:
		return calleeNameSSA(t.Common()) == "builtin.len"
	}
	return false
}

func fieldNameOf(fa *ssa.FieldAddr) string {
	pt, ok := fa.X.Type().Underlying().(*types.Pointer)
	if !ok {
		return "?"
	}
	st, ok := pt.Elem().Underlying().(*types.Struct)
	if !ok || fa.Field >= st.NumFields() {
		return "?"
	}
	return st.Field(fa.Field).Name()
}

// c05R2b: the numeric forms TYPEnnn / CLASSnnn are read back over the whole 16-bit range their printers emit,
// and the lexer enters "record type seen" state on the numeric form exactly as on a mnemonic.
func c05R2b(c *Ctx, r *Report) {
	r.rule("C05.R2.generic-range", 2, "typeToInt / classToInt accept every value of the 16-bit field (0..65535)")
	for _, name := range []string{"typeToInt", "classToInt"} {
		fn := c.ssaFunc(name)
		if fn == nil {
			r.cerr("C05.R2.generic-range", name, "function not found")
			continue
		}
		r.fn(name)
		var problems []string
		found := 0
		var wide []*ssa.Call
		allInstrs(fn, func(in ssa.Instruction) {
			call, ok := in.(*ssa.Call)
			if !ok {
				return
			}
			cn := calleeNameSSA(call.Common())
			args := call.Common().Args
			switch cn {
			case "strconv.ParseUint":
				found++
				bits, ok := constIntOf(args[2])
				if !ok || (bits != 0 && bits < 16) {
					problems = append(problems, fmt.Sprintf("%s: ParseUint with bit size %d cannot hold 65535", c.pos(call.Pos()), bits))
				}
				if base, ok := constIntOf(args[1]); !ok || base != 10 {
					problems = append(problems, fmt.Sprintf("%s: the printers emit decimal; the reader parses base %d", c.pos(call.Pos()), base))
				}
			case "strconv.ParseInt":
				found++
				bits, ok := constIntOf(args[2])
				if !ok || (bits != 0 && bits <= 16) {
					problems = append(problems, fmt.Sprintf("%s: ParseInt with bit size %d accepts at most %d; %s prints codes up to 65535, so half of the numeric forms cannot be read back", c.pos(call.Pos()), bits, int64(1)<<(uint(bits)-1)-1, map[string]string{"typeToInt": "Type.String", "classToInt": "Class.String"}[name]))
				}
				if base, ok := constIntOf(args[1]); !ok || base != 10 {
					problems = append(problems, fmt.Sprintf("%s: the printers emit decimal; the reader parses base %d", c.pos(call.Pos()), base))
				}
			case "strconv.Atoi":
				found++
				wide = append(wide, call)
			}
			if (cn == "strconv.ParseUint" || cn == "strconv.ParseInt") && len(args) == 3 {
				if bits, ok := constIntOf(args[2]); ok && (bits == 0 || bits > 16) {
					wide = append(wide, call)
				}
			}
		})
		// a parse wider than the field: the guards on the way to a success return must let through exactly 0..65535
		for _, call := range wide {
			var val ssa.Value
			for _, ref := range *call.Referrers() {
				if ex, ok := ref.(*ssa.Extract); ok && ex.Index == 0 {
					val = ex
				}
			}
			if val == nil {
				continue
			}
			isVal := func(v ssa.Value) bool { return v == val }
			for _, rp := range returnPoints(fn, 1) {
				if b, ok := constBool(rp.Results[1]); !ok || !b {
					continue
				}
				lo, hi, hasLo, hasHi := intervalAt(fn, rp.Block, isVal)
				signed := calleeNameSSA(call.Common()) != "strconv.ParseUint"
				switch {
				case !hasHi:
					problems = append(problems, fmt.Sprintf("%s: the number is parsed wider than 16 bits and no upper bound is tested before it is narrowed: TYPE65536 is read as code 0", c.pos(rp.Pos)))
				case hi != 65535:
					problems = append(problems, fmt.Sprintf("%s: the largest number accepted is %d, the field goes up to 65535", c.pos(rp.Pos), hi))
				}
				switch {
				case signed && !hasLo:
					problems = append(problems, fmt.Sprintf("%s: a signed parse without a lower bound: a negative number is narrowed into a code", c.pos(rp.Pos)))
				case hasLo && lo != 0:
					problems = append(problems, fmt.Sprintf("%s: the smallest number accepted is %d, but code 0 is a code like any other (a record of type 0 prints as TYPE0)", c.pos(rp.Pos), lo))
				}
			}
		}
		if found == 0 {
			r.undecided("C05.R2.generic-range", name, c.pos(fn.Pos()), "%s does not parse its number through strconv.ParseUint / ParseInt / Atoi; the accepted range cannot be determined", name)
			continue
		}
		r.check(len(problems) == 0, "C05.R2.generic-range", name, c.pos(fn.Pos()), "0..65535", "%s", strings.Join(problems, "; "))
	}

	r.rule("C05.R2.lexer-type-state", 3, "every way the lexer classifies a token as a record type (mnemonic or TYPEnnn) also records that the type was seen, so that RDATA tokens are not re-read as mnemonics")
	fn := c.ssaFunc("zlexer.Next")
	if fn == nil {
		r.cerr("C05.R2.lexer-type-state", "zlexer.Next", "function not found")
		return
	}
	zr, ok := c.constInt("zRrtpe")
	if !ok {
		r.cerr("C05.R2.lexer-type-state", "zRrtpe", "constant not found")
		return
	}
	isSeen := func(in ssa.Instruction) bool {
		st, ok := in.(*ssa.Store)
		if !ok || !readsField("zlexer", "rrtype")(st.Addr) {
			return false
		}
		b, isB := constBool(st.Val)
		return isB && b
	}
	var sites []*ssa.Store
	for _, st := range storesToField(fn, "lex", "value") {
		if k, isK := constIntOf(st.Val); isK && k == zr {
			sites = append(sites, st)
		}
	}
	sort.Slice(sites, func(i, j int) bool { return sites[i].Pos() < sites[j].Pos() })
	for i, st := range sites {
		inBlock := false
		for _, in := range st.Block().Instrs {
			if isSeen(in) {
				inBlock = true
			}
		}
		ok := inBlock
		if !ok {
			ok, _ = mustPass(fn, st.Block(), instrIndex(st), isSeen)
		}
		r.check(ok, "C05.R2.lexer-type-state", fmt.Sprintf("zlexer.Next:zRrtpe#%d", i+1), c.pos(st.Pos()), "rrtype = true", "a token is classified as a record type here without zl.rrtype being set: the tokens of its RDATA are still looked up as type and class mnemonics (a generic \\# record whose hex is 'aaaa', or a bitmap written with TYPEnnn, is then mis-lexed and the printed text is rejected)")
	}
	_ = token.NoPos
}

// c05LookupOk: a printer that looks a code up in a mnemonic table and falls back to the number when there is no
// mnemonic must test the ok of that very lookup. (Engler-style: every other comma-ok lookup in the String methods
// tests its own ok.)
func c05LookupOk(c *Ctx, r *Report) {
	r.rule("C05.R2.lookup-ok", 8, "every comma-ok table lookup in a String method has its own ok tested before the mnemonic is used")
	var names []string
	for name := range c.decls {
		if strings.HasSuffix(name, ".String") {
			names = append(names, name)
		}
	}
	sort.Strings(names)
	for _, name := range names {
		fn := c.ssaFunc(name)
		if fn == nil {
			continue
		}
		n := 0
		allInstrs(fn, func(in ssa.Instruction) {
			lk, ok := in.(*ssa.Lookup)
			if !ok || !lk.CommaOk {
				return
			}
			if _, isMap := lk.X.Type().Underlying().(*types.Map); !isMap {
				return
			}
			var val, okv *ssa.Extract
			for _, ref := range *lk.Referrers() {
				if e, isE := ref.(*ssa.Extract); isE {
					if e.Index == 0 {
						val = e
					} else {
						okv = e
					}
				}
			}
			if val == nil || len(*val.Referrers()) == 0 {
				return
			}
			n++
			tested := false
			if okv != nil {
				seen := map[ssa.Value]bool{}
				var flows func(v ssa.Value, d int) bool
				flows = func(v ssa.Value, d int) bool {
					if d > 6 || seen[v] {
						return false
					}
					seen[v] = true
					for _, ref := range *v.Referrers() {
						switch t := ref.(type) {
						case *ssa.If:
							return true
						case *ssa.UnOp:
							if flows(t, d+1) {
								return true
							}
						case *ssa.Phi:
							if flows(t, d+1) {
								return true
							}
						case *ssa.BinOp:
							if flows(t, d+1) {
								return true
							}
						case *ssa.Store:
							// a spilled local: follow the loads of the cell
							if al, ok := t.Addr.(*ssa.Alloc); ok {
								for _, r2 := range *al.Referrers() {
									if ld, ok := r2.(*ssa.UnOp); ok && flows(ld, d+1) {
										return true
									}
								}
							}
						}
					}
					return false
				}
				tested = flows(okv, 0)
			}
			r.check(tested, "C05.R2.lookup-ok", fmt.Sprintf("%s:lookup#%d", name, n), c.pos(lk.Pos()), "ok tested", "the mnemonic looked up here is printed without the ok of this lookup having been tested: a code without a mnemonic prints as an empty column instead of its number, and the text does not read back")
		})
	}
}
