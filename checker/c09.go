package main

import (
	"fmt"
	"go/token"
	"strings"

	"golang.org/x/tools/go/ssa"
)

func init() { register("C09", true, false, checkC09) }

const c09Explanation = `Decided statically on every path of Truncate/truncateLoop/popEdns0: (R1) a message with a TSIG is left alone: every store happens on the IsTsig() == nil edge; the requested size is floored to 512 before it is used for anything else (the parameter flows only into the floor test and the floored value); (R2) OPT pairing: the test that re-appends the popped OPT is passed on every path from popEdns0 to a normal exit, the re-append is conditional on nothing but 'an OPT was popped', and no store to the additional section follows it; popEdns0 removes the OPT with the order-preserving append(Extra[:i], Extra[i+1:]...) idiom and stores no elements; (R3) TC: the only store to Truncated is a disjunction whose first operand is the previous value of Truncated and whose other operands compare len(section) with the kept count of the same section: TC is never cleared and is set exactly when something was dropped; (R4) sections are only ever cut to a prefix section[:kept] with kept coming from truncateLoop of the same section, truncateLoop stores nothing into the records or the slice, threads the running length as each record's offset, and each later section is walked only while the running length is still below the budget. NOT decided: that the packed length is at most max(size,512), that the first dropped record would not have fitted (numeric, depends on C08's value-level clauses).`

func checkC09(c *Ctx, r *Report) {
	r.Explanation = c09Explanation
	r.Trusted = []string{"go/ssa translation"}
	fn := c.ssaFunc("Msg.Truncate")
	if fn == nil {
		r.cerr("C09.R1.tsig-optout", "Msg.Truncate", "function not found")
		return
	}
	r.fn("Msg.Truncate")
	dns := fn.Params[0]
	sizeP := paramOf(fn, "size")
	minMsg, _ := c.constInt("MinMsgSize")

	// R1
	r.rule("C09.R1.tsig-optout", 1, "every effect of Truncate is on the IsTsig() == nil edge")
	r.rule("C09.R1.size-floor", 1, "the size parameter is used only through max(size, 512)")
	var problems []string
	noTsig := Guard{Name: "IsTsig() == nil", Op: "eq", A: callsFunc("(Msg).IsTsig"), B: isNilConst, Holds: true}
	nStores := 0
	allInstrs(fn, func(in ssa.Instruction) {
		effect := false
		switch t := in.(type) {
		case *ssa.Store:
			if _, isLocal := t.Addr.(*ssa.Alloc); !isLocal {
				effect = true
			}
		case *ssa.Call:
			if calleeNameSSA(&t.Call) == "(Msg).popEdns0" {
				effect = true
			}
		}
		if !effect {
			return
		}
		nStores++
		if miss := guardsMissing(fn, in.Block(), []Guard{noTsig}); len(miss) > 0 {
			problems = append(problems, fmt.Sprintf("%s: the message is modified without the TSIG opt-out test", c.pos(in.Pos())))
		}
	})
	if nStores < 5 {
		problems = append(problems, fmt.Sprintf("only %d effects seen", nStores))
	}
	r.check(len(problems) == 0, "C09.R1.tsig-optout", "Msg.Truncate", c.pos(fn.Pos()), fmt.Sprintf("%d effects guarded", nStores), "%s", strings.Join(problems, "; "))
	problems = nil
	var floored ssa.Value
	if minMsg != 512 {
		problems = append(problems, fmt.Sprintf("MinMsgSize = %d, RFC 6891 fixes 512", minMsg))
	}
	for _, ref := range *sizeP.Referrers() {
		switch t := ref.(type) {
		case *ssa.BinOp:
			k, isK := constIntOf(t.Y)
			if !(t.Op == token.LSS && t.X == sizeP && isK && k == minMsg) {
				problems = append(problems, fmt.Sprintf("%s: the raw size parameter is used in %v before being floored to %d", c.pos(t.Pos()), t, minMsg))
			}
		case *ssa.Phi:
			// phi(size, 512)
			okPhi := len(t.Edges) == 2
			hasK := false
			for _, e := range t.Edges {
				if k, isK := constIntOf(e); isK && k == minMsg {
					hasK = true
				} else if e != sizeP {
					okPhi = false
				}
			}
			if okPhi && hasK {
				floored = t
			} else {
				problems = append(problems, fmt.Sprintf("%s: unexpected merge of the size parameter", c.pos(t.Pos())))
			}
		case *ssa.DebugRef:
		default:
			problems = append(problems, fmt.Sprintf("%s: the raw size parameter is used before being floored to %d", c.pos(ref.Pos()), minMsg))
		}
	}
	if floored == nil {
		problems = append(problems, "no max(size, MinMsgSize) merge found")
	}
	r.check(len(problems) == 0, "C09.R1.size-floor", "Msg.Truncate", c.pos(fn.Pos()), "size = max(size, 512) first", "%s", strings.Join(problems, "; "))

	// R2
	r.rule("C09.R2.opt-pairing", 2, "a popped OPT is re-appended on every path; nothing touches the additional section afterwards")
	problems = nil
	pops := callsIn(fn, "(Msg).popEdns0")
	if len(pops) != 1 {
		problems = append(problems, fmt.Sprintf("%d popEdns0 calls", len(pops)))
	} else {
		pop := pops[0].(*ssa.Call)
		var reappend *ssa.Store
		for _, st := range storesToField(fn, "Msg", "Extra") {
			if call, ok := st.Val.(*ssa.Call); ok && calleeNameSSA(&call.Call) == "builtin.append" && anyIn(sliceOf(call.Call.Args[1]), isValue(pop)) {
				reappend = st
			}
		}
		if reappend == nil {
			problems = append(problems, "the popped OPT is never appended back")
		} else {
			// the If guarding it
			var gate *ssa.If
			for _, f := range factsAt(fn, reappend.Block()) {
				if matchGuard(f, Guard{Op: "eq", A: isValue(pop), B: isNilConst, Holds: false}) {
					gate = f.If
				} else if !matchGuard(f, noTsig) && !anyIn(sliceOf(f.Atom), callsFunc("msgLenWithCompressionMap")) && !backTarget(fn, f.If.Block()) {
					problems = append(problems, fmt.Sprintf("%s: the OPT is re-appended only under the extra condition %v", c.pos(reappend.Pos()), f.Atom))
				}
			}
			if gate == nil {
				problems = append(problems, "the re-append is not conditional on an OPT having been popped")
			} else {
				// the latest gate (the one whose true edge directly dominates the re-append) must be passed on every path from pop to exit
				if passed, blk := mustPass(fn, pop.Block(), instrIndex(pop), func(x ssa.Instruction) bool {
					ifi, ok := x.(*ssa.If)
					if !ok {
						return false
					}
					atom, _ := condAtom(ifi.Cond)
					b, ok := atom.(*ssa.BinOp)
					return ok && b.X == pop && isNilConst(b.Y) && edgeDominatesAny(fn, ifi, reappend.Block())
				}); !passed {
					problems = append(problems, fmt.Sprintf("a path (exit at %s) leaves Truncate after popping the OPT without reaching the re-append test: the OPT would be lost", c.pos(blk.Instrs[len(blk.Instrs)-1].Pos())))
				}
			}
			// nothing stores to Extra after the re-append
			for _, st := range storesToField(fn, "Msg", "Extra") {
				if st != reappend && reach(reappend.Block(), nil, nil)[st.Block()] && !(st.Block() == reappend.Block() && instrIndex(st) < instrIndex(reappend)) {
					problems = append(problems, fmt.Sprintf("%s: the additional section is rewritten after the OPT was re-appended", c.pos(st.Pos())))
				}
			}
			// the append target is the (cut) additional section
			call := reappend.Val.(*ssa.Call)
			if !anyIn(sliceOf(call.Call.Args[0]), fieldPathOf(isValue(dns), "Extra")) {
				problems = append(problems, "the OPT is not appended to dns.Extra")
			}
			// budget reduced by Len(opt) on the popped edge
			okBudget := false
			allInstrs(fn, func(in ssa.Instruction) {
				b, ok := in.(*ssa.BinOp)
				if ok && b.Op == token.SUB && b.X == floored && anyIn(sliceOf(b.Y), callsFunc("Len")) && anyIn(sliceOf(b.Y), isValue(pop)) {
					okBudget = true
				}
			})
			if !okBudget {
				problems = append(problems, "the budget is not reduced by Len(OPT) computed from the floored size")
			}
		}
	}
	r.check(len(problems) == 0, "C09.R2.opt-pairing", "Msg.Truncate", c.pos(fn.Pos()), "pop ... re-append", "%s", strings.Join(problems, "; "))
	// popEdns0 idiom
	if pf := c.ssaFunc("Msg.popEdns0"); pf == nil {
		r.cerr("C09.R2.opt-pairing", "Msg.popEdns0", "function not found")
	} else {
		r.fn("Msg.popEdns0")
		var ps []string
		nSt := 0
		allInstrs(pf, func(in ssa.Instruction) {
			st, ok := in.(*ssa.Store)
			if !ok {
				return
			}
			if ia, isIA := st.Addr.(*ssa.IndexAddr); isIA {
				if _, local := ia.X.(*ssa.Alloc); !local {
					ps = append(ps, fmt.Sprintf("%s: popEdns0 overwrites an element of the additional section (records after the OPT would change places: prefixes are no longer prefixes of the original order)", c.pos(st.Pos())))
				}
				return
			}
			if !readsField("Msg", "Extra")(st.Addr) {
				return
			}
			nSt++
			call, ok := st.Val.(*ssa.Call)
			good := false
			if ok && calleeNameSSA(&call.Call) == "builtin.append" {
				a0, ok0 := call.Call.Args[0].(*ssa.Slice)
				a1, ok1 := call.Call.Args[1].(*ssa.Slice)
				if ok0 && ok1 && a0.Low == nil && a0.High != nil && a1.High == nil && a1.Low != nil {
					base, k := offsetOf(a1.Low)
					if base == a0.High && k == 1 {
						good = true
					}
				}
			}
			if !good {
				ps = append(ps, fmt.Sprintf("%s: the OPT is not removed with append(Extra[:i], Extra[i+1:]...)", c.pos(st.Pos())))
			}
		})
		if nSt != 1 {
			ps = append(ps, fmt.Sprintf("%d stores to Extra", nSt))
		}
		// the record returned is the one of type OPT
		typeOPT, _ := c.constInt("TypeOPT")
		for _, rp := range returnPoints(pf, 0) {
			if isNilConst(rp.Results[0]) {
				continue
			}
			if miss := guardsMissing(pf, rp.Block, []Guard{{Op: "eq", A: readsField("RR_Header", "Rrtype"), B: isConstInt(typeOPT), Holds: true}}); len(miss) > 0 {
				ps = append(ps, "a record is popped without its type being OPT")
			}
		}
		r.check(len(ps) == 0, "C09.R2.opt-pairing", "Msg.popEdns0", c.pos(pf.Pos()), "order-preserving removal of the OPT", "%s", strings.Join(ps, "; "))
	}

	// R3: TC
	r.rule("C09.R3.tc", 1, "Truncated = Truncated || dropped-from-any-section")
	problems = nil
	tcs := append(storesToField(fn, "Msg", "Truncated"), storesToField(fn, "MsgHdr", "Truncated")...)
	sections := []string{"Answer", "Ns", "Extra"}
	if len(tcs) != 1 {
		problems = append(problems, fmt.Sprintf("%d stores to Truncated", len(tcs)))
	} else {
		phi, ok := tcs[0].Val.(*ssa.Phi)
		sawOld := false
		if b, isTrue := constBool(tcs[0].Val); !ok && isTrue && b {
			// `if dropped { dns.Truncated = true }`: the bit is only ever set, under the disjunction kept in a local
			for _, f := range factsAt(fn, tcs[0].Block()) {
				if p, isPhi := f.Atom.(*ssa.Phi); isPhi && f.Holds {
					phi, ok, sawOld = p, true, true
				}
			}
		}
		if !ok {
			problems = append(problems, fmt.Sprintf("Truncated is set to %v, not to a disjunction with its previous value", tcs[0].Val))
		} else {
			seenSec := map[string]bool{}
			checkCmp := func(v ssa.Value) {
				b, ok := v.(*ssa.BinOp)
				if !ok || (b.Op != token.GTR && b.Op != token.LSS && b.Op != token.NEQ) {
					problems = append(problems, fmt.Sprintf("TC operand %v is not a comparison of a section length with its kept count", v))
					return
				}
				lenSide, cntSide := b.X, b.Y
				if b.Op == token.LSS {
					lenSide, cntSide = b.Y, b.X
				}
				for _, s := range sections {
					if anyIn(sliceOf(lenSide), fieldPathOf(isValue(dns), s)) {
						seenSec[s] = true
						// the length is the section's length now, i.e. read after the OPT was set aside
						for x := range sliceOf(lenSide) {
							u, isLoad := x.(*ssa.UnOp)
							if s != "Extra" || !isLoad || u.Op != token.MUL || !readsField("Msg", s)(u.X) {
								continue
							}
							for _, pop := range callsIn(fn, "(Msg).popEdns0") {
								if !precedes(pop.(ssa.Instruction), u) {
									problems = append(problems, fmt.Sprintf("%s: TC is computed from a length of dns.%s taken before the OPT was set aside: the OPT, which is always re-appended, counts as a dropped record and TC is set on replies that lost nothing", c.pos(u.Pos()), s))
								}
							}
						}
						// kept count from truncateLoop of the same section (or 0)
						cs := sliceOf(cntSide)
						okCnt := false
						for x := range cs {
							if e, ok := x.(*ssa.Extract); ok && e.Index == 1 {
								if call, ok := e.Tuple.(*ssa.Call); ok && calleeNameSSA(&call.Call) == "truncateLoop" && anyIn(sliceOf(call.Call.Args[0]), fieldPathOf(isValue(dns), s)) {
									okCnt = true
								}
							}
						}
						if !okCnt {
							problems = append(problems, fmt.Sprintf("TC compares len(dns.%s) with a count that does not come from truncating dns.%s", s, s))
						}
					}
				}
			}
			for i, e := range phi.Edges {
				pred := phi.Block().Preds[i]
				if b, isB := constBool(e); isB {
					if !b {
						problems = append(problems, "TC can be cleared")
						continue
					}
					ifi, ok := pred.Instrs[len(pred.Instrs)-1].(*ssa.If)
					if !ok {
						problems = append(problems, "unconditional TC")
						continue
					}
					atom, _ := condAtom(ifi.Cond)
					if u, ok := atom.(*ssa.UnOp); ok && u.Op == token.MUL && (readsField("Msg", "Truncated")(u.X) || readsField("MsgHdr", "Truncated")(u.X)) {
						sawOld = true
						continue
					}
					checkCmp(atom)
				} else {
					checkCmp(e)
				}
			}
			if !sawOld {
				problems = append(problems, "the previous value of Truncated is not kept (an already-set TC could be cleared)")
			}
			for _, s := range sections {
				if !seenSec[s] {
					problems = append(problems, fmt.Sprintf("dropping records from dns.%s does not set TC", s))
				}
			}
		}
	}
	r.check(len(problems) == 0, "C09.R3.tc", "Msg.Truncate", c.pos(fn.Pos()), "old || dropped", "%s", strings.Join(problems, "; "))

	// R4
	r.rule("C09.R4.prefix-only", 3, "sections are only cut to section[:kept] with kept from truncateLoop of that section")
	r.rule("C09.R4.walk", 3, "truncateLoop is read-only, threads the running length; later sections are walked only while below the budget")
	for _, s := range sections {
		var ps []string
		n := 0
		for _, st := range storesToField(fn, "Msg", s) {
			if call, ok := st.Val.(*ssa.Call); ok && calleeNameSSA(&call.Call) == "builtin.append" {
				continue // the OPT re-append, checked above
			}
			n++
			sl, ok := st.Val.(*ssa.Slice)
			if !ok || sl.Low != nil || sl.High == nil || !anyIn(sliceOf(sl.X), fieldPathOf(isValue(dns), s)) {
				ps = append(ps, fmt.Sprintf("%s: dns.%s is assigned %v, not a prefix dns.%s[:n]", c.pos(st.Pos()), s, st.Val, s))
				continue
			}
			okCnt := false
			for x := range sliceOf(sl.High) {
				if e, ok := x.(*ssa.Extract); ok && e.Index == 1 {
					if call, ok := e.Tuple.(*ssa.Call); ok && calleeNameSSA(&call.Call) == "truncateLoop" && anyIn(sliceOf(call.Call.Args[0]), fieldPathOf(isValue(dns), s)) {
						okCnt = true
					}
				}
			}
			if !okCnt {
				ps = append(ps, fmt.Sprintf("%s: dns.%s is cut to a count that does not come from truncateLoop(dns.%s, ...)", c.pos(st.Pos()), s, s))
			}
		}
		if n != 1 {
			ps = append(ps, fmt.Sprintf("%d prefix stores", n))
		}
		r.check(len(ps) == 0, "C09.R4.prefix-only", "Msg.Truncate:"+s, c.pos(fn.Pos()), "dns."+s+"[:kept]", "%s", strings.Join(ps, "; "))
	}
	// walk guards: each truncateLoop call is on the edge l < size'
	problems = nil
	tls := callsIn(fn, "truncateLoop")
	if len(tls) != 3 {
		problems = append(problems, fmt.Sprintf("%d truncateLoop calls", len(tls)))
	}
	for _, tl := range tls {
		a := tl.Common().Args
		if miss := guardsMissing(fn, tl.Block(), []Guard{{Name: "l < size", Op: "lt", A: isValue(a[2]), B: isValue(a[1]), Holds: true}}); len(miss) > 0 {
			problems = append(problems, fmt.Sprintf("%s: a section is walked although the running length already reached the budget (records of a later section could be kept after an earlier one was cut)", c.pos(tl.Pos())))
		}
		if !sliceOf(a[1])[floored] {
			problems = append(problems, fmt.Sprintf("%s: the budget is not derived from the floored size", c.pos(tl.Pos())))
		}
	}
	// running length chain: arg l of call k+1 depends on result 0 of call k
	for i := 1; i < len(tls); i++ {
		prev := tls[i-1].Value()
		if !anyIn(sliceOf(tls[i].Common().Args[2]), func(v ssa.Value) bool {
			e, ok := v.(*ssa.Extract)
			return ok && e.Tuple == prev && e.Index == 0
		}) {
			problems = append(problems, fmt.Sprintf("%s: the running length is not carried over from the previous section", c.pos(tls[i].Pos())))
		}
	}
	r.check(len(problems) == 0, "C09.R4.walk", "Msg.Truncate:sections", c.pos(fn.Pos()), "each walk guarded by l < size", "%s", strings.Join(problems, "; "))
	if tf := c.ssaFunc("truncateLoop"); tf == nil {
		r.cerr("C09.R4.walk", "truncateLoop", "function not found")
	} else {
		r.fn("truncateLoop")
		var ps []string
		allInstrs(tf, func(in ssa.Instruction) {
			if st, ok := in.(*ssa.Store); ok {
				if _, local := st.Addr.(*ssa.Alloc); !local {
					ps = append(ps, fmt.Sprintf("%s: truncateLoop writes to memory", c.pos(st.Pos())))
				}
			}
		})
		n := 0
		allInstrs(tf, func(in ssa.Instruction) {
			call, ok := in.(*ssa.Call)
			if !ok || !call.Call.IsInvoke() || call.Call.Method.Name() != "len" {
				return
			}
			n++
			args := call.Call.Args
			added := false
			for _, ref := range *call.Referrers() {
				if b, ok := ref.(*ssa.BinOp); ok && b.Op == token.ADD && ((b.X == args[0] && b.Y == call) || (b.Y == args[0] && b.X == call)) {
					added = true
				}
			}
			if !added {
				ps = append(ps, fmt.Sprintf("%s: the record's length is computed at an offset other than the running length it is added to (the compression simulation depends on the position)", c.pos(call.Pos())))
			}
			if args[1] != paramOf(tf, "compression") {
				ps = append(ps, "the compression map is not threaded")
			}
		})
		if n != 1 {
			ps = append(ps, fmt.Sprintf("%d len calls", n))
		}
		// the cut decision: return (size, i) on l > size
		sizeV, lV := paramOf(tf, "size"), paramOf(tf, "l")
		_ = lV
		okCut := false
		type rawRet struct {
			Block   *ssa.BasicBlock
			Results []ssa.Value
		}
		var rets []rawRet
		for _, b := range tf.Blocks {
			if ret, ok := b.Instrs[len(b.Instrs)-1].(*ssa.Return); ok && len(ret.Results) == 2 {
				rets = append(rets, rawRet{b, ret.Results})
			}
		}
		for _, rp := range rets {
			for _, f := range factsAt(tf, rp.Block) {
				if matchGuard(f, Guard{Op: "lt", A: isValue(sizeV), B: func(v ssa.Value) bool { _, isB := v.(*ssa.BinOp); return isB }, Holds: true}) {
					// the count returned is the index of the record that did not fit (the loop variable itself, as it is
					// at the cut: not expanded into what it may have been on the way in)
					if isLoopCounter(rp.Results[1]) || func() bool { _, isPhi := rp.Results[1].(*ssa.Phi); return isPhi }() {
						okCut = true
					}
					if rp.Results[0] != sizeV {
						ps = append(ps, "after a cut the running length is not pinned to the budget (later sections could still be walked)")
					}
				}
			}
		}
		if !okCut {
			ps = append(ps, "no `l > size` cut returning the index of the first record that did not fit")
		}
		r.check(len(ps) == 0, "C09.R4.walk", "truncateLoop", c.pos(tf.Pos()), "read-only, running offset", "%s", strings.Join(ps, "; "))
	}
	// the question walk in Truncate threads the offset too
	{
		var ps []string
		n := 0
		allInstrs(fn, func(in ssa.Instruction) {
			call, ok := in.(*ssa.Call)
			if !ok || calleeNameSSA(&call.Call) != "(Question).len" {
				return
			}
			n++
			args := call.Call.Args
			added := false
			for _, ref := range *call.Referrers() {
				if b, ok := ref.(*ssa.BinOp); ok && b.Op == token.ADD && ((b.X == args[1] && b.Y == call) || (b.Y == args[1] && b.X == call)) {
					added = true
				}
			}
			// every question is measured (Pack, Len and the early uncompressed test count all of them): the receiver is
			// the element of a range over dns.Question, not a fixed index
			recv := args[0]
			if u, ok := recv.(*ssa.UnOp); ok {
				recv = u.X
			}
			if ia, ok := recv.(*ssa.IndexAddr); ok {
				if _, isK := constIntOf(ia.Index); isK {
					ps = append(ps, fmt.Sprintf("%s: only dns.Question[%v] is measured: a reply with more questions is budgeted too small and packs larger than the size it was truncated to", c.pos(call.Pos()), ia.Index))
				}
			}
			if !added || !reachesConst(args[1], 12) {
				ps = append(ps, "the question walk does not thread the running length from the 12-octet header")
			}
		})
		if n != 1 {
			ps = append(ps, fmt.Sprintf("%d question length calls", n))
		}
		r.check(len(ps) == 0, "C09.R4.walk", "Msg.Truncate:questions", c.pos(fn.Pos()), "l = 12 + questions", "%s", strings.Join(ps, "; "))
	}
	c09R5(c, r)
	txtEmptyList(c, r, "C09.R3.txt-empty", "Truncate's size walk (Len) under-counts a reply holding TXT-like records without strings, so the truncated reply can exceed the requested size")
	r.rule("C09.R2.opt-scan", 2, "popEdns0 / IsEdns0 scan the whole additional section, index 0 included")
	descendingScanCoversZero(c, r, "C09.R2.opt-scan", "Msg.popEdns0", "an OPT record that is the first additional record is not found: Truncate does not reserve room for it and drops it with the other additional records")
	descendingScanCoversZero(c, r, "C09.R2.opt-scan", "Msg.IsEdns0", "an OPT record that is the first additional record is not found: the reply is sized without it and the OPT is not retained")
	packMapThreaded(c, r, "C09.R4.pack-map", "Truncate's size walk under-counts and the truncated reply exceeds the requested size")
	borrow(c, r, c08LenForm, "C08.R1.len-form", "C09.R3.len-form", 70, "the length method of every type predicts what its packer writes (the size walk of Truncate relies on it)", nil, "Truncate's budget is short and the truncated reply exceeds the requested size")
	bitmapLengthAgreement(c, r, "C09.R3.bitmap-length", "Truncate's size walk is short for such records and the truncated reply exceeds the requested size")
	r.rule("C09.R4.stop-only-on-overflow", 1, "truncateLoop leaves its loop early only where the record just measured does not fit")
	stopOnlyOnOverflow(c, r, "C09.R4.stop-only-on-overflow")
	aplExtentShared(c, r, "C09.R3.apl-extent", "for every prefix whose masked address ends in zero octets (10.1.0.0/24, any IPv6 network) Len() counts 1..15 octets too many; Truncate, which budgets with it, drops records from a reply that fits and sets TC")
	r.rule("C09.R3.len-search-walk", 1, "compressionLenSearch visits the labels through NextLabel (escaped dots do not start labels)")
	walkThroughNextLabel(c, r, "C09.R3.len-search-walk", "compressionLenSearch", "Truncate's budget registers suffixes at escaped dots that the packer never compresses against: the truncated reply is larger than the size asked for")
	lenSearchKey(c, r, "C09.R3.len-search-key", "Truncate's budget is too small and the truncated reply exceeds the size asked for")
	oneBudget(c, r, "C09.R1.one-budget")
	round12(c, r, "C09")
	round13(c, r, "C09")
}

// edgeDominatesAny: one of the If's edges edge-dominates target.
func edgeDominatesAny(fn *ssa.Function, ifi *ssa.If, target *ssa.BasicBlock) bool {
	b := ifi.Block()
	return edgeDominates(fn, b, b.Succs[0], target) || edgeDominates(fn, b, b.Succs[1], target)
}

// c09R5: Truncate budgets every message as compressed (it sets Compress and measures with a compression map),
// PackBuffer compresses only when isCompressible() agrees. isCompressible may therefore only say no when
// there is nothing to compress: at most one question and no records at all.
func c09R5(c *Ctx, r *Report) {
	r.rule("C09.R5.compress-gate", 1, "isCompressible() is false only for a message with at most one question and no records, so what Truncate measured compressed is packed compressed")
	fn := c.ssaFunc("Msg.isCompressible")
	if fn == nil {
		r.cerr("C09.R5.compress-gate", "Msg.isCompressible", "function not found")
		return
	}
	r.fn("Msg.isCompressible")
	limits := []struct {
		sec string
		max int64
	}{{"Question", 1}, {"Answer", 0}, {"Ns", 0}, {"Extra", 0}}
	var problems []string
	nFalse := 0
	for _, rp := range returnPoints(fn, 0) {
		facts := rp.factsOf(fn)
		v := rp.Results[0]
		if b, ok := constBool(v); ok {
			if b {
				continue
			}
		} else {
			atom, pol := condAtom(v)
			facts = append(facts, Fact{Atom: atom, Holds: !pol})
		}
		nFalse++
		for _, lim := range limits {
			isLen := func(x ssa.Value) bool {
				cl, ok := x.(*ssa.Call)
				return ok && calleeNameSSA(&cl.Call) == "builtin.len" && anyIn(sliceOf(cl.Call.Args[0]), readsField("Msg", lim.sec))
			}
			best := int64(-1)
			for _, f := range facts {
				if _, hi, _, hasHi := intervalFromFact(f, isLen); hasHi && (best < 0 || hi < best) {
					best = hi
				}
			}
			if best < 0 {
				problems = append(problems, fmt.Sprintf("%s: reports 'not compressible' whatever the number of records in dns.%s", c.pos(rp.Pos), lim.sec))
			} else if best > lim.max {
				problems = append(problems, fmt.Sprintf("%s: reports 'not compressible' for messages with up to %d entries in dns.%s (at most %d can never share a name): such a message is measured compressed by Truncate and Len's callers but packed uncompressed, so the reply exceeds the size it was truncated to", c.pos(rp.Pos), best, lim.sec, lim.max))
			}
		}
	}
	if nFalse == 0 {
		problems = append(problems, "isCompressible never returns false")
	}
	r.check(len(uniqStrings(problems)) == 0, "C09.R5.compress-gate", "Msg.isCompressible", c.pos(fn.Pos()), "false only for <=1 question and no records", "%s", strings.Join(uniqStrings(problems), "; "))
}
