package main

import (
	"fmt"
	"go/token"
	"sort"
	"strings"

	"golang.org/x/tools/go/ssa"
)

// Rules added after the second round of independent breaking changes.

// mulChain: v = base * K (K a product of constants), or base itself (K = 1).
func mulChain(v ssa.Value) (base ssa.Value, k int64) {
	k = 1
	for {
		b, ok := v.(*ssa.BinOp)
		if !ok || b.Op != token.MUL {
			return v, k
		}
		if c, isK := constIntOf(b.Y); isK {
			k *= c
			v = b.X
			continue
		}
		if c, isK := constIntOf(b.X); isK {
			k *= c
			v = b.Y
			continue
		}
		return v, k
	}
}

// c06TTLUnits: the unit letters of a TTL accumulate: every unit arm adds digits x unit seconds to the running
// total (sibling arms of one switch), with the RFC 1035 / BIND unit table s=1 m=60 h=3600 d=86400 w=604800.
func c06TTLUnits(c *Ctx, r *Report) {
	r.rule("C06.R3.ttl-units", 1, "every unit arm of stringToTTL adds digits x unit to the running total; units s,m,h,d,w = 1,60,3600,86400,604800 in either case")
	fn := c.ssaFunc("stringToTTL")
	if fn == nil {
		r.cerr("C06.R3.ttl-units", "stringToTTL", "function not found")
		return
	}
	r.fn("stringToTTL")
	// the running total: the phi with the most edges of the form phi + x
	var total *ssa.Phi
	best := 0
	allInstrs(fn, func(in ssa.Instruction) {
		p, ok := in.(*ssa.Phi)
		if !ok {
			return
		}
		n := 0
		for _, e := range phiLeavesWithin(p) {
			if b, ok := e.(*ssa.BinOp); ok && b.Op == token.ADD && (b.X == p || b.Y == p) {
				n++
			}
		}
		if n > best {
			best, total = n, p
		}
	})
	var problems []string
	// the units in a table built once (unit letter -> seconds): one arm, total += digits * table[letter]
	tableOf := func(other ssa.Value) map[int64]int64 {
		mul, ok := other.(*ssa.BinOp)
		if !ok || mul.Op != token.MUL {
			return nil
		}
		for _, side := range []ssa.Value{mul.X, mul.Y} {
			ex, ok := side.(*ssa.Extract)
			if !ok || ex.Index != 0 {
				continue
			}
			lk, ok := ex.Tuple.(*ssa.Lookup)
			if !ok {
				continue
			}
			ld, ok := lk.X.(*ssa.UnOp)
			if !ok {
				continue
			}
			g, ok := ld.X.(*ssa.Global)
			if !ok {
				continue
			}
			if _, entries, ok := constMapEntries(fn.Pkg, g); ok {
				return entries
			}
		}
		return nil
	}
	hasTable := false
	if total != nil {
		for _, e := range phiLeavesWithin(total) {
			if b, ok := e.(*ssa.BinOp); ok && b.Op == token.ADD && (b.X == total || b.Y == total) {
				other := b.Y
				if b.Y == total {
					other = b.X
				}
				if tableOf(other) != nil {
					hasTable = true
				}
			}
		}
	}
	if total == nil || (best < 3 && !hasTable) {
		r.undecided("C06.R3.ttl-units", "stringToTTL", c.pos(fn.Pos()), "no running total with unit arms recognised in stringToTTL")
		return
	}
	want := map[byte]int64{'s': 1, 'S': 1, 'm': 60, 'M': 60, 'h': 3600, 'H': 3600, 'd': 86400, 'D': 86400, 'w': 604800, 'W': 604800}
	got := map[byte]int64{}
	charsOf := func(b *ssa.BasicBlock) []byte {
		var out []byte
		for _, p := range b.Preds {
			ifi, ok := p.Instrs[len(p.Instrs)-1].(*ssa.If)
			if !ok || p.Succs[0] != b {
				continue
			}
			if cmp, ok := ifi.Cond.(*ssa.BinOp); ok && cmp.Op == token.EQL {
				if k, isK := constIntOf(cmp.Y); isK && k > 0 && k < 128 {
					out = append(out, byte(k))
				}
			}
		}
		return out
	}
	for _, e := range phiLeavesWithin(total) {
		if k, isK := constIntOf(e); isK && k == 0 {
			continue
		}
		if e == ssa.Value(total) {
			continue
		}
		b, ok := e.(*ssa.BinOp)
		if ok && b.Op == token.ADD && (b.X == total || b.Y == total) {
			other := b.Y
			if b.Y == total {
				other = b.X
			}
			if tbl := tableOf(other); tbl != nil {
				for key, v := range tbl {
					if key > 0 && key < 128 {
						got[byte(key)] = v
					} else {
						problems = append(problems, fmt.Sprintf("unexpected unit %d in the unit table", key))
					}
				}
				continue
			}
			_, k := mulChain(other)
			for _, ch := range charsOf(b.Block()) {
				got[ch] = k
			}
			continue
		}
		in, _ := e.(ssa.Instruction)
		pos := ""
		chars := ""
		if in != nil {
			pos = c.pos(in.Pos())
			chars = string(charsOf(in.Block()))
		}
		problems = append(problems, fmt.Sprintf("%s: a unit arm (%s) replaces the running total instead of adding to it: the units written before it are lost (1w2d reads as 2d)", pos, chars))
	}
	var keys []int
	for ch := range want {
		keys = append(keys, int(ch))
	}
	sort.Ints(keys)
	for _, ki := range keys {
		ch := byte(ki)
		if g, ok := got[ch]; !ok {
			problems = append(problems, fmt.Sprintf("unit %q has no accumulating arm", string(ch)))
		} else if g != want[ch] {
			problems = append(problems, fmt.Sprintf("unit %q multiplies by %d, want %d", string(ch), g, want[ch]))
		}
	}
	for ch := range got {
		if _, ok := want[ch]; !ok {
			problems = append(problems, fmt.Sprintf("unexpected unit %q", string(ch)))
		}
	}
	sort.Strings(problems)
	r.check(len(problems) == 0, "C06.R3.ttl-units", "stringToTTL", c.pos(fn.Pos()), "5 units x 2 cases accumulate", "%s", strings.Join(problems, "; "))
}

// phiLeavesWithin: the non-phi values flowing into p (through other phis), plus p itself when it flows back unchanged.
func phiLeavesWithin(p *ssa.Phi) []ssa.Value {
	seen := map[ssa.Value]bool{}
	var out []ssa.Value
	var walk func(v ssa.Value, top bool)
	walk = func(v ssa.Value, top bool) {
		if q, ok := v.(*ssa.Phi); ok {
			if q == p && !top {
				out = append(out, p)
				return
			}
			if seen[q] {
				return
			}
			seen[q] = true
			for _, e := range q.Edges {
				walk(e, false)
			}
			return
		}
		out = append(out, v)
	}
	walk(p, true)
	return out
}

// c06GenerateRange: RFC-less but documented BIND semantics: $GENERATE start-stop is inclusive at both ends, so
// a single-value range (5-5) yields one record. The range guard must reject end < start and nothing more.
func c06GenerateRange(c *Ctx, r *Report) {
	r.rule("C06.R5.generate-range", 1, "$GENERATE's range guard rejects exactly end < start (a single-value range is a range)")
	fn := c.ssaFunc("ZoneParser.generate")
	if fn == nil {
		r.cerr("C06.R5.generate-range", "ZoneParser.generate", "function not found")
		return
	}
	var gr *ssa.Alloc
	allInstrs(fn, func(in ssa.Instruction) {
		if al, ok := in.(*ssa.Alloc); ok {
			if n := derefNamed(al.Type()); n != nil && n.Obj().Name() == "generateReader" {
				gr = al
			}
		}
	})
	if gr == nil {
		r.cerr("C06.R5.generate-range", "ZoneParser.generate", "no generateReader allocation")
		return
	}
	get := func(field string) ssa.Value {
		var v ssa.Value
		for _, ref := range *gr.Referrers() {
			if fa, ok := ref.(*ssa.FieldAddr); ok && readsField("generateReader", field)(fa) {
				for _, r2 := range *fa.Referrers() {
					if st, ok := r2.(*ssa.Store); ok {
						v = st.Val
					}
				}
			}
		}
		return v
	}
	start, end := get("start"), get("end")
	if start == nil || end == nil {
		r.cerr("C06.R5.generate-range", "ZoneParser.generate", "start/end of the generator not found")
		return
	}
	nonStrict := len(guardsMissing(fn, gr.Block(), []Guard{{Name: "end >= start", Op: "lt", A: isValue(end), B: isValue(start), Holds: false}})) == 0
	strict := len(guardsMissing(fn, gr.Block(), []Guard{{Name: "end > start", Op: "lt", A: isValue(start), B: isValue(end), Holds: true}})) == 0
	switch {
	case strict:
		r.fail("C06.R5.generate-range", "ZoneParser.generate", c.pos(gr.Pos()), "the generator is only created when end > start: `$GENERATE 5-5 ...`, a range of one value, is rejected as a bad range (and the rest of the zone with it)")
	case nonStrict:
		r.ok("C06.R5.generate-range", "ZoneParser.generate", c.pos(gr.Pos()), "created iff end >= start")
	default:
		r.undecided("C06.R5.generate-range", "ZoneParser.generate", c.pos(gr.Pos()), "no comparison of end with start guards the generator")
	}
}

// c06IncludeFile: the sub-parser of an $INCLUDE is told the path that was actually opened; relative $INCLUDEs
// inside the included file are resolved against it.
func c06IncludeFile(c *Ctx, r *Report) {
	r.rule("C06.R4.include-file", 1, "the $INCLUDE sub-parser's file name is the path that was opened (nested relative includes resolve against it)")
	nx := c.ssaFunc("ZoneParser.Next")
	if nx == nil {
		r.cerr("C06.R4.include-file", "ZoneParser.Next", "function not found")
		return
	}
	news := callsIn(nx, "NewZoneParser")
	if len(news) != 1 {
		r.cerr("C06.R4.include-file", "ZoneParser.Next", "%d NewZoneParser calls", len(news))
		return
	}
	var opened []ssa.Value
	allInstrs(nx, func(in ssa.Instruction) {
		call, ok := in.(*ssa.Call)
		if !ok {
			return
		}
		n := calleeNameSSA(&call.Call)
		switch {
		case n == "os.Open" || n == "os.OpenFile":
			opened = append(opened, call.Call.Args[0])
		case call.Call.IsInvoke() && call.Call.Method.Name() == "Open":
			opened = append(opened, call.Call.Args[0])
		}
	})
	var problems []string
	if len(opened) == 0 {
		problems = append(problems, "no file is opened in Next")
	}
	var covered func(v ssa.Value, depth int) bool
	covered = func(v ssa.Value, depth int) bool {
		for _, o := range opened {
			if o == v {
				return true
			}
		}
		if phi, ok := v.(*ssa.Phi); ok && depth < 6 {
			for _, e := range phi.Edges {
				if !covered(e, depth+1) {
					return false
				}
			}
			return true
		}
		return false
	}
	if arg := news[0].Common().Args[2]; !covered(arg, 0) {
		problems = append(problems, fmt.Sprintf("%s: the sub-parser is given %s as its file, which is not the path that was opened: a relative $INCLUDE inside the included file is resolved against the wrong directory", c.pos(news[0].Pos()), describeValue(arg)))
	}
	r.check(len(problems) == 0, "C06.R4.include-file", "Next:$INCLUDE", c.pos(nx.Pos()), "file = opened path", "%s", strings.Join(problems, "; "))
}

func describeValue(v ssa.Value) string {
	if u, ok := v.(*ssa.UnOp); ok && u.Op == token.MUL {
		if fa, ok := u.X.(*ssa.FieldAddr); ok {
			return "field " + fieldNameOf(fa)
		}
	}
	if e, ok := v.(*ssa.Extract); ok {
		return fmt.Sprintf("result %d of %s", e.Index, e.Tuple.Name())
	}
	return v.Name() + " (" + v.String() + ")"
}

// c06GenerateEscape: in the $GENERATE template reader a backslash sets the escape flag for exactly the next
// character: every branch taken because the flag is set clears it before returning. A flag that stays set makes
// the following '$' (an iterator position) literal.
func c06GenerateEscape(c *Ctx, r *Report) {
	r.rule("C06.R5.generate-escape", 3, "every branch of generateReader.ReadByte taken on the escape flag clears the flag before it returns")
	fn := c.ssaFunc("generateReader.ReadByte")
	if fn == nil {
		r.cerr("C06.R5.generate-escape", "generateReader.ReadByte", "function not found")
		return
	}
	isClear := func(in ssa.Instruction) bool {
		st, ok := in.(*ssa.Store)
		if !ok || !readsField("generateReader", "escape")(st.Addr) {
			return false
		}
		b, isB := constBool(st.Val)
		return isB && !b
	}
	n := 0
	allInstrs(fn, func(in ssa.Instruction) {
		ifi, ok := in.(*ssa.If)
		if !ok {
			return
		}
		atom, pol := condAtom(ifi.Cond)
		u, ok := atom.(*ssa.UnOp)
		if !ok || u.Op != token.MUL || !readsField("generateReader", "escape")(u.X) {
			return
		}
		n++
		succ := ifi.Block().Succs[0]
		if !pol {
			succ = ifi.Block().Succs[1]
		}
		ok2, blk := mustPass(fn, succ, -1, isClear)
		pos := c.pos(ifi.Pos())
		where := ""
		if blk != nil {
			where = c.pos(blk.Instrs[len(blk.Instrs)-1].Pos())
		}
		r.check(ok2, "C06.R5.generate-escape", fmt.Sprintf("ReadByte:escape#%d", n), pos, "cleared", "the branch taken because the previous character was a backslash can return (%s) with the escape flag still set: the flag leaks onto the next character, so a following `$` is copied literally instead of being replaced by the iterator value", where)
	})
}

// c06LexerRecordEnd: the lexer looks tokens up as type / class mnemonics only until the record type was seen
// (zl.rrtype). The flag belongs to one record: it is cleared only where a record ends, i.e. on a newline outside
// parentheses. Clearing it inside parentheses (after a comment, say) turns RDATA tokens that happen to spell a
// mnemonic back into keywords, so the same record parses differently with and without the comment.
func c06LexerRecordEnd(c *Ctx, r *Report) {
	r.rule("C06.R6.lexer-record-end", 2, "zlexer clears its record-type-seen flag only outside parentheses (brace == 0)")
	fn := c.ssaFunc("zlexer.Next")
	if fn == nil {
		r.cerr("C06.R6.lexer-record-end", "zlexer.Next", "function not found")
		return
	}
	braceZero := Guard{Name: "zl.brace == 0", Op: "eq", A: readsField("zlexer", "brace"), B: isConstInt(0), Holds: true}
	n := 0
	for _, st := range storesToField(fn, "zlexer", "rrtype") {
		if b, ok := constBool(st.Val); !ok || b {
			continue
		}
		n++
		miss := guardsMissing(fn, st.Block(), []Guard{braceZero})
		r.check(len(miss) == 0, "C06.R6.lexer-record-end", fmt.Sprintf("zlexer.Next:rrtype=false#%d", n), c.pos(st.Pos()), "behind brace == 0", "the record-type-seen flag is cleared without zl.brace == 0 having been established: inside parentheses the record goes on, and the RDATA tokens after this point are looked up as type and class mnemonics again (`NSEC y. ( A ; c<NL> MX )` is refused)")
	}
}
