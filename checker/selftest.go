package main

// Thorough tier: replay the seeded mutants (independent sub-agent changes kept under /verif/seeded) against a
// scratch copy of /repo and require the check to report a violation for each. This validates the checker; it is
// not a verdict on /repo. A mutant whose patch no longer applies to the current tree is reported as skipped.

import (
	"encoding/json"
	"fmt"
	"os"
	"os/exec"
	"path/filepath"
	"sort"
	"strings"
	"sync"
)

type seededMeta struct {
	ID         string   `json:"id"`
	Property   string   `json:"property"`
	Status     string   `json:"status"`
	DetectedBy []string `json:"detected_by"`
}

type selfTestResult struct {
	Mutant string `json:"mutant"`
	Result string `json:"result"` // killed | survived | skipped
	Detail string `json:"detail,omitempty"`
}

func selfTestSeeded(id, verif, repo string, r *Report) {
	metas, _ := filepath.Glob(filepath.Join(verif, "seeded", "*", "meta.json"))
	sort.Strings(metas)
	var todo []seededMeta
	dirs := map[string]string{}
	for _, mf := range metas {
		b, err := os.ReadFile(mf)
		if err != nil {
			continue
		}
		var m seededMeta
		if json.Unmarshal(b, &m) != nil || m.Status != "detected" {
			continue
		}
		for _, p := range m.DetectedBy {
			if p == id {
				todo = append(todo, m)
				dirs[m.ID] = filepath.Dir(mf)
			}
		}
	}
	r.rule(id+".selftest", 0, "every seeded mutant this check is recorded to catch is still caught (checker validation on a scratch copy)")
	results := make([]selfTestResult, len(todo))
	var wg sync.WaitGroup
	sem := make(chan struct{}, 12)
	for i, m := range todo {
		wg.Add(1)
		go func(i int, m seededMeta) {
			defer wg.Done()
			sem <- struct{}{}
			defer func() { <-sem }()
			results[i] = runSeeded(id, dirs[m.ID], m.ID, repo, verif)
		}(i, m)
	}
	wg.Wait()
	for _, res := range results {
		switch res.Result {
		case "killed":
			r.ok(id+".selftest", res.Mutant, "", "violation reported on the scratch copy")
		case "skipped":
			r.ok(id+".selftest", res.Mutant, "", "skipped: "+res.Detail)
			r.note("selftest: %s skipped: %s", res.Mutant, res.Detail)
		default:
			r.cerr(id+".selftest", res.Mutant, "the check no longer reports the seeded change %s (%s): the checker has lost a detection it is recorded to have", res.Mutant, res.Detail)
		}
	}
	r.extra["seeded_selftest"] = results
}

func runSeeded(id, mdir, mid, repo, verif string) selfTestResult {
	res := selfTestResult{Mutant: mid}
	tmp, err := os.MkdirTemp("", "dnsverif-selftest-")
	if err != nil {
		res.Result, res.Detail = "skipped", err.Error()
		return res
	}
	defer os.RemoveAll(tmp)
	scratch := filepath.Join(tmp, "repo")
	if out, err := exec.Command("cp", "-a", repo, scratch).CombinedOutput(); err != nil {
		res.Result, res.Detail = "skipped", "copy failed: "+string(out)
		return res
	}
	os.RemoveAll(filepath.Join(scratch, ".git"))
	ap := exec.Command("git", "apply", "--unsafe-paths", "--directory="+scratch, filepath.Join(mdir, "patch.diff"))
	ap.Dir = tmp
	if out, err := ap.CombinedOutput(); err != nil {
		// try plain patch
		p2 := exec.Command("patch", "-p1", "-s", "-i", filepath.Join(mdir, "patch.diff"))
		p2.Dir = scratch
		if out2, err2 := p2.CombinedOutput(); err2 != nil {
			res.Result, res.Detail = "skipped", "patch no longer applies: "+firstLine(string(out))+" / "+firstLine(string(out2))
			return res
		}
	}
	tv := filepath.Join(tmp, "verif")
	os.MkdirAll(tv, 0o755)
	if b, err := os.ReadFile(filepath.Join(verif, "known_findings.json")); err == nil {
		os.WriteFile(filepath.Join(tv, "known_findings.json"), b, 0o644)
	}
	cmd := exec.Command(os.Args[0], "check", id, "--tier", "quick", "--repo", scratch, "--verif", tv)
	cmd.Env = append(os.Environ(), "VERIF_TIER=quick")
	out, err := cmd.CombinedOutput()
	if err == nil {
		res.Result, res.Detail = "survived", "exit 0"
		return res
	}
	if ee, ok := err.(*exec.ExitError); ok && ee.ExitCode() == 1 && strings.Contains(string(out), "VIOLATION property="+id) {
		res.Result = "killed"
		for _, l := range strings.Split(string(out), "\n") {
			if strings.Contains(l, ": violation: ") {
				if i := strings.Index(l, ": violation: "); i >= 0 {
					d := l[i+13:]
					if len(d) > 160 {
						d = d[:160]
					}
					res.Detail = d
				}
				break
			}
		}
		return res
	}
	res.Result, res.Detail = "survived", "unexpected outcome: "+firstLine(string(out))
	return res
}

func firstLine(s string) string {
	if i := strings.IndexByte(s, '\n'); i >= 0 {
		s = s[:i]
	}
	if len(s) > 200 {
		s = s[:200]
	}
	return s
}

// selfTestBenign: the other direction. /verif/benign holds behaviour-preserving edits (refactors a maintainer might
// make, and seeded changes that a later repair made harmless); the check must stay silent on every one of them.
func selfTestBenign(id, verif, repo string, r *Report) {
	all, _ := filepath.Glob(filepath.Join(verif, "benign", "*", "patch.diff"))
	sort.Strings(all)
	// an edit whose meta.json lists the properties it is about (the author's, and those whose checks alarmed on it
	// before they were corrected) is replayed under those only
	var dirs []string
	for _, d := range all {
		var meta struct {
			Properties []string `json:"properties"`
		}
		if b, err := os.ReadFile(filepath.Join(filepath.Dir(d), "meta.json")); err == nil {
			json.Unmarshal(b, &meta)
		}
		keep := len(meta.Properties) == 0
		for _, p := range meta.Properties {
			if p == id {
				keep = true
			}
		}
		if keep {
			dirs = append(dirs, d)
		}
	}
	r.rule(id+".benign", 0, "the check raises no alarm on any behaviour-preserving edit of the benign corpus (checker validation on a scratch copy)")
	results := make([]selfTestResult, len(dirs))
	var wg sync.WaitGroup
	sem := make(chan struct{}, 12)
	for i, d := range dirs {
		wg.Add(1)
		go func(i int, d string) {
			defer wg.Done()
			sem <- struct{}{}
			defer func() { <-sem }()
			results[i] = runSeeded(id, filepath.Dir(d), filepath.Base(filepath.Dir(d)), repo, verif)
		}(i, d)
	}
	wg.Wait()
	for _, res := range results {
		switch res.Result {
		case "survived":
			if res.Detail == "exit 0" {
				r.ok(id+".benign", res.Mutant, "", "silent on the scratch copy")
			} else {
				r.cerr(id+".benign", res.Mutant, "unexpected outcome on the benign edit %s: %s", res.Mutant, res.Detail)
			}
		case "skipped":
			r.ok(id+".benign", res.Mutant, "", "skipped: "+res.Detail)
			r.note("benign: %s skipped: %s", res.Mutant, res.Detail)
		default:
			r.cerr(id+".benign", res.Mutant, "the check raises an alarm on the behaviour-preserving edit %s (%s): a false alarm in the machinery", res.Mutant, res.Detail)
		}
	}
	r.extra["benign_selftest"] = results
}

var _ = fmt.Sprintf
