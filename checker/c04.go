package main

import (
	"fmt"
	"go/ast"
	"go/token"
	"go/types"
	"sort"
	"strings"

	"golang.org/x/tools/go/ssa"
)

func init() { register("C04", true, false, checkC04) }

const c04Explanation = `Decided statically on every path: (R1) which names may be compressed: the set of struct fields tagged cdomain-name is exactly the question/owner names plus the RDATA names of the RFC 1035 types (NS MD MF CNAME SOA x2 MB MG MR PTR MINFO x2 MX - RFC 3597 s.4); every generated packer passes the caller's compress flag for exactly those fields and the constant false for every other name; every other caller of packDomainName/PackDomainName inside the module passes false or forwards a parameter that all its callers set to false; (R2) PackBuffer packs with compress=true and a compression map only on the edge where Msg.Compress && isCompressible(); (R3) in packDomainName a suffix offset enters the map only on the edge off < maxCompressionOffset (= 1<<14), the recorded offset is the very value at which the label's length octet is then written, a pointer is emitted only from a value returned by the map lookup, only when compress is set, xor-ed with 0xC000; (R4) the map keys are substrings of the name argument itself (no case folding: letter case is preserved); (R5) every name-kind field of every type is unpacked through UnpackDomainName (which follows pointers), so compressed names are accepted on input for every type. NOT decided: that compressed and uncompressed packings decode to the same message for all messages, and that the compressed form is never longer: round-trip / numeric clauses.`

// rfc1035Compressible is the RFC 3597 s.4 list of RDATA names that may be compressed.
var rfc1035Compressible = map[string]bool{
	"NS.Ns": true, "MD.Md": true, "MF.Mf": true, "CNAME.Target": true, "SOA.Ns": true, "SOA.Mbox": true,
	"MB.Mb": true, "MG.Mg": true, "MR.Mr": true, "PTR.Ptr": true, "MINFO.Rmail": true, "MINFO.Email": true, "MX.Mx": true,
}

func checkC04(c *Ctx, r *Report) {
	r.Explanation = c04Explanation
	r.Trusted = []string{"go/types resolution", "go/ssa translation", "RFC 3597 s.4 list of compressible RDATA names in checker/c04.go"}
	c04R1(c, r)
	pointerOffsetLimit(c, r, "C04.R2.pointer-offset-limit")
	c04R2(c, r)
	insertOnMissOnly(c, r, "C04.R3.insert-on-miss-only")
	borrow(c, r, c08R5, "C08.R5.escape-skip", "C04.R3.escape-skip", 1, "escapedNameLen steps over a whole escape", nil, "the 255-octet test made where a compression pointer replaces the rest of a name undercounts names with escapes: a name of 256 octets is emitted, which no decoder accepts")
	c04R3(c, r)
	c04R4b(c, r)
	c04R5(c, r)
	c04R5b(c, r)
	c04WholeMessage(c, r)
	c04FreshMap(c, r)
	c04PackWhole(c, r)
	c04RootGuard(c, r)
	c03SuffixIndex(c, r, "C04.R3.suffix-index")
	typeTableStructs(c, r, "C04.R1.type-table", "a received or parsed record of that type is packed by the other struct's packer: names in its RDATA are compressed (or not) against its own struct tags, e.g. NSAP-PTR through PTR's cdomain-name")
	borrow(c, r, c08R3, "C08.R3.buffer", "C04.R5.pack-buffer", 1, "the buffer packed into holds the uncompressed message: labels are bounds-checked before they are replaced by a pointer, so a buffer sized for the compressed form makes compressed packing fail where uncompressed packing succeeds", nil, "packing with compression then fails (ErrBuf) for buffers that hold the compressed form")
	// a legal name must not be refused because it is compressed: the pointer exit measures the remainder in wire octets
	sub := newReport("tmp", r.Tier)
	c03EarlyExits(c, sub)
	r.rule("C04.R3.pointer-exit-length", 1, "the length test on the compression-pointer exit measures the remainder in wire octets")
	for _, o := range sub.obls {
		if o.Construct == "packDomainName" {
			r.add("C04.R3.pointer-exit-length", o.Construct, o.Status, o.Pos, o.Detail)
		}
	}
	unpackExits(c, r, "C04.R2.unpack-exits", "wire data that is valid for the type (for instance a name that another implementation compressed, which every type must accept on input) is refused")
	headerWritten(c, r, "C04.R3.header-written", "an owner name is not written (or written as a pointer nobody checked against the 16384 limit)")
	consumedOffset(c, r, "C04.R4.consumed-offset")
	r.rule("C04.R2.question-exits", 1, "unpackQuestion refuses only what the name and integer codecs refuse")
	codecExitsOnly(c, r, "C04.R2.question-exits", "unpackQuestion", 3, "a question name that arrives compressed (the packer compresses the second and later questions) is refused")
	pointersOnlyFromPacker(c, r, "C04.R3.pointer-writers")
	ctorByTypeOnly(c, r, "C04.R2.ctor-by-type")
	pointerLimitAdmitsOwnOutput(c, r, "C04.R5.pointer-limit")
	copyKeepsType(c, r, "C04.R1.copy-type")
	pointerReaders(c, r, "C04.R5.pointer-readers")
	round12(c, r, "C04")
}

// c04R4b: the map accessors index with the key they are given (no normalisation inside find/insert).
func c04R4b(c *Ctx, r *Report) {
	r.rule("C04.R4.accessors", 3, "compressionMap.find/insert and compressionLenSearch use the key unmodified")
	for _, name := range []string{"compressionMap.find", "compressionMap.insert"} {
		fn := c.ssaFunc(name)
		if fn == nil {
			r.cerr("C04.R4.accessors", name, "function not found")
			continue
		}
		r.fn(name)
		var sParam ssa.Value
		for _, p := range fn.Params {
			if p.Name() == "s" {
				sParam = p
			}
		}
		var problems []string
		n := 0
		allInstrs(fn, func(in ssa.Instruction) {
			switch t := in.(type) {
			case *ssa.Lookup:
				if _, isMap := t.X.Type().Underlying().(*types.Map); isMap {
					n++
					if t.Index != sParam {
						problems = append(problems, fmt.Sprintf("%s: map looked up with %v, not the key argument", c.pos(t.Pos()), t.Index))
					}
				}
			case *ssa.MapUpdate:
				n++
				if t.Key != sParam {
					problems = append(problems, fmt.Sprintf("%s: map updated under %v, not the key argument", c.pos(t.Pos()), t.Key))
				}
			case *ssa.Call:
				cn := calleeNameSSA(&t.Call)
				if strings.HasPrefix(cn, "strings.") || strings.HasPrefix(cn, "bytes.") || cn == "CanonicalName" {
					problems = append(problems, fmt.Sprintf("%s: key is transformed by %s", c.pos(t.Pos()), cn))
				}
			}
		})
		if n == 0 {
			problems = append(problems, "no map access found")
		}
		r.check(len(problems) == 0, "C04.R4.accessors", name, c.pos(fn.Pos()), "key used as given", "%s", strings.Join(problems, "; "))
	}
	fn := c.ssaFunc("compressionLenSearch")
	if fn == nil {
		r.cerr("C04.R4.accessors", "compressionLenSearch", "function not found")
		return
	}
	r.fn("compressionLenSearch")
	var problems []string
	allInstrs(fn, func(in ssa.Instruction) {
		var key ssa.Value
		switch t := in.(type) {
		case *ssa.Lookup:
			if _, isMap := t.X.Type().Underlying().(*types.Map); !isMap {
				return
			}
			key = t.Index
		case *ssa.MapUpdate:
			key = t.Key
		default:
			return
		}
		sl, ok := key.(*ssa.Slice)
		if p, isP := func() (*ssa.Parameter, bool) {
			if !ok {
				return nil, false
			}
			p, isP := sl.X.(*ssa.Parameter)
			return p, isP
		}(); !ok || !isP || p.Name() != "s" || sl.High != nil {
			problems = append(problems, fmt.Sprintf("%s: key %v is not a suffix of the name", c.pos(in.Pos()), key))
		}
	})
	r.check(len(problems) == 0, "C04.R4.accessors", "compressionLenSearch", c.pos(fn.Pos()), "suffix keys", "%s", strings.Join(problems, "; "))
}

// c04R5b: the pointer target decoded by UnpackDomainName is the 14-bit offset (c with the two tag bits removed)<<8 | next octet.
func c04R5b(c *Ctx, r *Report) {
	r.rule("C04.R5.pointer-decode", 1, "UnpackDomainName decodes a pointer as ((c ^ 0xC0) << 8) | c1 on the c&0xC0 == 0xC0 branch")
	fn := c.ssaFunc("UnpackDomainName")
	if fn == nil {
		r.cerr("C04.R5.pointer-decode", "UnpackDomainName", "function not found")
		return
	}
	r.fn("UnpackDomainName")
	n := 0
	var problems []string
	allInstrs(fn, func(in ssa.Instruction) {
		or, ok := in.(*ssa.BinOp)
		if !ok || (or.Op != token.OR && or.Op != token.ADD) {
			return
		}
		shl, ok := or.X.(*ssa.BinOp)
		lo := or.Y
		if !ok || shl.Op != token.SHL {
			shl, ok = or.Y.(*ssa.BinOp)
			lo = or.X
			if !ok || shl.Op != token.SHL {
				return
			}
		}
		n++
		if k, ok := constIntOf(shl.Y); !ok || k != 8 {
			problems = append(problems, fmt.Sprintf("%s: high part shifted by %v, want 8", c.pos(or.Pos()), shl.Y))
		}
		hi, ok := shl.X.(*ssa.BinOp)
		good := false
		var cval ssa.Value
		if ok {
			if k, isK := constIntOf(hi.Y); isK {
				if (hi.Op == token.XOR && k == 0xC0) || (hi.Op == token.AND && k == 0x3F) || (hi.Op == token.SUB && k == 0xC0) || (hi.Op == token.AND_NOT && k == 0xC0) {
					good = true
					cval = hi.X
				}
			}
		}
		if !good {
			problems = append(problems, fmt.Sprintf("%s: high part %v does not keep exactly the low 6 bits of the tag octet (a pointer is 14 bits)", c.pos(or.Pos()), shl.X))
			return
		}
		// on this path c & 0xC0 == 0xC0
		isTagTest := func(v ssa.Value) bool {
			b, ok := v.(*ssa.BinOp)
			if !ok || b.Op != token.AND || b.X != cval {
				return false
			}
			k, ok := constIntOf(b.Y)
			return ok && k == 0xC0
		}
		g := Guard{Name: "c & 0xC0 == 0xC0", Op: "eq", A: isTagTest, B: isConstInt(0xC0), Holds: true}
		if miss := guardsMissing(fn, or.Block(), []Guard{g}); len(miss) > 0 {
			problems = append(problems, fmt.Sprintf("%s: pointer decoded without the test %s", c.pos(or.Pos()), miss[0]))
		}
		// low part is an octet of msg
		if !anyIn(sliceOf(lo), func(v ssa.Value) bool {
			ia, ok := v.(*ssa.IndexAddr)
			return ok && ia.X == fn.Params[0]
		}) {
			problems = append(problems, fmt.Sprintf("%s: low part of the pointer is not an octet of the message", c.pos(or.Pos())))
		}
	})
	if n != 1 {
		problems = append(problems, fmt.Sprintf("%d pointer-decode expressions found, expected one", n))
	}
	r.check(len(problems) == 0, "C04.R5.pointer-decode", "UnpackDomainName", c.pos(fn.Pos()), "(c^0xC0)<<8|c1", "%s", strings.Join(problems, "; "))
}

func c04R1(c *Ctx, r *Report) {
	r.rule("C04.R1.tag-set", 40, "a name field is tagged cdomain-name iff it is an RFC 1035 RDATA name")
	r.rule("C04.R1.flag", 38, "the generated packer passes compress for cdomain-name fields and false for all other names")
	r.rule("C04.R1.other-callers", 8, "all other in-module callers of packDomainName pass false, forward a parameter, or are the question/owner packers")
	for _, t := range c.rrTypes() {
		if t.Name == "PrivateRR" {
			continue
		}
		fd := c.decl(t.Name + ".pack")
		if fd == nil {
			continue
		}
		cb := c.analyseCodecBody(fd, "pack", allPackHelpers)
		byField := map[*types.Var]*codecCall{}
		for _, cc := range cb.Calls {
			for _, f := range cc.Fields {
				byField[f] = cc
			}
		}
		// the RFC list is keyed by the declaring struct (embedded types share the field)
		for _, f := range t.Fields {
			k, err := kindOf(f)
			if err != nil {
				continue
			}
			bk := baseKind(k)
			if bk != "C" && bk != "N" && bk != "N*" && bk != "gw" {
				continue
			}
			key := t.Name + "." + f.Name
			declKey := key
			if t.Embeds != "" {
				declKey = t.Embeds + "." + f.Name
			}
			want := rfc1035Compressible[declKey] && t.Embeds == ""
			if t.Embeds != "" {
				// an embedding type (SIG, NXT, KEY, ...) is a different RR type: never in the RFC 1035 set
				want = false
				if rfc1035Compressible[declKey] {
					r.fail("C04.R1.tag-set", key, c.pos(f.Var.Pos()), "type %s embeds %s and inherits a compressible name tag, but %s is not an RFC 1035 type", t.Name, t.Embeds, t.Name)
					continue
				}
			}
			r.check((bk == "C") == want, "C04.R1.tag-set", key, c.pos(f.Var.Pos()), "tag "+f.Tag,
				"field %s is tagged %q; RFC 3597 s.4 says compressible=%v", key, f.Tag, want)
			cc := byField[f.Var]
			if cc == nil {
				r.fail("C04.R1.flag", key, c.pos(fd.Pos()), "no pack call for name field %s", key)
				continue
			}
			r.fn(t.Name + ".pack")
			wantFlag := "false"
			if want {
				wantFlag = "param"
			}
			r.check(cc.Compress == wantFlag, "C04.R1.flag", key, c.pos(cc.Pos), "compress="+cc.Compress,
				"packer passes compress=%q for %s, must be %q", cc.Compress, key, wantFlag)
		}
	}
	// Question.Name and RR_Header.Name are compressible
	for _, q := range []struct{ typ, field string }{{"Question", "Name"}, {"RR_Header", "Name"}} {
		st := c.structOf(q.typ)
		found := false
		if st != nil {
			for i := 0; i < st.NumFields(); i++ {
				if st.Field(i).Name() == q.field {
					found = true
					r.check(dnsTag(st.Tag(i)) == "cdomain-name", "C04.R1.tag-set", q.typ+"."+q.field, c.pos(st.Field(i).Pos()), "cdomain-name", "%s.%s must be tagged cdomain-name, is %q", q.typ, q.field, dnsTag(st.Tag(i)))
				}
			}
		}
		if !found {
			r.cerr("C04.R1.tag-set", q.typ+"."+q.field, "field not found")
		}
	}
	// other callers
	type site struct {
		fn   string
		call *ast.CallExpr
	}
	var sites []site
	for name, fd := range c.decls {
		if fd.Body == nil {
			continue
		}
		if strings.HasSuffix(name, ".pack") && c.fileOf[fd] != nil && strings.HasSuffix(c.Fset.Position(fd.Pos()).Filename, "zmsg.go") {
			continue
		}
		ast.Inspect(fd.Body, func(n ast.Node) bool {
			if call, ok := n.(*ast.CallExpr); ok {
				cn := c.calleeName(call)
				if cn == "packDomainName" || cn == "PackDomainName" || cn == "packDataDomainNames" || cn == "packIPSECGateway" {
					sites = append(sites, site{name, call})
				}
			}
			return true
		})
	}
	sort.Slice(sites, func(i, j int) bool { return sites[i].call.Pos() < sites[j].call.Pos() })
	// helpers whose compress parameter must only ever receive false
	forwardOnly := map[string]bool{"packDataDomainNames": true, "packIPSECGateway": true}
	for _, s := range sites {
		fd := c.decl(s.fn)
		call := s.call
		last := call.Args[len(call.Args)-1]
		construct := fmt.Sprintf("%s->%s(%s)", s.fn, c.calleeName(call), types.ExprString(call.Args[0]))
		pos := c.pos(call.Pos())
		r.fn(s.fn)
		if tv, ok := c.Info.Types[last]; ok && tv.Value != nil {
			r.check(tv.Value.String() == "false", "C04.R1.other-callers", construct, pos, "constant false", "passes constant compress=%s", tv.Value.String())
			continue
		}
		cp := c.paramByName(fd, "compress")
		if cp != nil && c.isIdentOf(last, cp) {
			switch {
			case s.fn == "PackDomainName":
				r.ok("C04.R1.other-callers", construct, pos, "public API forwards the caller's flag")
			case s.fn == "Question.pack" || s.fn == "RR_Header.packHeader":
				// compressible by RFC 1035: argument 0 must be the Name field
				p, _ := c.fieldPath(call.Args[0], c.recvObj(fd))
				if p == "" {
					p, _ = c.fieldPath(call.Args[0], c.paramObj(fd, 0))
				}
				r.check(p == "Name", "C04.R1.other-callers", construct, pos, "owner/question name", "forwards compress for %s, not the Name field", types.ExprString(call.Args[0]))
			case forwardOnly[s.fn]:
				r.ok("C04.R1.other-callers", construct, pos, "forwards its parameter; all its callers pass false (checked under C04.R1.flag)")
			default:
				r.fail("C04.R1.other-callers", construct, pos, "forwards a compress flag for a name outside the RFC 1035 set")
			}
			continue
		}
		r.fail("C04.R1.other-callers", construct, pos, "compress argument %s is neither the constant false nor a forwarded parameter", types.ExprString(last))
	}
}

func c04R2(c *Ctx, r *Report) {
	r.rule("C04.R2.gate", 1, "PackBuffer compresses only when Msg.Compress && isCompressible()")
	fn := c.ssaFunc("Msg.PackBuffer")
	if fn == nil {
		r.cerr("C04.R2.gate", "Msg.PackBuffer", "function not found")
		return
	}
	r.fn("Msg.PackBuffer")
	calls := callsIn(fn, "(Msg).packBufferWithCompressionMap")
	if len(calls) == 0 {
		r.cerr("C04.R2.gate", "Msg.PackBuffer", "no call of packBufferWithCompressionMap")
		return
	}
	gs := []Guard{
		{Name: "dns.Compress", Op: "val", A: readsField("Msg", "Compress"), Holds: true},
		{Name: "dns.isCompressible()", Op: "call", A: callsFunc("(Msg).isCompressible"), Holds: true},
	}
	for i, ci := range calls {
		args := ci.Common().Args
		flag := args[len(args)-1]
		construct := fmt.Sprintf("Msg.PackBuffer->packBufferWithCompressionMap#%d", i+1)
		if b, isConst := constBool(flag); isConst && !b {
			r.ok("C04.R2.gate", construct, c.pos(ci.Pos()), "compress=false")
			continue
		}
		// a constant true at a guarded call, or a flag that is itself the conjunction (kept in a local)
		miss := flagImplies(fn, ci.Block(), flag, gs)
		r.check(len(miss) == 0, "C04.R2.gate", construct, c.pos(ci.Pos()), "compress is set only under Compress && isCompressible()", "the compress argument can be true without %s", strings.Join(miss, ", "))
	}
}

func c04R3(c *Ctx, r *Report) {
	r.rule("C04.R3.insert-limit", 1, "compression.insert is guarded by off < maxCompressionOffset and records the offset the label is written at")
	r.rule("C04.R3.pointer-source", 1, "the emitted pointer comes only from compression.find, only when compress is set, xor 0xC000")
	r.rule("C04.R4.key", 2, "map keys are substrings of the name argument itself")
	fn := c.ssaFunc("packDomainName")
	if fn == nil {
		r.cerr("C04.R3.insert-limit", "packDomainName", "function not found")
		return
	}
	r.fn("packDomainName")
	maxOff, ok := c.constInt("maxCompressionOffset")
	if !ok {
		r.cerr("C04.R3.insert-limit", "packDomainName", "constant maxCompressionOffset not found")
		return
	}
	if maxOff != 1<<14 {
		r.fail("C04.R3.insert-limit", "maxCompressionOffset", "", "maxCompressionOffset = %d, a 14-bit pointer can address offsets below %d", maxOff, 1<<14)
	}
	var sParam, msgParam, compressParam ssa.Value
	for _, p := range fn.Params {
		switch p.Name() {
		case "s":
			sParam = p
		case "msg":
			msgParam = p
		case "compress":
			compressParam = p
		}
	}
	inserts := callsIn(fn, "(compressionMap).insert")
	finds := callsIn(fn, "(compressionMap).find")
	if len(inserts) == 0 || len(finds) == 0 || sParam == nil || msgParam == nil || compressParam == nil {
		r.cerr("C04.R3.insert-limit", "packDomainName", "anchors not found (insert=%d find=%d)", len(inserts), len(finds))
		return
	}
	for i, ins := range inserts {
		construct := fmt.Sprintf("packDomainName->insert#%d", i+1)
		args := ins.Common().Args // recv, key, pos
		offV := args[2]
		var problems []string
		g := Guard{Name: fmt.Sprintf("off < %d", maxOff), Op: "lt", A: func(v ssa.Value) bool { return v == offV }, B: isConstInt(maxOff), Holds: true}
		if miss := guardsMissing(fn, ins.Block(), []Guard{g}); len(miss) > 0 {
			// accept a tighter constant bound
			tight := false
			for _, f := range factsAt(fn, ins.Block()) {
				if b, ok := f.Atom.(*ssa.BinOp); ok && b.Op == token.LSS && f.Holds && b.X == offV {
					if k, ok := constIntOf(b.Y); ok && k <= maxOff {
						tight = true
					}
				}
				if b, ok := f.Atom.(*ssa.BinOp); ok && b.Op == token.LEQ && f.Holds && b.X == offV {
					if k, ok := constIntOf(b.Y); ok && k < maxOff {
						tight = true
					}
				}
			}
			if !tight {
				problems = append(problems, "insert is not on the edge "+miss[0])
			}
		}
		// the same SSA value indexes the store of the label length octet
		sameStore := false
		allInstrs(fn, func(in ssa.Instruction) {
			if st, ok := in.(*ssa.Store); ok {
				if ia, ok := st.Addr.(*ssa.IndexAddr); ok && ia.X == msgParam && ia.Index == offV {
					sameStore = true
				}
			}
		})
		if !sameStore {
			problems = append(problems, "the offset recorded in the map is not the offset at which the label length octet is stored")
		}
		r.check(len(problems) == 0, "C04.R3.insert-limit", construct, c.pos(ins.Pos()), "guarded, same offset", "%s", strings.Join(problems, "; "))
		// key provenance
		keyOK := false
		if sl, ok := args[1].(*ssa.Slice); ok && sl.X == sParam && sl.High == nil {
			keyOK = true
		}
		r.check(keyOK, "C04.R4.key", construct, c.pos(ins.Pos()), "s[compBegin:]", "map key %v is not a suffix slice of the name argument s", args[1])
	}
	for i, fd := range finds {
		construct := fmt.Sprintf("packDomainName->find#%d", i+1)
		keyOK := false
		if sl, ok := fd.Common().Args[1].(*ssa.Slice); ok && sl.X == sParam && sl.High == nil {
			keyOK = true
		}
		r.check(keyOK, "C04.R4.key", construct, c.pos(fd.Pos()), "s[compBegin:]", "lookup key %v is not a suffix slice of the name argument s", fd.Common().Args[1])
	}
	// find and insert must use the same key expression shape (same Low operand source)
	// pointer emission
	puts := callsIn(fn, "(binary.bigEndian).PutUint16")
	if len(puts) != 1 {
		r.fail("C04.R3.pointer-source", "packDomainName", c.pos(fn.Pos()), "%d PutUint16 calls, expected the single pointer write", len(puts))
		return
	}
	put := puts[0]
	val := put.Common().Args[len(put.Common().Args)-1]
	var problems []string
	// unwrap convert and xor
	var xorOK bool
	var ptr ssa.Value
	v := val
	for {
		if cv, ok := v.(*ssa.Convert); ok {
			v = cv.X
			continue
		}
		break
	}
	if b, ok := v.(*ssa.BinOp); ok && (b.Op == token.XOR || b.Op == token.OR) {
		if k, ok := constIntOf(b.Y); ok && k == 0xC000 {
			xorOK = true
			ptr = b.X
		}
	}
	if !xorOK {
		problems = append(problems, fmt.Sprintf("pointer word %v is not pointer ^ 0xC000", v))
	} else {
		// sources of ptr through phis
		seen := map[ssa.Value]bool{}
		var walk func(v ssa.Value, from *ssa.BasicBlock)
		walk = func(v ssa.Value, from *ssa.BasicBlock) {
			if seen[v] {
				return
			}
			seen[v] = true
			switch t := v.(type) {
			case *ssa.Phi:
				for j, e := range t.Edges {
					walk(e, t.Block().Preds[j])
				}
			case *ssa.Const:
				if k, ok := constIntOf(t); !ok || k != -1 {
					problems = append(problems, fmt.Sprintf("pointer may be the constant %v", t))
				}
			case *ssa.Extract:
				call, ok := t.Tuple.(*ssa.Call)
				if !ok || calleeNameSSA(&call.Call) != "(compressionMap).find" || t.Index != 0 {
					problems = append(problems, fmt.Sprintf("pointer may come from %v", t))
					return
				}
				// the edge carrying the lookup result must be taken only when compress is set and the lookup succeeded
				gs := []Guard{
					{Name: "compress", Op: "val", A: func(x ssa.Value) bool { return x == compressParam }, Holds: true},
					{Name: "find ok", Op: "val", A: func(x ssa.Value) bool {
						e, ok := x.(*ssa.Extract)
						return ok && e.Tuple == call && e.Index == 1
					}, Holds: true},
				}
				if miss := guardsMissing(fn, from, gs); len(miss) > 0 {
					problems = append(problems, "a map hit becomes the pointer without "+strings.Join(miss, ", "))
				}
			default:
				problems = append(problems, fmt.Sprintf("pointer may come from %v", v))
			}
		}
		walk(ptr, put.Block())
		// the pointer write happens only when pointer != -1
		g := Guard{Name: "pointer != -1", Op: "eq", A: func(x ssa.Value) bool { return x == ptr }, B: isConstInt(-1), Holds: false}
		if miss := guardsMissing(fn, put.Block(), []Guard{g}); len(miss) > 0 {
			problems = append(problems, "pointer write not guarded by "+miss[0])
		}
	}
	r.check(len(problems) == 0, "C04.R3.pointer-source", "packDomainName->PutUint16", c.pos(put.Pos()), "pointer from find under compress", "%s", strings.Join(problems, "; "))
}

// c04R5: every name field's unpack codec reaches UnpackDomainName.
func c04R5(c *Ctx, r *Report) {
	r.rule("C04.R5.unpack-names", 38, "every name-kind field is unpacked through UnpackDomainName (pointer-following)")
	r.rule("C04.R5.helpers", 2, "unpackDataDomainNames and unpackIPSECGateway call UnpackDomainName")
	for _, h := range []string{"unpackDataDomainNames", "unpackIPSECGateway"} {
		fn := c.ssaFunc(h)
		if fn == nil {
			r.cerr("C04.R5.helpers", h, "function not found")
			continue
		}
		r.fn(h)
		r.check(len(callsIn(fn, "UnpackDomainName")) > 0, "C04.R5.helpers", h, c.pos(fn.Pos()), "calls UnpackDomainName", "%s does not call UnpackDomainName", h)
	}
	for _, t := range c.rrTypes() {
		if t.Name == "PrivateRR" {
			continue
		}
		fd := c.decl(t.Name + ".unpack")
		if fd == nil {
			continue
		}
		cb := c.analyseCodecBody(fd, "unpack", allUnpackHelpers)
		byField := map[*types.Var]*codecCall{}
		for _, cc := range cb.Calls {
			for _, f := range cc.Fields {
				byField[f] = cc
			}
		}
		for _, f := range t.Fields {
			k, err := kindOf(f)
			if err != nil {
				continue
			}
			bk := baseKind(k)
			want := map[string]string{"C": "UnpackDomainName", "N": "UnpackDomainName", "N*": "unpackDataDomainNames", "gw": "unpackIPSECGateway"}[bk]
			if want == "" {
				continue
			}
			key := t.Name + "." + f.Name
			cc := byField[f.Var]
			if cc == nil {
				r.fail("C04.R5.unpack-names", key, c.pos(fd.Pos()), "no unpack call stores into %s", key)
				continue
			}
			r.check(cc.Helper == want, "C04.R5.unpack-names", key, c.pos(cc.Pos), want, "%s is unpacked with %s, which does not follow compression pointers", key, cc.Helper)
		}
	}
}
