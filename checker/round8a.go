package main

import (
	"fmt"
	"go/token"
	"go/types"
	"sort"
	"strings"

	"golang.org/x/tools/go/ssa"
)

// Rules added after the eighth round of independent breaking changes (part 1).

// wholeSectionScan: Msg.IsEdns0 says "no OPT" only after it has looked at every additional record (RFC 6891 6.1.1
// lets the OPT stand anywhere in the section): every edge into the not-found return carries the exhaustion of the
// index and nothing else.
func wholeSectionScan(c *Ctx, r *Report, rule, fname, consequence string) {
	r.rule(rule, 1, "the not-found return of "+fname+" is reached only when the index has run through the whole section")
	fn := c.ssaFunc(fname)
	if fn == nil {
		r.cerr(rule, fname, "function not found")
		return
	}
	r.fn(fname)
	n := 0
	var bad []string
	for _, b := range fn.Blocks {
		ret, ok := b.Instrs[len(b.Instrs)-1].(*ssa.Return)
		if !ok || len(ret.Results) != 1 || !isNilConst(ret.Results[0]) {
			continue
		}
		for _, p := range b.Preds {
			n++
			exhausted := false
			var other []string
			for _, f := range factsOnEdge(fn, p, b) {
				bin, ok := f.Atom.(*ssa.BinOp)
				if !ok {
					continue
				}
				_, xPhi := bin.X.(*ssa.Phi)
				k, isK := constIntOf(bin.Y)
				lenY := false
				if lc, ok := bin.Y.(*ssa.Call); ok && calleeNameSSA(&lc.Call) == "builtin.len" {
					lenY = true
				}
				switch {
				case xPhi && isK && k == 0 && ((bin.Op == token.GEQ && !f.Holds) || (bin.Op == token.LSS && f.Holds)):
					exhausted = true
				case xPhi && lenY && ((bin.Op == token.LSS && !f.Holds) || (bin.Op == token.GEQ && f.Holds)):
					exhausted = true
				case xPhi && !f.Holds && (bin.Op == token.GEQ || bin.Op == token.GTR || bin.Op == token.LSS || bin.Op == token.LEQ):
					other = append(other, fmt.Sprintf("%v false", bin))
				}
			}
			if !exhausted {
				bad = append(bad, fmt.Sprintf("%s (left on %s)", c.pos(p.Instrs[len(p.Instrs)-1].Pos()), strings.Join(other, ", ")))
			}
		}
	}
	if n == 0 {
		r.undecided(rule, fname, c.pos(fn.Pos()), "no not-found return found")
		return
	}
	sort.Strings(bad)
	r.check(len(bad) == 0, rule, fname, c.pos(fn.Pos()), "whole section scanned", "the scan can give up before the index is exhausted, at %s: %s", strings.Join(bad, "; "), consequence)
}

// exactRoomInDecoders: a decoder refuses with `off+K >= len(msg)` only if what it then reads really needs more than
// K octets: when the reads that follow (up to the next branch) need exactly K, the test refuses a buffer that
// holds them - a well-formed value that ends exactly at the end of the RDATA.
func exactRoomInDecoders(c *Ctx, r *Report, rule string, fns []*ssa.Function) {
	r.rule(rule, 1, "a refusal off+K >= len(msg) in a decoder is followed by an access that needs more than K octets")
	n := 0
	for _, fn := range fns {
		var msg ssa.Value
		for _, p := range fn.Params {
			if p.Name() == "msg" || p.Name() == "b" {
				if st, ok := p.Type().Underlying().(*types.Slice); ok {
					if bt, ok := st.Elem().Underlying().(*types.Basic); ok && bt.Kind() == types.Uint8 {
						msg = p
					}
				}
			}
		}
		if msg == nil {
			continue
		}
		isLenMsg := func(v ssa.Value) bool {
			call, ok := v.(*ssa.Call)
			return ok && calleeNameSSA(&call.Call) == "builtin.len" && call.Call.Args[0] == msg
		}
		k := 0
		for _, b := range fn.Blocks {
			iff, ok := b.Instrs[len(b.Instrs)-1].(*ssa.If)
			if !ok {
				continue
			}
			bin, ok := iff.Cond.(*ssa.BinOp)
			if !ok || bin.Op != token.GEQ || !isLenMsg(bin.Y) {
				continue
			}
			sum, ok := bin.X.(*ssa.BinOp)
			if !ok || sum.Op != token.ADD {
				continue
			}
			K, isK := constIntOf(sum.Y)
			base := sum.X
			if !isK || K < 1 {
				continue
			}
			tb := b.Succs[0]
			if _, isRet := tb.Instrs[len(tb.Instrs)-1].(*ssa.Return); !isRet {
				continue
			}
			n++
			k++
			r.fn(fnDisplay(fn))
			// the accesses in the straight-line continuation, as base + j
			need := int64(0)
			known := true
			env := newLinEnv()
			rel := func(v ssa.Value) (int64, bool) {
				d := env.lin(v).add(env.lin(base), -1)
				if len(d.t) != 0 {
					return 0, false
				}
				return d.c, true
			}
			blk := b.Succs[1]
			for steps := 0; blk != nil && steps < 6; steps++ {
				for _, in := range blk.Instrs {
					switch t := in.(type) {
					case *ssa.IndexAddr:
						if t.X == msg {
							if j, ok := rel(t.Index); ok {
								if j+1 > need {
									need = j + 1
								}
							} else {
								known = false
							}
						}
					case *ssa.Slice:
						if t.X != msg {
							continue
						}
						lo := int64(0)
						okLo := true
						if t.Low != nil {
							lo, okLo = rel(t.Low)
						}
						if !okLo {
							known = false
							continue
						}
						if t.High != nil {
							if hi, ok := rel(t.High); ok {
								if hi > need {
									need = hi
								}
							} else {
								known = false
							}
							continue
						}
						// msg[lo:] handed to a fixed-width reader
						for _, ref := range *t.Referrers() {
							if call, ok := ref.(*ssa.Call); ok {
								w := int64(0)
								switch calleeNameSSA(&call.Call) {
								case "(binary.bigEndian).Uint16":
									w = 2
								case "(binary.bigEndian).Uint32":
									w = 4
								case "(binary.bigEndian).Uint64":
									w = 8
								default:
									known = false
								}
								if lo+w > need {
									need = lo + w
								}
							}
						}
					}
				}
				if len(blk.Succs) != 1 {
					break
				}
				blk = blk.Succs[0]
			}
			construct := fmt.Sprintf("%s:%s+%d >= len#%d", fnDisplay(fn), shortValue(base), K, k)
			if !known || need == 0 {
				r.ok(rule, construct, c.pos(iff.Cond.Pos()), "what follows is not a fixed extent")
				continue
			}
			r.check(need > K, rule, construct, c.pos(iff.Cond.Pos()), fmt.Sprintf("%d octets needed", need), "the test refuses when exactly %d octets are left, and what is read next needs %d: a value that ends exactly at the end of the data (an option with OPTION-LENGTH 0 as the last one of an OPT) is refused although it is well formed, so the library cannot read back what it packs", K, need)
		}
	}
	if n == 0 {
		r.ok(rule, "none", "", "no refusal of the form off+K >= len(msg) in the decoders")
		r.ok(rule, "none#2", "", "-")
		r.ok(rule, "none#3", "", "-")
	}
}

// absoluteResultGuarded: the name toAbsoluteName hands back is stored into a record only where its ok is known true.
func absoluteResultGuarded(c *Ctx, r *Report, rule, consequence string) {
	r.rule(rule, 30, "the name returned by toAbsoluteName is used only on the ok == true edge")
	n := 0
	var fns []*ssa.Function
	for _, fn := range c.allFuncs() {
		if fn.Synthetic == "" {
			fns = append(fns, fn)
		}
	}
	sort.Slice(fns, func(i, j int) bool { return fnDisplay(fns[i]) < fnDisplay(fns[j]) })
	for _, fn := range fns {
		k := 0
		for _, ci := range callsIn(fn, "toAbsoluteName") {
			call, ok := ci.(*ssa.Call)
			if !ok {
				continue
			}
			var name, okV *ssa.Extract
			for _, ref := range *call.Referrers() {
				if ex, isEx := ref.(*ssa.Extract); isEx {
					if ex.Index == 0 {
						name = ex
					} else {
						okV = ex
					}
				}
			}
			if name == nil {
				continue
			}
			n++
			k++
			r.fn(fnDisplay(fn))
			okTrue := func(facts []Fact) bool {
				for _, f := range facts {
					if okV != nil && f.Atom == ssa.Value(okV) && f.Holds {
						return true
					}
					if un, isUn := f.Atom.(*ssa.UnOp); isUn && un.Op == token.NOT && okV != nil && un.X == ssa.Value(okV) && !f.Holds {
						return true
					}
				}
				return false
			}
			var bad []string
			for _, ref := range *name.Referrers() {
				switch t := ref.(type) {
				case *ssa.DebugRef:
				case *ssa.Phi:
					for i, e := range t.Edges {
						if e == ssa.Value(name) && !okTrue(factsOnEdge(fn, t.Block().Preds[i], t.Block())) {
							bad = append(bad, c.pos(t.Block().Preds[i].Instrs[len(t.Block().Preds[i].Instrs)-1].Pos()))
						}
					}
				case *ssa.Return:
					// handing the pair on is the caller's business
				default:
					if !okTrue(factsAt(fn, ref.Block())) {
						bad = append(bad, c.pos(ref.Pos()))
					}
				}
			}
			sort.Strings(bad)
			r.check(len(bad) == 0, rule, fmt.Sprintf("%s:toAbsoluteName#%d", fnDisplay(fn), k), c.pos(call.Pos()), "only when ok", "the name is used at %s although toAbsoluteName may have said it is not valid (it then returns \"\"): %s", strings.Join(uniqStrings(bad), ", "), consequence)
		}
	}
	if n == 0 {
		r.undecided(rule, "toAbsoluteName", "", "no call found")
	}
}

// floatRounding: a decimal fraction read with ParseFloat and scaled to an integer is rounded to the nearest integer,
// not truncated: 1.001 * 1000 is 1000.9999999999999 in binary floating point.
func floatRounding(c *Ctx, r *Report, rule string) {
	r.rule(rule, 3, "every float64 -> integer conversion in the record parsers adds 0.5 before it truncates")
	n := 0
	var fns []*ssa.Function
	for _, fn := range c.allFuncs() {
		if fn.Synthetic == "" && fn.Name() == "parse" {
			fns = append(fns, fn)
		}
	}
	sort.Slice(fns, func(i, j int) bool { return fnDisplay(fns[i]) < fnDisplay(fns[j]) })
	for _, fn := range fns {
		k := 0
		allInstrs(fn, func(in ssa.Instruction) {
			cv, ok := in.(*ssa.Convert)
			if !ok {
				return
			}
			sb, ok1 := cv.X.Type().Underlying().(*types.Basic)
			db, ok2 := cv.Type().Underlying().(*types.Basic)
			if !ok1 || !ok2 || sb.Info()&types.IsFloat == 0 || db.Info()&types.IsInteger == 0 {
				return
			}
			n++
			k++
			r.fn(fnDisplay(fn))
			rounded := false
			if add, ok := cv.X.(*ssa.BinOp); ok && add.Op == token.ADD {
				for _, side := range []ssa.Value{add.X, add.Y} {
					if kc, ok := side.(*ssa.Const); ok && kc.Value != nil && kc.Value.ExactString() == "1/2" {
						rounded = true
					}
				}
			}
			r.check(rounded, rule, fmt.Sprintf("%s:float->int#%d", fnDisplay(fn), k), c.pos(cv.Pos()), "+ 0.5", "%s converts %s to an integer by truncation: a decimal such as 1.001 scaled by 1000 is 1000.9999999999999 in binary floating point and becomes 1000, so the text String() prints does not read back to the same value", fnDisplay(fn), describeValue(cv.X))
		})
	}
	if n == 0 {
		r.undecided(rule, "parse", "", "no float to integer conversion in the parsers")
	}
}

// parseAcceptsWholeField: an integer field that String prints as it is must be read back for every value the field
// can hold: between the ParseUint of its width and the store into the field no test restricts the value.
func parseAcceptsWholeField(c *Ctx, r *Report, rule string) {
	r.rule(rule, 60, "a number parsed at the width of its field and stored into the field is not restricted by any further test")
	n := 0
	var fns []*ssa.Function
	for _, fn := range c.allFuncs() {
		if fn.Synthetic == "" && (fn.Name() == "parse" || strings.HasPrefix(fn.Name(), "parse")) {
			fns = append(fns, fn)
		}
	}
	sort.Slice(fns, func(i, j int) bool { return fnDisplay(fns[i]) < fnDisplay(fns[j]) })
	for _, fn := range fns {
		k := 0
		for _, ci := range callsIn(fn, "strconv.ParseUint") {
			call, ok := ci.(*ssa.Call)
			if !ok {
				continue
			}
			var val ssa.Value
			for _, ref := range *call.Referrers() {
				if ex, isEx := ref.(*ssa.Extract); isEx && ex.Index == 0 {
					val = ex
				}
			}
			if val == nil {
				continue
			}
			// stored (after narrowing) into a field of the receiver
			for _, ref := range *val.Referrers() {
				cv, ok := ref.(*ssa.Convert)
				if !ok {
					continue
				}
				for _, r2 := range *cv.Referrers() {
					st, ok := r2.(*ssa.Store)
					if !ok {
						continue
					}
					fa, ok := st.Addr.(*ssa.FieldAddr)
					if !ok {
						continue
					}
					n++
					k++
					r.fn(fnDisplay(fn))
					var bad []string
					for _, f := range factsAt(fn, st.Block()) {
						bin, ok := f.Atom.(*ssa.BinOp)
						if !ok {
							continue
						}
						if bin.X == val || bin.Y == val {
							bad = append(bad, fmt.Sprintf("%v = %v", bin, f.Holds))
						}
					}
					r.check(len(bad) == 0, rule, fmt.Sprintf("%s:%s#%d", fnDisplay(fn), fieldNameOf(fa), k), c.pos(st.Pos()), "whole range", "the value read for %s is only accepted under %s: the printer writes every value the field can hold (as unpacked from the wire), and the parser refuses some of them", fieldNameOf(fa), strings.Join(bad, ", "))
				}
			}
		}
	}
	if n == 0 {
		r.undecided(rule, "parse", "", "no parsed number stored into a field found")
	}
}
