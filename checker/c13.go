package main

import (
	"fmt"
	"go/token"
	"go/types"
	"strings"

	"golang.org/x/tools/go/ssa"
)

func init() { register("C13", true, true, checkC13) }

const c13Explanation = `Decided statically on every path of server.go (all build configurations in the thorough tier): (R1) lock discipline: every read of Server.started / Server.conns / ranges over conns happens with Server.lock held (read or write), every write with the write lock held - a must-hold lockset dataflow over the SSA control-flow graph, with unexported helpers (init) inheriting the lockset common to all their call sites and unlockOnce's closure recognised as an idempotent releaser; (R2) every acquisition is released on every path to a normal exit (directly or by a deferred release) and no lock is re-acquired while held; (R3) the read-deadline re-arm in readTCP/readUDP/readPacketConn is made inside the RLock region and only on the started==true edge; (R4) start: the already-started test precedes init() and every started=true; every serve call is made after started=true and after the lock was released; shutdown: the not-started test precedes every effect, started=false precedes the unblocking of readers and listener close, and every normal return after that is preceded by the select on the drain channel / context; (R5) drain accounting: each go statement of a serve loop is immediately preceded by wg.Add(1) on the same WaitGroup, each spawned function reaches wg.Done() on every path, the drain channel is closed only after wg.Wait() in the deferred function, the serve loops are conditioned on isStarted() and return nil on the not-started edge of a read/accept error. NOT decided: the behavioural statement over all interleavings (no handler starts after Shutdown returned, replies delivered, no goroutine left, freedom from data races): a lockset discipline is necessary, not sufficient.`

const (
	lkNone = 0
	lkR    = 1
	lkW    = 2
)

func lkName(s int) string { return []string{"no lock", "read lock", "write lock"}[s] }

// lockState computes, for every instruction of fn, the must-hold state of the mutex field `field` of the receiver.
type lockInfo struct {
	fn      *ssa.Function
	at      map[ssa.Instruction]int
	exit    map[*ssa.BasicBlock]int
	defers  bool     // a deferred release exists
	events  []string // problems found while propagating (double acquire)
	entry   int
	touches bool // fn contains lock operations
}

func isMutexField(v ssa.Value, typ, field string) bool {
	return readsField(typ, field)(v)
}

// lockOp classifies a call: +2 Lock, +1 RLock, -1 release, 0 none.
func lockOp(ci ssa.CallInstruction, typ, field string, releasers map[ssa.Value]bool) (op int, ok bool) {
	cc := ci.Common()
	name := calleeNameSSA(cc)
	switch name {
	case "(sync.RWMutex).Lock", "(sync.Mutex).Lock":
		if isMutexField(cc.Args[0], typ, field) {
			return lkW, true
		}
	case "(sync.RWMutex).RLock":
		if isMutexField(cc.Args[0], typ, field) {
			return lkR, true
		}
	case "(sync.RWMutex).Unlock", "(sync.RWMutex).RUnlock", "(sync.Mutex).Unlock":
		if isMutexField(cc.Args[0], typ, field) {
			return -1, true
		}
	}
	if !cc.IsInvoke() && cc.StaticCallee() == nil {
		// call of a function value: the unlockOnce closure?
		if releasers[cc.Value] {
			return -1, true
		}
	}
	return 0, false
}

func computeLocks(fn *ssa.Function, typ, field string, entry int) *lockInfo {
	li := &lockInfo{fn: fn, at: map[ssa.Instruction]int{}, exit: map[*ssa.BasicBlock]int{}, entry: entry}
	// releaser closures: results of unlockOnce(&x.field)
	releasers := map[ssa.Value]bool{}
	allInstrs(fn, func(in ssa.Instruction) {
		if call, ok := in.(*ssa.Call); ok && calleeNameSSA(&call.Call) == "unlockOnce" {
			arg := call.Call.Args[0]
			if mi, ok := arg.(*ssa.MakeInterface); ok {
				arg = mi.X
			}
			if isMutexField(arg, typ, field) {
				releasers[call] = true
			}
		}
	})
	in := map[*ssa.BasicBlock]int{}
	known := map[*ssa.BasicBlock]bool{}
	if len(fn.Blocks) == 0 {
		return li
	}
	in[fn.Blocks[0]] = entry
	known[fn.Blocks[0]] = true
	changed := true
	for iter := 0; changed && iter < 100; iter++ {
		changed = false
		for _, b := range fn.Blocks {
			if b != fn.Blocks[0] {
				st, any := 99, false
				for _, p := range b.Preds {
					if e, ok := li.exit[p]; ok && known[p] {
						any = true
						if e < st {
							st = e
						}
					}
				}
				if !any {
					continue
				}
				if !known[b] || in[b] != st {
					in[b] = st
					known[b] = true
					changed = true
				}
			}
			st := in[b]
			for _, ins := range b.Instrs {
				li.at[ins] = st
				switch t := ins.(type) {
				case *ssa.Defer:
					if op, ok := lockOp(t, typ, field, releasers); ok && op == -1 {
						li.defers = true
						li.touches = true
					}
				case *ssa.Call:
					if op, ok := lockOp(t, typ, field, releasers); ok {
						li.touches = true
						if op > 0 {
							if st != lkNone && iter == 0 {
								li.events = append(li.events, fmt.Sprintf("acquires the lock while already holding the %s", lkName(st)))
							}
							st = op
						} else {
							st = lkNone
						}
					}
				}
			}
			if e, ok := li.exit[b]; !ok || e != st {
				li.exit[b] = st
				changed = true
			}
		}
	}
	return li
}

func checkC13(c *Ctx, r *Report) {
	r.Explanation = c13Explanation
	r.Trusted = []string{"go/ssa translation", "sync.RWMutex / sync.WaitGroup / sync.Once semantics"}
	r.Assumptions = []string{"unlockOnce(l) returns a closure that releases l at most once (checked structurally: it wraps once.Do(l.Unlock))"}
	r.rule("C13.R1.lockset", 15, "Server.started / Server.conns / Server.PacketConn / Server.Listener are read under the lock and written under the write lock")
	r.rule("C13.R2.pairing", 8, "every acquisition of Server.lock is released on every path; no re-acquisition while held")
	r.rule("C13.R3.deadline", 3, "read deadlines are re-armed only while started, inside the RLock region")
	r.rule("C13.R4.start-stop", 6, "start/shutdown ordering of tests, flag updates, unlocks, reader unblocking and the drain wait")
	r.rule("C13.R5.drain", 7, "wg.Add before go, wg.Done on every path, close(shutdown) after wg.Wait, loops conditioned on isStarted")
	r.rule("C13.R2.unlock-once", 1, "unlockOnce wraps l.Unlock in a sync.Once")

	// functions of package dns that mention Server
	var fns []*ssa.Function
	for _, m := range c.SSA.Members {
		if f, ok := m.(*ssa.Function); ok {
			fns = append(fns, withAnon(f)...)
		}
	}
	srvT := c.named("Server")
	if srvT == nil {
		r.cerr("C13.R1.lockset", "Server", "type not found")
		return
	}
	for _, t := range []types.Type{srvT, types.NewPointer(srvT)} {
		ms := c.Prog.MethodSets.MethodSet(t)
		for i := 0; i < ms.Len(); i++ {
			if f := c.Prog.MethodValue(ms.At(i)); f != nil && f.Synthetic == "" {
				fns = append(fns, withAnon(f)...)
			}
		}
	}
	seen := map[*ssa.Function]bool{}
	var uniq []*ssa.Function
	for _, f := range fns {
		if !seen[f] && len(f.Blocks) > 0 {
			seen[f] = true
			uniq = append(uniq, f)
		}
	}
	fns = uniq
	guarded := map[string]bool{"started": true, "conns": true, "PacketConn": true, "Listener": true}

	// entry states: helpers without lock operations inherit the meet over their call sites
	infos := map[*ssa.Function]*lockInfo{}
	for _, f := range fns {
		infos[f] = computeLocks(f, "Server", "lock", lkNone)
	}
	entryState := func(f *ssa.Function) (int, string) {
		// meet over static call sites inside the analysed set
		st, n := 99, 0
		var where []string
		for _, g := range fns {
			for _, ci := range callsInFn(g, f) {
				n++
				s := infos[g].at[ci.(ssa.Instruction)]
				if s < st {
					st = s
				}
				where = append(where, g.Name())
			}
		}
		if n == 0 {
			return lkNone, "no call sites"
		}
		return st, strings.Join(where, ",")
	}

	type access struct {
		fn    *ssa.Function
		in    ssa.Instruction
		field string
		write bool
	}
	var accesses []access
	for _, f := range fns {
		allInstrs(f, func(in ssa.Instruction) {
			switch t := in.(type) {
			case *ssa.UnOp:
				if t.Op == token.MUL {
					for fld := range guarded {
						if readsField("Server", fld)(t.X) {
							accesses = append(accesses, access{f, in, fld, false})
						}
					}
				}
			case *ssa.Store:
				for fld := range guarded {
					if readsField("Server", fld)(t.Addr) {
						// a Server that this function has just allocated is not shared yet (composite literal)
						if fa, ok := t.Addr.(*ssa.FieldAddr); ok {
							if al, ok := fa.X.(*ssa.Alloc); ok && al.Parent() == f {
								continue
							}
						}
						accesses = append(accesses, access{f, in, fld, true})
					}
				}
			}
		})
	}
	// map mutations through a loaded conns map: MapUpdate / delete / range on a value loaded from Server.conns
	for _, f := range fns {
		allInstrs(f, func(in ssa.Instruction) {
			isConns := func(v ssa.Value) bool {
				u, ok := v.(*ssa.UnOp)
				return ok && u.Op == token.MUL && readsField("Server", "conns")(u.X)
			}
			switch t := in.(type) {
			case *ssa.MapUpdate:
				if isConns(t.Map) {
					accesses = append(accesses, access{f, in, "conns(map update)", true})
				}
			case *ssa.Call:
				if calleeNameSSA(&t.Call) == "builtin.delete" && isConns(t.Call.Args[0]) {
					accesses = append(accesses, access{f, in, "conns(delete)", true})
				}
			case *ssa.Range:
				if isConns(t.X) {
					accesses = append(accesses, access{f, in, "conns(range)", false})
				}
			case *ssa.Next:
				if rg, ok := t.Iter.(*ssa.Range); ok && isConns(rg.X) {
					accesses = append(accesses, access{f, in, "conns(iteration)", false})
				}
			}
		})
	}
	counter := map[string]int{}
	for _, a := range accesses {
		li := infos[a.fn]
		st := li.at[a.in]
		inherited := ""
		if !li.touches && st == lkNone {
			es, where := entryState(a.fn)
			if es != lkNone {
				st = es
				inherited = " (held by all callers: " + where + ")"
			}
		}
		kind := "read"
		need := lkR
		if a.write {
			kind, need = "write", lkW
		}
		key := fmt.Sprintf("%s:%s:%s", fnDisplay(a.fn), a.field, kind)
		counter[key]++
		construct := fmt.Sprintf("%s#%d", key, counter[key])
		r.fn(fnDisplay(a.fn))
		r.check(st >= need, "C13.R1.lockset", construct, c.pos(a.in.Pos()), lkName(st)+inherited,
			"%s of Server.%s with %s; the discipline requires the %s", kind, a.field, lkName(st), lkName(need))
	}

	// R2 pairing
	for _, f := range fns {
		li := infos[f]
		if !li.touches {
			continue
		}
		r.fn(fnDisplay(f))
		var problems []string
		problems = append(problems, li.events...)
		for _, b := range f.Blocks {
			if len(b.Instrs) == 0 {
				continue
			}
			if ret, ok := b.Instrs[len(b.Instrs)-1].(*ssa.Return); ok {
				if li.at[ret] != lkNone && !li.defers {
					problems = append(problems, fmt.Sprintf("%s: returns with the %s still held and no deferred release", c.pos(ret.Pos()), lkName(li.at[ret])))
				}
			}
		}
		r.check(len(problems) == 0, "C13.R2.pairing", fnDisplay(f), c.pos(f.Pos()), "released on every path", "%s", strings.Join(problems, "; "))
	}
	// unlockOnce shape
	if uo := c.ssaFunc("unlockOnce"); uo == nil {
		r.cerr("C13.R2.unlock-once", "unlockOnce", "function not found")
	} else {
		good := false
		for _, a := range uo.AnonFuncs {
			for _, ci := range callsIn(a, "(sync.Once).Do") {
				// argument is the bound method l.Unlock
				if mc, ok := ci.Common().Args[1].(*ssa.MakeClosure); ok && strings.Contains(mc.Fn.Name(), "Unlock") {
					good = true
				}
			}
		}
		r.check(good, "C13.R2.unlock-once", "unlockOnce", c.pos(uo.Pos()), "once.Do(l.Unlock)", "unlockOnce no longer wraps l.Unlock in a sync.Once: the start paths release the lock twice")
	}

	// R3 deadlines: wherever server.go arms a read deadline outside ShutdownContext (the three readers, or a helper
	// they share), the call is inside the RLock region and on the started edge
	{
		nFns := 0
		for _, f := range c.allFuncs() {
			if f.Parent() != nil || !strings.HasSuffix(c.Fset.Position(f.Pos()).Filename, "/server.go") || fnDisplay(f) == "Server.ShutdownContext" {
				continue
			}
			has := false
			allInstrs(f, func(in ssa.Instruction) {
				if call, ok := in.(*ssa.Call); ok && strings.HasSuffix(calleeNameSSA(&call.Call), ".SetReadDeadline") {
					has = true
				}
			})
			if !has {
				continue
			}
			nFns++
			name := fnDisplay(f)
			r.fn(name)
			problems := deadlineArmProblems(c, f, infos[f])
			r.check(len(problems) == 0, "C13.R3.deadline", name, c.pos(f.Pos()), "under RLock, started edge", "%s", strings.Join(problems, "; "))
		}
		// the three readers arm (or have armed for them) a deadline before they read
		for _, name := range []string{"Server.readTCP", "Server.readUDP", "Server.readPacketConn"} {
			f := c.ssaFunc(name)
			if f == nil {
				r.cerr("C13.R3.deadline", name, "function not found")
				continue
			}
			arms := reachesCall(f, 2, map[*ssa.Function]bool{}, func(ci ssa.CallInstruction) bool {
				return strings.HasSuffix(calleeNameSSA(ci.Common()), ".SetReadDeadline")
			})
			r.check(arms, "C13.R3.deadline", name+":arms", c.pos(f.Pos()), "arms a read deadline", "no SetReadDeadline call found in %s or what it calls", name)
		}
	}

	c13R4(c, r, infos)
	c13R5(c, r)
	c13CloseBeforeDone(c, r, "C13.R2.close-before-done")
	c13LockReleasedOnReturn(c, r, "C13.R3.lock-released")
	c13FreshGeneration(c, r, "C13.R4.fresh-generation")
	r.rule("C13.R5.accepted-conn", 1, "a connection serveTCP accepted is handed to a connection goroutine or closed on every path")
	acceptedConnNotDropped(c, r, "C13.R5.accepted-conn")
	r.rule("C13.R4.listener-not-leaked", 2, "a socket ListenAndServe opened is installed in the server or closed before any return")
	listenerNotLeaked(c, r, "C13.R4.listener-not-leaked")
	shutdownReleased(c, r, "C13.R2.shutdown-released")
	shutdownUnbounded(c, r, "C13.R4.shutdown-unbounded")
	shutdownClosesPacketConn(c, r, "C13.R4.shutdown-closes-packetconn")
	ownGeneration(c, r, "C13.R5.own-generation")
	writeDeadline(c, r, "C13.R3.write-deadline")
	getterSameField(c, r, "C13.R3.timeout-getters", []string{"Server.getReadTimeout", "Server.getWriteTimeout"}, "a server that sets only the other timeout gets the zero value for this one: no write deadline is armed, and one client that stops reading blocks a handler, and Shutdown with it, for ever")
	deadlineWriters(c, r, "C13.R3.deadline-writers")
	drainChannelCaptured(c, r, "C13.R1.drain-channel-captured")
	onceUnlockOnly(c, r, "C13.R2.once-unlock-only")
	round12(c, r, "C13")
	round13(c, r, "C13")
}

func fnDisplay(f *ssa.Function) string {
	if f.Parent() != nil {
		return fnDisplay(f.Parent()) + "$" + strings.TrimPrefix(f.Name(), f.Parent().Name()+"$")
	}
	if f.Signature.Recv() != nil {
		if n := derefNamed(f.Signature.Recv().Type()); n != nil {
			return n.Obj().Name() + "." + f.Name()
		}
	}
	return f.Name()
}

func callsInFn(g, callee *ssa.Function) []ssa.CallInstruction {
	var out []ssa.CallInstruction
	allInstrs(g, func(in ssa.Instruction) {
		if ci, ok := in.(ssa.CallInstruction); ok && ci.Common().StaticCallee() == callee {
			out = append(out, ci)
		}
	})
	return out
}

func c13R4(c *Ctx, r *Report, infos map[*ssa.Function]*lockInfo) {
	notStarted := Guard{Name: "!srv.started", Op: "val", A: readsField("Server", "started"), Holds: false}
	started := Guard{Name: "srv.started", Op: "val", A: readsField("Server", "started"), Holds: true}
	for _, name := range []string{"Server.ListenAndServe", "Server.ActivateAndServe"} {
		f := c.ssaFunc(name)
		if f == nil {
			r.cerr("C13.R4.start-stop", name, "function not found")
			continue
		}
		r.fn(name)
		li := infos[f]
		if li == nil {
			li = computeLocks(f, "Server", "lock", lkNone)
		}
		var problems []string
		inits := callsIn(f, "(Server).init")
		if len(inits) == 0 {
			problems = append(problems, "init() is not called")
		}
		for _, ci := range inits {
			if miss := guardsMissing(f, ci.Block(), []Guard{notStarted}); len(miss) > 0 {
				problems = append(problems, fmt.Sprintf("%s: init() runs before the already-started test (a rejected second start would wipe conns/shutdown of the running server)", c.pos(ci.Pos())))
			}
		}
		r.check(len(problems) == 0, "C13.R4.start-stop", name+":init-after-test", c.pos(f.Pos()), "guarded by !started", "%s", strings.Join(problems, "; "))
		problems = nil
		sts := storesToField(f, "Server", "started")
		for _, st := range sts {
			if b, ok := constBool(st.Val); !ok || !b {
				problems = append(problems, fmt.Sprintf("%s: start path stores %v into started", c.pos(st.Pos()), st.Val))
			}
			if miss := guardsMissing(f, st.Block(), []Guard{notStarted}); len(miss) > 0 {
				problems = append(problems, fmt.Sprintf("%s: started=true without the already-started test", c.pos(st.Pos())))
			}
		}
		serves := callsIn(f, "(Server).serveTCP", "(Server).serveUDP")
		if len(serves) == 0 {
			problems = append(problems, "no serve call")
		}
		for _, sc := range serves {
			okStore := false
			for _, st := range sts {
				if precedes(st, sc.(ssa.Instruction)) {
					okStore = true
				}
			}
			if !okStore {
				problems = append(problems, fmt.Sprintf("%s: serve loop entered without started=true before it", c.pos(sc.Pos())))
			}
			if li.at[sc.(ssa.Instruction)] != lkNone {
				problems = append(problems, fmt.Sprintf("%s: serve loop entered with the %s held (isStarted and Shutdown would block)", c.pos(sc.Pos()), lkName(li.at[sc.(ssa.Instruction)])))
			}
		}
		for _, st := range sts {
			if b, ok := constBool(st.Val); !ok || !b {
				continue
			}
			passed, blk := mustPass(f, st.Block(), instrIndex(st), func(x ssa.Instruction) bool {
				ci, ok := x.(ssa.CallInstruction)
				if !ok {
					return false
				}
				n := calleeNameSSA(ci.Common())
				return n == "(Server).serveTCP" || n == "(Server).serveUDP"
			})
			if !passed {
				problems = append(problems, fmt.Sprintf("%s: after started=true the function can return (%s) without entering a serve loop: a failed start leaves the server marked started (Shutdown then waits for a drain that never comes, a retry is refused)", c.pos(st.Pos()), c.pos(blk.Instrs[len(blk.Instrs)-1].Pos())))
			}
		}
		r.check(len(problems) == 0, "C13.R4.start-stop", name+":started-unlock-serve", c.pos(f.Pos()), fmt.Sprintf("%d serve calls", len(serves)), "%s", strings.Join(problems, "; "))
	}
	f := c.ssaFunc("Server.ShutdownContext")
	if f == nil {
		r.cerr("C13.R4.start-stop", "Server.ShutdownContext", "function not found")
		return
	}
	r.fn("Server.ShutdownContext")
	li := infos[f]
	var problems []string
	// effects: stores to started, SetReadDeadline, Close, range: all under started==true
	var falseStore *ssa.Store
	for _, st := range storesToField(f, "Server", "started") {
		if b, ok := constBool(st.Val); ok && !b {
			falseStore = st
		} else {
			problems = append(problems, fmt.Sprintf("%s: shutdown stores %v into started", c.pos(st.Pos()), st.Val))
		}
	}
	if falseStore == nil {
		problems = append(problems, "started is never set to false")
	}
	var effects []ssa.Instruction
	allInstrs(f, func(in ssa.Instruction) {
		if call, ok := in.(*ssa.Call); ok {
			n := calleeNameSSA(&call.Call)
			if strings.HasSuffix(n, ".SetReadDeadline") || strings.HasSuffix(n, ".Close") {
				effects = append(effects, in)
			}
		}
	})
	if falseStore != nil {
		effects = append(effects, falseStore)
	}
	for _, e := range effects {
		if miss := guardsMissing(f, e.Block(), []Guard{started}); len(miss) > 0 {
			problems = append(problems, fmt.Sprintf("%s: effect before the not-started test", c.pos(e.Pos())))
		}
		if falseStore != nil && e != falseStore {
			if call := e.(*ssa.Call); strings.HasSuffix(calleeNameSSA(&call.Call), ".SetReadDeadline") || (strings.HasSuffix(calleeNameSSA(&call.Call), ".Close") && anyIn(sliceOf(call.Call.Value), readsField("Server", "Listener"))) {
				if !precedes(falseStore, e) {
					problems = append(problems, fmt.Sprintf("%s: readers are unblocked before started=false (they would re-arm their deadline)", c.pos(e.Pos())))
				}
				if li != nil && li.at[e] != lkW {
					problems = append(problems, fmt.Sprintf("%s: readers are unblocked without the write lock", c.pos(e.Pos())))
				}
			}
		}
	}
	r.check(len(problems) == 0, "C13.R4.start-stop", "Server.ShutdownContext:order", c.pos(f.Pos()), "test, started=false, unblock", "%s", strings.Join(problems, "; "))
	problems = nil
	// each configured endpoint is unblocked regardless of the other one
	nUnblock := 0
	for _, e := range effects {
		call, ok := e.(*ssa.Call)
		if !ok {
			continue
		}
		cn := calleeNameSSA(&call.Call)
		var own, other string
		switch {
		case strings.HasSuffix(cn, ".SetReadDeadline") && anyIn(sliceOf(call.Call.Value), readsField("Server", "PacketConn")):
			own, other = "PacketConn", "Listener"
		case strings.HasSuffix(cn, ".Close") && anyIn(sliceOf(call.Call.Value), readsField("Server", "Listener")):
			own, other = "Listener", "PacketConn"
		default:
			continue
		}
		nUnblock++
		for _, fc := range factsAt(f, e.Block()) {
			if anyIn(sliceOf(fc.Atom), readsField("Server", other)) {
				problems = append(problems, fmt.Sprintf("%s: unblocking the %s depends on a test of srv.%s: a server that has both set (reused after a run on the other transport) keeps its reader blocked and Shutdown waits for ever", c.pos(e.Pos()), own, other))
			}
		}
	}
	if nUnblock < 2 {
		problems = append(problems, fmt.Sprintf("%d unblocking calls found, want PacketConn.SetReadDeadline and Listener.Close", nUnblock))
	}
	r.check(len(problems) == 0, "C13.R4.start-stop", "Server.ShutdownContext:independent-unblock", c.pos(f.Pos()), "each endpoint on its own condition", "%s", strings.Join(problems, "; "))
	problems = nil
	// the not-started exit returns an error
	for _, rp := range returnPoints(f, 0) {
		facts := factsAt(f, rp.Block)
		isNotStarted := false
		for _, fc := range facts {
			if matchGuard(fc, notStarted) {
				isNotStarted = true
			}
		}
		if isNotStarted {
			if isNilConst(rp.Results[0]) {
				problems = append(problems, fmt.Sprintf("%s: shutting down a server that is not started returns nil", c.pos(rp.Pos)))
			}
			continue
		}
		// a normal return after shutdown: dominated by the select on srv.shutdown / ctx.Done()
		okSel := false
		allInstrs(f, func(in ssa.Instruction) {
			sel, ok := in.(*ssa.Select)
			if !ok || !sel.Blocking {
				return
			}
			hasDrain, hasCtx := false, false
			for _, s := range sel.States {
				if anyIn(sliceOf(s.Chan), readsField("Server", "shutdown")) {
					hasDrain = true
				}
				if anyIn(sliceOf(s.Chan), func(v ssa.Value) bool {
					cl, ok := v.(*ssa.Call)
					return ok && cl.Call.IsInvoke() && cl.Call.Method.Name() == "Done"
				}) {
					hasCtx = true
				}
			}
			if hasDrain && hasCtx && (sel.Block() == rp.Block || sel.Block().Dominates(rp.Block)) {
				okSel = true
			}
		})
		if !okSel {
			problems = append(problems, fmt.Sprintf("%s: returns without waiting for the drain channel or the context", c.pos(rp.Pos)))
		}
	}
	r.check(len(problems) == 0, "C13.R4.start-stop", "Server.ShutdownContext:wait", c.pos(f.Pos()), "select on shutdown / ctx.Done()", "%s", strings.Join(problems, "; "))
}

func c13R5(c *Ctx, r *Report) {
	serveSites := 0
	for _, name := range []string{"Server.serveTCP", "Server.serveUDP"} {
		f := c.ssaFunc(name)
		if f == nil {
			r.cerr("C13.R5.drain", name, "function not found")
			continue
		}
		r.fn(name)
		var problems []string
		nGo := 0
		allInstrs(f, func(in ssa.Instruction) {
			g, ok := in.(*ssa.Go)
			if !ok {
				return
			}
			nGo++
			// the WaitGroup passed to the goroutine
			var wg ssa.Value
			for _, a := range g.Call.Args {
				if n := derefNamed(a.Type()); n != nil && n.Obj().Name() == "WaitGroup" {
					wg = a
				}
			}
			if wg == nil {
				problems = append(problems, fmt.Sprintf("%s: goroutine is not handed the WaitGroup", c.pos(g.Pos())))
				return
			}
			okAdd := false
			for i, x := range g.Block().Instrs {
				if x == in {
					break
				}
				if call, ok := x.(*ssa.Call); ok && calleeNameSSA(&call.Call) == "(sync.WaitGroup).Add" && call.Call.Args[0] == wg {
					if k, ok := constIntOf(call.Call.Args[1]); ok && k == 1 {
						okAdd = true
						_ = i
					}
				}
			}
			if !okAdd {
				problems = append(problems, fmt.Sprintf("%s: go statement is not preceded by wg.Add(1) in the same straight-line block (Shutdown's wg.Wait could miss this handler)", c.pos(g.Pos())))
			}
			// spawned function reaches Done on every path
			callee := g.Call.StaticCallee()
			if callee == nil {
				problems = append(problems, fmt.Sprintf("%s: spawned function is not static", c.pos(g.Pos())))
				return
			}
			r.fn(fnDisplay(callee))
			var wgParam ssa.Value
			for _, p := range callee.Params {
				if n := derefNamed(p.Type()); n != nil && n.Obj().Name() == "WaitGroup" {
					wgParam = p
				}
			}
			passed, blk := mustPass(callee, callee.Blocks[0], -1, func(x ssa.Instruction) bool {
				ci, ok := x.(ssa.CallInstruction)
				if !ok {
					return false
				}
				if _, isGo := x.(*ssa.Go); isGo {
					return false
				}
				return calleeNameSSA(ci.Common()) == "(sync.WaitGroup).Done" && ci.Common().Args[0] == wgParam
			})
			if !passed {
				problems = append(problems, fmt.Sprintf("%s: %s can return (%s) without wg.Done()", c.pos(g.Pos()), callee.Name(), c.pos(blk.Instrs[len(blk.Instrs)-1].Pos())))
			}
			// Add must not happen inside the spawned function
			if len(callsIn(callee, "(sync.WaitGroup).Add")) > 0 {
				problems = append(problems, fmt.Sprintf("%s: %s calls wg.Add itself", c.pos(g.Pos()), callee.Name()))
			}
		})
		if nGo == 0 {
			problems = append(problems, "no go statement in the serve loop")
		}
		r.check(len(problems) == 0, "C13.R5.drain", name+":add-go-done", c.pos(f.Pos()), fmt.Sprintf("%d go statements", nGo), "%s", strings.Join(problems, "; "))

		// close(srv.shutdown) after wg.Wait() in a deferred closure
		problems = nil
		nClose, nDirect := 0, 0
		for _, a := range withAnon(f) {
			allInstrs(a, func(in ssa.Instruction) {
				call, ok := in.(*ssa.Call)
				if !ok || calleeNameSSA(&call.Call) != "builtin.close" || !isDrainChan(call.Call.Args[0], 0) {
					return
				}
				if a == f {
					// a close on a way out that starts nothing: no handler goroutine can have been started before
					// it, and the deferred wait-then-close is not installed on that way (no second close)
					var problem string
					allInstrs(f, func(other ssa.Instruction) {
						switch o := other.(type) {
						case *ssa.Go:
							if o.Block() == in.Block() || reach(o.Block(), nil, nil)[in.Block()] {
								problem = fmt.Sprintf("%s: drain channel closed directly where a handler goroutine may be running (go statement at %s); only the deferred wg.Wait(); close may do that", c.pos(in.Pos()), c.pos(o.Pos()))
							}
						case *ssa.Defer:
							if mc, ok := o.Call.Value.(*ssa.MakeClosure); ok {
								if fn2, ok := mc.Fn.(*ssa.Function); ok && len(callsIn(fn2, "builtin.close")) > 0 {
									if o.Block() == in.Block() || reach(o.Block(), nil, nil)[in.Block()] || reach(in.Block(), nil, nil)[o.Block()] {
										problem = fmt.Sprintf("%s: drain channel closed directly on a way on which the deferred close is installed too: it is closed twice (panic)", c.pos(in.Pos()))
									}
								}
							}
						}
					})
					if problem != "" {
						problems = append(problems, problem)
					}
					nDirect++
					return
				}
				nClose++
				okWait := false
				for _, w := range callsIn(a, "(sync.WaitGroup).Wait") {
					if precedes(w.(ssa.Instruction), in) {
						okWait = true
					}
				}
				if !okWait {
					problems = append(problems, fmt.Sprintf("%s: drain channel closed without waiting for the handlers (wg.Wait)", c.pos(in.Pos())))
				}
			})
		}
		if nClose != 1 {
			problems = append(problems, fmt.Sprintf("%d deferred close(srv.shutdown) sites, want exactly one", nClose))
		}
		serveSites += nClose + nDirect
		// the closure is deferred
		deferred := false
		allInstrs(f, func(in ssa.Instruction) {
			if d, ok := in.(*ssa.Defer); ok {
				if mc, ok := d.Call.Value.(*ssa.MakeClosure); ok {
					if fn2, ok := mc.Fn.(*ssa.Function); ok && len(callsIn(fn2, "builtin.close")) > 0 {
						deferred = true
					}
				}
			}
		})
		if !deferred {
			problems = append(problems, "the wait-then-close function is not deferred")
		}
		r.check(len(problems) == 0, "C13.R5.drain", name+":wait-close", c.pos(f.Pos()), "deferred wg.Wait(); close(shutdown)", "%s", strings.Join(problems, "; "))

		// a return that the deferred wait-then-close does not cover leaves srv.shutdown open for ever: with started
		// still set, a later Shutdown waits on it for ever and a retry is refused as "already started"
		problems = nil
		var drainDefer *ssa.Defer
		allInstrs(f, func(in ssa.Instruction) {
			if d, ok := in.(*ssa.Defer); ok {
				if mc, ok := d.Call.Value.(*ssa.MakeClosure); ok {
					if fn2, ok := mc.Fn.(*ssa.Function); ok && len(callsIn(fn2, "builtin.close")) > 0 {
						drainDefer = d
					}
				}
			}
		})
		if drainDefer != nil {
			li := computeLocks(f, "Server", "lock", lkNone)
			for _, b := range f.Blocks {
				ret, ok := b.Instrs[len(b.Instrs)-1].(*ssa.Return)
				if !ok || b == f.Recover || precedes(drainDefer, ret) {
					continue
				}
				reset := false
				for _, st := range storesToField(f, "Server", "started") {
					if bv, isB := constBool(st.Val); isB && !bv && precedes(st, ret) && li.at[st] == lkW {
						reset = true
					}
				}
				if !reset {
					problems = append(problems, fmt.Sprintf("%s: returns before the deferred wait-then-close(srv.shutdown) is installed and without resetting started under the lock: the start has failed but the server stays marked started, so Shutdown blocks on a channel nobody closes and a retry is refused", c.pos(ret.Pos())))
				}
			}
		}
		r.check(len(problems) == 0, "C13.R4.start-stop", name+":early-return", c.pos(f.Pos()), "covered by the drain defer or started reset", "%s", strings.Join(problems, "; "))

		// loop condition and the not-started error exit
		problems = nil
		okNil := false
		for _, rp := range returnPoints(f, 0) {
			if !isNilConst(rp.Results[0]) {
				continue
			}
			for _, fc := range factsAt(f, rp.Block) {
				if matchGuard(fc, Guard{Op: "call", A: callsFunc("(Server).isStarted"), Holds: false}) {
					okNil = true
				}
			}
		}
		if !okNil {
			problems = append(problems, "no `return nil` on the !isStarted() edge: the serve call would report the unblocking error after Shutdown")
		}
		// ... and the error of a failed Accept/read is only returned while still started: the isStarted() test made
		// after the failure must have come out true on every path to `return err`
		for _, rb := range f.Blocks {
			retI, isRet := rb.Instrs[len(rb.Instrs)-1].(*ssa.Return)
			if !isRet || rb == f.Recover {
				continue
			}
			res0 := unspill(rb, retI)[0]
			if isNilConst(res0) {
				continue
			}
			rp := struct{ Pos token.Pos }{retI.Pos()}
			// only returns inside the serve loop (dominated by a loop isStarted() call)
			inLoop, okAfter := false, false
			for _, fc := range factsAt(f, rb) {
				call, isCall := fc.Atom.(*ssa.Call)
				if !isCall || calleeNameSSA(&call.Call) != "(Server).isStarted" || !fc.Holds {
					continue
				}
				inLoop = true
				// a test made after the failing call: the error value is defined in a block dominating the test
				for _, leaf := range append(phiLeaves(res0), res0) {
					if in, ok := leaf.(ssa.Instruction); ok && (in.Block() == call.Block() || in.Block().Dominates(call.Block())) {
						okAfter = true
					}
				}
			}
			if inLoop && !okAfter {
				problems = append(problems, fmt.Sprintf("%s: the error of a failed accept/read can be returned although the server has been shut down meanwhile (no isStarted() test after the failure on this path): after a normal Shutdown the serve call reports the unblocking error instead of nil", c.pos(rp.Pos)))
			}
		}
		// every go statement is inside a region dominated by an isStarted()==true test
		allInstrs(f, func(in ssa.Instruction) {
			if g, ok := in.(*ssa.Go); ok {
				if miss := guardsMissing(f, g.Block(), []Guard{{Name: "isStarted()", Op: "call", A: callsFunc("(Server).isStarted"), Holds: true}}); len(miss) > 0 {
					problems = append(problems, fmt.Sprintf("%s: handler spawned in a loop not conditioned on isStarted()", c.pos(g.Pos())))
				}
			}
		})
		r.check(len(problems) == 0, "C13.R5.drain", name+":loop", c.pos(f.Pos()), "for srv.isStarted() …; return nil when stopped", "%s", strings.Join(problems, "; "))
	}
	// the per-connection query loop of serveTCPConn: every read and every dispatch only while started
	if f := c.ssaFunc("Server.serveTCPConn"); f == nil {
		r.cerr("C13.R5.drain", "Server.serveTCPConn", "function not found")
	} else {
		r.fn("Server.serveTCPConn")
		var problems []string
		n := 0
		for _, ci := range callsIn(f, "(Server).serveDNS", "(Server).readTCP") {
			n++
			if miss := guardsMissing(f, ci.(ssa.Instruction).Block(), []Guard{{Name: "isStarted()", Op: "call", A: callsFunc("(Server).isStarted"), Holds: true}}); len(miss) > 0 {
				problems = append(problems, fmt.Sprintf("%s: %s is reachable in the per-connection loop without the isStarted() test having passed on this iteration: a connection accepted just before Shutdown keeps reading (with no deadline to unblock it) and starts handlers after Shutdown returned", c.pos(ci.Pos()), calleeNameSSA(ci.Common())))
			}
		}
		// reads through a user-supplied Reader: the invoke of ReadTCP
		allInstrs(f, func(in ssa.Instruction) {
			call, ok := in.(*ssa.Call)
			if !ok || !call.Call.IsInvoke() || call.Call.Method.Name() != "ReadTCP" {
				return
			}
			n++
			if miss := guardsMissing(f, call.Block(), []Guard{{Name: "isStarted()", Op: "call", A: callsFunc("(Server).isStarted"), Holds: true}}); len(miss) > 0 {
				problems = append(problems, fmt.Sprintf("%s: the next query is read without the isStarted() test having passed on this iteration: a connection accepted just before Shutdown blocks in a read that nothing unblocks, and its handler starts after Shutdown returned", c.pos(call.Pos())))
			}
		})
		if n < 2 {
			problems = append(problems, fmt.Sprintf("%d read/dispatch calls found in serveTCPConn, want at least 2", n))
		}
		// the connection registered by serveTCP is unregistered on every way out (hijacked or not)
		okDel, blk := mustPass(f, f.Blocks[0], -1, func(x ssa.Instruction) bool {
			call, ok := x.(*ssa.Call)
			return ok && calleeNameSSA(&call.Call) == "builtin.delete" && anyIn(sliceOf(call.Call.Args[0]), readsField("Server", "conns"))
		})
		if !okDel {
			problems = append(problems, fmt.Sprintf("%s: serveTCPConn can return without delete(srv.conns, conn): the connection stays tracked by the server after it is done with it (Shutdown keeps poking it; a hijacked connection is never forgotten)", c.pos(blk.Instrs[len(blk.Instrs)-1].Pos())))
		}
		r.check(len(problems) == 0, "C13.R5.drain", "Server.serveTCPConn:loop", c.pos(f.Pos()), "read and dispatch only while started", "%s", strings.Join(problems, "; "))
	}
	// no other close of the drain channel in the package
	n := 0
	for _, m := range c.SSA.Members {
		if f, ok := m.(*ssa.Function); ok {
			for _, a := range withAnon(f) {
				for _, ci := range callsIn(a, "builtin.close") {
					if isDrainChan(ci.Common().Args[0], 0) {
						n++
					}
				}
			}
		}
	}
	srvT := c.named("Server")
	ms := c.Prog.MethodSets.MethodSet(types.NewPointer(srvT))
	total := 0
	for i := 0; i < ms.Len(); i++ {
		if f := c.Prog.MethodValue(ms.At(i)); f != nil {
			for _, a := range withAnon(f) {
				for _, ci := range callsIn(a, "builtin.close") {
					if isDrainChan(ci.Common().Args[0], 0) {
						total++
					}
				}
			}
		}
	}
	r.check(n == 0 && total == serveSites && total >= 2, "C13.R5.drain", "close(shutdown):sites", "", "only the two serve loops close the drain channel", "%d close(srv.shutdown) sites in methods of Server (%d of them in the two serve loops) and %d elsewhere; expected only the serve loops to close it", total, serveSites, n)
}

// deadlineArmProblems: what is wrong with the SetReadDeadline calls of f (nothing, when each is made with the server's
// lock held for reading and on the edge where started, read under that lock, was true).
func deadlineArmProblems(c *Ctx, f *ssa.Function, li *lockInfo) []string {
	if li == nil {
		li = computeLocks(f, "Server", "lock", lkNone)
	}
	var problems []string
	allInstrs(f, func(in ssa.Instruction) {
		call, ok := in.(*ssa.Call)
		if !ok || !strings.HasSuffix(calleeNameSSA(&call.Call), ".SetReadDeadline") {
			return
		}
		if li.at[in] < lkR {
			problems = append(problems, fmt.Sprintf("%s: SetReadDeadline without the lock held: a concurrent Shutdown's unblocking deadline can be overwritten", c.pos(in.Pos())))
		}
		g := Guard{Name: "srv.started", Op: "val", A: readsField("Server", "started"), Holds: true}
		if miss := guardsMissing(f, in.Block(), []Guard{g}); len(miss) > 0 {
			problems = append(problems, fmt.Sprintf("%s: SetReadDeadline not on the started==true edge", c.pos(in.Pos())))
		} else {
			for _, fct := range factsAt(f, in.Block()) {
				for v := range sliceOf(fct.Atom) {
					if u, ok := v.(*ssa.UnOp); ok && u.Op == token.MUL && readsField("Server", "started")(u.X) {
						if li.at[u] < lkR {
							problems = append(problems, fmt.Sprintf("%s: started is tested outside the lock region", c.pos(u.Pos())))
						}
					}
				}
			}
		}
	})
	return problems
}

// isDrainChan: the value is the server's drain channel: the field Server.shutdown itself, the result of a helper
// that returns it, or a variable of the enclosing function (captured by a deferred closure) that was assigned one of
// those.
func isDrainChan(v ssa.Value, depth int) bool {
	if depth > 4 || v == nil {
		return false
	}
	for o := range sliceOf(v) {
		if readsField("Server", "shutdown")(o) {
			return true
		}
		switch t := o.(type) {
		case *ssa.Call:
			g := t.Call.StaticCallee()
			if g == nil || len(g.Blocks) == 0 {
				continue
			}
			all, n := true, 0
			for _, b := range g.Blocks {
				if ret, ok := b.Instrs[len(b.Instrs)-1].(*ssa.Return); ok && len(ret.Results) == 1 {
					n++
					if !anyIn(sliceOf(ret.Results[0]), readsField("Server", "shutdown")) {
						all = false
					}
				}
			}
			if all && n > 0 {
				return true
			}
		case *ssa.FreeVar:
			fn := t.Parent()
			idx := -1
			for i, fv := range fn.FreeVars {
				if fv == t {
					idx = i
				}
			}
			if idx < 0 || fn.Parent() == nil {
				continue
			}
			found := false
			allInstrs(fn.Parent(), func(in ssa.Instruction) {
				mc, ok := in.(*ssa.MakeClosure)
				if !ok || mc.Fn != ssa.Value(fn) || idx >= len(mc.Bindings) {
					return
				}
				b := mc.Bindings[idx]
				if isDrainChan(b, depth+1) {
					found = true
				}
				if al, isAl := b.(*ssa.Alloc); isAl && al.Referrers() != nil {
					for _, ref := range *al.Referrers() {
						if st, isSt := ref.(*ssa.Store); isSt && st.Addr == ssa.Value(al) && isDrainChan(st.Val, depth+1) {
							found = true
						}
					}
				}
			})
			if found {
				return true
			}
		}
	}
	return false
}
