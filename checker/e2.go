package main

// E2 — provenance, aliasing and write effects: a flow-insensitive, summary-based may-alias / may-write analysis
// over the SSA form of the whole module (DESIGN.md §3 E2).

import (
	"fmt"
	"go/token"
	"go/types"
	"sort"
	"strings"

	"golang.org/x/tools/go/ssa"
)

type rootKind uint8

const (
	rkParam rootKind = iota // memory reachable from parameter/free variable idx of fn at entry
	rkAlloc                 // an allocation site
	rkGlobal
	rkUnknown
)

type root struct {
	Kind rootKind
	Fn   *ssa.Function // rkParam
	Idx  int           // rkParam
	Site ssa.Value     // rkAlloc
}

type rootSet map[root]bool

func (s rootSet) addAll(o rootSet) bool {
	ch := false
	for r := range o {
		if !s[r] {
			s[r] = true
			ch = true
		}
	}
	return ch
}

func (s rootSet) clone() rootSet {
	o := rootSet{}
	for r := range s {
		o[r] = true
	}
	return o
}

// writeEffect: a store into memory of some root, described for reports.
type writeDesc struct {
	Desc string
	Pos  token.Pos
	Fn   string
}

type fnSummary struct {
	rets     []rootSet
	captures map[root]rootSet              // stores into memory of a non-local root: target -> value roots
	writes   map[root]map[string]writeDesc // non-local target root -> descriptors
	reads    map[root]map[string]bool      // non-local root -> field descriptors loaded
}

type aliasEngine struct {
	c        *Ctx
	fns      []*ssa.Function
	inScope  map[*ssa.Function]bool
	val      map[ssa.Value]rootSet
	tuple    map[ssa.Value][]rootSet
	contents map[root]rootSet // allocation sites and the global blob
	sum      map[*ssa.Function]*fnSummary
	bySig    map[string][]*ssa.Function // address-taken functions by signature
	impls    map[string][]*ssa.Function // "Iface.method" -> implementations in module
	unknown  map[string]bool            // external callees treated conservatively
	reach    map[*ssa.Function]map[*ssa.UnOp][]*ssa.Store
	bind     map[root]rootSet // P(g,i) -> union of the actual arguments at every call site of g (callers' terms)
	changed  bool
}

// hasRefs: values of type t may carry pointers into mutable memory (strings are immutable and excluded).
func hasRefs(t types.Type) bool {
	return hasRefsRec(t, map[types.Type]bool{})
}

func hasRefsRec(t types.Type, seen map[types.Type]bool) bool {
	if seen[t] {
		return false
	}
	seen[t] = true
	switch u := t.Underlying().(type) {
	case *types.Basic:
		return u.Kind() == types.UnsafePointer
	case *types.Signature:
		// function values are immutable; what a closure captures is reached through its bindings when it is applied
		return false
	case *types.Pointer, *types.Slice, *types.Map, *types.Chan, *types.Interface:
		return true
	case *types.Struct:
		for i := 0; i < u.NumFields(); i++ {
			if hasRefsRec(u.Field(i).Type(), seen) {
				return true
			}
		}
		return false
	case *types.Array:
		return hasRefsRec(u.Elem(), seen)
	case *types.Tuple:
		for i := 0; i < u.Len(); i++ {
			if hasRefsRec(u.At(i).Type(), seen) {
				return true
			}
		}
		return false
	}
	return true
}

// elemHasRefs: the memory a reference of type t points to holds further references.
func elemHasRefs(t types.Type) bool {
	switch u := t.Underlying().(type) {
	case *types.Pointer:
		return hasRefs(u.Elem())
	case *types.Slice:
		return hasRefs(u.Elem())
	case *types.Map:
		return hasRefs(u.Elem()) || hasRefs(u.Key())
	case *types.Chan:
		return hasRefs(u.Elem())
	}
	return true
}

func newAliasEngine(c *Ctx) *aliasEngine {
	e := &aliasEngine{c: c, inScope: map[*ssa.Function]bool{}, val: map[ssa.Value]rootSet{}, tuple: map[ssa.Value][]rootSet{},
		contents: map[root]rootSet{}, sum: map[*ssa.Function]*fnSummary{}, bySig: map[string][]*ssa.Function{}, impls: map[string][]*ssa.Function{}, unknown: map[string]bool{}, bind: map[root]rootSet{}, reach: map[*ssa.Function]map[*ssa.UnOp][]*ssa.Store{}}
	// all functions of the module's packages, including instantiations reachable from them
	seen := map[*ssa.Function]bool{}
	var add func(f *ssa.Function)
	add = func(f *ssa.Function) {
		if f == nil || seen[f] || len(f.Blocks) == 0 {
			return
		}
		seen[f] = true
		e.fns = append(e.fns, f)
		e.inScope[f] = true
		for _, a := range f.AnonFuncs {
			add(a)
		}
		for _, b := range f.Blocks {
			for _, in := range b.Instrs {
				if ci, ok := in.(ssa.CallInstruction); ok {
					if callee := ci.Common().StaticCallee(); callee != nil && callee.Pkg == nil && len(callee.TypeArgs()) > 0 {
						// instantiation of a generic: analyse if its origin is in the module
						if o := callee.Origin(); o != nil && o.Pkg != nil && strings.HasPrefix(o.Pkg.Pkg.Path(), dnsPath) {
							add(callee)
						}
					}
				}
				for _, op := range in.Operands(nil) {
					if fn, ok := (*op).(*ssa.Function); ok && fn.Pkg != nil && strings.HasPrefix(fn.Pkg.Pkg.Path(), dnsPath) {
						add(fn)
					}
				}
			}
		}
	}
	for _, p := range c.Prog.AllPackages() {
		if !strings.HasPrefix(p.Pkg.Path(), dnsPath) {
			continue
		}
		for _, m := range p.Members {
			switch t := m.(type) {
			case *ssa.Function:
				add(t)
			case *ssa.Type:
				for _, tt := range []types.Type{t.Type(), types.NewPointer(t.Type())} {
					ms := c.Prog.MethodSets.MethodSet(tt)
					for i := 0; i < ms.Len(); i++ {
						f := c.Prog.MethodValue(ms.At(i))
						if f != nil && f.Synthetic == "" {
							add(f)
						}
					}
				}
			}
		}
	}
	// address-taken functions by signature; interface implementations
	for _, f := range e.fns {
		for _, b := range f.Blocks {
			for _, in := range b.Instrs {
				for _, op := range in.Operands(nil) {
					var g *ssa.Function
					switch t := (*op).(type) {
					case *ssa.Function:
						g = t
					case *ssa.MakeClosure:
						g = t.Fn.(*ssa.Function)
					}
					if g == nil || !e.inScope[g] {
						continue
					}
					if ci, ok := in.(ssa.CallInstruction); ok && ci.Common().Value == *op {
						continue // direct call, not address-taken
					}
					k := g.Signature.String()
					dup := false
					for _, x := range e.bySig[k] {
						if x == g {
							dup = true
						}
					}
					if !dup {
						e.bySig[k] = append(e.bySig[k], g)
					}
				}
			}
		}
	}
	// composite literals of function values in package-level vars (TypeToRR): initialiser function holds them as operands: covered above
	return e
}

func (e *aliasEngine) summary(f *ssa.Function) *fnSummary {
	s := e.sum[f]
	if s == nil {
		s = &fnSummary{captures: map[root]rootSet{}, writes: map[root]map[string]writeDesc{}, reads: map[root]map[string]bool{}}
		n := f.Signature.Results().Len()
		for i := 0; i < n; i++ {
			s.rets = append(s.rets, rootSet{})
		}
		e.sum[f] = s
	}
	return s
}

func (e *aliasEngine) rootsOf(v ssa.Value) rootSet {
	if v == nil {
		return nil
	}
	switch t := v.(type) {
	case *ssa.Const:
		return nil
	case *ssa.Global:
		return rootSet{{Kind: rkGlobal}: true}
	case *ssa.Function:
		return nil
	case *ssa.Builtin:
		return nil
	case *ssa.Parameter, *ssa.FreeVar:
		_ = t
	}
	return e.val[v]
}

func (e *aliasEngine) setVal(v ssa.Value, s rootSet) {
	if len(s) == 0 {
		return
	}
	cur := e.val[v]
	if cur == nil {
		cur = rootSet{}
		e.val[v] = cur
	}
	if cur.addAll(s) {
		e.changed = true
	}
}

// contentsOf: what may be loaded from memory of the given roots, as seen inside fn.
func (e *aliasEngine) contentsOf(fn *ssa.Function, rs rootSet) rootSet {
	out := rootSet{}
	for r := range rs {
		switch r.Kind {
		case rkParam, rkGlobal, rkUnknown:
			out[r] = true // closed: what is reachable from a parameter stays "that parameter"
			if s := e.summary(fn).captures[r]; s != nil {
				out.addAll(s)
			}
			if r.Kind == rkGlobal {
				out.addAll(e.contents[r])
			}
		case rkAlloc:
			out.addAll(e.contents[r])
		}
	}
	return e.localise(fn, out)
}

// localise rewrites roots "memory of parameter i of g" for g != fn (left in the contents of allocation sites by
// stores made inside g) into fn's terms through the join of the actual arguments over all call sites of g
// (context-insensitive). Foreign parameters without a binding (entry points nobody in the module calls) are dropped.
func (e *aliasEngine) localise(fn *ssa.Function, s rootSet) rootSet {
	foreign := false
	for r := range s {
		if r.Kind == rkParam && r.Fn != fn {
			foreign = true
		}
	}
	if !foreign {
		return s
	}
	out := rootSet{}
	seen := map[root]bool{}
	var stack []root
	for r := range s {
		stack = append(stack, r)
	}
	for len(stack) > 0 {
		r := stack[len(stack)-1]
		stack = stack[:len(stack)-1]
		if seen[r] {
			continue
		}
		seen[r] = true
		if r.Kind == rkParam && r.Fn != fn {
			for b := range e.bind[r] {
				stack = append(stack, b)
			}
			continue
		}
		out[r] = true
	}
	return out
}

// storeInto records `*target = value` inside fn.
func (e *aliasEngine) storeInto(fn *ssa.Function, targets, vals rootSet, desc string, pos token.Pos, isWrite bool) {
	sum := e.summary(fn)
	for t := range targets {
		switch t.Kind {
		case rkAlloc:
			if len(vals) > 0 {
				c := e.contents[t]
				if c == nil {
					c = rootSet{}
					e.contents[t] = c
				}
				if c.addAll(vals) {
					e.changed = true
				}
			}
		default:
			if len(vals) > 0 {
				c := sum.captures[t]
				if c == nil {
					c = rootSet{}
					sum.captures[t] = c
				}
				if c.addAll(vals) {
					e.changed = true
				}
			}
			if isWrite {
				w := sum.writes[t]
				if w == nil {
					w = map[string]writeDesc{}
					sum.writes[t] = w
				}
				if _, ok := w[desc]; !ok {
					w[desc] = writeDesc{Desc: desc, Pos: pos, Fn: fnDisplay(fn)}
					e.changed = true
				}
			}
		}
	}
}

// describeAddrs: what a store through addr writes. A pointer taken out of a local table of field addresses
// (fields := [...]*uint32{&rr.Serial, &rr.Refresh, ...}; *fields[i] = v) writes one of those fields: every one of them
// is reported (with a variable index any may be meant; the rules that ask "is field F written" accept that, the rules
// that ask "is anything else written" see them all).
func describeAddrs(addr ssa.Value) []string {
	if ld, ok := addr.(*ssa.UnOp); ok && ld.Op == token.MUL {
		if ia, ok := ld.X.(*ssa.IndexAddr); ok {
			if al, ok := ia.X.(*ssa.Alloc); ok && al.Referrers() != nil {
				var out []string
				okAll := true
				var gather func(al *ssa.Alloc, depth int)
				gather = func(al *ssa.Alloc, depth int) {
					if depth > 2 || al.Referrers() == nil {
						return
					}
					for _, ref := range *al.Referrers() {
						switch t := ref.(type) {
						case *ssa.IndexAddr:
							if t.Referrers() == nil {
								continue
							}
							for _, r2 := range *t.Referrers() {
								if st, isSt := r2.(*ssa.Store); isSt && st.Addr == ssa.Value(t) {
									if fa, isFA := st.Val.(*ssa.FieldAddr); isFA {
										out = append(out, describeAddr(fa))
									} else {
										okAll = false
									}
								}
							}
						case *ssa.Store:
							// the literal is built in a temporary and stored whole
							if t.Addr == ssa.Value(al) {
								if ld2, isLd := t.Val.(*ssa.UnOp); isLd && ld2.Op == token.MUL {
									if src, isAl := ld2.X.(*ssa.Alloc); isAl {
										gather(src, depth+1)
										continue
									}
								}
								okAll = false
							}
						}
					}
				}
				gather(al, 0)
				if okAll && len(out) > 0 {
					return out
				}
			}
		}
	}
	return []string{describeAddr(addr)}
}

func describeAddr(addr ssa.Value) string {
	switch t := addr.(type) {
	case *ssa.FieldAddr:
		tt := t.X.Type()
		if p, ok := tt.Underlying().(*types.Pointer); ok {
			tt = p.Elem()
		}
		name := typeStr(tt)
		if st, ok := tt.Underlying().(*types.Struct); ok {
			return name + "." + st.Field(t.Field).Name()
		}
		return name
	case *ssa.IndexAddr:
		return "element of " + typeStr(t.X.Type())
	}
	return "*" + typeStr(addr.Type())
}

// ---- external (standard library) behaviour table ----

type extBehaviour struct {
	pure      bool  // result carries no roots of the arguments, nothing is written
	aliasArgs []int // result may alias these arguments (plus fresh memory)
	writeArgs []int // writes into memory of these arguments
	fresh     bool  // result is (also) fresh memory
	copyInto  [2]int
	hasCopy   bool // contents(arg copyInto[0]) gets contents(arg copyInto[1])
}

func extBehaviourOf(name string) (extBehaviour, bool) {
	pureP := []string{"strings.", "strconv.", "unicode.", "utf8.", "math.", "bits.", "errors.", "time.", "(time.", "fmt.Sprint", "fmt.Errorf", "fmt.Sprintf",
		"hex.EncodeToString", "hex.DecodeString", "hex.DecodedLen", "hex.EncodedLen", "(base64.Encoding).EncodeToString", "(base64.Encoding).DecodeString", "(base64.Encoding).DecodedLen", "(base64.Encoding).EncodedLen",
		"(base32.Encoding).EncodeToString", "(base32.Encoding).DecodeString", "(base32.Encoding).DecodedLen", "(base32.Encoding).EncodedLen", "(base32.Encoding).WithPadding",
		"bytes.Equal", "bytes.Compare", "bytes.IndexByte", "bytes.HasPrefix", "net.ParseIP", "net.ParseCIDR", "net.CIDRMask", "net.IPv4", "(net.IP).String", "(net.IP).Equal", "(net.IP).Mask", "(net.IP).IsUnspecified",
		"(net.IPMask).Size", "(net.IPNet).String", "(net.IPNet).Contains", "net.JoinHostPort", "net.SplitHostPort", "(strings.Builder).String", "(strings.Builder).Len", "(strings.Builder).Grow", "(strings.Builder).Write", "(strings.Builder).Reset",
		"(big.Int).", "big.NewInt", "sha1.", "sha256.", "sha512.", "hmac.", "(crypto.Hash).", "rsa.", "ecdsa.", "ed25519.", "elliptic.", "rand.", "asn1.", "(sync.", "(atomic.", "sort.SearchInts", "sort.Strings",
		"(reflect.", "reflect.", "os.", "(os.", "(fs.", "fs.", "filepath.", "path.", "(bufio.", "bufio.", "(io.", "io.", "(tls.", "tls.", "(context.", "context.", "(net.", "net.", "runtime.", "binary.Read", "binary.Size",
		"(binary.bigEndian).Uint", "(hash.Hash).Write", "(hash.Hash).Reset", "(hash.Hash).Size", "(hash.Hash).BlockSize", "(crypto.Signer).", "(error).Error", "(fmt.Stringer).String", "slices.", "maps.", "cmp.", "(syscall.", "syscall.", "unix.", "(ipv4.", "(ipv6.", "ipv4.", "ipv6.", "unsafe."}
	switch {
	case name == "(binary.bigEndian).PutUint16" || name == "(binary.bigEndian).PutUint32" || name == "(binary.bigEndian).PutUint64":
		return extBehaviour{writeArgs: []int{1}}, true
	case name == "(base64.Encoding).Decode" || name == "(base32.Encoding).Decode" || name == "hex.Decode" || name == "hex.Encode" || name == "(base64.Encoding).Encode" || name == "(base32.Encoding).Encode":
		n := 1
		if strings.HasPrefix(name, "hex.") {
			n = 0
		}
		return extBehaviour{writeArgs: []int{n}}, true
	case name == "(net.IP).To4" || name == "(net.IP).To16":
		return extBehaviour{aliasArgs: []int{0}, fresh: true}, true
	case name == "(hash.Hash).Sum":
		return extBehaviour{aliasArgs: []int{1}, fresh: true}, true
	case name == "sort.Slice" || name == "sort.Sort" || name == "sort.Stable" || name == "sort.SliceStable":
		return extBehaviour{writeArgs: []int{0}}, true
	case name == "sort.SliceIsSorted" || name == "sort.IsSorted" || name == "slices.IsSorted" || name == "slices.IsSortedFunc":
		// reads its argument (and calls the comparison it is given), writes and keeps nothing
		return extBehaviour{pure: true}, true
	case name == "(bytes.Buffer).Write" || name == "(bytes.Buffer).WriteByte" || name == "(bytes.Buffer).WriteString" || name == "(bytes.Buffer).Reset" || name == "(bytes.Buffer).ReadByte" || name == "fmt.Fprintf" || name == "fmt.Fprint" || name == "fmt.Fprintln":
		return extBehaviour{writeArgs: []int{0}}, true
	case name == "(bytes.Buffer).Bytes":
		return extBehaviour{aliasArgs: []int{0}}, true
	case name == "(PrivateRdata).Pack" || name == "(PrivateRdata).Copy":
		// user code (assumption): Pack fills the buffer it is given, Copy fills the destination it is given
		return extBehaviour{writeArgs: []int{1}}, true
	case strings.HasPrefix(name, "(PrivateRdata).") || strings.HasPrefix(name, "dynamic:") || name == "init" || strings.HasPrefix(name, "(tlsConnectionStater)") || strings.HasPrefix(name, "(ed25519.") || strings.HasPrefix(name, "(bytes.Buffer)."):
		// user-supplied code and function values (assumption: no retention, no mutation of library-owned arguments)
		return extBehaviour{pure: true, fresh: true}, true
	case name == "io.ReadFull" || name == "io.ReadAtLeast":
		return extBehaviour{writeArgs: []int{1}}, true
	case name == "(net.Conn).Read" || name == "(net.PacketConn).ReadFrom" || name == "(io.Reader).Read":
		return extBehaviour{writeArgs: []int{1}}, true
	}
	for _, p := range pureP {
		if strings.HasPrefix(name, p) {
			return extBehaviour{pure: true, fresh: true}, true
		}
	}
	return extBehaviour{}, false
}

// ---- per-function transfer ----

// simpleCells: local allocations used only by direct stores, direct loads and closure bindings whose closures never
// store through the captured variable: loads from them are resolved flow-sensitively (reaching stores).
func (e *aliasEngine) reachingStores(fn *ssa.Function) map[*ssa.UnOp][]*ssa.Store {
	out := map[*ssa.UnOp][]*ssa.Store{}
	for _, b := range fn.Blocks {
		for _, in := range b.Instrs {
			cell, ok := in.(*ssa.Alloc)
			if !ok {
				continue
			}
			simple := true
			var stores []*ssa.Store
			var loads []*ssa.UnOp
			for _, ref := range *cell.Referrers() {
				switch t := ref.(type) {
				case *ssa.Store:
					if t.Addr != cell || t.Val == cell {
						simple = false
					}
					stores = append(stores, t)
				case *ssa.UnOp:
					loads = append(loads, t)
				case *ssa.DebugRef:
				case *ssa.MakeClosure:
					g := t.Fn.(*ssa.Function)
					for i, bv := range t.Bindings {
						if bv != cell {
							continue
						}
						fv := g.FreeVars[i]
						for _, r2 := range *fv.Referrers() {
							if _, isLoad := r2.(*ssa.UnOp); !isLoad {
								if _, isDbg := r2.(*ssa.DebugRef); !isDbg {
									simple = false
								}
							}
						}
					}
				default:
					simple = false
				}
			}
			if !simple || len(stores) == 0 {
				continue
			}
			// forward dataflow: set of stores reaching each block entry
			inSet := map[*ssa.BasicBlock]map[*ssa.Store]bool{}
			outSet := map[*ssa.BasicBlock]map[*ssa.Store]bool{}
			changed := true
			for changed {
				changed = false
				for _, blk := range fn.Blocks {
					cur := map[*ssa.Store]bool{}
					for _, p := range blk.Preds {
						for s := range outSet[p] {
							cur[s] = true
						}
					}
					inSet[blk] = cur
					o := map[*ssa.Store]bool{}
					for s := range cur {
						o[s] = true
					}
					for _, x := range blk.Instrs {
						if st, ok := x.(*ssa.Store); ok && st.Addr == cell {
							o = map[*ssa.Store]bool{st: true}
						}
					}
					if len(o) != len(outSet[blk]) {
						changed = true
					} else {
						for s := range o {
							if !outSet[blk][s] {
								changed = true
							}
						}
					}
					outSet[blk] = o
				}
			}
			for _, ld := range loads {
				cur := map[*ssa.Store]bool{}
				for s := range inSet[ld.Block()] {
					cur[s] = true
				}
				for _, x := range ld.Block().Instrs {
					if x == ld {
						break
					}
					if st, ok := x.(*ssa.Store); ok && st.Addr == cell {
						cur = map[*ssa.Store]bool{st: true}
					}
				}
				var list []*ssa.Store
				for s := range cur {
					list = append(list, s)
				}
				out[ld] = list // possibly empty: load of the zero value
			}
		}
	}
	return out
}

func (e *aliasEngine) analyse(fn *ssa.Function) {
	sum := e.summary(fn)
	reaching := e.reach[fn]
	if reaching == nil {
		reaching = e.reachingStores(fn)
		e.reach[fn] = reaching
	}
	// parameters and free variables
	for i, p := range fn.Params {
		if hasRefs(p.Type()) {
			e.setVal(p, rootSet{{Kind: rkParam, Fn: fn, Idx: i}: true})
		}
	}
	for i, fv := range fn.FreeVars {
		if hasRefs(fv.Type()) {
			e.setVal(fv, rootSet{{Kind: rkParam, Fn: fn, Idx: len(fn.Params) + i}: true})
		}
	}
	for _, b := range fn.Blocks {
		for _, in := range b.Instrs {
			switch t := in.(type) {
			case *ssa.Alloc:
				e.setVal(t, rootSet{{Kind: rkAlloc, Site: t}: true})
			case *ssa.MakeSlice, *ssa.MakeMap, *ssa.MakeChan:
				v := in.(ssa.Value)
				e.setVal(v, rootSet{{Kind: rkAlloc, Site: v}: true})
			case *ssa.MakeClosure:
				r := root{Kind: rkAlloc, Site: t}
				e.setVal(t, rootSet{r: true})
				for _, bv := range t.Bindings {
					e.storeInto(fn, rootSet{r: true}, e.rootsOf(bv), "closure", t.Pos(), false)
				}
				// a closure handed to code we do not see (sort.Slice, once.Do, defer) is assumed to be called
				if g, ok := t.Fn.(*ssa.Function); ok && e.inScope[g] {
					args := make([]rootSet, len(g.Params)+len(g.FreeVars))
					for i, bv := range t.Bindings {
						args[len(g.Params)+i] = e.rootsOf(bv)
					}
					e.applySummary(fn, g, args, nil, t.Pos())
				}
			case *ssa.FieldAddr:
				e.setVal(t, e.rootsOf(t.X))
			case *ssa.IndexAddr:
				e.setVal(t, e.rootsOf(t.X))
			case *ssa.Slice:
				if _, isStr := t.X.Type().Underlying().(*types.Basic); !isStr {
					e.setVal(t, e.rootsOf(t.X))
				}
			case *ssa.Field:
				if hasRefs(t.Type()) {
					e.setVal(t, e.rootsOf(t.X))
				}
			case *ssa.Index:
				if hasRefs(t.Type()) {
					e.setVal(t, e.rootsOf(t.X))
				}
			case *ssa.ChangeType:
				e.setVal(t, e.rootsOf(t.X))
			case *ssa.ChangeInterface:
				e.setVal(t, e.rootsOf(t.X))
			case *ssa.MakeInterface:
				if hasRefs(t.X.Type()) {
					e.setVal(t, e.rootsOf(t.X))
				}
			case *ssa.SliceToArrayPointer:
				e.setVal(t, e.rootsOf(t.X))
			case *ssa.TypeAssert:
				if t.CommaOk {
					e.tuple[t] = []rootSet{e.rootsOf(t.X), nil}
				} else if hasRefs(t.Type()) {
					e.setVal(t, e.rootsOf(t.X))
				}
			case *ssa.Convert:
				// []byte(string) / []rune(string): fresh; string([]byte): immutable copy; pointer conversions: alias
				if _, isSlice := t.Type().Underlying().(*types.Slice); isSlice {
					if bt, ok := t.X.Type().Underlying().(*types.Basic); ok && bt.Info()&types.IsString != 0 {
						e.setVal(t, rootSet{{Kind: rkAlloc, Site: t}: true})
						break
					}
				}
				if hasRefs(t.Type()) {
					e.setVal(t, e.rootsOf(t.X))
				}
			case *ssa.Phi:
				if hasRefs(t.Type()) {
					for _, ed := range t.Edges {
						e.setVal(t, e.rootsOf(ed))
					}
				}
			case *ssa.Select:
				// received values: contents of the channels
				rs := rootSet{}
				for _, st := range t.States {
					rs.addAll(e.contentsOf(fn, e.rootsOf(st.Chan)))
					if st.Send != nil {
						e.storeInto(fn, e.rootsOf(st.Chan), e.rootsOf(st.Send), "channel send", t.Pos(), false)
					}
				}
				tu := []rootSet{nil, nil}
				for range t.States {
					tu = append(tu, rs)
				}
				e.tuple[t] = tu
			case *ssa.UnOp:
				switch t.Op {
				case token.MUL:
					if fa, ok := t.X.(*ssa.FieldAddr); ok {
						d := describeAddr(fa)
						for rt := range e.rootsOf(fa) {
							if rt.Kind == rkAlloc {
								continue
							}
							m := sum.reads[rt]
							if m == nil {
								m = map[string]bool{}
								sum.reads[rt] = m
							}
							if !m[d] {
								m[d] = true
								e.changed = true
							}
						}
					}
					if hasRefs(t.Type()) {
						if sts, ok := reaching[t]; ok {
							for _, st := range sts {
								e.setVal(t, e.rootsOf(st.Val))
							}
						} else {
							e.setVal(t, e.contentsOf(fn, e.rootsOf(t.X)))
						}
					}
				case token.ARROW:
					if hasRefs(t.Type()) {
						rs := e.contentsOf(fn, e.rootsOf(t.X))
						if t.CommaOk {
							e.tuple[t] = []rootSet{rs, nil}
						} else {
							e.setVal(t, rs)
						}
					}
				}
			case *ssa.Store:
				vals := rootSet(nil)
				if hasRefs(t.Val.Type()) {
					vals = e.rootsOf(t.Val)
				}
				for _, d := range describeAddrs(t.Addr) {
					e.storeInto(fn, e.rootsOf(t.Addr), vals, d, t.Pos(), true)
				}
			case *ssa.MapUpdate:
				vals := rootSet{}
				if hasRefs(t.Key.Type()) {
					vals.addAll(e.rootsOf(t.Key))
				}
				if hasRefs(t.Value.Type()) {
					vals.addAll(e.rootsOf(t.Value))
				}
				e.storeInto(fn, e.rootsOf(t.Map), vals, "entry of "+typeStr(t.Map.Type()), t.Pos(), true)
			case *ssa.Send:
				e.storeInto(fn, e.rootsOf(t.Chan), e.rootsOf(t.X), "channel send", t.Pos(), false)
			case *ssa.Lookup:
				if _, isMap := t.X.Type().Underlying().(*types.Map); isMap {
					rs := rootSet(nil)
					if elemHasRefs(t.X.Type()) {
						rs = e.contentsOf(fn, e.rootsOf(t.X))
					}
					if t.CommaOk {
						e.tuple[t] = []rootSet{rs, nil}
					} else {
						e.setVal(t, rs)
					}
				}
			case *ssa.Range:
				e.setVal(t, e.rootsOf(t.X))
			case *ssa.Next:
				rs := rootSet(nil)
				if rg, ok := t.Iter.(*ssa.Range); ok {
					if _, isMap := rg.X.Type().Underlying().(*types.Map); isMap && elemHasRefs(rg.X.Type()) {
						rs = e.contentsOf(fn, e.rootsOf(rg.X))
					}
				}
				e.tuple[t] = []rootSet{nil, rs, rs}
			case *ssa.Extract:
				if !hasRefs(t.Type()) {
					break
				}
				if tu, ok := e.tuple[t.Tuple]; ok && t.Index < len(tu) {
					e.setVal(t, tu[t.Index])
				}
			case *ssa.Call:
				e.call(fn, t, t.Common(), t.Pos())
			case *ssa.Go:
				e.call(fn, nil, t.Common(), t.Pos())
			case *ssa.Defer:
				e.call(fn, nil, t.Common(), t.Pos())
			case *ssa.Return:
				for i, rv := range t.Results {
					if i < len(sum.rets) && hasRefs(rv.Type()) {
						if sum.rets[i].addAll(e.rootsOf(rv)) {
							e.changed = true
						}
					}
				}
			}
		}
	}
}

// subst maps roots expressed in callee terms to the caller's.
func (e *aliasEngine) subst(callee *ssa.Function, s rootSet, args []rootSet) rootSet {
	out := rootSet{}
	for r := range s {
		if r.Kind == rkParam && r.Fn == callee {
			if r.Idx < len(args) {
				out.addAll(args[r.Idx])
			}
			continue
		}
		out[r] = true
	}
	return out
}

// applySummary applies callee's summary at a call inside fn; res receives the result roots.
func (e *aliasEngine) applySummary(fn, callee *ssa.Function, args []rootSet, res *[]rootSet, pos token.Pos) {
	cs := e.summary(callee)
	for i, a := range args {
		if len(a) == 0 {
			continue
		}
		k := root{Kind: rkParam, Fn: callee, Idx: i}
		b := e.bind[k]
		if b == nil {
			b = rootSet{}
			e.bind[k] = b
		}
		if b.addAll(a) {
			e.changed = true
		}
	}
	if res != nil {
		for i, r := range cs.rets {
			for len(*res) <= i {
				*res = append(*res, rootSet{})
			}
			(*res)[i].addAll(e.subst(callee, r, args))
		}
	}
	for t, vs := range cs.captures {
		e.storeInto(fn, e.subst(callee, rootSet{t: true}, args), e.subst(callee, vs, args), "", pos, false)
	}
	for t, rs := range cs.reads {
		for tr := range e.subst(callee, rootSet{t: true}, args) {
			if tr.Kind == rkAlloc {
				continue
			}
			sum := e.summary(fn)
			m := sum.reads[tr]
			if m == nil {
				m = map[string]bool{}
				sum.reads[tr] = m
			}
			for d := range rs {
				if !m[d] {
					m[d] = true
					e.changed = true
				}
			}
		}
	}
	for t, ws := range cs.writes {
		targets := e.subst(callee, rootSet{t: true}, args)
		for tr := range targets {
			if tr.Kind == rkAlloc {
				continue
			}
			sum := e.summary(fn)
			w := sum.writes[tr]
			if w == nil {
				w = map[string]writeDesc{}
				sum.writes[tr] = w
			}
			for d, wd := range ws {
				if _, ok := w[d]; !ok {
					w[d] = wd
					e.changed = true
				}
			}
		}
	}
}

func (e *aliasEngine) resolve(cc *ssa.CallCommon) (callees []*ssa.Function, external string) {
	if cc.IsInvoke() {
		recvT := cc.Value.Type()
		it, _ := recvT.Underlying().(*types.Interface)
		key := typeStr(recvT) + "." + cc.Method.Name()
		if impl, ok := e.impls[key]; ok {
			if len(impl) == 0 {
				return nil, calleeNameSSA(cc)
			}
			return impl, ""
		}
		var out []*ssa.Function
		if it != nil {
			for _, f := range e.fns {
				if f.Signature.Recv() == nil || f.Name() != cc.Method.Name() {
					continue
				}
				rt := f.Signature.Recv().Type()
				if types.Implements(rt, it) || types.Implements(types.NewPointer(rt), it) {
					out = append(out, f)
				}
			}
		}
		e.impls[key] = out
		if len(out) == 0 {
			return nil, calleeNameSSA(cc)
		}
		// interfaces declared outside the module with module implementations (e.g. sort.Interface): keep both views
		return out, ""
	}
	if f := cc.StaticCallee(); f != nil {
		if e.inScope[f] {
			return []*ssa.Function{f}, ""
		}
		return nil, calleeNameSSA(cc)
	}
	if _, ok := cc.Value.(*ssa.Builtin); ok {
		return nil, calleeNameSSA(cc)
	}
	if mc, ok := cc.Value.(*ssa.MakeClosure); ok {
		if g, ok := mc.Fn.(*ssa.Function); ok && e.inScope[g] {
			return []*ssa.Function{g}, ""
		}
	}
	// dynamic call through a function value: address-taken functions of the same signature
	if sig, ok := cc.Value.Type().Underlying().(*types.Signature); ok {
		if fs := e.bySig[sig.String()]; len(fs) > 0 {
			return fs, ""
		}
	}
	return nil, "dynamic:" + typeStr(cc.Value.Type())
}

func (e *aliasEngine) call(fn *ssa.Function, result ssa.Value, cc *ssa.CallCommon, pos token.Pos) {
	var args []rootSet
	if cc.IsInvoke() {
		args = append(args, e.rootsOf(cc.Value))
	}
	for _, a := range cc.Args {
		if hasRefs(a.Type()) {
			args = append(args, e.rootsOf(a))
		} else {
			args = append(args, nil)
		}
	}
	setResult := func(res []rootSet) {
		if result == nil {
			return
		}
		if _, isTuple := result.Type().(*types.Tuple); isTuple {
			cur := e.tuple[result]
			for len(cur) < len(res) {
				cur = append(cur, rootSet{})
			}
			for i, r := range res {
				if cur[i] == nil {
					cur[i] = rootSet{}
				}
				if cur[i].addAll(r) {
					e.changed = true
				}
			}
			e.tuple[result] = cur
			return
		}
		if len(res) > 0 && hasRefs(result.Type()) {
			e.setVal(result, res[0])
		}
	}
	callees, ext := e.resolve(cc)
	if len(callees) > 0 {
		var res []rootSet
		for _, g := range callees {
			a := args
			if mc, ok := cc.Value.(*ssa.MakeClosure); ok && !cc.IsInvoke() {
				a = append([]rootSet(nil), args...)
				for len(a) < len(g.Params) {
					a = append(a, nil)
				}
				for _, bv := range mc.Bindings {
					a = append(a, e.rootsOf(bv))
				}
			}
			e.applySummary(fn, g, a, &res, pos)
		}
		setResult(res)
		return
	}
	// builtins
	switch ext {
	case "builtin.append":
		r := root{Kind: rkAlloc, Site: result}
		res := rootSet{r: true}
		res.addAll(args[0])
		if len(args) > 1 && elemHasRefs(cc.Args[0].Type()) {
			moved := e.contentsOf(fn, args[1])
			moved.addAll(e.contentsOf(fn, args[0]))
			e.storeInto(fn, res, moved, "", pos, false)
		}
		if len(args[0]) > 0 {
			e.storeInto(fn, args[0], nil, "append into spare capacity of "+typeStr(cc.Args[0].Type()), pos, true)
		}
		setResult([]rootSet{res})
		return
	case "builtin.copy":
		vals := rootSet(nil)
		if elemHasRefs(cc.Args[0].Type()) {
			vals = e.contentsOf(fn, args[1])
		}
		e.storeInto(fn, args[0], vals, "copy into "+typeStr(cc.Args[0].Type()), pos, true)
		return
	case "builtin.delete":
		e.storeInto(fn, args[0], nil, "delete from "+typeStr(cc.Args[0].Type()), pos, true)
		return
	case "builtin.clear":
		e.storeInto(fn, args[0], nil, "clear", pos, true)
		return
	}
	if strings.HasPrefix(ext, "builtin.") {
		return // len, cap, close, panic, print, recover, min, max, new...
	}
	if b, ok := extBehaviourOf(ext); ok {
		res := rootSet{}
		if b.fresh && result != nil && hasRefs(result.Type()) {
			res[root{Kind: rkAlloc, Site: result}] = true
		}
		for _, i := range b.aliasArgs {
			if i < len(args) {
				res.addAll(args[i])
			}
		}
		for _, i := range b.writeArgs {
			if i < len(args) {
				e.storeInto(fn, args[i], nil, "written by "+ext, pos, true)
			}
		}
		if result != nil {
			if tu, isTuple := result.Type().(*types.Tuple); isTuple {
				rs := make([]rootSet, tu.Len())
				for i := range rs {
					if hasRefs(tu.At(i).Type()) {
						rs[i] = res
					}
				}
				setResult(rs)
			} else {
				setResult([]rootSet{res})
			}
		}
		return
	}
	// unknown callee: may alias and write everything it is given
	if ext == "" {
		ext = fmt.Sprintf("?%T %v in %s", cc.Value, cc.Value, fnDisplay(fn))
	}
	e.unknown[ext] = true
	all := rootSet{{Kind: rkUnknown}: true}
	for _, a := range args {
		all.addAll(a)
	}
	for _, a := range args {
		if len(a) > 0 {
			e.storeInto(fn, a, all, "unknown callee "+ext, pos, true)
		}
	}
	if result != nil {
		if tu, isTuple := result.Type().(*types.Tuple); isTuple {
			rs := make([]rootSet, tu.Len())
			for i := range rs {
				rs[i] = all
			}
			setResult(rs)
		} else {
			setResult([]rootSet{all})
		}
	}
}

// solve iterates to the global fixed point.
func (e *aliasEngine) solve() int {
	iters := 0
	for {
		iters++
		e.changed = false
		for _, f := range e.fns {
			e.analyse(f)
		}
		if !e.changed || iters > 60 {
			break
		}
	}
	return iters
}

// deep closes a root set under the contents of allocation sites.
func (e *aliasEngine) deep(fn *ssa.Function, s rootSet) rootSet {
	out := rootSet{}
	var stack []root
	for r := range s {
		stack = append(stack, r)
	}
	for len(stack) > 0 {
		r := stack[len(stack)-1]
		stack = stack[:len(stack)-1]
		if out[r] {
			continue
		}
		out[r] = true
		if r.Kind == rkAlloc {
			for c := range e.localise(fn, e.contents[r]) {
				stack = append(stack, c)
			}
		}
	}
	return e.localise(fn, out)
}

func (e *aliasEngine) describeRoot(r root) string {
	switch r.Kind {
	case rkParam:
		name := fmt.Sprintf("#%d", r.Idx)
		if r.Idx < len(r.Fn.Params) {
			name = r.Fn.Params[r.Idx].Name()
		} else if r.Idx-len(r.Fn.Params) < len(r.Fn.FreeVars) {
			name = r.Fn.FreeVars[r.Idx-len(r.Fn.Params)].Name()
		}
		return "memory of parameter " + name + " of " + fnDisplay(r.Fn)
	case rkAlloc:
		return "allocation at " + e.c.pos(r.Site.Pos())
	case rkGlobal:
		return "global state"
	}
	return "unknown memory"
}

func (e *aliasEngine) describeSet(s rootSet) string {
	var out []string
	for r := range s {
		out = append(out, e.describeRoot(r))
	}
	sort.Strings(out)
	return strings.Join(out, ", ")
}
