package main

import (
	"fmt"
	"strings"

	"golang.org/x/tools/go/ssa"
)

// Rules added after the third round of independent breaking changes.

// c04PackWhole: the offsets the packer enters into the compression map are offsets into the buffer it is given.
// Every in-module caller hands packDomainName the message buffer itself with the running offset, never a sub-slice
// with offset 0 (the map would record slice-relative offsets, and later pointers would land in the header).
func c04PackWhole(c *Ctx, r *Report) {
	r.rule("C04.R3.pack-whole-message", 40, "callers hand packDomainName the message buffer itself and the running offset")
	var fns []*ssa.Function
	for _, m := range c.SSA.Members {
		if f, ok := m.(*ssa.Function); ok {
			fns = append(fns, f)
		}
	}
	for _, T := range c.rrTypes() {
		if f := c.ssaFunc(T.Name + ".pack"); f != nil {
			fns = append(fns, f)
		}
	}
	for _, n := range []string{"Question.pack", "RR_Header.packHeader", "Msg.packBufferWithCompressionMap"} {
		if f := c.ssaFunc(n); f != nil {
			fns = append(fns, f)
		}
	}
	seen := map[*ssa.Function]bool{}
	for _, fn := range fns {
		if seen[fn] {
			continue
		}
		seen[fn] = true
		n := 0
		for _, ci := range callsIn(fn, "packDomainName") {
			n++
			args := ci.Common().Args
			construct := fmt.Sprintf("%s->packDomainName#%d", fnDisplay(fn), n)
			var problems []string
			if sl, ok := args[1].(*ssa.Slice); ok && sl.Low != nil {
				if k, isK := constIntOf(sl.Low); !isK || k != 0 {
					problems = append(problems, fmt.Sprintf("%s: the name is packed into a sub-slice of the message that starts later: the offsets recorded in the compression map are relative to that slice, so a later pointer to this name lands elsewhere in the message", c.pos(sl.Pos())))
				}
			}
			r.check(len(problems) == 0, "C04.R3.pack-whole-message", construct, c.pos(ci.Pos()), "message buffer itself", "%s", strings.Join(problems, "; "))
		}
	}
}

// c04RootGuard: the root name is a single zero octet: it is never looked up in or entered into the compression
// map (a pointer would be longer than the name, and a found root emits no octets at all).
func c04RootGuard(c *Ctx, r *Report) {
	r.rule("C04.R3.root-guard", 1, "compression.find / insert are only reached for a non-root remainder")
	fn := c.ssaFunc("packDomainName")
	if fn == nil {
		r.cerr("C04.R3.root-guard", "packDomainName", "function not found")
		return
	}
	g := Guard{Name: "!isRootLabel(...)", Op: "call", A: callsFunc("isRootLabel"), Holds: false}
	var problems []string
	n := 0
	for _, ci := range callsIn(fn, "(compressionMap).find", "(compressionMap).insert") {
		n++
		if miss := guardsMissing(fn, ci.(ssa.Instruction).Block(), []Guard{g}); len(miss) > 0 {
			problems = append(problems, fmt.Sprintf("%s: %s can be reached for the root label: once \".\" is in the map a second root name in a compressible position is emitted as nothing at all (the message is malformed)", c.pos(ci.Pos()), calleeNameSSA(ci.Common())))
		}
	}
	if n < 2 {
		problems = append(problems, fmt.Sprintf("%d map accesses found in packDomainName, want find and insert", n))
	}
	r.check(len(problems) == 0, "C04.R3.root-guard", "packDomainName", c.pos(fn.Pos()), "behind !isRootLabel", "%s", strings.Join(problems, "; "))
}
