package main

import (
	"fmt"
	"go/constant"
	"go/token"
	"go/types"
	"sort"
	"strings"

	"golang.org/x/tools/go/ssa"
)

// Rules added after the fifth round of independent breaking changes (part 2).

// c01SvcbDupSentinel: packDataSVCB detects repeated keys by comparing each key with the previous one; the variable
// starts at a value no parameter can have - the reserved key 65535, for which makeSVCBKeyValue constructs nothing.
func c01SvcbDupSentinel(c *Ctx, r *Report, rule string) {
	r.rule(rule, 1, "the 'previous key' of packDataSVCB's repeated-key scan starts at the reserved key 65535, which no parameter can have")
	fn := c.ssaFunc("packDataSVCB")
	res, okK := c.constInt("svcb_RESERVED")
	if fn == nil || !okK {
		r.cerr(rule, "packDataSVCB", "function or svcb_RESERVED not found")
		return
	}
	r.fn("packDataSVCB")
	n := 0
	allInstrs(fn, func(in ssa.Instruction) {
		bin, ok := in.(*ssa.BinOp)
		if !ok || bin.Op != token.EQL {
			return
		}
		// el.Key() == prev
		var phi *ssa.Phi
		isKey := func(v ssa.Value) bool {
			call, ok := v.(*ssa.Call)
			return ok && call.Call.IsInvoke() && call.Call.Method.Name() == "Key"
		}
		if p, ok := bin.Y.(*ssa.Phi); ok && isKey(bin.X) {
			phi = p
		} else if p, ok := bin.X.(*ssa.Phi); ok && isKey(bin.Y) {
			phi = p
		}
		if phi == nil {
			return
		}
		n++
		var inits []int64
		okInit := true
		for _, l := range phiLeaves(phi) {
			if k, isK := constIntOf(l); isK {
				inits = append(inits, k)
			} else if !isKey(l) {
				okInit = false
			}
		}
		good := okInit && len(inits) > 0
		for _, k := range inits {
			if k != res {
				good = false
			}
		}
		r.check(good, rule, "packDataSVCB:prev", c.pos(bin.Pos()), "starts at svcb_RESERVED", "the repeated-key scan starts with previous key %v instead of the reserved key %d: a record whose first (smallest) key has that code - 0 is `mandatory` - is refused as having repeated keys although it unpacks", inits, res)
	})
	if n == 0 {
		r.undecided(rule, "packDataSVCB", c.pos(fn.Pos()), "no comparison of a key with the previous key found")
	}
}

// c01SubnetMasked: RFC 7871 s.6: the ADDRESS of a client-subnet option is truncated to SOURCE PREFIX-LENGTH bits, the
// rest being zero. In both address families the octets copied into the option come from a (net.IP).Mask call.
func c01SubnetMasked(c *Ctx, r *Report, rule string) {
	r.rule(rule, 1, "EDNS0_SUBNET.pack copies the address through (net.IP).Mask(prefix) in both families")
	fn := c.ssaFunc("EDNS0_SUBNET.pack")
	if fn == nil {
		r.cerr(rule, "EDNS0_SUBNET.pack", "function not found")
		return
	}
	r.fn("EDNS0_SUBNET.pack")
	n := 0
	for _, ci := range callsIn(fn, "builtin.copy") {
		args := ci.Common().Args
		dst, isSl := args[0].(*ssa.Slice)
		if !isSl || dst.Low == nil {
			continue
		}
		if k, isK := constIntOf(dst.Low); !isK || k != 4 {
			continue
		}
		n++
		masked := anyIn(sliceOf(args[1]), func(v ssa.Value) bool {
			call, ok := v.(*ssa.Call)
			return ok && strings.HasSuffix(calleeNameSSA(&call.Call), "IP).Mask")
		})
		r.check(masked, rule, fmt.Sprintf("EDNS0_SUBNET.pack:copy#%d", n), c.pos(ci.Pos()), "through Mask", "the address octets are copied without (net.IP).Mask: for a prefix length that is not a multiple of 8 the bits beyond SOURCE PREFIX-LENGTH go onto the wire (RFC 7871 s.6 requires them to be zero, and servers answer FORMERR)")
	}
	// one copy per address family, or one shared by both (the families then differ only in the width of the address)
	if n < 1 {
		r.fail(rule, "EDNS0_SUBNET.pack", c.pos(fn.Pos()), "no copy of the address into b[4:] found")
	}
}

// c03NameBuffers: a buffer of constant size that a name is packed into from offset 0 holds the longest name, 255 octets.
func c03NameBuffers(c *Ctx, r *Report, rule string) {
	r.rule(rule, 2, "every constant-size buffer a domain name is packed into holds 255 octets (the longest wire name)")
	max, _ := c.constInt("maxDomainNameWireOctets")
	if max == 0 {
		max = 255
	}
	n := 0
	for _, f := range c.allFuncs() {
		for _, sub := range withAnon(f) {
			allInstrs(sub, func(in ssa.Instruction) {
				ci, ok := in.(ssa.CallInstruction)
				if !ok {
					return
				}
				cn := calleeNameSSA(ci.Common())
				if cn != "PackDomainName" && cn != "packDomainName" {
					return
				}
				buf := ci.Common().Args[1]
				for o := range sliceOf(buf) {
					mk, ok := o.(*ssa.MakeSlice)
					if !ok {
						continue
					}
					k, isK := constIntOf(mk.Len)
					if !isK {
						// sized from a name: it has to be the very string that is packed into it
						name := ci.Common().Args[0]
						for v := range sliceOf(mk.Len) {
							call, ok := v.(*ssa.Call)
							if !ok || len(call.Call.Args) == 0 {
								continue
							}
							cn2 := calleeNameSSA(&call.Call)
							if cn2 != "domainNameLen" && cn2 != "builtin.len" {
								continue
							}
							if _, isStr := call.Call.Args[0].Type().Underlying().(*types.Basic); !isStr {
								continue
							}
							n++
							r.fn(fnDisplay(sub))
							r.check(call.Call.Args[0] == name, rule, fmt.Sprintf("%s:name-buffer#%d", fnDisplay(sub), n), c.pos(mk.Pos()), "sized from the name packed", "the buffer is sized from %s but %s is packed into it: when the two differ in length (a relative name made absolute gains a dot) the name does not fit and packing fails with 'buffer size too small' for a value that is fine", describeValue(call.Call.Args[0]), describeValue(name))
						}
						continue
					}
					n++
					r.fn(fnDisplay(sub))
					r.check(k >= max, rule, fmt.Sprintf("%s:name-buffer#%d", fnDisplay(sub), n), c.pos(mk.Pos()), fmt.Sprintf("%d octets", k), "the buffer the name is packed into has %d octets: a name of %d wire octets, which IsDomainName and the message packer accept, fails here with 'buffer size too small'", k, max)
				}
				// arrays: new([N]byte)[:]
				if sl, ok := buf.(*ssa.Slice); ok {
					if al, ok := sl.X.(*ssa.Alloc); ok {
						if pt, ok := al.Type().Underlying().(*types.Pointer); ok {
							if arr, ok := pt.Elem().Underlying().(*types.Array); ok {
								n++
								r.fn(fnDisplay(sub))
								r.check(arr.Len() >= max, rule, fmt.Sprintf("%s:name-buffer#%d", fnDisplay(sub), n), c.pos(al.Pos()), fmt.Sprintf("%d octets", arr.Len()), "the buffer the name is packed into has %d octets: a name of %d wire octets fails here", arr.Len(), max)
							}
						}
					}
				}
			})
		}
	}
	if n == 0 {
		r.undecided(rule, "module", "", "no constant-size name buffer found")
	}
}

// c06SlurpEOF: the end of the input ends a record as a newline does: slurpRemainder reports "garbage" only for a
// token that is neither.
func c06SlurpEOF(c *Ctx, r *Report, rule string) {
	r.rule(rule, 1, "slurpRemainder refuses a trailing token only when it is neither a newline nor the end of input")
	fn := c.ssaFunc("slurpRemainder")
	nl, ok1 := c.constInt("zNewline")
	eof, ok2 := c.constInt("zEOF")
	if fn == nil || !ok1 || !ok2 {
		r.cerr(rule, "slurpRemainder", "function or token classes not found")
		return
	}
	r.fn("slurpRemainder")
	n := 0
	for _, b := range fn.Blocks {
		ret, ok := b.Instrs[len(b.Instrs)-1].(*ssa.Return)
		if !ok || len(ret.Results) != 1 {
			continue
		}
		if k, isK := ret.Results[0].(*ssa.Const); isK && k.Value == nil {
			continue
		}
		n++
		// the latest token's class is known not to be newline / EOF: facts value != K on the way
		ex := map[int64]bool{}
		for _, f := range factsAt(fn, b) {
			bin, ok := f.Atom.(*ssa.BinOp)
			if !ok {
				continue
			}
			k, isK := constIntOf(bin.Y)
			if !isK {
				continue
			}
			if (bin.Op == token.NEQ && f.Holds) || (bin.Op == token.EQL && !f.Holds) {
				ex[k] = true
			}
		}
		// only the facts about the token read last count: the load of l.value in the same memory version as the error
		r.check(ex[nl] && ex[eof], rule, fmt.Sprintf("slurpRemainder:garbage#%d", n), c.pos(ret.Pos()), "neither newline nor EOF", "'garbage after rdata' is reported without the token having been tested against both zNewline and zEOF (newline excluded: %v, end of input excluded: %v): a zone whose last line ends in a blank without a final newline loses its last record", ex[nl], ex[eof])
	}
	if n == 0 {
		r.undecided(rule, "slurpRemainder", c.pos(fn.Pos()), "no error return found")
	}
}

// lenNoRdlength: the length methods compute the size of the record from its fields; Hdr.Rdlength is bookkeeping of
// the last unpack or pack (stale after any edit) and takes no part.
func lenNoRdlength(c *Ctx, r *Report, rule string) {
	r.rule(rule, 80, "no (*T).len reads Hdr.Rdlength")
	for _, T := range c.rrTypes() {
		fn := c.ssaFunc(T.Name + ".len")
		if fn == nil {
			continue
		}
		var bad []string
		for _, sub := range withAnon(fn) {
			allInstrs(sub, func(in ssa.Instruction) {
				fa, ok := in.(*ssa.FieldAddr)
				if !ok {
					return
				}
				if v := fieldVarOf(fa); v != nil && v.Name() == "Rdlength" {
					bad = append(bad, c.pos(fa.Pos()))
				}
			})
		}
		r.fn(T.Name + ".len")
		r.check(len(bad) == 0, rule, T.Name+".len", c.pos(fn.Pos()), "fields only", "%s.len reads Hdr.Rdlength (%s): the value is left over from the last unpack or PackRR, so after the record is edited Len is short of what Pack writes and Pack fails for lack of room", T.Name, strings.Join(bad, ", "))
	}
}

// c08StringCap: the character-string packers refuse over-long text early; the cap must admit the longest
// presentation form of a 255-octet string (every octet written \DDD: 4*255 characters).
func c08StringCap(c *Ctx, r *Report, rule string) {
	r.rule(rule, 1, "the early length cap of packTxtString / packString admits 4*255 characters (255 octets all written as \\DDD)")
	n := 0
	for _, name := range []string{"packTxtString", "packString", "packStringTxt"} {
		fn := c.ssaFunc(name)
		if fn == nil {
			continue
		}
		r.fn(name)
		var s ssa.Value
		for _, p := range fn.Params {
			if bt, ok := p.Type().Underlying().(*types.Basic); ok && bt.Info()&types.IsString != 0 {
				s = p
			}
		}
		allInstrs(fn, func(in ssa.Instruction) {
			bin, ok := in.(*ssa.BinOp)
			if !ok || (bin.Op != token.GTR && bin.Op != token.GEQ) {
				return
			}
			call, ok := bin.X.(*ssa.Call)
			if !ok || calleeNameSSA(&call.Call) != "builtin.len" || call.Call.Args[0] != s {
				return
			}
			k, isK := constIntOf(bin.Y)
			if !isK {
				return
			}
			n++
			admit := k
			if bin.Op == token.GEQ {
				admit = k - 1
			}
			r.check(admit >= 4*255, rule, name+":cap", c.pos(bin.Pos()), fmt.Sprintf("admits %d characters", admit), "text longer than %d characters is refused with ErrBuf before it is unescaped: a string of 64 or more non-printable octets (255 octets need up to 1020 characters) that Len() measures correctly makes Pack fail", admit)
		})
	}
	if n == 0 {
		r.undecided(rule, "packTxtString", "", "no early cap on len(s) found")
	}
}

// packMapThreaded: the length walk enters every name it measures with a compression map into that map; the pack
// side must register the same names, i.e. hand packDomainName the map it was given (compress false where the name may
// not be compressed, never a fresh map). Otherwise later names are measured as pointers but written in full.
func packMapThreaded(c *Ctx, r *Report, rule, consequence string) {
	r.rule(rule, 30, "every packDomainName call in a function that receives the message's compression map passes that map on")
	n := 0
	for _, f := range c.allFuncs() {
		var mp ssa.Value
		for _, p := range f.Params {
			if nm, ok := p.Type().(*types.Named); ok && nm.Obj().Name() == "compressionMap" {
				mp = p
			}
		}
		if mp == nil {
			continue
		}
		for _, ci := range callsIn(f, "packDomainName") {
			n++
			arg := ci.Common().Args[3]
			r.fn(fnDisplay(f))
			r.check(arg == mp, rule, fmt.Sprintf("%s:packDomainName#%d", fnDisplay(f), n), c.pos(ci.Pos()), "the map it was given", "the name is packed with %s instead of the compression map this function was given: it is not registered for later names, while the length method of the type enters it into the length walk's map: %s", describeValue(arg), consequence)
		}
	}
	if n == 0 {
		r.undecided(rule, "module", "", "no packDomainName call in a function with a compression map parameter")
	}
}

// c10RRsetInputs: an RRset is defined by owner, class and type (RFC 2181 s.5); the TTLs a resolver currently holds
// differ between records and take no part in signing or verification.
func c10RRsetInputs(c *Ctx, r *Report, rule string) {
	r.rule(rule, 1, "IsRRset compares type, class and owner name only (never the TTL or RDLENGTH)")
	fn := c.ssaFunc("IsRRset")
	if fn == nil {
		r.cerr(rule, "IsRRset", "function not found")
		return
	}
	r.fn("IsRRset")
	var bad []string
	allInstrs(fn, func(in ssa.Instruction) {
		fa, ok := in.(*ssa.FieldAddr)
		if !ok {
			return
		}
		if v := fieldVarOf(fa); v != nil && (v.Name() == "Ttl" || v.Name() == "Rdlength") {
			bad = append(bad, fmt.Sprintf("%s reads %s", c.pos(fa.Pos()), v.Name()))
		}
	})
	r.check(len(bad) == 0, rule, "IsRRset", c.pos(fn.Pos()), "type, class, owner", "%s: a set whose records carry different current TTLs (as in any cache) is refused by Sign and Verify with 'bad rrset', although the signature covers the original TTL only", strings.Join(bad, "; "))
}

// c13FreshGeneration: each start gives the server a new drain channel and a new connection table; the ones of the
// previous run are closed / stale.
func c13FreshGeneration(c *Ctx, r *Report, rule string) {
	r.rule(rule, 2, "Server.init creates the drain channel and the connection table unconditionally")
	fn := c.ssaFunc("Server.init")
	if fn == nil {
		r.cerr(rule, "Server.init", "function not found")
		return
	}
	r.fn("Server.init")
	for _, field := range []string{"shutdown", "conns"} {
		sts := storesToField(fn, "Server", field)
		ok := false
		for _, st := range sts {
			fresh := false
			switch st.Val.(type) {
			case *ssa.MakeChan, *ssa.MakeMap:
				fresh = true
			}
			if fresh && st.Block() == fn.Blocks[0] {
				ok = true
			}
		}
		r.check(ok, rule, "Server.init:"+field, c.pos(fn.Pos()), "fresh, unconditional", "srv.%s is not created afresh on every start (no unconditional store of a new %s in init): a restarted Server reuses the channel the previous run closed, so the next Shutdown returns at once while handlers are in flight and the serve loop panics closing it again", field, map[string]string{"shutdown": "channel", "conns": "map"}[field])
	}
}

// c15IxfrUpToDate: an IXFR answer consisting of a single SOA whose serial is not newer than the client's means
// "nothing to transfer": the transfer ends there when qser >= serial, not only on equality.
func c15IxfrUpToDate(c *Ctx, r *Report, rule string) {
	r.rule(rule, 1, "inIxfr ends the transfer on a first SOA whose serial is not newer than the client's (qser >= serial)")
	var fn *ssa.Function
	for _, f := range c.allFuncs() {
		if fnDisplay(f) == "Transfer.inIxfr" {
			fn = f
		}
	}
	if fn == nil {
		r.cerr(rule, "Transfer.inIxfr", "function not found")
		return
	}
	r.fn("Transfer.inIxfr")
	isSerial := func(v ssa.Value) bool {
		return anyIn(sliceOf(v), readsField("SOA", "Serial"))
	}
	n := 0
	for _, sub := range withAnon(fn) {
		allInstrs(sub, func(in ssa.Instruction) {
			bin, ok := in.(*ssa.BinOp)
			if !ok || !isSerial(bin.X) || !isSerial(bin.Y) {
				return
			}
			switch bin.Op {
			case token.EQL, token.NEQ, token.LSS, token.LEQ, token.GTR, token.GEQ:
			default:
				return
			}
			// the comparison whose outcome leads to an immediate return after one send
			var iff *ssa.If
			for _, ref := range *bin.Referrers() {
				if x, ok := ref.(*ssa.If); ok {
					iff = x
				}
			}
			if iff == nil {
				return
			}
			for si, succ := range iff.Block().Succs {
				_, isRet := succ.Instrs[len(succ.Instrs)-1].(*ssa.Return)
				sends := false
				for _, x := range succ.Instrs {
					if _, ok := x.(*ssa.Send); ok {
						sends = true
					}
				}
				if !isRet || !sends {
					continue
				}
				n++
				holds := si == 0
				// the stopping condition must be "client serial >= server serial": GEQ true, or LSS false (operands in that order), or mirrored
				okOp := (bin.Op == token.GEQ && holds) || (bin.Op == token.LSS && !holds) || (bin.Op == token.LEQ && holds) || (bin.Op == token.GTR && !holds)
				r.check(okOp, rule, "inIxfr:up-to-date", c.pos(bin.Pos()), "an ordering test", "the 'no changes' exit is taken on %s %v only: when the client's serial is ahead of the server's, the single-SOA answer is not recognised as the end of the transfer and the caller waits for envelopes that never come (EOF / timeout instead of a clean end)", bin.Op, holds)
			}
		})
	}
	if n == 0 {
		r.undecided(rule, "Transfer.inIxfr", c.pos(fn.Pos()), "no serial comparison leading to a send-and-return found")
	}
}

// c20SvcbPackErrors: two SvcParam lists are equal when their packed values are equal; a value that does not pack is
// equal to nothing.
func c20SvcbPackErrors(c *Ctx, r *Report, rule string) {
	r.rule(rule, 1, "areSVCBPairArraysEqual compares packed values only where both pack calls succeeded")
	fn := c.ssaFunc("areSVCBPairArraysEqual")
	if fn == nil {
		r.cerr(rule, "areSVCBPairArraysEqual", "function not found")
		return
	}
	r.fn("areSVCBPairArraysEqual")
	n := 0
	for _, ci := range callsIn(fn, "bytes.Equal") {
		n++
		// both operands are results of pack() calls whose errors are nil on this path
		okBoth := true
		for _, a := range ci.Common().Args {
			ex, ok := a.(*ssa.Extract)
			if !ok {
				okBoth = false
				continue
			}
			var errV ssa.Value
			for _, ref := range *ex.Tuple.Referrers() {
				if e2, ok := ref.(*ssa.Extract); ok && e2.Index == 1 {
					errV = e2
				}
			}
			if errV == nil {
				okBoth = false
				continue
			}
			isNil := false
			for _, f := range factsAt(fn, ci.(ssa.Instruction).Block()) {
				bin, ok := f.Atom.(*ssa.BinOp)
				if !ok || bin.X != errV {
					continue
				}
				if k, isK := bin.Y.(*ssa.Const); isK && k.Value == nil && ((bin.Op == token.EQL && f.Holds) || (bin.Op == token.NEQ && !f.Holds)) {
					isNil = true
				}
			}
			if !isNil {
				okBoth = false
			}
		}
		r.check(okBoth, rule, fmt.Sprintf("areSVCBPairArraysEqual:Equal#%d", n), c.pos(ci.Pos()), "err1 == nil && err2 == nil", "the packed values are compared on a path where a pack error is possible: two values that both fail to pack (different alpn lists that each contain an empty id) have nil octets on both sides and compare equal, so records with different RDATA are reported as duplicates")
	}
	if n == 0 {
		r.undecided(rule, "areSVCBPairArraysEqual", c.pos(fn.Pos()), "no bytes.Equal call found")
	}
}

// c20CopyNetValues: copyNet, the helper behind APLPrefix.copy, copies address and mask as they are.
func c20CopyNetValues(c *Ctx, r *Report, rule string) {
	r.rule(rule, 2, "copyNet builds IP and Mask of its result from clones of the argument's IP and Mask")
	fn := c.ssaFunc("copyNet")
	if fn == nil {
		// written out in place in APLPrefix.copy
		fn = c.ssaFunc("APLPrefix.copy")
	}
	if fn == nil {
		r.cerr(rule, "copyNet", "function not found")
		return
	}
	r.fn(fnDisplay(fn))
	for _, field := range []string{"IP", "Mask"} {
		sts := storesToField(fn, "IPNet", field)
		if len(sts) == 0 {
			r.fail(rule, "copyNet:"+field, c.pos(fn.Pos()), "field %s of the copy is never set", field)
			continue
		}
		for _, st := range sts {
			okV := false
			if call, ok := st.Val.(*ssa.Call); ok {
				callee := call.Call.StaticCallee()
				name := ""
				if callee != nil {
					name = callee.Name()
					if o := callee.Origin(); o != nil {
						name = o.Name()
					}
				}
				if name == "cloneSlice" && len(call.Call.Args) == 1 && anyIn(sliceOf(call.Call.Args[0]), readsField("IPNet", field)) {
					okV = true
				}
			}
			r.check(okV, rule, "copyNet:"+field, c.pos(st.Pos()), "cloneSlice(n."+field+")", "the %s of the copy is %s, not a clone of the source's %s: an APL prefix with address bits beyond its prefix length (as it arrives from the wire) is no longer equal to its own copy", field, describeValue(st.Val), field)
		}
	}
}

var _ = sort.Strings
var _ = constant.MakeBool
