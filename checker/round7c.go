package main

import (
	"fmt"
	"go/token"
	"go/types"
	"sort"
	"strings"

	"golang.org/x/tools/go/ssa"
)

// Rules added after the seventh round of independent breaking changes (part 2).

// encodingGlobals: the package-level encodings (base64.StdEncoding, RawStdEncoding, ...) a value may be.
func encodingGlobals(v ssa.Value) []string {
	set := map[string]bool{}
	for o := range sliceOf(v) {
		if ld, ok := o.(*ssa.UnOp); ok {
			if g, ok := ld.X.(*ssa.Global); ok && strings.Contains(g.Name(), "Encoding") {
				set[g.Pkg.Pkg.Name()+"."+g.Name()] = true
			}
		}
	}
	var out []string
	for k := range set {
		out = append(out, k)
	}
	sort.Strings(out)
	return out
}

// base64Agreement: the base64 decoder of the field codecs and the length methods use one and the same encoding: Len
// predicts the decoded size with (that encoding).DecodedLen, so text a laxer decoder accepts packs to more octets
// than Len said.
func base64Agreement(c *Ctx, r *Report, rule string) {
	r.rule(rule, 1, "fromBase64 decodes with the very encoding whose DecodedLen the len methods use")
	dec := c.ssaFunc("fromBase64")
	if dec == nil {
		r.cerr(rule, "fromBase64", "function not found")
		return
	}
	r.fn("fromBase64")
	decSet := map[string]bool{}
	allInstrs(dec, func(in ssa.Instruction) {
		if call, ok := in.(*ssa.Call); ok && strings.Contains(calleeNameSSA(&call.Call), "Encoding).Decode") && len(call.Call.Args) > 0 {
			for _, e := range encodingGlobals(call.Call.Args[0]) {
				decSet[e] = true
			}
		}
	})
	lenSet := map[string]bool{}
	for _, fn := range c.allFuncs() {
		if fn.Synthetic != "" || fn.Name() != "len" {
			continue
		}
		allInstrs(fn, func(in ssa.Instruction) {
			if call, ok := in.(*ssa.Call); ok && strings.Contains(calleeNameSSA(&call.Call), "base64.Encoding).DecodedLen") && len(call.Call.Args) > 0 {
				for _, e := range encodingGlobals(call.Call.Args[0]) {
					lenSet[e] = true
				}
			}
		})
	}
	keys := func(m map[string]bool) string {
		var out []string
		for k := range m {
			out = append(out, k)
		}
		sort.Strings(out)
		return strings.Join(out, ", ")
	}
	same := len(decSet) == 1 && len(lenSet) == 1 && keys(decSet) == keys(lenSet)
	r.check(same, rule, "fromBase64/len", c.pos(dec.Pos()), keys(decSet), "fromBase64 decodes with {%s}, the len methods size with {%s}: text that only the decoder's other encoding accepts (base64 without padding) packs to more octets than Len() predicted, and Pack fails with a buffer error or Len() is short", keys(decSet), keys(lenSet))
}

// lenSearchOffset: the offset compressionLenSearch compares with the 14-bit limit is the message offset it was
// given plus how far it has walked into the name: never less than where the packer will put that label.
func lenSearchOffset(c *Ctx, r *Report, rule string) {
	r.rule(rule, 1, "compressionLenSearch tests msgOff (as passed) plus the walked offset against maxCompressionOffset")
	fn := c.ssaFunc("compressionLenSearch")
	max, okK := c.constInt("maxCompressionOffset")
	if fn == nil || !okK {
		r.cerr(rule, "compressionLenSearch", "function or constant not found")
		return
	}
	r.fn("compressionLenSearch")
	msgOff := paramOf(fn, "msgOff")
	n := 0
	allInstrs(fn, func(in ssa.Instruction) {
		bin, ok := in.(*ssa.BinOp)
		if !ok || (bin.Op != token.LSS && bin.Op != token.LEQ && bin.Op != token.GEQ && bin.Op != token.GTR) {
			return
		}
		k, isK := constIntOf(bin.Y)
		if !isK || k != max {
			return
		}
		n++
		sum, isSum := bin.X.(*ssa.BinOp)
		okForm := false
		if isSum && sum.Op == token.ADD && (sum.X == msgOff || sum.Y == msgOff) {
			okForm = true
		}
		r.check(okForm, rule, fmt.Sprintf("compressionLenSearch:limit#%d", n), c.pos(bin.Pos()), "msgOff + walked offset", "the value compared with the 14-bit limit is %s, not the message offset passed in plus the offset walked: when it is smaller than where the packer really puts the label, Len() registers suffixes the packer cannot point at, counts a pointer for their next use and comes out smaller than the packed message", describeValue(bin.X))
	})
	if n == 0 {
		r.undecided(rule, "compressionLenSearch", c.pos(fn.Pos()), "no comparison with maxCompressionOffset found")
	}
}

// decodeErrorsUsed: fromBase64 / fromBase32 return the octets decoded before an error together with the error: the
// octets are used only where the error is known to be nil.
func decodeErrorsUsed(c *Ctx, r *Report, rule, consequence string, only func(fn *ssa.Function) bool) {
	r.rule(rule, 3, "the data fromBase64 / fromBase32 return is used only on the err == nil edge")
	n := 0
	var fns []*ssa.Function
	for _, fn := range c.allFuncs() {
		if fn.Synthetic == "" && (only == nil || only(fn)) {
			fns = append(fns, fn)
		}
	}
	sort.Slice(fns, func(i, j int) bool { return fnDisplay(fns[i]) < fnDisplay(fns[j]) })
	for _, fn := range fns {
		k := 0
		for _, ci := range callsIn(fn, "fromBase64", "fromBase32") {
			call, ok := ci.(*ssa.Call)
			if !ok {
				continue
			}
			n++
			k++
			r.fn(fnDisplay(fn))
			var data, errV *ssa.Extract
			for _, ref := range *call.Referrers() {
				if ex, ok := ref.(*ssa.Extract); ok {
					if ex.Index == 0 {
						data = ex
					} else {
						errV = ex
					}
				}
			}
			construct := fmt.Sprintf("%s:%s#%d", fnDisplay(fn), calleeNameSSA(&call.Call), k)
			if data == nil {
				r.ok(rule, construct, c.pos(call.Pos()), "data not used")
				continue
			}
			var bad []string
			errNil := func(b *ssa.BasicBlock) bool {
				if errV == nil {
					return false
				}
				for _, f := range factsAt(fn, b) {
					bin, ok := f.Atom.(*ssa.BinOp)
					if !ok || bin.X != ssa.Value(errV) {
						continue
					}
					if kk, isK := bin.Y.(*ssa.Const); isK && kk.Value == nil {
						if (bin.Op == token.EQL && f.Holds) || (bin.Op == token.NEQ && !f.Holds) {
							return true
						}
					}
				}
				return false
			}
			for _, ref := range *data.Referrers() {
				if _, isDbg := ref.(*ssa.DebugRef); isDbg {
					continue
				}
				if phi, isPhi := ref.(*ssa.Phi); isPhi {
					for i, e := range phi.Edges {
						if e == ssa.Value(data) {
							okEdge := false
							for _, f := range factsOnEdge(fn, phi.Block().Preds[i], phi.Block()) {
								if bin, ok := f.Atom.(*ssa.BinOp); ok && errV != nil && bin.X == ssa.Value(errV) {
									if kk, isK := bin.Y.(*ssa.Const); isK && kk.Value == nil && ((bin.Op == token.EQL && f.Holds) || (bin.Op == token.NEQ && !f.Holds)) {
										okEdge = true
									}
								}
							}
							if !okEdge {
								bad = append(bad, c.pos(phi.Block().Preds[i].Instrs[len(phi.Block().Preds[i].Instrs)-1].Pos()))
							}
						}
					}
					continue
				}
				if !errNil(ref.Block()) {
					bad = append(bad, c.pos(ref.Pos()))
				}
			}
			sort.Strings(bad)
			r.check(len(bad) == 0, rule, construct, c.pos(call.Pos()), "only when err == nil", "the decoded octets are used at %s although the decoder may have reported an error there (it hands back what it decoded before the error): %s", strings.Join(uniqStrings(bad), ", "), consequence)
		}
	}
	if n == 0 {
		r.undecided(rule, "fromBase64", "", "no call found")
	}
}

// decodeCountUsed: a buffer sized with DecodedLen is longer than what Decode writes for padded input: the count
// Decode returns cuts it.
func decodeCountUsed(c *Ctx, r *Report, rule, consequence string) {
	r.rule(rule, 2, "the count returned by every base64 / base32 / hex Decode call is used")
	n := 0
	var fns []*ssa.Function
	for _, fn := range c.allFuncs() {
		if fn.Synthetic == "" {
			fns = append(fns, fn)
		}
	}
	sort.Slice(fns, func(i, j int) bool { return fnDisplay(fns[i]) < fnDisplay(fns[j]) })
	for _, fn := range fns {
		k := 0
		allInstrs(fn, func(in ssa.Instruction) {
			call, ok := in.(*ssa.Call)
			if !ok {
				return
			}
			name := calleeNameSSA(&call.Call)
			if !(strings.HasSuffix(name, "Encoding).Decode") || name == "hex.Decode") {
				return
			}
			n++
			k++
			r.fn(fnDisplay(fn))
			used := false
			for _, ref := range *call.Referrers() {
				if ex, ok := ref.(*ssa.Extract); ok && ex.Index == 0 {
					for _, r2 := range *ex.Referrers() {
						if _, isDbg := r2.(*ssa.DebugRef); !isDbg {
							used = true
						}
					}
				}
			}
			r.check(used, rule, fmt.Sprintf("%s:%s#%d", fnDisplay(fn), name, k), c.pos(call.Pos()), "count used", "the number of octets decoded is dropped: the buffer, sized with DecodedLen, keeps one or two zero octets behind the value for padded input: %s", consequence)
		})
	}
	if n == 0 {
		r.undecided(rule, "Decode", "", "no Decode call found")
	}
}

// shutdownUnbounded: Shutdown waits for the handlers without a limit of its own: it hands ShutdownContext a
// context that never expires.
func shutdownUnbounded(c *Ctx, r *Report, rule string) {
	r.rule(rule, 1, "Server.Shutdown passes context.Background() to ShutdownContext")
	fn := c.ssaFunc("Server.Shutdown")
	if fn == nil {
		r.cerr(rule, "Server.Shutdown", "function not found")
		return
	}
	r.fn("Server.Shutdown")
	n := 0
	for _, ci := range callsIn(fn, "(Server).ShutdownContext") {
		n++
		args := ci.Common().Args
		ctx := args[len(args)-1]
		call, ok := ctx.(*ssa.Call)
		okCtx := ok && (calleeNameSSA(&call.Call) == "context.Background" || calleeNameSSA(&call.Call) == "context.TODO")
		r.check(okCtx, rule, "Server.Shutdown", c.pos(ci.Pos()), "context.Background()", "Shutdown hands ShutdownContext %s, a context that can expire: Shutdown then returns (with a deadline error) while handlers that were started are still running, and their replies are lost when the socket is closed", describeValue(ctx))
	}
	if n == 0 {
		r.undecided(rule, "Server.Shutdown", c.pos(fn.Pos()), "no call of ShutdownContext found")
	}
}

// muxAnyQuestion: the multiplexer routes on the first question of every request that has one (the accept policy
// decides how many questions are allowed, not the multiplexer).
func muxAnyQuestion(c *Ctx, r *Report, rule string) {
	r.rule(rule, 1, "ServeMux.ServeDNS calls match whenever the request has at least one question")
	fn := c.ssaFunc("ServeMux.ServeDNS")
	if fn == nil {
		r.cerr(rule, "ServeMux.ServeDNS", "function not found")
		return
	}
	r.fn("ServeMux.ServeDNS")
	n := 0
	for _, ci := range callsIn(fn, "(ServeMux).match") {
		n++
		isLenQ := func(v ssa.Value) bool {
			call, ok := v.(*ssa.Call)
			return ok && calleeNameSSA(&call.Call) == "builtin.len" && anyIn(sliceOf(call.Call.Args[0]), readsField("Msg", "Question"))
		}
		lo, hi, hasLo, hasHi := intervalAt(fn, ci.(ssa.Instruction).Block(), isLenQ)
		okIv := hasLo && lo == 1 && !hasHi
		desc := "no bound"
		if hasLo || hasHi {
			desc = fmt.Sprintf("lo=%d(%v) hi=%d(%v)", lo, hasLo, hi, hasHi)
		}
		r.check(okIv, rule, "ServeMux.ServeDNS:match", c.pos(ci.Pos()), "len(Question) >= 1", "the handler lookup is made for question counts %s, not for every count from 1 up: a request with more questions than that, let through by the server's accept function, is answered REFUSED and its handler is never invoked", desc)
	}
	if n == 0 {
		r.undecided(rule, "ServeMux.ServeDNS", c.pos(fn.Pos()), "no call of match found")
	}
}

// chunkProgress: escapedStringOffset answers (0, false) for a dangling backslash; endingToTxtSlice's chunk loop adds
// its first result to the position: no way round the loop may be taken with ok == false (the position would not move).
func chunkProgress(c *Ctx, r *Report, rule string) {
	r.rule(rule, 1, "every way round endingToTxtSlice's chunk loop has passed the ok test of escapedStringOffset")
	fn := c.ssaFunc("endingToTxtSlice")
	if fn == nil {
		r.cerr(rule, "endingToTxtSlice", "function not found")
		return
	}
	r.fn("endingToTxtSlice")
	n := 0
	for _, ci := range callsIn(fn, "escapedStringOffset") {
		call, ok := ci.(*ssa.Call)
		if !ok {
			continue
		}
		n++
		var okV ssa.Value
		for _, ref := range *call.Referrers() {
			if ex, isEx := ref.(*ssa.Extract); isEx && ex.Index == 1 {
				okV = ex
			}
		}
		var bad []string
		// the header of the innermost loop the call sits in: the nearest dominator (or the block itself) that is
		// the target of a back edge
		var header *ssa.BasicBlock
		for h := call.Block(); h != nil && header == nil; h = h.Idom() {
			for _, pr := range h.Preds {
				if h.Dominates(pr) {
					header = h
				}
			}
		}
		for x := range reach(call.Block(), nil, nil) {
			if x == call.Block() || header == nil {
				continue
			}
			for _, s := range x.Succs {
				// a back edge of that loop
				if s != header || !s.Dominates(x) {
					continue
				}
				okKnown := false
				for _, f := range factsAt(fn, x) {
					if f.Atom == okV && f.Holds {
						okKnown = true
					}
					if un, isUn := f.Atom.(*ssa.UnOp); isUn && un.Op == token.NOT && un.X == okV && !f.Holds {
						okKnown = true
					}
				}
				if !okKnown {
					bad = append(bad, c.pos(x.Instrs[len(x.Instrs)-1].Pos()))
				}
			}
		}
		sort.Strings(bad)
		r.check(okV != nil && len(bad) == 0, rule, fmt.Sprintf("endingToTxtSlice:chunks#%d", n), c.pos(call.Pos()), "ok tested before going round", "the loop goes round (back edge at %s) without escapedStringOffset's ok having been tested: for a string ending in a lone backslash the offset is 0, the position does not move and the loop appends empty strings until memory runs out", strings.Join(uniqStrings(bad), ", "))
	}
	if n == 0 {
		r.undecided(rule, "endingToTxtSlice", c.pos(fn.Pos()), "no call of escapedStringOffset found")
	}
}

// bigEndian16: two octets of one buffer composed into a 16-bit number are composed big-endian: the octet shifted
// left by 8 is the one at the lower index (everything on the DNS wire is network order).
func bigEndian16(c *Ctx, r *Report, rule string, fnNames []string, consequence string) {
	r.rule(rule, 1, "in b[i]<<8 | b[j] on a wire buffer j is i+1")
	n := 0
	for _, name := range fnNames {
		fn := c.ssaFunc(name)
		if fn == nil {
			r.cerr(rule, name, "function not found")
			continue
		}
		r.fn(name)
		octet := func(v ssa.Value) (buf ssa.Value, idx int64, ok bool) {
			for {
				if cv, isCv := v.(*ssa.Convert); isCv {
					v = cv.X
					continue
				}
				break
			}
			ld, isLd := v.(*ssa.UnOp)
			if !isLd {
				return nil, 0, false
			}
			ia, isIA := ld.X.(*ssa.IndexAddr)
			if !isIA {
				return nil, 0, false
			}
			k, isK := constIntOf(ia.Index)
			return ia.X, k, isK
		}
		k := 0
		allInstrs(fn, func(in ssa.Instruction) {
			or, ok := in.(*ssa.BinOp)
			if !ok || (or.Op != token.OR && or.Op != token.ADD) {
				return
			}
			hiSide, loSide := or.X, or.Y
			shl, isShl := hiSide.(*ssa.BinOp)
			if !isShl || shl.Op != token.SHL {
				hiSide, loSide = or.Y, or.X
				shl, isShl = hiSide.(*ssa.BinOp)
			}
			if !isShl || shl.Op != token.SHL {
				return
			}
			if s8, isK := constIntOf(shl.Y); !isK || s8 != 8 {
				return
			}
			b1, i1, ok1 := octet(shl.X)
			b2, i2, ok2 := octet(loSide)
			if !ok1 || !ok2 || b1 != b2 {
				return
			}
			n++
			k++
			r.check(i2 == i1+1, rule, fmt.Sprintf("%s:be16#%d", name, k), c.pos(or.Pos()), "big-endian", "the two octets at %d and %d are composed with the one at %d as the high octet: that is little-endian, %s", i1, i2, i1, consequence)
		})
	}
	if n == 0 {
		r.undecided(rule, strings.Join(fnNames, ","), "", "no two-octet composition found")
	}
}

// prevStep: PrevLabel's position moves left by exactly one per iteration of its outer loop; the inner scan over the
// backslashes has an index of its own, which is never copied back.
func prevStep(c *Ctx, r *Report, rule string) {
	r.rule(rule, 1, "the outer index of PrevLabel is only ever decremented by one")
	fn := c.ssaFunc("PrevLabel")
	if fn == nil {
		r.cerr(rule, "PrevLabel", "function not found")
		return
	}
	r.fn("PrevLabel")
	n := 0
	allInstrs(fn, func(in ssa.Instruction) {
		phi, ok := in.(*ssa.Phi)
		if !ok {
			return
		}
		// the outer index: it starts from len(s) (minus something), not from another index of the walk
		fromLen := false
		for _, e := range phi.Edges {
			if _, isPhi := e.(*ssa.Phi); isPhi {
				continue
			}
			sl := sliceOf(e)
			hasLen, hasPhi := false, false
			for o := range sl {
				if call, isCall := o.(*ssa.Call); isCall && calleeNameSSA(&call.Call) == "builtin.len" {
					hasLen = true
				}
				if _, isP := o.(*ssa.Phi); isP {
					hasPhi = true
				}
			}
			if hasLen && !hasPhi {
				fromLen = true
			}
		}
		if !fromLen || !backTarget(fn, phi.Block()) {
			return
		}
		// the values that are the header phi itself, possibly merged again on the way to the latch
		var onlyFrom func(x ssa.Value, depth int) (bool, ssa.Value)
		onlyFrom = func(x ssa.Value, depth int) (bool, ssa.Value) {
			if x == ssa.Value(phi) {
				return true, nil
			}
			if p2, ok := x.(*ssa.Phi); ok && depth < 4 {
				for _, e := range p2.Edges {
					if ok2, other := onlyFrom(e, depth+1); !ok2 {
						return false, other
					}
				}
				return true, nil
			}
			return false, x
		}
		// the loop header: has an edge phi-1
		isHeader := false
		for _, e := range phi.Edges {
			if b, ok := e.(*ssa.BinOp); ok && b.Op == token.SUB {
				if k, isK := constIntOf(b.Y); isK && k == 1 {
					if p2, isP := b.X.(*ssa.Phi); b.X == ssa.Value(phi) || (isP && anyPhiEdgeIs(p2, phi)) {
						isHeader = true
					}
				}
			}
		}
		if !isHeader {
			return
		}
		n++
		var bad []string
		for i, e := range phi.Edges {
			if !phi.Block().Dominates(phi.Block().Preds[i]) {
				continue // entry edge
			}
			b, ok := e.(*ssa.BinOp)
			if !ok || b.Op != token.SUB {
				bad = append(bad, fmt.Sprintf("carried as %s", describeValue(e)))
				continue
			}
			if k, isK := constIntOf(b.Y); !isK || k != 1 {
				bad = append(bad, fmt.Sprintf("stepped by %s", describeValue(b.Y)))
			}
			if ok2, other := onlyFrom(b.X, 0); !ok2 {
				bad = append(bad, fmt.Sprintf("set from %s", describeValue(other)))
			}
		}
		r.check(len(bad) == 0, rule, "PrevLabel:l", c.pos(phi.Pos()), "l-- only", "the position of the outer scan is %s on a way round the loop: octets are stepped over without being looked at, and a label boundary among them is lost (a label that begins with an escaped dot)", strings.Join(uniqStrings(bad), "; "))
	})
	if n == 0 {
		r.undecided(rule, "PrevLabel", c.pos(fn.Pos()), "the outer loop index was not found")
	}
}

// ssaFuncIn finds a package-level function of another package of the module by the last element of its path.
func (c *Ctx) ssaFuncIn(pkgSuffix, name string) *ssa.Function {
	for _, p := range c.Prog.AllPackages() {
		if p.Pkg != nil && strings.HasSuffix(p.Pkg.Path(), "/"+pkgSuffix) {
			if f := p.Func(name); f != nil {
				return f
			}
		}
	}
	return nil
}

// addOriginGate: dnsutil.AddOrigin returns its argument unchanged exactly when dns.IsFqdn says it is fully
// qualified (a name that ends in an escaped dot is relative).
func addOriginGate(c *Ctx, r *Report, rule string) {
	r.rule(rule, 1, "dnsutil.AddOrigin returns s unchanged for 'already fully qualified' only behind dns.IsFqdn(s)")
	fn := c.ssaFuncIn("dnsutil", "AddOrigin")
	if fn == nil {
		r.cerr(rule, "dnsutil.AddOrigin", "function not found")
		return
	}
	r.fn("dnsutil.AddOrigin")
	s := fn.Params[0]
	calls := 0
	allInstrs(fn, func(in ssa.Instruction) {
		if call, ok := in.(*ssa.Call); ok && call.Call.StaticCallee() != nil && call.Call.StaticCallee().Name() == "IsFqdn" && len(call.Call.Args) == 1 && call.Call.Args[0] == ssa.Value(s) {
			calls++
		}
	})
	// no other test of the shape of s decides a return of s: HasSuffix / index of the last octet
	var bad []string
	allInstrs(fn, func(in ssa.Instruction) {
		call, ok := in.(*ssa.Call)
		if !ok {
			return
		}
		name := calleeNameSSA(&call.Call)
		if (name == "strings.HasSuffix" || name == "strings.LastIndex" || name == "strings.LastIndexByte") && len(call.Call.Args) > 0 && call.Call.Args[0] == ssa.Value(s) {
			bad = append(bad, fmt.Sprintf("%s tests s with %s", c.pos(call.Pos()), name))
		}
	})
	r.check(calls > 0 && len(bad) == 0, rule, "dnsutil.AddOrigin", c.pos(fn.Pos()), "dns.IsFqdn(s)", "AddOrigin does not decide 'already fully qualified' with dns.IsFqdn(s) (%d calls; %s): a relative name whose last octet is an escaped dot is returned without the origin", calls, strings.Join(bad, "; "))
}

// headerNameOnlyCompared: RR_Header.isDuplicate looks at the owner names through isDuplicateName and nothing else
// (which folds case octet by octet): no other comparison of their octets or lengths.
func headerNameOnlyCompared(c *Ctx, r *Report, rule string) {
	r.rule(rule, 1, "RR_Header.isDuplicate hands the owner names to isDuplicateName and uses them for nothing else")
	fn := c.ssaFunc("RR_Header.isDuplicate")
	if fn == nil {
		r.cerr(rule, "RR_Header.isDuplicate", "function not found")
		return
	}
	r.fn("RR_Header.isDuplicate")
	n := 0
	var bad []string
	allInstrs(fn, func(in ssa.Instruction) {
		ld, ok := in.(*ssa.UnOp)
		if !ok || ld.Op != token.MUL || !readsField("RR_Header", "Name")(ld.X) {
			return
		}
		n++
		var visit func(v ssa.Value, depth int)
		visit = func(v ssa.Value, depth int) {
			if depth > 4 {
				return
			}
			for _, ref := range *v.Referrers() {
				switch t := ref.(type) {
				case *ssa.DebugRef:
				case *ssa.Call:
					if calleeNameSSA(&t.Call) != "isDuplicateName" {
						bad = append(bad, fmt.Sprintf("%s passes it to %s", c.pos(t.Pos()), calleeNameSSA(&t.Call)))
					}
				case *ssa.Phi:
					visit(t, depth+1)
				default:
					bad = append(bad, fmt.Sprintf("%s uses it in %s", c.pos(ref.Pos()), strings.TrimSpace(ref.String())))
				}
			}
		}
		visit(ld, 0)
	})
	if n == 0 {
		r.undecided(rule, "RR_Header.isDuplicate", c.pos(fn.Pos()), "no read of Name found")
		return
	}
	sort.Strings(bad)
	r.check(len(bad) == 0, rule, "RR_Header.isDuplicate:Name", c.pos(fn.Pos()), "isDuplicateName only", "the owner names are also compared outside isDuplicateName (%s): a comparison of raw octets does not ignore letter case, so two records that differ only in the case of the owner are not duplicates of each other while Dedup still merges them", strings.Join(uniqStrings(bad), "; "))
}

var _ = types.Typ

func anyPhiEdgeIs(p, target *ssa.Phi) bool {
	for _, e := range p.Edges {
		if e == ssa.Value(target) {
			return true
		}
	}
	return false
}

// c15ReceiveBounds: every index / slice in the transfer code itself (xfr.go) that the receive loops reach is
// entailed in bounds (the decoders they call are C02's): an envelope of any shape - empty answer section
// included - gives an error, not a panic in the receiving goroutine.
func c15ReceiveBounds(c *Ctx, r *Report, rule string) {
	r.rule(rule, 3, "every index / slice expression of the transfer code reached from inAxfr / inIxfr is entailed in bounds")
	e := newAliasEngine(c)
	var entries []*ssa.Function
	names := []string{"Transfer.inAxfr", "Transfer.inIxfr"}
	for _, n := range names {
		if f := c.ssaFunc(n); f != nil {
			entries = append(entries, f)
		}
	}
	skip := map[string]bool{}
	for f := range e.reachable(entries) {
		if !strings.HasSuffix(c.Fset.Position(f.Pos()).Filename, "xfr.go") {
			skip[fnDisplay(f)] = true
		}
	}
	boundsRuleFor(c, r, rule, names, false, skip, "an envelope of that shape makes the receiving goroutine panic: the consumer sees the channel closed without an error after a prefix of the zone, then the process dies", nil, receiveBoundsExempt)
	// the second exemption leans on isSOAFirst: decided here
	soaPredicateGuards(c, r, rule)
}

var receiveBoundsExempt = map[string]string{
	"Transfer.inIxfr:index +1 <= len(*(Transfer).ReadMsg()#0.f3)": "in.Answer[0] behind isSOAFirst(in), whose first conjunct is len(in.Answer) > 0: the prover has no postconditions of boolean helpers; the guard and the helper's conjunct are decided by the two obligations that follow",
}

// soaPredicateGuards: isSOAFirst / isSOALast can say yes only for a non-empty answer section, and every
// in.Answer[0] of the receive loops is behind isSOAFirst(in).
func soaPredicateGuards(c *Ctx, r *Report, rule string) {
	for _, name := range []string{"isSOAFirst", "isSOALast"} {
		fn := c.ssaFunc(name)
		if fn == nil {
			r.cerr(rule, name, "function not found")
			continue
		}
		r.fn(name)
		in := fn.Params[0]
		nonEmpty := func(b *ssa.BasicBlock, extra []Fact) bool {
			for _, f := range append(factsAt(fn, b), extra...) {
				bin, ok := f.Atom.(*ssa.BinOp)
				if !ok {
					continue
				}
				lc, isLen := bin.X.(*ssa.Call)
				if !isLen || calleeNameSSA(&lc.Call) != "builtin.len" || !anyIn(sliceOf(lc.Call.Args[0]), func(v ssa.Value) bool { return v == ssa.Value(in) }) {
					continue
				}
				k, isK := constIntOf(bin.Y)
				if !isK {
					continue
				}
				switch {
				case bin.Op == token.GTR && k >= 0 && f.Holds, bin.Op == token.GEQ && k >= 1 && f.Holds, bin.Op == token.LEQ && k >= 0 && !f.Holds, bin.Op == token.LSS && k >= 1 && !f.Holds, bin.Op == token.EQL && k == 0 && !f.Holds, bin.Op == token.NEQ && k == 0 && f.Holds:
					return true
				}
			}
			return false
		}
		okAll, n := true, 0
		for _, b := range fn.Blocks {
			ret, ok := b.Instrs[len(b.Instrs)-1].(*ssa.Return)
			if !ok {
				continue
			}
			if phi, isPhi := ret.Results[0].(*ssa.Phi); isPhi && phi.Block() == b {
				for i, e := range phi.Edges {
					if kb, isB := constBool(e); isB && !kb {
						continue
					}
					n++
					if !nonEmpty(b.Preds[i], factsOnEdge(fn, b.Preds[i], b)) {
						okAll = false
					}
				}
				continue
			}
			if kb, isB := constBool(ret.Results[0]); isB && !kb {
				continue
			}
			n++
			if !nonEmpty(b, nil) {
				okAll = false
			}
		}
		r.check(n > 0 && okAll, rule, name+":non-empty", c.pos(fn.Pos()), "yes only with len(in.Answer) > 0", "%s can answer yes (or index the answer section) without having seen that the answer section is not empty: an envelope with an empty answer section makes the receiving goroutine panic", name)
	}
	for _, name := range []string{"Transfer.inAxfr", "Transfer.inIxfr"} {
		fn := c.ssaFunc(name)
		if fn == nil {
			continue
		}
		k := 0
		allInstrs(fn, func(in ssa.Instruction) {
			ia, ok := in.(*ssa.IndexAddr)
			if !ok || !anyIn(sliceOf(ia.X), readsField("Msg", "Answer")) {
				return
			}
			if i0, isK := constIntOf(ia.Index); !isK || i0 != 0 {
				return
			}
			k++
			guarded := false
			for _, f := range factsAt(fn, ia.Block()) {
				if call, ok := f.Atom.(*ssa.Call); ok && calleeNameSSA(&call.Call) == "isSOAFirst" && f.Holds {
					guarded = true
				}
			}
			r.check(guarded, rule, fmt.Sprintf("%s:Answer[0]#%d", name, k), c.pos(ia.Pos()), "behind isSOAFirst(in)", "in.Answer[0] is read without isSOAFirst(in) having said yes: an envelope with an empty answer section makes the receiving goroutine panic")
		})
	}
}

// secretFromProvider: the key material a tsigSecretProvider signs and verifies with is what its own map holds
// for the key name of this call: the functions it runs read no package-level state (a cache keyed by name would
// hand one provider the secret of another).
func secretFromProvider(c *Ctx, r *Report, rule, consequence string) {
	r.rule(rule, 2, "tsigSecretProvider.Generate / Verify and what they call read no package-level variable except error values")
	for _, name := range []string{"tsigSecretProvider.Generate", "tsigSecretProvider.Verify"} {
		fn := c.ssaFunc(name)
		if fn == nil {
			r.cerr(rule, name, "function not found")
			continue
		}
		var fns []*ssa.Function
		seen := map[*ssa.Function]bool{}
		var collect func(f *ssa.Function, depth int)
		collect = func(f *ssa.Function, depth int) {
			if f == nil || seen[f] || depth > 3 || len(f.Blocks) == 0 || f.Pkg != fn.Pkg {
				return
			}
			seen[f] = true
			fns = append(fns, f)
			allInstrs(f, func(in ssa.Instruction) {
				if ci, ok := in.(ssa.CallInstruction); ok {
					collect(ci.Common().StaticCallee(), depth+1)
				}
			})
		}
		collect(fn, 0)
		var bad []string
		for _, f := range fns {
			r.fn(fnDisplay(f))
			allInstrs(f, func(in ssa.Instruction) {
				for _, op := range in.Operands(nil) {
					g, ok := (*op).(*ssa.Global)
					if !ok || g.Pkg != fn.Pkg {
						continue
					}
					t := g.Type().(*types.Pointer).Elem()
					if types.Identical(t, types.Universe.Lookup("error").Type()) {
						continue
					}
					if readOnlyMapGlobal(fn.Pkg, g) {
						continue // a table built once by the initialiser and only looked up: not state
					}
					bad = append(bad, fmt.Sprintf("%s reads %s (%s)", c.pos(in.Pos()), g.Name(), typeStr(t)))
				}
			})
		}
		sort.Strings(bad)
		r.check(len(bad) == 0, rule, name, c.pos(fn.Pos()), "no package state", "%s: %s", strings.Join(uniqStrings(bad), "; "), consequence)
	}
}

// pointerLimitAdmitsOwnOutput: the unpacker's hop limit admits what the packer can produce: a name of 127 one-octet
// labels can sit behind one whole-name pointer plus one pointer per label but the last: 127 hops.
func pointerLimitAdmitsOwnOutput(c *Ctx, r *Report, rule string) {
	r.rule(rule, 2, "maxCompressionPointers, and the largest hop count the comparison in UnpackDomainName lets through, are at least (maxDomainNameWireOctets+1)/2 - 1")
	maxPtr, ok1 := c.constInt("maxCompressionPointers")
	maxName, ok2 := c.constInt("maxDomainNameWireOctets")
	if !ok1 || !ok2 {
		r.cerr(rule, "maxCompressionPointers", "constant not found")
		return
	}
	need := (maxName+1)/2 - 1
	hopLimitAdmits(c, r, rule, need)
	r.check(maxPtr >= need, rule, "maxCompressionPointers", "", fmt.Sprintf("%d >= %d", maxPtr, need), "maxCompressionPointers = %d, but a name of %d one-octet labels whose suffixes were all packed before, used a second time, is written as a pointer to itself: %d labels behind %d pointers. Pack with Compress emits it, UnpackDomainName refuses it with 'too many compression pointers', so the compressed form of a message does not decode to the message", maxPtr, need, need, need)
}

// stubUntouched: TsigGenerateWithProvider leaves the caller's stub TSIG as it found it (it stays on the message so
// that the message can be signed again): the signer's defaults - time signed now, fudge 300 - go into a copy, or a
// stub that asked for "now" is frozen at the time of its first signature.
func stubUntouched(c *Ctx, r *Report, rule string) {
	r.rule(rule, 1, "TsigGenerateWithProvider stores nothing into the TSIG record it takes from the caller's message")
	fn := c.ssaFunc("TsigGenerateWithProvider")
	if fn == nil {
		r.cerr(rule, "TsigGenerateWithProvider", "function not found")
		return
	}
	r.fn("TsigGenerateWithProvider")
	var stub ssa.Value
	allInstrs(fn, func(in ssa.Instruction) {
		if ta, ok := in.(*ssa.TypeAssert); ok && typeStr(ta.AssertedType) == "*TSIG" && anyIn(sliceOf(ta.X), readsField("Msg", "Extra")) {
			stub = ta
		}
	})
	if stub == nil {
		r.undecided(rule, "TsigGenerateWithProvider", c.pos(fn.Pos()), "the stub taken from m.Extra was not found")
		return
	}
	var bad []string
	allInstrs(fn, func(in ssa.Instruction) {
		st, ok := in.(*ssa.Store)
		if !ok {
			return
		}
		fa, ok := st.Addr.(*ssa.FieldAddr)
		if !ok {
			return
		}
		base := fa.X
		for {
			if f2, ok := base.(*ssa.FieldAddr); ok {
				base = f2.X
				continue
			}
			break
		}
		if base == stub {
			bad = append(bad, fmt.Sprintf("%s stores into its %s", c.pos(st.Pos()), fieldNameOf(fa)))
		}
	})
	sort.Strings(bad)
	r.check(len(bad) == 0, rule, "TsigGenerateWithProvider:stub", c.pos(fn.Pos()), "read only", "%s: the defaults written into the caller's stub stay there, so the same message signed again later carries the time of its first signature and is refused with BADTIME once that is older than the fudge", strings.Join(bad, "; "))
}

// writeDeadline: a handler that writes to a TCP peer which has stopped reading must come back, or Shutdown waits for
// ever: response.Write arms a write deadline before every write to the stream (unless the writer was built without
// a timeout, which the server never does: serveTCPConn takes it from getWriteTimeout).
func writeDeadline(c *Ctx, r *Report, rule string) {
	r.rule(rule, 2, "response.Write arms SetWriteDeadline before it writes to the TCP connection; serveTCPConn gives the writer the server's write timeout")
	fn := c.ssaFunc("response.Write")
	if fn == nil {
		r.cerr(rule, "response.Write", "function not found")
		return
	}
	r.fn("response.Write")
	n := 0
	allInstrs(fn, func(in ssa.Instruction) {
		call, ok := in.(*ssa.Call)
		if !ok || !call.Call.IsInvoke() || call.Call.Method.Name() != "Write" || !anyIn(sliceOf(call.Call.Value), readsField("response", "tcp")) {
			return
		}
		n++
		// on every path from the entry to the write: a SetWriteDeadline on w.tcp, or writeTimeout > 0 known false
		removed := map[*ssa.BasicBlock]bool{}
		allInstrs(fn, func(in2 ssa.Instruction) {
			if c2, ok := in2.(*ssa.Call); ok && c2.Call.IsInvoke() && c2.Call.Method.Name() == "SetWriteDeadline" && anyIn(sliceOf(c2.Call.Value), readsField("response", "tcp")) {
				removed[c2.Block()] = true
			}
		})
		// the edge taken when writeTimeout > 0 is false counts as passed too (a writer built without a timeout)
		cut := map[edge]bool{}
		for _, b := range fn.Blocks {
			iff, ok := b.Instrs[len(b.Instrs)-1].(*ssa.If)
			if !ok {
				continue
			}
			bin, ok := iff.Cond.(*ssa.BinOp)
			if !ok || !anyIn(sliceOf(bin.X), readsField("response", "writeTimeout")) {
				continue
			}
			if k, isK := constIntOf(bin.Y); isK && k == 0 {
				switch bin.Op {
				case token.GTR, token.NEQ:
					cut[edge{b, b.Succs[1]}] = true
				case token.LEQ, token.EQL:
					cut[edge{b, b.Succs[0]}] = true
				}
			}
		}
		armed := len(removed) > 0 && (removed[call.Block()] || !reach(fn.Blocks[0], cut, removed)[call.Block()])
		r.check(armed, rule, fmt.Sprintf("response.Write:tcp#%d", n), c.pos(call.Pos()), "deadline armed", "the write to the TCP connection is made without a write deadline: a client that sends a query and never reads blocks the handler in WriteMsg for ever, the drain in serveTCP never ends, and Shutdown never returns (ShutdownContext: not before its context expires) although Server.WriteTimeout is documented")
	})
	if n == 0 {
		r.undecided(rule, "response.Write", c.pos(fn.Pos()), "no write to w.tcp found")
	}
	sv := c.ssaFunc("Server.serveTCPConn")
	if sv == nil {
		r.cerr(rule, "Server.serveTCPConn", "function not found")
		return
	}
	r.fn("Server.serveTCPConn")
	set := false
	allInstrs(sv, func(in ssa.Instruction) {
		if st, ok := in.(*ssa.Store); ok && readsField("response", "writeTimeout")(st.Addr) {
			if call, ok := st.Val.(*ssa.Call); ok && calleeNameSSA(&call.Call) == "(Server).getWriteTimeout" {
				set = true
			}
		}
	})
	r.check(set, rule, "Server.serveTCPConn:writeTimeout", c.pos(sv.Pos()), "srv.getWriteTimeout()", "the response writer of a TCP connection is not given the server's write timeout: response.Write then arms no deadline")
}

// hopLimitAdmits: the comparison that bounds the hop counter of UnpackDomainName lets `need` hops through (the
// constant alone does not say so: `>=` instead of `>` admits one hop less).
func hopLimitAdmits(c *Ctx, r *Report, rule string, need int64) {
	fn := c.ssaFunc("UnpackDomainName")
	if fn == nil {
		r.cerr(rule, "UnpackDomainName", "function not found")
		return
	}
	r.fn(fnDisplay(fn))
	back := backEdges(fn)
	n := 0
	for _, b := range fn.Blocks {
		if !backTarget(fn, b) {
			continue
		}
		for _, in := range b.Instrs {
			ptr, ok := in.(*ssa.Phi)
			if !ok || !isHopCounter(ptr) {
				continue
			}
			for i, p := range b.Preds {
				if !back[edge{p, b}] || ptr.Edges[i] == ssa.Value(ptr) {
					continue
				}
				pe := ptr.Edges[i]
				facts := factsAt(fn, p)
				if ef, ok := edgeFact(p, b); ok {
					facts = append(facts, ef)
				}
				best, found := int64(0), false
				for _, f := range facts {
					if _, hi, _, hasHi := intervalFromFact(f, isValue(pe)); hasHi && (!found || hi < best) {
						best, found = hi, true
					}
				}
				if !found {
					continue // C02.R1.pointer-loop reports a missing bound
				}
				n++
				r.check(best >= need, rule, fmt.Sprintf("UnpackDomainName:hops#%d", n), c.pos(p.Instrs[len(p.Instrs)-1].Pos()), fmt.Sprintf("%d hops admitted >= %d", best, need), "the hop counter is let through up to %d only, but a name of %d one-octet labels whose suffixes were all packed before is written with %d pointers: Pack with Compress emits it and UnpackDomainName refuses it with 'too many compression pointers'", best, need, need)
			}
		}
	}
	if n == 0 {
		r.cerr(rule, "UnpackDomainName:hops", "no bounded hop counter found on a back edge of UnpackDomainName")
	}
}

// readOnlyMapGlobal: a package-level map stored once, by the package initialiser, whose value is afterwards only used
// in lookups, len and range, and whose address goes nowhere.
func readOnlyMapGlobal(pkg *ssa.Package, g *ssa.Global) bool {
	if _, isMap := g.Type().(*types.Pointer).Elem().Underlying().(*types.Map); !isMap {
		return false
	}
	initFn := pkg.Func("init")
	ok := true
	stores := 0
	readOnlyUse := func(v ssa.Value, inInit bool) {
		if v.Referrers() == nil {
			return
		}
		for _, ref := range *v.Referrers() {
			switch r := ref.(type) {
			case *ssa.Lookup, *ssa.DebugRef, *ssa.Range:
			case *ssa.Call:
				if calleeNameSSA(&r.Call) != "builtin.len" {
					ok = false
				}
			case *ssa.MapUpdate:
				if !inInit {
					ok = false
				}
			case *ssa.Store:
				if !inInit || r.Val != v || r.Addr != ssa.Value(g) {
					ok = false
				}
			default:
				ok = false
			}
		}
	}
	for _, m := range pkg.Members {
		fn, isFn := m.(*ssa.Function)
		if !isFn {
			continue
		}
		for _, sub := range withAnon(fn) {
			allInstrs(sub, func(in ssa.Instruction) {
				for _, op := range in.Operands(nil) {
					if *op != ssa.Value(g) {
						continue
					}
					switch t := in.(type) {
					case *ssa.Store:
						if t.Addr != ssa.Value(g) || sub != initFn {
							ok = false
							continue
						}
						stores++
						readOnlyUse(t.Val, true)
					case *ssa.UnOp:
						if t.Op != token.MUL {
							ok = false
							continue
						}
						readOnlyUse(t, false)
					case *ssa.DebugRef:
					default:
						ok = false
					}
				}
			})
		}
	}
	return ok && stores == 1
}
