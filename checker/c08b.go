package main

import (
	"fmt"
	"go/token"
	"strings"

	"golang.org/x/tools/go/ssa"
)

// c08APL: an APL item is a 4-octet header plus the address cut to the octets its prefix covers (RFC 3123 s.4):
// ceil(prefix/8) octets before trailing zero octets are trimmed. APLPrefix.len must not predict less than the
// packer can write: both round the bit count up to whole octets.
func c08APL(c *Ctx, r *Report) {
	r.rule("C08.R1.apl-len", 2, "APLPrefix.len and packDataAplPrefix both round the prefix length up to whole octets; len = 4 + that")
	ceilQuot := func(fn *ssa.Function) (found, ceil bool, where token.Pos) {
		allInstrs(fn, func(in ssa.Instruction) {
			q, ok := in.(*ssa.BinOp)
			if !ok {
				return
			}
			isDiv8 := false
			if q.Op == token.QUO {
				if k, isK := constIntOf(q.Y); isK && k == 8 {
					isDiv8 = true
				}
			}
			if q.Op == token.SHR {
				if k, isK := constIntOf(q.Y); isK && k == 3 {
					isDiv8 = true
				}
			}
			if !isDiv8 || !anyIn(sliceOf(q.X), callsFunc("(net.IPMask).Size")) {
				return
			}
			found, where = true, q.Pos()
			if add, ok := q.X.(*ssa.BinOp); ok && add.Op == token.ADD {
				if k, isK := constIntOf(add.Y); isK && k == 7 {
					ceil = true
				}
				if k, isK := constIntOf(add.X); isK && k == 7 {
					ceil = true
				}
			}
		})
		return
	}
	for _, name := range []string{"APLPrefix.len", "packDataAplPrefix"} {
		fn := c.ssaFunc(name)
		if fn == nil {
			r.cerr("C08.R1.apl-len", name, "function not found")
			continue
		}
		r.fn(name)
		found, ceil, where := ceilQuot(fn)
		if !found {
			// the computation may live in a helper both share (APLPrefix.wireAddress)
			allInstrs(fn, func(in ssa.Instruction) {
				if call, ok := in.(*ssa.Call); ok {
					if g := call.Call.StaticCallee(); g != nil && g.Pkg == fn.Pkg && len(g.Blocks) > 0 && !found {
						found, ceil, where = ceilQuot(g)
					}
				}
			})
		}
		var problems []string
		switch {
		case !found:
			r.undecided("C08.R1.apl-len", name, c.pos(fn.Pos()), "%s does not derive an octet count from the mask's prefix length by a division by 8", name)
			continue
		case !ceil:
			problems = append(problems, fmt.Sprintf("%s: the prefix length is rounded down to whole octets: a prefix that is not a multiple of 8 (172.16.0.0/12) needs one octet more", c.pos(where)))
		}
		if name == "APLPrefix.len" && found {
			okForm := false
			for _, rp := range returnPoints(fn, 0) {
				if add, ok := rp.Results[0].(*ssa.BinOp); ok && add.Op == token.ADD {
					kx, isKx := constIntOf(add.X)
					ky, isKy := constIntOf(add.Y)
					if (isKx && kx == 4) || (isKy && ky == 4) {
						okForm = true
					}
				}
			}
			if !okForm {
				problems = append(problems, "len is not 4 (address family, prefix, N|afdlength) plus the address octets")
			}
		}
		r.check(len(problems) == 0, "C08.R1.apl-len", name, c.pos(fn.Pos()), "ceil(prefix/8)", "%s", strings.Join(problems, "; "))
	}
}

// c08Bitmap: typeBitMapLen is the length-side sibling of packDataNsec: both walk the sorted type list, and on
// entering a new window both account the previous window (length + 2) and reset the running window length to 0
// *before* the out-of-order test compares the new length with it. If the test sees the previous window's length,
// a later window that is shorter than the previous one is skipped by the length function but written by the packer.
func c08Bitmap(c *Ctx, r *Report) {
	r.rule("C08.R1.bitmap-siblings", 2, "typeBitMapLen and packDataNsec both reset the window length on a new window before the out-of-order test uses it")
	for _, name := range []string{"typeBitMapLen", "packDataNsec"} {
		fn := c.ssaFunc(name)
		if fn == nil {
			r.cerr("C08.R1.bitmap-siblings", name, "function not found")
			continue
		}
		r.fn(name)
		var problems []string
		n := 0
		allInstrs(fn, func(in ssa.Instruction) {
			cmp, ok := in.(*ssa.BinOp)
			if !ok || (cmp.Op != token.LSS && cmp.Op != token.GTR) {
				return
			}
			length, last := cmp.X, cmp.Y
			if cmp.Op == token.GTR {
				length, last = last, length
			}
			// length = (t - window*256)/8 + 1
			isLen := false
			for v := range sliceOf(length) {
				if q, ok := v.(*ssa.BinOp); ok && q.Op == token.QUO {
					if k, isK := constIntOf(q.Y); isK && k == 8 {
						isLen = true
					}
				}
			}
			if _, isPhiL := length.(*ssa.Phi); isPhiL || !isLen {
				return
			}
			phi, ok := last.(*ssa.Phi)
			if !ok {
				return
			}
			n++
			hasReset, hasCarried := false, false
			// the block computing window = t / 256 (the loop body)
			var body *ssa.BasicBlock
			allInstrs(fn, func(x ssa.Instruction) {
				if q, ok := x.(*ssa.BinOp); ok && q.Op == token.QUO {
					if k, isK := constIntOf(q.Y); isK && k == 256 {
						body = q.Block()
					}
				}
			})
			for i, e := range phi.Edges {
				if k, isK := constIntOf(e); isK && k == 0 {
					// a reset made inside the loop body (on the new-window edge), not the initial value
					if pred := phi.Block().Preds[i]; body != nil && (pred == body || body.Dominates(pred)) {
						hasReset = true
					}
				}
				if _, isPhi := e.(*ssa.Phi); isPhi {
					hasCarried = true
				}
			}
			if !(hasReset && hasCarried) {
				problems = append(problems, fmt.Sprintf("%s: the out-of-order test compares the new window length with the previous window's length (it is not reset to 0 on a new window first): a window shorter than the one before it is treated as out of order", c.pos(cmp.Pos())))
			}
		})
		if n == 0 {
			r.undecided("C08.R1.bitmap-siblings", name, c.pos(fn.Pos()), "no comparison of a window length with the running window length found in %s", name)
			continue
		}
		r.check(len(problems) == 0, "C08.R1.bitmap-siblings", name, c.pos(fn.Pos()), "reset before test", "%s", strings.Join(problems, "; "))
	}
}

// c08OctetCap: "Pack never fails for lack of buffer space on a valid message". For the octet-string packer
// (text to the end of the RDATA: URI target, CAA value) a refusal is a statement about the buffer: every error
// return is behind a comparison that involves len(msg). A limit on the length of the text alone (the 255-octet cap of
// character-strings does not apply here) makes Pack fail where Len was right.
func c08OctetCap(c *Ctx, r *Report) {
	r.rule("C08.R3.octet-no-cap", 1, "packOctetString refuses only for lack of room in the buffer")
	fn := c.ssaFunc("packOctetString")
	if fn == nil {
		r.cerr("C08.R3.octet-no-cap", "packOctetString", "function not found")
		return
	}
	r.fn("packOctetString")
	msg := fn.Params[1]
	var problems []string
	n := 0
	for _, rp := range returnPoints(fn, 1) {
		if isNilConst(rp.Results[1]) {
			continue
		}
		n++
		// the facts that decide this return: at least one involves len(msg); none may be about len(s) alone on a path
		// where the buffer tests all passed
		aboutBuf := false
		var onlyText []string
		for _, f := range rp.factsOf(fn) {
			b, ok := f.Atom.(*ssa.BinOp)
			if !ok {
				continue
			}
			sl := sliceOf(b)
			isBuf := anyIn(sl, func(v ssa.Value) bool {
				call, ok := v.(*ssa.Call)
				return ok && calleeNameSSA(&call.Call) == "builtin.len" && call.Call.Args[0] == msg
			})
			rejecting := f.If != nil && (isFailureBlock(f.If.Block().Succs[0]) != isFailureBlock(f.If.Block().Succs[1]))
			if isBuf && rejecting {
				// did this fact send us to the failure?
				aboutBuf = true
			}
			if !isBuf && rejecting && anyIn(sl, func(v ssa.Value) bool {
				call, ok := v.(*ssa.Call)
				return ok && calleeNameSSA(&call.Call) == "builtin.len" && call.Call.Args[0] == fn.Params[0]
			}) {
				if _, isK := constIntOf(b.Y); isK {
					onlyText = append(onlyText, c.pos(b.Pos()))
				}
			}
		}
		_ = aboutBuf
		for _, p := range onlyText {
			problems = append(problems, fmt.Sprintf("%s: the packer refuses on the length of the text compared with a constant: an octet string is bounded by RDLENGTH only, so Pack fails with 'buffer size too small' on a valid (even a just unpacked) message although Len() was right", p))
		}
	}
	if n == 0 {
		problems = append(problems, "no error return found")
	}
	r.check(len(uniqStrings(problems)) == 0, "C08.R3.octet-no-cap", "packOctetString", c.pos(fn.Pos()), "refusals are about len(msg)", "%s", strings.Join(uniqStrings(problems), "; "))
}
