package main

// Loading /repo and resolving anchors (functions, methods, types, fields).

import (
	"fmt"
	"go/ast"
	"go/constant"
	"go/token"
	"go/types"
	"os"
	"path/filepath"
	"reflect"
	"sort"
	"strings"
	"sync"

	"golang.org/x/tools/go/packages"
	"golang.org/x/tools/go/ssa"
	"golang.org/x/tools/go/ssa/ssautil"
	"golang.org/x/tools/go/types/typeutil"
)

const dnsPath = "github.com/miekg/dns"

type Ctx struct {
	RepoDir string
	Tier    string
	Config  string // description of GOOS/GOARCH/tags
	Pkgs    []*packages.Package
	Dns     *packages.Package
	Fset    *token.FileSet
	Info    *types.Info
	Types   *types.Package
	Prog    *ssa.Program
	SSA     *ssa.Package

	decls   map[string]*ast.FuncDecl // "Recv.name" or "name"
	declObj map[*ast.FuncDecl]*types.Func
	fileOf  map[*ast.FuncDecl]*ast.File

	// Inlined: the helpers (absent from the pinned tree) that were written back into their callers before the analysis
	Inlined    []string
	InlineNote string

	// converted: functions of the pinned tree that are now methods of their first parameter's type, or the reverse
	// (name in the pinned tree -> the function's object today)
	converted map[string]*types.Func
	// Renamed: "new stands for old" for the functions recognised as renamed (reported in the evidence)
	Renamed []string

	aliasOnce sync.Once
	aliases   map[types.Object]types.Object
}

func cleanEnv(extra ...string) []string {
	var out []string
	for _, e := range os.Environ() {
		skip := false
		for _, p := range []string{"GOSUMDB=", "GOTOOLCHAIN=", "GOFLAGS=", "GOWORK=", "GOPROXY=", "GOOS=", "GOARCH=", "CGO_ENABLED="} {
			if strings.HasPrefix(e, p) {
				skip = true
			}
		}
		if !skip {
			out = append(out, e)
		}
	}
	out = append(out, "GOFLAGS=-mod=mod", "GOPROXY=off", "GOWORK=off", "GOTOOLCHAIN=auto", "CGO_ENABLED=0")
	return append(out, extra...)
}

type loadOpts struct {
	goos, goarch string
	tags         string
	overlay      map[string][]byte
	needSSA      bool
	noInline     bool
}

// load loads the tree and, when it declares functions the pinned tree does not have, loads it a second time with
// those helpers written back into their callers (inline.go).
func load(repo string, o loadOpts) (*Ctx, error) {
	c, err := loadOnce(repo, o)
	if err != nil || o.noInline {
		return c, err
	}
	unrolled := false
	for round := 0; round < 5; round++ {
		overlay, names := inlineNewHelpers(c)
		if overlay == nil && !unrolled {
			// then the loops over fixed tables that the pinned tree does not have (unroll.go), once
			unrolled = true
			overlay, names = unrollNewLoops(c)
			for i := range names {
				names[i] = "loop " + names[i]
			}
		}
		if overlay == nil {
			break
		}
		o2 := o
		o2.overlay = map[string][]byte{}
		for k, v := range o.overlay {
			o2.overlay[k] = v
		}
		for k, v := range overlay {
			o2.overlay[k] = v
			if d := os.Getenv("DNSVERIF_DUMP_NORMALISED"); d != "" {
				// diagnosis only: the rewritten source the analysis runs on
				os.WriteFile(filepath.Join(d, filepath.Base(k)), v, 0o644)
			}
		}
		c2, err2 := loadOnce(repo, o2)
		if err2 != nil {
			c.InlineNote = fmt.Sprintf("new helpers / table loops %v could not be written back (%v): the tree is analysed as it stands", names, err2)
			break
		}
		c2.Inlined = append(append([]string{}, c.Inlined...), names...)
		c, o = c2, o2
	}
	return c, nil
}

func loadOnce(repo string, o loadOpts) (*Ctx, error) {
	var extra []string
	desc := "GOOS=linux GOARCH=amd64"
	if o.goos != "" {
		extra = append(extra, "GOOS="+o.goos)
		desc = "GOOS=" + o.goos
		if o.goarch != "" {
			extra = append(extra, "GOARCH="+o.goarch)
			desc += " GOARCH=" + o.goarch
		}
	} else {
		extra = append(extra, "GOOS=linux", "GOARCH=amd64")
	}
	cfg := &packages.Config{Mode: packages.LoadAllSyntax, Dir: repo, Env: cleanEnv(extra...), Overlay: o.overlay}
	if o.tags != "" {
		cfg.BuildFlags = []string{"-tags=" + o.tags}
		desc += " -tags " + o.tags
	}
	pkgs, err := packages.Load(cfg, "./...")
	if err != nil {
		return nil, fmt.Errorf("loading %s: %v", repo, err)
	}
	if len(pkgs) == 0 {
		return nil, fmt.Errorf("loading %s: zero packages", repo)
	}
	c := &Ctx{RepoDir: repo, Pkgs: pkgs, Config: desc}
	for _, p := range pkgs {
		if len(p.Errors) > 0 {
			return nil, fmt.Errorf("package %s has errors: %v", p.PkgPath, p.Errors[0])
		}
		if p.PkgPath == dnsPath {
			c.Dns = p
		}
	}
	if c.Dns == nil {
		return nil, fmt.Errorf("package %s not found under %s", dnsPath, repo)
	}
	var terr error
	packages.Visit(pkgs, nil, func(p *packages.Package) {
		if len(p.Errors) > 0 && terr == nil {
			terr = fmt.Errorf("dependency %s has errors: %v", p.PkgPath, p.Errors[0])
		}
	})
	if terr != nil {
		return nil, terr
	}
	c.Fset = c.Dns.Fset
	c.Info = c.Dns.TypesInfo
	c.Types = c.Dns.Types
	c.decls = map[string]*ast.FuncDecl{}
	c.declObj = map[*ast.FuncDecl]*types.Func{}
	c.fileOf = map[*ast.FuncDecl]*ast.File{}
	for _, f := range c.Dns.Syntax {
		for _, d := range f.Decls {
			fd, ok := d.(*ast.FuncDecl)
			if !ok {
				continue
			}
			name := fd.Name.Name
			if fd.Recv != nil && len(fd.Recv.List) == 1 {
				name = recvTypeName(fd.Recv.List[0].Type) + "." + name
			}
			if name == "init" || name == "_" {
				continue
			}
			c.decls[name] = fd
			c.fileOf[fd] = f
			if obj, ok := c.Info.Defs[fd.Name].(*types.Func); ok {
				c.declObj[fd] = obj
			}
		}
	}
	c.registerConverted()
	c.registerRenamed()
	if o.needSSA {
		prog, _ := ssautil.AllPackages(pkgs, ssa.InstantiateGenerics)
		prog.Build()
		c.Prog = prog
		c.SSA = prog.Package(c.Types)
		if c.SSA == nil {
			return nil, fmt.Errorf("no SSA package for %s", dnsPath)
		}
	}
	return c, nil
}

// funcAlias: the name, in the pinned tree, of a function that changed between method and plain function (see
// registerConverted); objName reports that name, so that rules find its call sites.
var funcAlias = map[*types.Func]string{}

// registerConverted recognises `func (h T) f(a)` of the pinned tree rewritten as `func f(h T, a)` (and the reverse):
// the function keeps its place under the old name — it is not a new helper, and the rules about T.f apply to it with
// the receiver in the first parameter's place.
func (c *Ctx) registerConverted() {
	c.converted = map[string]*types.Func{}
	var names []string
	for k := range c.decls {
		names = append(names, k)
	}
	sort.Strings(names)
	for _, key := range names {
		fd := c.decls[key]
		obj := c.declObj[fd]
		if obj == nil || baselineFuncs[key] {
			continue
		}
		sig := obj.Type().(*types.Signature)
		if fd.Recv == nil {
			if sig.Params().Len() == 0 {
				continue
			}
			t := sig.Params().At(0).Type()
			if p, ok := t.(*types.Pointer); ok {
				t = p.Elem()
			}
			n, ok := t.(*types.Named)
			if !ok || n.Obj().Pkg() != c.Types {
				continue
			}
			old := n.Obj().Name() + "." + fd.Name.Name
			if baselineFuncs[old] && c.decls[old] == nil {
				c.decls[old] = fd
				delete(c.decls, key)
				c.converted[old] = obj
				funcAlias[obj] = "(" + n.Obj().Name() + ")." + fd.Name.Name
			}
		} else {
			old := fd.Name.Name
			if baselineFuncs[old] && c.decls[old] == nil {
				c.decls[old] = fd
				delete(c.decls, key)
				c.converted[old] = obj
				funcAlias[obj] = old
			}
		}
	}
}

// registerRenamed: an unexported function of the pinned tree that is gone, while exactly one function the pinned tree
// does not have could be it under a new name (same receiver type — as a receiver or as the first parameter — and the
// same number of parameters): that function takes its place, as for a conversion. A wrong guess cannot hide anything:
// without it the rules anchored in the old name report that their function is missing.
func (c *Ctx) registerRenamed() {
	var missing []string
	for old := range baselineFuncs {
		if c.decls[old] == nil {
			missing = append(missing, old)
		}
	}
	sort.Strings(missing)
	var keys []string
	for k := range c.decls {
		keys = append(keys, k)
	}
	sort.Strings(keys)
	for _, old := range missing {
		tn, fnName := "", old
		if i := strings.IndexByte(old, '.'); i >= 0 {
			tn, fnName = old[:i], old[i+1:]
		}
		if fnName == "" || !(fnName[0] >= 'a' && fnName[0] <= 'z') {
			continue
		}
		np := len(baselineParams[old])
		var cands []string
		for _, key := range keys {
			fd := c.decls[key]
			obj := c.declObj[fd]
			if obj == nil || baselineFuncs[key] || fd.Name.IsExported() || fd.Body == nil {
				continue
			}
			if _, done := funcAlias[obj]; done {
				continue
			}
			sig := obj.Type().(*types.Signature)
			named := func(t types.Type) string {
				if p, ok := t.(*types.Pointer); ok {
					t = p.Elem()
				}
				if n, ok := t.(*types.Named); ok && n.Obj().Pkg() == c.Types {
					return n.Obj().Name()
				}
				return ""
			}
			switch {
			case tn != "" && sig.Recv() != nil:
				if named(sig.Recv().Type()) == tn && sig.Params().Len() == np {
					cands = append(cands, key)
				}
			case tn != "" && sig.Recv() == nil:
				if sig.Params().Len() == np+1 && named(sig.Params().At(0).Type()) == tn {
					cands = append(cands, key)
				}
			case tn == "" && sig.Recv() == nil:
				if sig.Params().Len() == np && np > 0 {
					cands = append(cands, key)
				}
			}
		}
		if len(cands) != 1 {
			continue
		}
		key := cands[0]
		fd := c.decls[key]
		obj := c.declObj[fd]
		c.decls[old] = fd
		delete(c.decls, key)
		c.converted[old] = obj
		if tn != "" {
			funcAlias[obj] = "(" + tn + ")." + fnName
		} else {
			funcAlias[obj] = fnName
		}
		c.Renamed = append(c.Renamed, key+" stands for "+old)
	}
}

func recvTypeName(e ast.Expr) string {
	switch t := e.(type) {
	case *ast.StarExpr:
		return recvTypeName(t.X)
	case *ast.Ident:
		return t.Name
	case *ast.IndexExpr:
		return recvTypeName(t.X)
	}
	return "?"
}

// decl returns the FuncDecl for "name" or "Type.name" (pointer or value receiver alike), nil if absent.
func (c *Ctx) decl(name string) *ast.FuncDecl { return c.decls[name] }

func (c *Ctx) pos(p token.Pos) string { return posStr(c.Fset, p) }

func (c *Ctx) lookup(name string) types.Object { return c.Types.Scope().Lookup(name) }

func (c *Ctx) named(name string) *types.Named {
	o := c.lookup(name)
	if o == nil {
		return nil
	}
	n, _ := o.Type().(*types.Named)
	return n
}

func (c *Ctx) structOf(name string) *types.Struct {
	n := c.named(name)
	if n == nil {
		return nil
	}
	s, _ := n.Underlying().(*types.Struct)
	return s
}

// constInt returns the value of a package-level integer constant.
func (c *Ctx) constInt(name string) (int64, bool) {
	o, ok := c.lookup(name).(*types.Const)
	if !ok {
		return 0, false
	}
	return constant.Int64Val(constant.ToInt(o.Val()))
}

// exprConst returns the constant value of an expression if the type checker evaluated one.
func (c *Ctx) exprConst(e ast.Expr) (int64, bool) {
	tv, ok := c.Info.Types[e]
	if !ok || tv.Value == nil {
		return 0, false
	}
	v := constant.ToInt(tv.Value)
	if v.Kind() != constant.Int {
		return 0, false
	}
	return constant.Int64Val(v)
}

func (c *Ctx) exprConstString(e ast.Expr) (string, bool) {
	tv, ok := c.Info.Types[e]
	if !ok || tv.Value == nil || tv.Value.Kind() != constant.String {
		return "", false
	}
	return constant.StringVal(tv.Value), true
}

// callee resolves the called function/method object (nil for builtins, conversions, dynamic calls through values).
func (c *Ctx) callee(call *ast.CallExpr) types.Object {
	return typeutil.Callee(c.Info, call)
}

// calleeName gives "pkg.Func", "(pkg.T).Method" style short names for matching in tables.
func (c *Ctx) calleeName(call *ast.CallExpr) string {
	o := c.callee(call)
	if o == nil {
		if id, ok := ast.Unparen(call.Fun).(*ast.Ident); ok {
			if _, isB := c.Info.Uses[id].(*types.Builtin); isB {
				return "builtin." + id.Name
			}
		}
		return ""
	}
	if b, ok := o.(*types.Builtin); ok {
		return "builtin." + b.Name()
	}
	return objName(o)
}

func objName(o types.Object) string {
	f, ok := o.(*types.Func)
	if !ok {
		if o.Pkg() != nil {
			return o.Pkg().Name() + "." + o.Name()
		}
		return o.Name()
	}
	if a, ok := funcAlias[f]; ok {
		return a
	}
	sig := f.Type().(*types.Signature)
	if r := sig.Recv(); r != nil {
		t := r.Type()
		if p, ok := t.(*types.Pointer); ok {
			t = p.Elem()
		}
		tn := types.TypeString(t, func(p *types.Package) string {
			if p.Path() == dnsPath {
				return ""
			}
			return p.Name()
		})
		return "(" + tn + ")." + f.Name()
	}
	if f.Pkg() != nil && f.Pkg().Path() != dnsPath {
		return f.Pkg().Name() + "." + f.Name()
	}
	return f.Name()
}

// fieldOf resolves a selector expression x.F (possibly through embedding) to the field object, else nil.
func (c *Ctx) fieldOf(e ast.Expr) *types.Var {
	sel, ok := ast.Unparen(e).(*ast.SelectorExpr)
	if !ok {
		return nil
	}
	if s, ok := c.Info.Selections[sel]; ok && s.Kind() == types.FieldVal {
		return s.Obj().(*types.Var)
	}
	return nil
}

// fieldPath renders x.A.B as "A.B" if every step is a field selection rooted at identifier root; ok=false otherwise.
func (c *Ctx) fieldPath(e ast.Expr, root types.Object) (string, bool) {
	e = ast.Unparen(e)
	switch t := e.(type) {
	case *ast.Ident:
		if c.isIdentOf(t, root) {
			return "", true
		}
		return "", false
	case *ast.SelectorExpr:
		if c.fieldOf(t) == nil {
			return "", false
		}
		p, ok := c.fieldPath(t.X, root)
		if !ok {
			return "", false
		}
		if p == "" {
			return t.Sel.Name, true
		}
		return p + "." + t.Sel.Name, true
	case *ast.StarExpr:
		return c.fieldPath(t.X, root)
	}
	return "", false
}

func (c *Ctx) recvObj(fd *ast.FuncDecl) types.Object {
	if fd.Recv == nil && c.convertedKind(fd) == 'm' {
		// a method of the pinned tree that is a plain function now: its receiver is the first parameter
		for _, f := range fd.Type.Params.List {
			for _, id := range f.Names {
				return c.Info.Defs[id]
			}
		}
	}
	if fd.Recv == nil || len(fd.Recv.List) != 1 || len(fd.Recv.List[0].Names) != 1 {
		return nil
	}
	return c.Info.Defs[fd.Recv.List[0].Names[0]]
}

// convertedKind: 'm' when fd stands for a method of the pinned tree but is a plain function today, 'f' for the
// reverse, 0 otherwise.
func (c *Ctx) convertedKind(fd *ast.FuncDecl) byte {
	obj := c.declObj[fd]
	if obj == nil {
		return 0
	}
	if name, ok := funcAlias[obj]; ok {
		isMethodName := strings.HasPrefix(name, "(")
		switch {
		case isMethodName && fd.Recv == nil:
			return 'm'
		case !isMethodName && fd.Recv != nil:
			return 'f'
		}
	}
	return 0
}

func (c *Ctx) paramObj(fd *ast.FuncDecl, i int) types.Object {
	switch c.convertedKind(fd) {
	case 'm':
		i++
	case 'f':
		if i == 0 {
			if len(fd.Recv.List) == 1 && len(fd.Recv.List[0].Names) == 1 {
				return c.Info.Defs[fd.Recv.List[0].Names[0]]
			}
			return nil
		}
		i--
	}
	n := 0
	for _, f := range fd.Type.Params.List {
		for _, id := range f.Names {
			if n == i {
				return c.Info.Defs[id]
			}
			n++
		}
	}
	return nil
}

func (c *Ctx) paramByName(fd *ast.FuncDecl, name string) types.Object {
	var ids []*ast.Ident
	for _, f := range fd.Type.Params.List {
		for _, id := range f.Names {
			if id.Name == name {
				return c.Info.Defs[id]
			}
			ids = append(ids, id)
		}
	}
	// renamed since the pinned tree: the parameter at the position that name had there
	key := fd.Name.Name
	if fd.Recv != nil && len(fd.Recv.List) == 1 {
		key = recvTypeName(fd.Recv.List[0].Type) + "." + key
	}
	if base, ok := baselineParams[key]; ok && len(base) == len(ids) {
		for i, n := range base {
			if n == name {
				return c.Info.Defs[ids[i]]
			}
		}
	}
	return nil
}

func (c *Ctx) isIdentOf(e ast.Expr, o types.Object) bool {
	id, ok := ast.Unparen(e).(*ast.Ident)
	if !ok || o == nil {
		return false
	}
	if c.Info.Uses[id] == o || c.Info.Defs[id] == o {
		return true
	}
	return c.stableRoot(c.objOfIdent(id)) == c.stableRoot(o) && c.stableRoot(o) != nil
}

func (c *Ctx) objOfIdent(id *ast.Ident) types.Object {
	if o := c.Info.Uses[id]; o != nil {
		return o
	}
	return c.Info.Defs[id]
}

// stableRoot follows "x := y" / "var x T = y" copies between local variables (or from a parameter) that are never
// assigned again and whose address is never taken: such an x holds y's value for its whole life, so a rule that asks
// "is this the parameter" may accept the copy (the normalisation binds the parameters of a written-back helper this way).
func (c *Ctx) stableRoot(o types.Object) types.Object {
	if o == nil {
		return nil
	}
	c.aliasOnce.Do(c.computeAliases)
	for i := 0; i < 16; i++ {
		n, ok := c.aliases[o]
		if !ok {
			return o
		}
		o = n
	}
	return o
}

func (c *Ctx) computeAliases() {
	cand := map[types.Object]types.Object{}
	dirty := map[types.Object]bool{}
	local := func(o types.Object) bool {
		v, ok := o.(*types.Var)
		return ok && !v.IsField() && v.Parent() != nil && v.Parent() != c.Types.Scope() && v.Parent() != types.Universe
	}
	mark := func(e ast.Expr) {
		if id, ok := ast.Unparen(e).(*ast.Ident); ok {
			if o := c.objOfIdent(id); o != nil {
				dirty[o] = true
			}
		}
	}
	for _, f := range c.Dns.Syntax {
		ast.Inspect(f, func(n ast.Node) bool {
			switch t := n.(type) {
			case *ast.ValueSpec:
				if len(t.Names) == len(t.Values) {
					for i, nm := range t.Names {
						if src, ok := ast.Unparen(t.Values[i]).(*ast.Ident); ok {
							d, s := c.Info.Defs[nm], c.Info.Uses[src]
							if d != nil && s != nil && local(d) && local(s) && types.Identical(d.Type(), s.Type()) {
								cand[d] = s
							}
						}
					}
				}
			case *ast.AssignStmt:
				if t.Tok == token.DEFINE && len(t.Lhs) == len(t.Rhs) {
					for i, l := range t.Lhs {
						id, ok := l.(*ast.Ident)
						if !ok {
							continue
						}
						d := c.Info.Defs[id]
						if d == nil {
							// redeclared in a := with a new neighbour: an assignment
							mark(l)
							continue
						}
						if src, ok := ast.Unparen(t.Rhs[i]).(*ast.Ident); ok {
							if s := c.Info.Uses[src]; s != nil && local(d) && local(s) && types.Identical(d.Type(), s.Type()) {
								cand[d] = s
							}
						}
					}
				} else {
					for _, l := range t.Lhs {
						if id, ok := l.(*ast.Ident); ok && t.Tok == token.DEFINE && c.Info.Defs[id] != nil {
							continue
						}
						mark(l)
					}
				}
			case *ast.IncDecStmt:
				mark(t.X)
			case *ast.UnaryExpr:
				if t.Op == token.AND {
					mark(t.X)
				}
			case *ast.RangeStmt:
				if t.Tok == token.ASSIGN {
					if t.Key != nil {
						mark(t.Key)
					}
					if t.Value != nil {
						mark(t.Value)
					}
				}
			}
			return true
		})
	}
	c.aliases = map[types.Object]types.Object{}
	for d, s := range cand {
		if !dirty[d] && !dirty[s] {
			c.aliases[d] = s
		}
	}
}

// ---- record types ----

type wireField struct {
	Name  string
	Var   *types.Var
	Type  types.Type
	Tag   string // content of dns:"…"
	Index int
}

type rrType struct {
	Name   string
	Named  *types.Named
	Embeds string      // name of the embedded RR struct, "" if none
	Fields []wireField // all fields after the header, in order, including dns:"-" ones
}

func dnsTag(tag string) string { return reflect.StructTag(tag).Get("dns") }

// flatFields flattens a struct whose only field is an embedded RR struct.
func (c *Ctx) flatFields(st *types.Struct) (fields []wireField, embeds string, isRR bool) {
	if st.NumFields() == 0 {
		return nil, "", false
	}
	f0 := st.Field(0)
	if f0.Embedded() {
		if n, ok := f0.Type().(*types.Named); ok {
			if s2, ok := n.Underlying().(*types.Struct); ok && st.NumFields() == 1 {
				fs, _, ok2 := c.flatFields(s2)
				return fs, n.Obj().Name(), ok2
			}
		}
		return nil, "", false
	}
	if f0.Name() != "Hdr" {
		return nil, "", false
	}
	if n, ok := f0.Type().(*types.Named); !ok || n.Obj().Name() != "RR_Header" {
		return nil, "", false
	}
	for i := 1; i < st.NumFields(); i++ {
		f := st.Field(i)
		fields = append(fields, wireField{Name: f.Name(), Var: f, Type: f.Type(), Tag: dnsTag(st.Tag(i)), Index: i})
	}
	return fields, "", true
}

// rrTypes lists every record struct of package dns (first field Hdr RR_Header, or a lone embedded such struct), sorted by name.
func (c *Ctx) rrTypes() []*rrType {
	var out []*rrType
	sc := c.Types.Scope()
	for _, name := range sc.Names() {
		tn, ok := sc.Lookup(name).(*types.TypeName)
		if !ok || tn.IsAlias() {
			continue
		}
		n, ok := tn.Type().(*types.Named)
		if !ok {
			continue
		}
		st, ok := n.Underlying().(*types.Struct)
		if !ok {
			continue
		}
		fs, emb, isRR := c.flatFields(st)
		if !isRR {
			continue
		}
		out = append(out, &rrType{Name: name, Named: n, Embeds: emb, Fields: fs})
	}
	sort.Slice(out, func(i, j int) bool { return out[i].Name < out[j].Name })
	return out
}

// implementers returns the named types of package dns whose pointer (or value) implements the interface named iface.
func (c *Ctx) implementers(iface string) []*types.Named {
	in := c.named(iface)
	if in == nil {
		return nil
	}
	it, ok := in.Underlying().(*types.Interface)
	if !ok {
		return nil
	}
	var out []*types.Named
	sc := c.Types.Scope()
	for _, name := range sc.Names() {
		tn, ok := sc.Lookup(name).(*types.TypeName)
		if !ok || tn.IsAlias() {
			continue
		}
		n, ok := tn.Type().(*types.Named)
		if !ok || types.IsInterface(n) {
			continue
		}
		if types.Implements(types.NewPointer(n), it) || types.Implements(n, it) {
			out = append(out, n)
		}
	}
	return out
}

// ssaFunc returns the SSA function for "name" or "Type.name".
func (c *Ctx) ssaFunc(name string) *ssa.Function {
	if c.SSA == nil {
		return nil
	}
	if obj, ok := c.converted[name]; ok {
		return c.Prog.FuncValue(obj)
	}
	if i := strings.IndexByte(name, '.'); i >= 0 {
		tn, mn := name[:i], name[i+1:]
		n := c.named(tn)
		if n == nil {
			return nil
		}
		for _, t := range []types.Type{types.NewPointer(n), n} {
			ms := c.Prog.MethodSets.MethodSet(t)
			for j := 0; j < ms.Len(); j++ {
				if ms.At(j).Obj().Name() == mn && ms.At(j).Obj().Pkg() == c.Types {
					f := c.Prog.MethodValue(ms.At(j))
					// skip synthetic wrappers for promoted methods: want the declared function
					if f != nil && f.Synthetic != "" {
						if decl, ok := ms.At(j).Obj().(*types.Func); ok {
							if df := c.Prog.FuncValue(decl); df != nil {
								return df
							}
						}
					}
					return f
				}
			}
		}
		return nil
	}
	return c.SSA.Func(name)
}
