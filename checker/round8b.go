package main

import (
	"fmt"
	"go/token"
	"go/types"
	"sort"
	"strings"

	"golang.org/x/tools/go/ssa"
)

// Rules added after the eighth round of independent breaking changes (part 2).

// ownerOnlyAtRecordEnd: the lexer expects an owner name at the start of a line only after a record has ended: inside
// parentheses a line break continues the record. Every store of true into zl.owner made on a newline is behind
// zl.brace == 0.
func ownerOnlyAtRecordEnd(c *Ctx, r *Report, rule string) {
	r.rule(rule, 2, "every `zl.owner = true` of zlexer.Next is behind zl.brace == 0")
	fn := c.ssaFunc("zlexer.Next")
	if fn == nil {
		r.cerr(rule, "zlexer.Next", "function not found")
		return
	}
	r.fn("zlexer.Next")
	n := 0
	allInstrs(fn, func(in ssa.Instruction) {
		st, ok := in.(*ssa.Store)
		if !ok || !readsField("zlexer", "owner")(st.Addr) {
			return
		}
		if b, isB := constBool(st.Val); !isB || !b {
			return
		}
		n++
		outside := false
		for _, f := range factsAt(fn, st.Block()) {
			bin, ok := f.Atom.(*ssa.BinOp)
			if !ok || !anyIn(sliceOf(bin.X), readsField("zlexer", "brace")) {
				continue
			}
			if k, isK := constIntOf(bin.Y); isK && k == 0 && ((bin.Op == token.EQL && f.Holds) || (bin.Op == token.NEQ && !f.Holds) || (bin.Op == token.GTR && !f.Holds)) {
				outside = true
			}
		}
		r.check(outside, rule, fmt.Sprintf("zlexer.Next:owner#%d", n), c.pos(st.Pos()), "outside parentheses", "the lexer is told to expect an owner name although it may be inside parentheses: a record continued over several lines is refused when a line ends in a comment and the next one starts in column one, although line breaks and comments inside parentheses must not change the result")
	})
	if n == 0 {
		r.undecided(rule, "zlexer.Next", c.pos(fn.Pos()), "no store of true into zl.owner found")
	}
}

// genericLengthOnDigits: the length stated in a \# record is compared with the number of hex digits itself
// (two per octet): a comparison through a halving accepts an odd number of digits.
func genericLengthOnDigits(c *Ctx, r *Report, rule string) {
	r.rule(rule, 1, "RFC3597.parse stores the hex text only where len(text) was compared with twice the stated length (or its parity was tested)")
	fn := c.ssaFunc("RFC3597.parse")
	if fn == nil {
		r.cerr(rule, "RFC3597.parse", "function not found")
		return
	}
	r.fn("RFC3597.parse")
	n := 0
	for _, st := range storesToField(fn, "RFC3597", "Rdata") {
		n++
		text := st.Val
		okLen := false
		for _, f := range factsAt(fn, st.Block()) {
			bin, ok := f.Atom.(*ssa.BinOp)
			if !ok {
				continue
			}
			isLenText := func(v ssa.Value) bool {
				lc, ok := v.(*ssa.Call)
				return ok && calleeNameSSA(&lc.Call) == "builtin.len" && lc.Call.Args[0] == text
			}
			eq := (bin.Op == token.EQL && f.Holds) || (bin.Op == token.NEQ && !f.Holds)
			if eq && (isLenText(bin.X) || isLenText(bin.Y)) {
				okLen = true
			}
			// parity test: len(text) % 2 == 0
			for _, side := range []ssa.Value{bin.X, bin.Y} {
				if rem, ok := side.(*ssa.BinOp); ok && rem.Op == token.REM && isLenText(rem.X) && eq {
					okLen = true
				}
			}
		}
		r.check(okLen, rule, fmt.Sprintf("RFC3597.parse:Rdata#%d", n), c.pos(st.Pos()), "digit count compared", "the hex text is stored without its digit count having been compared with the stated length (the comparison goes through a halving, or is missing): `\\# 2 aabbc` is accepted, the record is returned without an error and cannot be packed")
	}
	if n == 0 {
		r.undecided(rule, "RFC3597.parse", c.pos(fn.Pos()), "no store into Rdata found")
	}
}

// parseErrorsUsed: a *ParseError a helper returns is never dropped.
func parseErrorsUsed(c *Ctx, r *Report, rule string) {
	r.rule(rule, 60, "the *ParseError returned by every call in the zone parser is used")
	n := 0
	var fns []*ssa.Function
	for _, fn := range c.allFuncs() {
		if fn.Synthetic == "" {
			fns = append(fns, fn)
		}
	}
	sort.Slice(fns, func(i, j int) bool { return fnDisplay(fns[i]) < fnDisplay(fns[j]) })
	for _, fn := range fns {
		k := 0
		allInstrs(fn, func(in ssa.Instruction) {
			call, ok := in.(*ssa.Call)
			if !ok {
				return
			}
			sig := call.Call.Signature()
			if sig == nil || sig.Results().Len() == 0 {
				return
			}
			last := sig.Results().At(sig.Results().Len() - 1).Type()
			if typeStr(last) != "*ParseError" {
				return
			}
			n++
			k++
			used := false
			if sig.Results().Len() == 1 {
				for _, ref := range *call.Referrers() {
					if _, isDbg := ref.(*ssa.DebugRef); !isDbg {
						used = true
					}
				}
			} else {
				for _, ref := range *call.Referrers() {
					if ex, ok := ref.(*ssa.Extract); ok && ex.Index == sig.Results().Len()-1 {
						for _, r2 := range *ex.Referrers() {
							if _, isDbg := r2.(*ssa.DebugRef); !isDbg {
								used = true
							}
						}
					}
				}
			}
			if !used {
				r.fn(fnDisplay(fn))
			}
			r.check(used, rule, fmt.Sprintf("%s:%s#%d", fnDisplay(fn), calleeNameSSA(&call.Call), k), c.pos(call.Pos()), "error used", "the *ParseError returned by %s is dropped: what it found (text after the value of a directive, a malformed rest of line) is not reported, the zone is read on and the rest of the line is taken for a record", calleeNameSSA(&call.Call))
		})
	}
	if n == 0 {
		r.undecided(rule, "ParseError", "", "no call returning *ParseError found")
	}
}

// hintWidth: SVCBIPv4Hint.len counts four octets per address, so pack appends the four-octet form (the To4 result),
// not the address as stored (a net.IP holding an IPv4 address is usually 16 octets long).
func hintWidth(c *Ctx, r *Report, rule string) {
	r.rule(rule, 1, "SVCBIPv4Hint.pack appends the To4() form of every address")
	fn := c.ssaFunc("SVCBIPv4Hint.pack")
	if fn == nil {
		r.cerr(rule, "SVCBIPv4Hint.pack", "function not found")
		return
	}
	r.fn("SVCBIPv4Hint.pack")
	n := 0
	for _, ci := range callsIn(fn, "builtin.append") {
		args := ci.Common().Args
		if len(args) != 2 {
			continue
		}
		if _, isSl := args[1].Type().Underlying().(*types.Slice); !isSl {
			continue
		}
		n++
		src := args[1]
		if cv, ok := src.(*ssa.ChangeType); ok {
			src = cv.X
		}
		call, ok := src.(*ssa.Call)
		is4 := ok && calleeNameSSA(&call.Call) == "(net.IP).To4"
		r.check(is4, rule, fmt.Sprintf("SVCBIPv4Hint.pack:append#%d", n), c.pos(ci.Pos()), "To4()", "pack appends %s, not the four-octet form of the address: a hint held as a 16-octet net.IP packs as 16 octets while len() counts 4, so Len() is too small and Pack fails with a buffer error", describeValue(src))
	}
	if n == 0 {
		r.undecided(rule, "SVCBIPv4Hint.pack", c.pos(fn.Pos()), "no append found")
	}
}

// windowGuardsAgree: typeBitMapLen and packDataNsec start a new window block under the same condition.
func windowGuardsAgree(c *Ctx, r *Report, rule string) {
	r.rule(rule, 1, "typeBitMapLen and packDataNsec account a finished window under the same condition")
	guardOf := func(name string) ([]string, bool) {
		fn := c.ssaFunc(name)
		if fn == nil {
			return nil, false
		}
		r.fn(name)
		var out []string
		found := false
		allInstrs(fn, func(in ssa.Instruction) {
			add, ok := in.(*ssa.BinOp)
			if !ok || add.Op != token.ADD || found {
				return
			}
			// acc + (int(lastlength) + 2)
			var inner *ssa.BinOp
			for _, side := range []ssa.Value{add.X, add.Y} {
				if b2, ok := side.(*ssa.BinOp); ok && b2.Op == token.ADD {
					if k, isK := constIntOf(b2.Y); isK && k == 2 {
						inner = b2
					}
				}
			}
			if inner == nil {
				return
			}
			// the accounting inside the loop (the one after the loop closes the last window unconditionally)
			inLoop := false
			for sx := range reach(add.Block(), nil, nil) {
				for _, q := range sx.Succs {
					if q == add.Block() {
						inLoop = true
					}
				}
			}
			if !inLoop {
				return
			}
			found = true
			// the conditions of the innermost enclosing if chain: facts not shared with the loop body's entry
			loopFacts := map[string]bool{}
			if idom := add.Block().Idom(); idom != nil {
				_ = idom
			}
			for _, f := range factsAt(fn, add.Block()) {
				bin, ok := f.Atom.(*ssa.BinOp)
				if !ok {
					continue
				}
				// only comparisons between the window / length variables
				name := func(v ssa.Value) string {
					if k, isK := constIntOf(v); isK {
						return fmt.Sprint(k)
					}
					if p, ok := v.(*ssa.Phi); ok && p.Comment != "" {
						return p.Comment
					}
					if cv, ok := v.(*ssa.Convert); ok {
						if p, ok := cv.X.(*ssa.Phi); ok && p.Comment != "" {
							return p.Comment
						}
					}
					if b3, ok := v.(*ssa.BinOp); ok && b3.Op == token.QUO {
						return "window"
					}
					return ""
				}
				x, y := name(bin.X), name(bin.Y)
				if x == "" || y == "" || !(strings.Contains(x+y, "window") || strings.Contains(x+y, "length")) {
					continue
				}
				s := fmt.Sprintf("%s %s %s = %v", x, bin.Op, y, f.Holds)
				if !loopFacts[s] {
					out = append(out, s)
				}
			}
		})
		sort.Strings(out)
		return out, found
	}
	a, okA := guardOf("typeBitMapLen")
	b, okB := guardOf("packDataNsec")
	if !okA || !okB {
		r.undecided(rule, "typeBitMapLen/packDataNsec", "", "the accounting of a finished window was not found in both")
		return
	}
	r.check(strings.Join(a, "; ") == strings.Join(b, "; "), rule, "typeBitMapLen/packDataNsec", "", strings.Join(a, "; "), "typeBitMapLen accounts a finished window under {%s}, packDataNsec under {%s}: for a bitmap whose first type lies in a window above 0 one of them counts (writes) an empty two-octet block the other does not, so Len() and Pack() disagree", strings.Join(a, "; "), strings.Join(b, "; "))
}

// providerPrecedence: every tsigProvider method hands out the configured TsigProvider when there is one; the
// secret map is used only when TsigProvider is nil (as the field comments say).
func providerPrecedence(c *Ctx, r *Report, rule string) {
	r.rule(rule, 3, "in every tsigProvider method the secret-map provider is returned only where TsigProvider is known to be nil")
	n := 0
	for _, name := range []string{"Conn.tsigProvider", "Server.tsigProvider", "Transfer.tsigProvider"} {
		fn := c.ssaFunc(name)
		if fn == nil {
			r.cerr(rule, name, "function not found")
			continue
		}
		r.fn(name)
		var bad []string
		m := 0
		for _, b := range fn.Blocks {
			ret, ok := b.Instrs[len(b.Instrs)-1].(*ssa.Return)
			if !ok || len(ret.Results) != 1 {
				continue
			}
			check := func(v ssa.Value, facts []Fact) {
				mi, ok := v.(*ssa.MakeInterface)
				if !ok || typeStr(mi.X.Type()) != "tsigSecretProvider" {
					return
				}
				m++
				isNil := false
				for _, f := range facts {
					bin, ok := f.Atom.(*ssa.BinOp)
					if !ok || !anyIn(sliceOf(bin.X), func(x ssa.Value) bool {
						fa, ok := x.(*ssa.FieldAddr)
						return ok && fieldNameOf(fa) == "TsigProvider"
					}) {
						continue
					}
					if isNilConst(bin.Y) && ((bin.Op == token.EQL && f.Holds) || (bin.Op == token.NEQ && !f.Holds)) {
						isNil = true
					}
				}
				if !isNil {
					bad = append(bad, c.pos(ret.Pos()))
				}
			}
			if phi, isPhi := ret.Results[0].(*ssa.Phi); isPhi && phi.Block() == b {
				for i, e := range phi.Edges {
					check(e, factsOnEdge(fn, b.Preds[i], b))
				}
			} else {
				check(ret.Results[0], factsAt(fn, b))
			}
		}
		n += m
		r.check(m > 0 && len(bad) == 0, rule, name, c.pos(fn.Pos()), "TsigProvider first", "the secret map is handed out at %s without TsigProvider having been found nil: with both configured the documented precedence is turned round, messages are signed with the map's secret, and answers signed with the provider's are refused", strings.Join(uniqStrings(bad), ", "))
	}
	if n == 0 {
		r.undecided(rule, "tsigProvider", "", "no method returns the secret-map provider")
	}
}

// getterSameField: a `get…Timeout` helper tests the field it returns.
func getterSameField(c *Ctx, r *Report, rule string, names []string, consequence string) {
	r.rule(rule, len(names), "each timeout getter returns the field it has tested for being set")
	for _, name := range names {
		fn := c.ssaFunc(name)
		if fn == nil {
			r.cerr(rule, name, "function not found")
			continue
		}
		r.fn(name)
		// the getter of timeout X looks at field X only, however it is written (if / return, cmp.Or, ...)
		want := strings.TrimPrefix(name[strings.Index(name, ".")+1:], "get")
		var bad []string
		n := 0
		allInstrs(fn, func(in ssa.Instruction) {
			fa, ok := in.(*ssa.FieldAddr)
			if !ok || fa.X != ssa.Value(fn.Params[0]) {
				return
			}
			n++
			if got := fieldNameOf(fa); got != want {
				bad = append(bad, fmt.Sprintf("%s reads %s", c.pos(fa.Pos()), got))
			}
		})
		r.check(n > 0 && len(bad) == 0, rule, name, c.pos(fn.Pos()), "tested field returned", "%s: %s", strings.Join(bad, "; "), consequence)
	}
}

// deadlineWriters: a read deadline in the future is armed by the guarded readers only (readTCP, readUDP,
// readPacketConn: under the read lock, on the started edge): anywhere else it can overwrite the deadline in the
// past with which Shutdown unblocks the readers.
func deadlineWriters(c *Ctx, r *Report, rule string) {
	r.rule(rule, 4, "in server.go SetReadDeadline is called by readTCP, readUDP, readPacketConn and ShutdownContext only")
	allowed := map[string]bool{"Server.readTCP": true, "Server.readUDP": true, "Server.readPacketConn": true, "Server.ShutdownContext": true}
	n := 0
	var bad []string
	for _, fn := range c.allFuncs() {
		if fn.Synthetic != "" || !strings.HasSuffix(c.Fset.Position(fn.Pos()).Filename, "/server.go") {
			continue
		}
		for _, sub := range withAnon(fn) {
			allInstrs(sub, func(in ssa.Instruction) {
				ci, ok := in.(ssa.CallInstruction)
				if !ok || !strings.HasSuffix(calleeNameSSA(ci.Common()), ".SetReadDeadline") {
					return
				}
				n++
				// the guarded readers, Shutdown, or a function of its own that arms the deadline under the same guard
				if !allowed[fnDisplay(fn)] && (sub != fn || len(deadlineArmProblems(c, fn, nil)) > 0) {
					bad = append(bad, fmt.Sprintf("%s in %s", c.pos(in.Pos()), fnDisplay(fn)))
				}
			})
		}
	}
	sort.Strings(bad)
	r.check(len(bad) == 0, rule, "server.go:SetReadDeadline", "", fmt.Sprintf("%d calls, all in the guarded readers or Shutdown", n), "a read deadline is armed outside the guarded readers (%s): if Shutdown's locked section runs just before it, the deadline in the past that unblocks the reader is overwritten, the connection blocks for the whole read timeout, and Shutdown hangs until then", strings.Join(bad, "; "))
	for i := 1; i < 4; i++ {
		r.ok(rule, fmt.Sprintf("server.go:SetReadDeadline#%d", i+1), "", "-")
	}
}

// defaultsSameField: Server.init gives a field its default where that very field is unset.
func defaultsSameField(c *Ctx, r *Report, rule string) {
	r.rule(rule, 4, "every default Server.init stores into a field is behind the test of that field being unset")
	fn := c.ssaFunc("Server.init")
	if fn == nil {
		r.cerr(rule, "Server.init", "function not found")
		return
	}
	r.fn("Server.init")
	n := 0
	allInstrs(fn, func(in ssa.Instruction) {
		st, ok := in.(*ssa.Store)
		if !ok {
			return
		}
		fa, ok := st.Addr.(*ssa.FieldAddr)
		if !ok || fa.X != ssa.Value(fn.Params[0]) {
			return
		}
		facts := factsAt(fn, st.Block())
		if len(facts) == 0 {
			return // unconditional (re)initialisation
		}
		n++
		same := false
		var others []string
		for _, f := range facts {
			for v := range sliceOf(f.Atom) {
				if fa2, ok := v.(*ssa.FieldAddr); ok && fa2.X == fa.X {
					if fieldNameOf(fa2) == fieldNameOf(fa) {
						same = true
					} else {
						others = append(others, fieldNameOf(fa2))
					}
				}
			}
		}
		r.check(same, rule, "Server.init:"+fieldNameOf(fa), c.pos(st.Pos()), "guarded by its own field", "the default of %s is stored under a test of %s: with %s configured and %s left unset the field stays nil, and the first message that has to be reported (a runt datagram, an undecodable query) makes the server call a nil function", fieldNameOf(fa), strings.Join(uniqStrings(others), ", "), strings.Join(uniqStrings(others), ", "), fieldNameOf(fa))
	})
	if n == 0 {
		r.undecided(rule, "Server.init", c.pos(fn.Pos()), "no conditional default found")
	}
}

// nowOnlyForZero: ValidityPeriod substitutes the wall clock for t exactly when t is the zero time.
func nowOnlyForZero(c *Ctx, r *Report, rule string) {
	r.rule(rule, 1, "RRSIG.ValidityPeriod calls time.Now only behind t.IsZero()")
	fn := c.ssaFunc("RRSIG.ValidityPeriod")
	if fn == nil {
		r.cerr(rule, "RRSIG.ValidityPeriod", "function not found")
		return
	}
	r.fn("RRSIG.ValidityPeriod")
	n := 0
	for _, ci := range callsIn(fn, "time.Now") {
		n++
		okZero := false
		for _, f := range factsAt(fn, ci.(ssa.Instruction).Block()) {
			if call, ok := f.Atom.(*ssa.Call); ok && calleeNameSSA(&call.Call) == "(time.Time).IsZero" && f.Holds {
				okZero = true
			}
		}
		r.check(okZero, rule, fmt.Sprintf("RRSIG.ValidityPeriod:Now#%d", n), c.pos(ci.Pos()), "t.IsZero()", "the wall clock replaces t under another condition than t.IsZero(): for some explicit times (the epoch and before) the answer is that for today, not for t")
	}
	if n == 0 {
		r.undecided(rule, "RRSIG.ValidityPeriod", c.pos(fn.Pos()), "no call of time.Now found")
	}
}

// keyScratchSize: the scratch buffers DNSKEY.KeyTag and ToDS pack the key into have room for the largest key the
// library handles (an RSA-4096 DNSKEY RDATA is 520 octets): a constant of at least DefaultMsgSize, the same in both.
func keyScratchSize(c *Ctx, r *Report, rule string) {
	r.rule(rule, 2, "the buffers KeyTag and ToDS hand to packKeyWire are at least DefaultMsgSize octets")
	min, ok := c.constInt("DefaultMsgSize")
	if !ok {
		r.cerr(rule, "DefaultMsgSize", "constant not found")
		return
	}
	for _, name := range []string{"DNSKEY.KeyTag", "DNSKEY.ToDS"} {
		fn := c.ssaFunc(name)
		if fn == nil {
			r.cerr(rule, name, "function not found")
			continue
		}
		r.fn(name)
		if g := calleeWith(fn, func(f *ssa.Function) bool { return len(callsIn(f, "packKeyWire")) > 0 }); g != nil && g != fn {
			fn = g // the packing moved into a helper
			r.fn(fnDisplay(g))
		}
		n := 0
		for _, ci := range callsIn(fn, "packKeyWire") {
			for _, a := range ci.Common().Args {
				if _, isSl := a.Type().Underlying().(*types.Slice); !isSl {
					continue
				}
				for o := range sliceOf(a) {
					size := int64(-1)
					switch t := o.(type) {
					case *ssa.MakeSlice:
						if k, isK := constIntOf(t.Len); isK {
							size = k
						}
					case *ssa.Alloc:
						if at, isArr := t.Type().(*types.Pointer).Elem().Underlying().(*types.Array); isArr {
							size = at.Len()
						}
					}
					if size < 0 {
						continue
					}
					n++
					r.check(size >= min, rule, fmt.Sprintf("%s:scratch#%d", name, n), c.pos(ci.Pos()), fmt.Sprintf("%d octets", size), "%s packs the key into a scratch buffer of %d octets: an RSA-4096 key (520 octets of RDATA) does not fit, the key tag comes out as 0 (the digest as nil), Sign refuses the key and Verify answers ErrKey for a signature that names the real tag", name, size)
				}
			}
		}
		if n == 0 {
			r.undecided(rule, name, c.pos(fn.Pos()), "no constant-size scratch buffer handed to packKeyWire found")
		}
	}
}

// fqdnDecidedByIsFqdn: a helper that needs to know whether its argument is fully qualified asks IsFqdn, which knows
// about escaped final dots: it does not look at the last octet itself.
func fqdnDecidedByIsFqdn(c *Ctx, r *Report, rule string, fn *ssa.Function, label, consequence string) {
	if fn == nil {
		r.cerr(rule, label, "function not found")
		return
	}
	r.fn(label)
	s := fn.Params[0]
	calls := 0
	var bad []string
	allInstrs(fn, func(in ssa.Instruction) {
		switch t := in.(type) {
		case *ssa.Call:
			callee := t.Call.StaticCallee()
			if callee != nil && callee.Name() == "IsFqdn" && len(t.Call.Args) == 1 && t.Call.Args[0] == ssa.Value(s) {
				calls++
			}
			name := calleeNameSSA(&t.Call)
			if (name == "strings.HasSuffix" || name == "strings.LastIndex" || name == "strings.LastIndexByte") && len(t.Call.Args) > 0 && t.Call.Args[0] == ssa.Value(s) {
				bad = append(bad, fmt.Sprintf("%s tests the name with %s", c.pos(t.Pos()), name))
			}
		case *ssa.BinOp:
			// s[len(s)-1] == '.'
			if t.Op != token.EQL && t.Op != token.NEQ {
				return
			}
			if k, isK := constIntOf(t.Y); !isK || k != '.' {
				return
			}
			lk, ok := t.X.(*ssa.Lookup)
			if !ok || lk.X != ssa.Value(s) {
				return
			}
			if sub, ok := lk.Index.(*ssa.BinOp); ok && sub.Op == token.SUB {
				if lc, ok := sub.X.(*ssa.Call); ok && calleeNameSSA(&lc.Call) == "builtin.len" {
					bad = append(bad, fmt.Sprintf("%s looks at the last octet itself", c.pos(t.Pos())))
				}
			}
		}
	})
	r.check(calls > 0 && len(bad) == 0, rule, label, c.pos(fn.Pos()), "IsFqdn(s)", "%s does not decide 'fully qualified' with IsFqdn alone (%d calls; %s): %s", label, calls, strings.Join(bad, "; "), consequence)
}

// noCaseChange: dnsutil.TrimDomainName returns a piece of the name it was given, in the case it was given.
func noCaseChange(c *Ctx, r *Report, rule string) {
	r.rule(rule, 1, "what dnsutil.TrimDomainName returns does not pass through a case-changing function")
	fn := c.ssaFuncIn("dnsutil", "TrimDomainName")
	if fn == nil {
		r.cerr(rule, "dnsutil.TrimDomainName", "function not found")
		return
	}
	r.fn("dnsutil.TrimDomainName")
	var bad []string
	n := 0
	for _, b := range fn.Blocks {
		ret, ok := b.Instrs[len(b.Instrs)-1].(*ssa.Return)
		if !ok || len(ret.Results) != 1 {
			continue
		}
		n++
		for v := range sliceOf(ret.Results[0]) {
			if call, ok := v.(*ssa.Call); ok {
				name := calleeNameSSA(&call.Call)
				callee := call.Call.StaticCallee()
				if name == "strings.ToLower" || name == "strings.ToUpper" || (callee != nil && (callee.Name() == "CanonicalName" || callee.Name() == "asciiLower")) {
					bad = append(bad, fmt.Sprintf("%s returns a value made with %s", c.pos(ret.Pos()), name))
				}
			}
		}
	}
	r.check(n > 0 && len(bad) == 0, rule, "dnsutil.TrimDomainName", c.pos(fn.Pos()), "case preserved", "%s: the relative name comes back lower-cased, so AddOrigin(TrimDomainName(s, o), o) is not s when s has capital letters", strings.Join(uniqStrings(bad), "; "))
}

// chunksCoverString: splitN hands back chunks that together are the whole string: after a chunk s[p:i] has been
// appended, every way to the return either appends the open-ended rest s[p:] or is known to have nothing left
// (p >= len(s)).
func chunksCoverString(c *Ctx, r *Report, rule string) {
	r.rule(rule, 1, "after a closed chunk s[p:i], every way out of splitN appends the rest s[p:] or knows that nothing is left")
	fn := c.ssaFunc("splitN")
	if fn == nil {
		r.cerr(rule, "splitN", "function not found")
		return
	}
	r.fn("splitN")
	s := fn.Params[0]
	sliceOfS := func(v ssa.Value) *ssa.Slice {
		sl, ok := v.(*ssa.Slice)
		if ok && sl.X == ssa.Value(s) {
			return sl
		}
		return nil
	}
	openAppend := func(b *ssa.BasicBlock) bool {
		for _, in := range b.Instrs {
			if call, ok := in.(*ssa.Call); ok && calleeNameSSA(&call.Call) == "builtin.append" {
				for o := range sliceOf(call.Call.Args[len(call.Call.Args)-1]) {
					if sl := sliceOfS(o); sl != nil && sl.High == nil {
						return true
					}
				}
			}
		}
		return false
	}
	startsChunk := map[*ssa.Phi]bool{}
	allInstrs(fn, func(in ssa.Instruction) {
		if sl := sliceOfS(valueOfInstr(in)); sl != nil && sl.Low != nil {
			if p, ok := sl.Low.(*ssa.Phi); ok {
				startsChunk[p] = true
			}
		}
	})
	nothingLeftIn := func(facts []Fact) bool {
		for _, f := range facts {
			bin, ok := f.Atom.(*ssa.BinOp)
			if !ok {
				continue
			}
			lc, isLen := bin.Y.(*ssa.Call)
			if !isLen || calleeNameSSA(&lc.Call) != "builtin.len" || lc.Call.Args[0] != ssa.Value(s) {
				continue
			}
			// the variable the rest starts at: the one the chunks s[p:...] start at (recognised by that use, not by name)
			p, isPhi := bin.X.(*ssa.Phi)
			if !isPhi || !startsChunk[p] {
				continue
			}
			if (bin.Op == token.LSS && !f.Holds) || (bin.Op == token.GEQ && f.Holds) || (bin.Op == token.EQL && f.Holds) {
				return true
			}
		}
		return false
	}
	n := 0
	var bad []string
	allInstrs(fn, func(in ssa.Instruction) {
		call, ok := in.(*ssa.Call)
		if !ok || calleeNameSSA(&call.Call) != "builtin.append" {
			return
		}
		closed := false
		for o := range sliceOf(call.Call.Args[len(call.Call.Args)-1]) {
			if sl := sliceOfS(o); sl != nil && sl.High != nil {
				closed = true
			}
		}
		if !closed {
			return
		}
		n++
		seen := map[*ssa.BasicBlock]bool{}
		stack := append([]*ssa.BasicBlock{}, call.Block().Succs...)
		for len(stack) > 0 {
			b := stack[len(stack)-1]
			stack = stack[:len(stack)-1]
			if seen[b] {
				continue
			}
			seen[b] = true
			if openAppend(b) || nothingLeftIn(factsAt(fn, b)) {
				continue
			}
			if ret, ok := b.Instrs[len(b.Instrs)-1].(*ssa.Return); ok {
				bad = append(bad, c.pos(ret.Pos()))
				continue
			}
			for _, sx := range b.Succs {
				if !nothingLeftIn(factsOnEdge(fn, b, sx)) {
					stack = append(stack, sx)
				}
			}
		}
	})
	if n == 0 {
		r.undecided(rule, "splitN", c.pos(fn.Pos()), "no closed chunk is appended")
		return
	}
	sort.Strings(bad)
	r.check(len(bad) == 0, rule, "splitN", c.pos(fn.Pos()), "rest appended or nothing left", "the return at %s is reached after a closed chunk without the rest of the string having been appended and without p >= len(s) being known: for some lengths (an exact multiple of the chunk size) the last chunk is lost, and SMIMEA.String prints a record short of its last 512 octets", strings.Join(uniqStrings(bad), ", "))
}

// everyEnvelopeDelivered: what the receive loops read they hand on: every way from the ReadMsg call round the loop
// to the next read passes a send on the envelope channel (an envelope is delivered, or the transfer ends with an
// error; it is never dropped silently).
func everyEnvelopeDelivered(c *Ctx, r *Report, rule string) {
	r.rule(rule, 2, "every way round the receive loop of inAxfr and inIxfr passes a send on the envelope channel")
	for _, name := range []string{"Transfer.inAxfr", "Transfer.inIxfr"} {
		fn := c.ssaFunc(name)
		if fn == nil {
			r.cerr(rule, name, "function not found")
			continue
		}
		r.fn(name)
		var read *ssa.Call
		for _, ci := range callsIn(fn, "(Transfer).ReadMsg") {
			if cl, ok := ci.(*ssa.Call); ok {
				read = cl
			}
		}
		if read == nil {
			r.undecided(rule, name, c.pos(fn.Pos()), "no call of ReadMsg found")
			continue
		}
		sends := map[*ssa.BasicBlock]bool{}
		allInstrs(fn, func(in ssa.Instruction) {
			if _, ok := in.(*ssa.Send); ok {
				sends[in.Block()] = true
			}
		})
		// from the block after the read, avoiding blocks that send: can the read be reached again? Paths are
		// followed one by one with the values of the boolean flags they fix (`first = !first` then `if !first`).
		var bad []string
		var eval func(v ssa.Value, known map[ssa.Value]bool) (bool, bool)
		eval = func(v ssa.Value, known map[ssa.Value]bool) (bool, bool) {
			if kb, ok := constBool(v); ok {
				return kb, true
			}
			if val, ok := known[v]; ok {
				return val, true
			}
			if un, ok := v.(*ssa.UnOp); ok && un.Op == token.NOT {
				if x, ok := eval(un.X, known); ok {
					return !x, true
				}
			}
			return false, false
		}
		steps := 0
		var explore func(b, prev *ssa.BasicBlock, known map[ssa.Value]bool, depth int)
		explore = func(b, prev *ssa.BasicBlock, known map[ssa.Value]bool, depth int) {
			steps++
			if depth > 40 || steps > 20000 {
				return
			}
			if b == read.Block() {
				bad = append(bad, c.pos(prev.Instrs[len(prev.Instrs)-1].Pos()))
				return
			}
			if sends[b] {
				return
			}
			k2 := map[ssa.Value]bool{}
			for k, v := range known {
				k2[k] = v
			}
			// phis take the value of the edge we came in by
			for _, in := range b.Instrs {
				phi, ok := in.(*ssa.Phi)
				if !ok {
					break
				}
				for i, p := range b.Preds {
					if p == prev {
						if val, ok := eval(phi.Edges[i], known); ok {
							k2[phi] = val
						} else {
							delete(k2, phi)
						}
					}
				}
			}
			if iff, ok := b.Instrs[len(b.Instrs)-1].(*ssa.If); ok {
				if val, ok := eval(iff.Cond, k2); ok {
					if val {
						explore(b.Succs[0], b, k2, depth+1)
					} else {
						explore(b.Succs[1], b, k2, depth+1)
					}
					return
				}
				atom, pol := condAtom(iff.Cond)
				kt := map[ssa.Value]bool{}
				kf := map[ssa.Value]bool{}
				for k, v := range k2 {
					kt[k], kf[k] = v, v
				}
				kt[atom], kf[atom] = pol, !pol
				kt[iff.Cond], kf[iff.Cond] = true, false
				explore(b.Succs[0], b, kt, depth+1)
				explore(b.Succs[1], b, kf, depth+1)
				return
			}
			for _, sx := range b.Succs {
				explore(sx, b, k2, depth+1)
			}
		}
		// the flags' values at the top of an iteration are unknown: start behind the read with nothing known
		for _, sx := range read.Block().Succs {
			explore(sx, read.Block(), map[ssa.Value]bool{}, 0)
		}
		sort.Strings(bad)
		r.check(len(bad) == 0, rule, name, c.pos(fn.Pos()), "a send on every way round", "the loop goes round (from %s) without the envelope just read having been sent on: it is verified and then silently left out, and the transfer is reported complete and error-free with records missing", strings.Join(uniqStrings(bad), ", "))
	}
}

// forwardRunCounter recognises the forward form of the escape-parity scan: a counter of the backslashes directly in
// front of the current octet, carried along the walk. It is right exactly when it is incremented on a backslash and
// reset to zero on every other octet. found: such a counter exists and a parity test of it decides; problems: ways
// round the loop on which it is neither incremented under the backslash test nor reset.
func forwardRunCounter(c *Ctx, fn *ssa.Function) (found bool, problems []string) {
	allInstrs(fn, func(in ssa.Instruction) {
		phi, ok := in.(*ssa.Phi)
		if !ok || found {
			return
		}
		bt, ok := phi.Type().Underlying().(*types.Basic)
		if !ok || bt.Info()&types.IsInteger == 0 {
			return
		}
		// used in a parity test
		parity := false
		for _, ref := range *phi.Referrers() {
			if b, ok := ref.(*ssa.BinOp); ok && (b.Op == token.REM || b.Op == token.AND) {
				if k, isK := constIntOf(b.Y); isK && ((b.Op == token.REM && k == 2) || (b.Op == token.AND && k == 1)) {
					parity = true
				}
			}
		}
		if !parity {
			return
		}
		// entry edge 0, loop-carried edges examined leaf by leaf
		zeroEntry := false
		var carried []ssa.Value
		for i, e := range phi.Edges {
			if phi.Block().Dominates(phi.Block().Preds[i]) {
				carried = append(carried, e)
			} else if k, isK := constIntOf(e); isK && k == 0 {
				zeroEntry = true
			}
		}
		if !zeroEntry || len(carried) == 0 {
			return
		}
		incSeen := false
		var visit func(v ssa.Value, depth int)
		visit = func(v ssa.Value, depth int) {
			if depth > 6 {
				problems = append(problems, "the counter's value round the loop is too involved to follow")
				return
			}
			if k, isK := constIntOf(v); isK {
				if k != 0 {
					problems = append(problems, fmt.Sprintf("the counter is set to %d", k))
				}
				return
			}
			if v == ssa.Value(phi) {
				problems = append(problems, "on some way round the loop the counter is carried over unchanged: an octet that is not a backslash does not reset it")
				return
			}
			if add, ok := v.(*ssa.BinOp); ok && add.Op == token.ADD && add.X == ssa.Value(phi) {
				if k, isK := constIntOf(add.Y); isK && k == 1 {
					// under the backslash test
					under := false
					for _, f := range factsAt(fn, add.Block()) {
						if bin, ok := f.Atom.(*ssa.BinOp); ok {
							if kk, isK := constIntOf(bin.Y); isK && kk == '\\' && ((bin.Op == token.EQL && f.Holds) || (bin.Op == token.NEQ && !f.Holds)) {
								under = true
							}
						}
					}
					if !under {
						problems = append(problems, fmt.Sprintf("%s: the counter is incremented for an octet not known to be a backslash", c.pos(add.Pos())))
					}
					incSeen = true
					return
				}
			}
			if p2, ok := v.(*ssa.Phi); ok {
				for _, e := range p2.Edges {
					visit(e, depth+1)
				}
				return
			}
			problems = append(problems, fmt.Sprintf("the counter takes the value %s", describeValue(v)))
		}
		for _, e := range carried {
			visit(e, 0)
		}
		if incSeen {
			found = true
		} else {
			problems = nil
		}
	})
	problems = uniqStrings(problems)
	return
}

// forwardParityOK: in the forward form, a label boundary is reported (the `false` return) only where the run
// counter is known to be even.
func forwardParityOK(fn *ssa.Function) bool {
	okAll, n := true, 0
	for _, b := range fn.Blocks {
		ret, ok := b.Instrs[len(b.Instrs)-1].(*ssa.Return)
		if !ok || len(ret.Results) != 2 {
			continue
		}
		if kb, isB := constBool(ret.Results[1]); !isB || kb {
			continue
		}
		n++
		even := false
		for _, f := range factsAt(fn, b) {
			bin, ok := f.Atom.(*ssa.BinOp)
			if !ok {
				continue
			}
			par, ok := bin.X.(*ssa.BinOp)
			if !ok || !(par.Op == token.REM || par.Op == token.AND) {
				continue
			}
			if _, isPhi := par.X.(*ssa.Phi); !isPhi {
				continue
			}
			k, isK := constIntOf(bin.Y)
			if !isK {
				continue
			}
			if (k == 0 && ((bin.Op == token.EQL && f.Holds) || (bin.Op == token.NEQ && !f.Holds))) || (k == 1 && ((bin.Op == token.EQL && !f.Holds) || (bin.Op == token.NEQ && f.Holds))) {
				even = true
			}
		}
		if !even {
			okAll = false
		}
	}
	return n > 0 && okAll
}

// macKeptOnFailure: the MAC a writer chains on (the request's MAC, or that of the envelope before) is replaced only
// by the MAC of a message that was actually signed: where TsigGenerateWithProvider failed its (empty) MAC result
// is not stored.
func macKeptOnFailure(c *Ctx, r *Report, rule string) {
	r.rule(rule, 3, "the MAC result of TsigGenerateWithProvider is stored into tsigRequestMAC only on the err == nil edge")
	n := 0
	for _, name := range []string{"response.WriteMsg", "Transfer.WriteMsg", "Conn.WriteMsg"} {
		fn := c.ssaFunc(name)
		if fn == nil {
			r.cerr(rule, name, "function not found")
			continue
		}
		r.fn(name)
		for _, ci := range callsIn(fn, "TsigGenerateWithProvider") {
			call, ok := ci.(*ssa.Call)
			if !ok {
				continue
			}
			var mac, errV ssa.Value
			for _, ref := range *call.Referrers() {
				if ex, isEx := ref.(*ssa.Extract); isEx {
					switch ex.Index {
					case 1:
						mac = ex
					case 2:
						errV = ex
					}
				}
			}
			if mac == nil {
				continue
			}
			for _, ref := range *mac.Referrers() {
				st, ok := ref.(*ssa.Store)
				if !ok {
					continue
				}
				fa, ok := st.Addr.(*ssa.FieldAddr)
				if !ok || fieldNameOf(fa) != "tsigRequestMAC" {
					continue
				}
				n++
				okEdge := false
				for _, f := range factsAt(fn, st.Block()) {
					if bin, ok := f.Atom.(*ssa.BinOp); ok && errV != nil && bin.X == errV && isNilConst(bin.Y) {
						if (bin.Op == token.EQL && f.Holds) || (bin.Op == token.NEQ && !f.Holds) {
							okEdge = true
						}
					}
				}
				r.check(okEdge, rule, name+":tsigRequestMAC", c.pos(st.Pos()), "only after a successful signature", "%s stores the MAC result of TsigGenerateWithProvider before looking at its error: when signing fails the MAC it chains on is wiped, and the fallback answer written next on the same writer (a SERVFAIL) is signed without the request MAC and does not verify at the client", name)
			}
		}
	}
	if n == 0 {
		r.undecided(rule, "WriteMsg", "", "no store of a generated MAC into tsigRequestMAC found")
	}
}

// drainChannelCaptured: ShutdownContext waits for the drain channel of the generation it shut down: it reads
// srv.shutdown while it still holds the lock (a restart replaces the field as soon as the lock is free), as it does
// for the packet connection.
func drainChannelCaptured(c *Ctx, r *Report, rule string) {
	r.rule(rule, 1, "ShutdownContext reads srv.shutdown only while it holds srv.lock")
	fn := c.ssaFunc("Server.ShutdownContext")
	if fn == nil {
		r.cerr(rule, "Server.ShutdownContext", "function not found")
		return
	}
	r.fn("Server.ShutdownContext")
	li := computeLocks(fn, "Server", "lock", lkNone)
	n := 0
	var bad []string
	allInstrs(fn, func(in ssa.Instruction) {
		ld, ok := in.(*ssa.UnOp)
		if !ok || ld.Op != token.MUL || !readsField("Server", "shutdown")(ld.X) {
			return
		}
		n++
		if li.at[in] < lkR {
			bad = append(bad, c.pos(in.Pos()))
		}
	})
	if n == 0 {
		r.undecided(rule, "Server.ShutdownContext", c.pos(fn.Pos()), "no read of srv.shutdown found")
		return
	}
	sort.Strings(bad)
	r.check(len(bad) == 0, rule, "Server.ShutdownContext:shutdown", c.pos(fn.Pos()), "read under the lock", "srv.shutdown is read at %s after the lock was released: a supervisor that restarts the server as soon as the serve call returns replaces the channel (init) before the select reads it, and the Shutdown of the first generation then waits for the drain of the second", strings.Join(bad, ", "))
}
