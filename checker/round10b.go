package main

import (
	"fmt"
	"go/token"
	"go/types"
	"os"
	"sort"
	"strings"

	"golang.org/x/tools/go/ssa"
)

// Rules added after the tenth round of independent breaking changes, part 2.

// dddReadersAgree: nextByte, the escape reader of the printers, takes three digits behind a backslash for one octet
// whenever isDDD says so, with the value dddToByte gives: as the packers and IsDomainName do. No return on the isDDD
// edge hands back anything else.
func dddReadersAgree(c *Ctx, r *Report, rule, consequence string) {
	r.rule(rule, 1, "every return of nextByte on the edge where isDDD holds is (dddToByte(...), 4)")
	fn := c.ssaFunc("nextByte")
	if fn == nil {
		r.cerr(rule, "nextByte", "function not found")
		return
	}
	r.fn("nextByte")
	var ddd []*ssa.Call
	for _, ci := range callsIn(fn, "isDDD") {
		if call, ok := ci.(*ssa.Call); ok {
			ddd = append(ddd, call)
		}
	}
	if len(ddd) == 0 {
		r.undecided(rule, "nextByte", c.pos(fn.Pos()), "no isDDD call found")
		return
	}
	var bad []string
	n := 0
	for _, call := range ddd {
		// blocks reachable from the true edge of the test of this call, not crossing its false edge
		for _, b := range fn.Blocks {
			ifi, ok := b.Instrs[len(b.Instrs)-1].(*ssa.If)
			if !ok {
				continue
			}
			atom, pol := condAtom(ifi.Cond)
			if atom != ssa.Value(call) {
				continue
			}
			start := b.Succs[0]
			if !pol {
				start = b.Succs[1]
			}
			for rb := range reach(start, nil, nil) {
				ret, isRet := rb.Instrs[len(rb.Instrs)-1].(*ssa.Return)
				if !isRet || len(ret.Results) != 2 {
					continue
				}
				// only returns that can be reached from the true edge alone
				other := b.Succs[1]
				if !pol {
					other = b.Succs[0]
				}
				if reach(other, nil, nil)[rb] && !start.Dominates(rb) && start != rb {
					continue
				}
				n++
				k, isK := constIntOf(ret.Results[1])
				fromDDD := anyIn(sliceOf(ret.Results[0]), callsFunc("dddToByte"))
				if !isK || k != 4 || !fromDDD {
					bad = append(bad, c.pos(ret.Pos()))
				}
			}
		}
	}
	r.check(n > 0 && len(bad) == 0, rule, "nextByte", c.pos(fn.Pos()), "(dddToByte, 4) on the isDDD edge", "where three digits follow the backslash nextByte returns something else than (dddToByte(...), 4) at %s: the printers read that text differently from the packers and IsDomainName (which take any three digits for one octet): %s", strings.Join(uniqStrings(bad), ", "), consequence)
}

// appendOriginWhole: appendOrigin joins the relative name and the origin as they are: the two parameters themselves
// are operands of the concatenation (a relative name may end in an escaped dot, which is content).
func appendOriginWhole(c *Ctx, r *Report, rule string) {
	r.rule(rule, 1, "appendOrigin concatenates its two parameters themselves (no trimming)")
	fn := c.ssaFunc("appendOrigin")
	if fn == nil || len(fn.Params) != 2 {
		r.cerr(rule, "appendOrigin", "function not found")
		return
	}
	r.fn("appendOrigin")
	var bad []string
	n := 0
	for _, b := range fn.Blocks {
		ret, ok := b.Instrs[len(b.Instrs)-1].(*ssa.Return)
		if !ok || len(ret.Results) != 1 {
			continue
		}
		n++
		var leaves []ssa.Value
		var flat func(v ssa.Value, d int)
		flat = func(v ssa.Value, d int) {
			if bo, isB := v.(*ssa.BinOp); isB && bo.Op == token.ADD && d < 8 {
				flat(bo.X, d+1)
				flat(bo.Y, d+1)
				return
			}
			leaves = append(leaves, v)
		}
		flat(ret.Results[0], 0)
		hasName, hasOrigin := false, false
		for _, l := range leaves {
			switch {
			case l == ssa.Value(fn.Params[0]):
				hasName = true
			case l == ssa.Value(fn.Params[1]):
				hasOrigin = true
			default:
				if _, isK := l.(*ssa.Const); !isK {
					bad = append(bad, fmt.Sprintf("%s: %s", c.pos(ret.Pos()), describeValue(l)))
				}
			}
		}
		if !hasName || !hasOrigin {
			bad = append(bad, fmt.Sprintf("%s: the name or the origin itself is not part of the result", c.pos(ret.Pos())))
		}
	}
	r.check(n > 0 && len(bad) == 0, rule, "appendOrigin", c.pos(fn.Pos()), "name + [.] + origin", "the absolute name is not the relative name and the origin joined as they are (%s): a relative name whose last octet is an escaped dot (`a\\.`) loses that dot or fuses with the origin into one label", strings.Join(uniqStrings(bad), "; "))
}

// insertOnMissOnly: packDomainName records a suffix in the compression map only where the lookup of that suffix has
// not just succeeded: after a hit the name continues as a pointer to the first occurrence, and recording the position
// of the pointer itself makes later names point at pointers (chains that grow with every repetition).
func insertOnMissOnly(c *Ctx, r *Report, rule string) {
	r.rule(rule, 1, "no compression.insert in packDomainName is made on the edge where compression.find succeeded")
	fn := c.ssaFunc("packDomainName")
	if fn == nil {
		r.cerr(rule, "packDomainName", "function not found")
		return
	}
	r.fn("packDomainName")
	inserts := callsIn(fn, "(compressionMap).insert")
	if len(inserts) == 0 {
		r.undecided(rule, "packDomainName", c.pos(fn.Pos()), "no insert found")
		return
	}
	isFindOK := func(v ssa.Value) bool {
		ex, ok := v.(*ssa.Extract)
		if !ok || ex.Index != 1 {
			return false
		}
		call, ok := ex.Tuple.(*ssa.Call)
		return ok && calleeNameSSA(&call.Call) == "(compressionMap).find"
	}
	var bad []string
	for _, ins := range inserts {
		for _, f := range factsAt(fn, ins.Block()) {
			if f.Holds && isFindOK(f.Atom) {
				bad = append(bad, c.pos(ins.Pos()))
			}
		}
	}
	r.check(len(bad) == 0, rule, "packDomainName:insert", c.pos(fn.Pos()), fmt.Sprintf("%d inserts, none behind a hit", len(inserts)), "a suffix is recorded at %s although it was just found in the map: it is recorded at the offset of the pointer written for it, so the next name that ends in it points at a pointer; each repetition adds a hop, independent decoders refuse pointer-to-pointer chains early and this package's own limit is reached with a large RRset of one owner", strings.Join(uniqStrings(bad), ", "))
}

// selectorMaskedInText: AMTRELAY.String looks at the discovery bit and the relay type through the masks 0x80 and
// 0x7f, as the wire codecs do: GatewayType is never compared as a whole.
func selectorMaskedInText(c *Ctx, r *Report, rule string) {
	r.rule(rule, 1, "AMTRELAY.String compares GatewayType only through a mask")
	fn := c.ssaFunc("AMTRELAY.String")
	if fn == nil {
		r.cerr(rule, "AMTRELAY.String", "function not found")
		return
	}
	r.fn("AMTRELAY.String")
	isGT := func(v ssa.Value) bool {
		if cv, ok := v.(*ssa.Convert); ok {
			v = cv.X
		}
		ld, ok := v.(*ssa.UnOp)
		return ok && ld.Op == token.MUL && readsField("AMTRELAY", "GatewayType")(ld.X)
	}
	var bad []string
	n := 0
	allInstrs(fn, func(in ssa.Instruction) {
		bin, ok := in.(*ssa.BinOp)
		if !ok {
			return
		}
		switch bin.Op {
		case token.EQL, token.NEQ, token.LSS, token.LEQ, token.GTR, token.GEQ:
			if isGT(bin.X) || isGT(bin.Y) {
				bad = append(bad, fmt.Sprintf("%s (%s)", c.pos(bin.Pos()), bin.Op))
			}
		case token.AND:
			if isGT(bin.X) || isGT(bin.Y) {
				n++
			}
		}
	})
	r.check(n > 0 && len(bad) == 0, rule, "AMTRELAY.String", c.pos(fn.Pos()), "masked", "GatewayType is compared unmasked at %s: the discovery bit (0x80) and the relay type (low seven bits) share the octet, so a record with D=1 and relay type 0 (octet 0x80) is printed with D=0, and reads back as other RDATA", strings.Join(bad, ", "))
}

// emptyAlpnAccepted: what SVCBAlpn.unpack accepts and String prints (an empty list) SVCBAlpn.parse reads back.
func emptyAlpnAccepted(c *Ctx, r *Report, rule string) {
	r.rule(rule, 1, "SVCBAlpn.parse does not refuse the empty value (which unpack accepts and String prints)")
	fn := c.ssaFunc("SVCBAlpn.parse")
	if fn == nil || len(fn.Params) < 2 {
		r.cerr(rule, "SVCBAlpn.parse", "function not found")
		return
	}
	r.fn("SVCBAlpn.parse")
	b := fn.Params[1]
	var lens []ssa.Value
	allInstrs(fn, func(in ssa.Instruction) {
		if call, ok := in.(*ssa.Call); ok && calleeNameSSA(&call.Call) == "builtin.len" && call.Call.Args[0] == ssa.Value(b) {
			lens = append(lens, call)
		}
	})
	env := map[ssa.Value]int64{}
	for _, lc := range lens {
		env[lc] = 0
	}
	x := &scalarExec{pkg: fn.Pkg}
	res := x.run(fn, fn.Blocks[0], 0, env, 0)
	if !res.Returned {
		r.undecided(rule, "SVCBAlpn.parse", c.pos(fn.Pos()), "the way an empty value takes through parse could not be followed")
		return
	}
	r.check(len(res.NilConst) == 1 && res.NilConst[0], rule, "SVCBAlpn.parse", c.pos(fn.Pos()), "empty list accepted", "SVCBAlpn.parse returns an error for the empty value: an SVCB / HTTPS record from the wire whose alpn value is empty unpacks and prints as alpn=\"\", and that text is refused by the zone parser")
}

// gatewayTypeDecides: parseAddrHostUnion reads the gateway token as the gateway type says: as nothing for type 0, as
// an address for 1 and 2, as a domain name for 3, whatever the token looks like (a lone dot is the root name for
// type 3, not "no gateway").
func gatewayTypeDecides(c *Ctx, r *Report, rule string) {
	r.rule(rule, 4, "parseAddrHostUnion reads the token by the gateway type alone: 0 nothing, 1/2 net.ParseIP, 3 toAbsoluteName")
	fn := c.ssaFunc("parseAddrHostUnion")
	if fn == nil || len(fn.Params) != 3 {
		r.cerr(rule, "parseAddrHostUnion", "function not found")
		return
	}
	r.fn("parseAddrHostUnion")
	// comparisons of strings with constants (token == "."): both outcomes are tried
	var strTests []ssa.Value
	allInstrs(fn, func(in ssa.Instruction) {
		bin, ok := in.(*ssa.BinOp)
		if !ok || (bin.Op != token.EQL && bin.Op != token.NEQ) {
			return
		}
		if bt, isB := bin.X.Type().Underlying().(*types.Basic); isB && bt.Info()&types.IsString != 0 {
			strTests = append(strTests, bin)
		}
	})
	want := map[int64]string{0: "", 1: "net.ParseIP", 2: "net.ParseIP", 3: "toAbsoluteName"}
	for gt := int64(0); gt <= 3; gt++ {
		var problems []string
		for mask := 0; mask < 1<<uint(len(strTests)) && mask < 16; mask++ {
			env := map[ssa.Value]int64{fn.Params[2]: gt}
			bindNilTests(fn, env)
			for i, st := range strTests {
				env[st] = int64((mask >> uint(i)) & 1)
			}
			var readers []string
			x := &scalarExec{pkg: fn.Pkg}
			x.visit = func(in ssa.Instruction, val func(ssa.Value) (int64, bool)) {
				if call, ok := in.(*ssa.Call); ok {
					switch n := calleeNameSSA(&call.Call); n {
					case "net.ParseIP", "toAbsoluteName":
						readers = append(readers, n)
					}
				}
			}
			res := x.run(fn, fn.Blocks[0], 0, env, 0)
			if res.GaveUp {
				continue // a test on the parsed address: the reader has been called by then
			}
			got := strings.Join(uniqStrings(readers), ",")
			errReturned := res.Returned && len(res.NilConst) == 3 && !res.NilConst[2]
			if got != want[gt] && !(errReturned && got == "") {
				problems = append(problems, fmt.Sprintf("with the string tests coming out %0*b the token is read with [%s], want [%s]", len(strTests), mask, got, want[gt]))
			}
			if gt == 3 && got == "" && !errReturned {
				problems = append(problems, "for type 3 a token can be accepted without being read as a domain name")
			}
		}
		r.check(len(problems) == 0, rule, fmt.Sprintf("parseAddrHostUnion:type%d", gt), c.pos(fn.Pos()), "read as "+map[bool]string{true: "nothing", false: want[gt]}[want[gt] == ""], "%s: an IPSECKEY / AMTRELAY whose gateway is the root name (type 3, `.`) is read back without a gateway and its RDATA loses the root octet", strings.Join(uniqStrings(problems), "; "))
	}
}

// originLeavesOwner: the $ORIGIN directive changes the origin and nothing else: between the directive's name having
// been read and the next token, the owner carried over for lines that omit theirs is not written.
func originLeavesOwner(c *Ctx, r *Report, rule string) {
	r.rule(rule, 1, "no store into the carried owner name shares a token's handling with the store of ZoneParser.origin")
	fn := c.ssaFunc("ZoneParser.Next")
	if fn == nil {
		r.cerr(rule, "ZoneParser.Next", "function not found")
		return
	}
	r.fn("ZoneParser.Next")
	origins := storesToField(fn, "ZoneParser", "origin")
	if len(origins) == 0 {
		r.undecided(rule, "ZoneParser.Next", c.pos(fn.Pos()), "no store of the origin found")
		return
	}
	readsToken := func(b *ssa.BasicBlock) bool {
		for _, in := range b.Instrs {
			if call, ok := in.(*ssa.Call); ok && strings.HasSuffix(calleeNameSSA(&call.Call), "zlexer).Next") {
				return true
			}
		}
		return false
	}
	tokenBlocks := map[*ssa.BasicBlock]bool{}
	for _, b := range fn.Blocks {
		if readsToken(b) {
			tokenBlocks[b] = true
		}
	}
	var bad []string
	for _, st := range storesToField(fn, "RR_Header", "Name") {
		// from the owner store, is an origin store reachable before the next token is read?
		seen := reach(st.Block(), nil, tokenBlocks)
		for _, os := range origins {
			if seen[os.Block()] && (os.Block() != st.Block() || instrIndex(st) < instrIndex(os)) {
				bad = append(bad, c.pos(st.Pos()))
			}
		}
	}
	r.check(len(bad) == 0, rule, "ZoneParser.Next:$ORIGIN", c.pos(fn.Pos()), "the carried owner is untouched", "the owner carried over from the previous record is rewritten at %s while a $ORIGIN directive is handled: a record line without owner after `$ORIGIN` belongs to the previous record's owner (RFC 1035 5.1), not to the new origin", strings.Join(uniqStrings(bad), ", "))
}

// includeTailOptional: behind the file name of $INCLUDE only a string token is taken for an origin; the end of the
// line (after a blank, a comment) is not an error.
func includeTailOptional(c *Ctx, r *Report, rule string) {
	r.rule(rule, 1, "in the $INCLUDE state `bad origin name` is raised only for a string token")
	fn := c.ssaFunc("ZoneParser.Next")
	zstr, ok1 := c.constInt("zString")
	zinc, ok2 := c.constInt("zExpectDirInclude")
	if fn == nil || !ok1 || !ok2 {
		r.cerr(rule, "ZoneParser.Next", "function or constants not found")
		return
	}
	r.fn("ZoneParser.Next")
	n := 0
	var bad []string
	for _, ci := range callsIn(fn, "(ZoneParser).setParseError") {
		args := ci.Common().Args
		if len(args) < 3 {
			continue
		}
		k, isK := args[1].(*ssa.Const)
		if !isK || k.Value == nil || !strings.Contains(k.Value.ExactString(), "bad origin name") {
			continue
		}
		inInclude, isString := false, false
		for _, f := range factsAt(fn, ci.Block()) {
			bin, ok := f.Atom.(*ssa.BinOp)
			if !ok || (bin.Op != token.EQL && bin.Op != token.NEQ) {
				continue
			}
			kk, isKK := constIntOf(bin.Y)
			if !isKK {
				continue
			}
			eq := (bin.Op == token.EQL) == f.Holds
			if kk == zinc && eq {
				if _, isPhi := bin.X.(*ssa.Phi); isPhi {
					inInclude = true
				}
			}
			if kk == zstr && eq {
				// the class of the very token the error is about (the one read last), not of the file name before it
				for o := range sliceOf(bin.X) {
					if call, isCall := o.(*ssa.Call); isCall && strings.HasSuffix(calleeNameSSA(&call.Call), "zlexer).Next") && sliceOf(args[2])[o] {
						isString = true
					}
				}
			}
		}
		if !inInclude {
			continue
		}
		n++
		if !isString {
			bad = append(bad, c.pos(ci.Pos()))
		}
	}
	r.check(n > 0 && len(bad) == 0, rule, "ZoneParser.Next:$INCLUDE", c.pos(fn.Pos()), "only a string token is an origin", "`bad origin name` is raised at %s for a token that is not a string: `$INCLUDE file ; comment` and `$INCLUDE file` followed by a blank are refused although the origin argument is optional", strings.Join(bad, ", "))
}

// tokenLoopsEndAtEOF: a loop that takes tokens from the zone lexer can leave on the end of input: some test inside
// it looks at zEOF, at the lexer's ok result, or at the token's error flag. (A loop that waits for a newline only spins
// for ever on input that ends in the middle of a line.)
func tokenLoopsEndAtEOF(c *Ctx, r *Report, rule string) {
	r.rule(rule, 10, "every loop around zlexer.Next has an exit that depends on zEOF / the ok result / the error flag")
	zeof, ok := c.constInt("zEOF")
	if !ok {
		r.cerr(rule, "zEOF", "constant not found")
		return
	}
	n := 0
	for _, fn := range c.allFuncs() {
		for _, ci := range fn.Blocks {
			_ = ci
		}
		var calls []*ssa.Call
		allInstrs(fn, func(in ssa.Instruction) {
			if call, ok := in.(*ssa.Call); ok && strings.HasSuffix(calleeNameSSA(&call.Call), "zlexer).Next") {
				calls = append(calls, call)
			}
		})
		done := map[*ssa.BasicBlock]bool{}
		for _, call := range calls {
			cb := call.Block()
			if done[cb] || !selfReach(cb) {
				continue
			}
			done[cb] = true
			// the loop: blocks on a cycle through cb
			fromCb := reach(cb, nil, nil)
			var loop []*ssa.BasicBlock
			for _, b := range fn.Blocks {
				if fromCb[b] && reach(b, nil, nil)[cb] {
					loop = append(loop, b)
				}
			}
			n++
			okExit := false
			for _, b := range loop {
				ifi, isIf := b.Instrs[len(b.Instrs)-1].(*ssa.If)
				if !isIf {
					continue
				}
				// an exit edge?
				exits := false
				inLoop := map[*ssa.BasicBlock]bool{}
				for _, lb := range loop {
					inLoop[lb] = true
				}
				for _, s := range b.Succs {
					if !inLoop[s] {
						exits = true
					}
				}
				if !exits {
					// a test that leads to an exit without coming back: returns inside the loop body count too
					for _, s := range b.Succs {
						if !reach(s, nil, nil)[cb] {
							exits = true
						}
					}
				}
				if !exits {
					continue
				}
				for o := range sliceOf(ifi.Cond) {
					switch t := o.(type) {
					case *ssa.BinOp:
						if k, isK := constIntOf(t.Y); isK && k == zeof && (t.Op == token.EQL || t.Op == token.NEQ) {
							okExit = true
						}
					case *ssa.Extract:
						if cl, isCall := t.Tuple.(*ssa.Call); isCall && t.Index == 1 && strings.HasSuffix(calleeNameSSA(&cl.Call), "zlexer).Next") {
							okExit = true
						}
					case *ssa.FieldAddr:
						if fieldNameOf(t) == "err" {
							okExit = true
						}
					case *ssa.Field:
						if st, isSt := t.X.Type().Underlying().(*types.Struct); isSt && st.Field(t.Field).Name() == "err" {
							okExit = true
						}
					}
				}
			}
			// a `switch l.value { case zNewline, zEOF: break }` is lowered to comparisons too: covered above
			r.fn(fnDisplay(fn))
			r.check(okExit, rule, fmt.Sprintf("%s:loop@%d", fnDisplay(fn), cb.Index), c.pos(call.Pos()), "can end at the end of input", "the loop that takes tokens from the lexer in %s has no exit that looks at zEOF, the ok result or the error flag: input that ends inside the record (no final newline, an unclosed parenthesis) makes the parser spin for ever", fnDisplay(fn))
		}
	}
	if n == 0 {
		r.undecided(rule, "token loops", "", "no loop around zlexer.Next found")
	}
}

// tokenClassesRefused: in endingToString every token class other than a string or a blank ends the field with an
// error: a quote, an owner or a type token in the middle of a base64 / hex field is not skipped.
func tokenClassesRefused(c *Ctx, r *Report, rule string) {
	r.rule(rule, 1, "endingToString refuses every token class other than zString and zBlank")
	fn := c.ssaFunc("endingToString")
	if fn == nil {
		r.cerr(rule, "endingToString", "function not found")
		return
	}
	r.fn("endingToString")
	classes := map[string]int64{}
	for _, n := range []string{"zEOF", "zString", "zBlank", "zQuote", "zNewline", "zRrtpe", "zOwner", "zClass", "zDirOrigin", "zDirTTL", "zDirInclude", "zDirGenerate", "zValue", "zKey"} {
		if v, ok := c.constInt(n); ok {
			classes[n] = v
		}
	}
	if len(classes) < 8 {
		r.cerr(rule, "token classes", "constants not found")
		return
	}
	// loads of the token's class and of its error flag
	var valueLoads, errLoads []ssa.Value
	allInstrs(fn, func(in ssa.Instruction) {
		switch t := in.(type) {
		case *ssa.UnOp:
			if t.Op == token.MUL {
				if fa, ok := t.X.(*ssa.FieldAddr); ok {
					switch fieldNameOf(fa) {
					case "value":
						valueLoads = append(valueLoads, t)
					case "err":
						errLoads = append(errLoads, t)
					}
				}
			}
		case *ssa.Field:
			if st, ok := t.X.Type().Underlying().(*types.Struct); ok {
				switch st.Field(t.Field).Name() {
				case "value":
					valueLoads = append(valueLoads, t)
				case "err":
					errLoads = append(errLoads, t)
				}
			}
		}
	})
	// the loop header: the first block with a test of the class
	var head *ssa.BasicBlock
	for _, b := range fn.Blocks {
		if backTarget(fn, b) && head == nil {
			head = b
		}
	}
	if head == nil || len(valueLoads) == 0 {
		r.undecided(rule, "endingToString", c.pos(fn.Pos()), "the token loop was not found")
		return
	}
	var names []string
	for n := range classes {
		names = append(names, n)
	}
	sort.Strings(names)
	var bad []string
	for _, n := range names {
		if n == "zString" || n == "zBlank" || n == "zNewline" || n == "zEOF" {
			continue
		}
		env := map[ssa.Value]int64{}
		for _, v := range valueLoads {
			env[v] = classes[n]
		}
		for _, v := range errLoads {
			env[v] = 0
		}
		x := &scalarExec{pkg: fn.Pkg, region: head}
		res := x.run(fn, head, 0, env, 0)
		refused := res.Returned && len(res.NilConst) == 2 && !res.NilConst[1]
		if res.GaveUp {
			r.undecided(rule, "endingToString", c.pos(fn.Pos()), "the handling of a %s token could not be followed", n)
			return
		}
		if !refused {
			bad = append(bad, n)
		}
	}
	r.check(len(bad) == 0, rule, "endingToString", c.pos(fn.Pos()), "only strings and blanks are taken", "a token of class %s in the middle of the field is passed over without an error: a quote inside the base64 / hex RDATA of a DNSKEY, DS, RRSIG or TLSA is silent, and an unterminated one swallows the following records into the field", strings.Join(bad, ", "))
}

// gatewayPackByType: packIPSECGateway writes what the gateway type says: nothing for 0, an IPv4 address for 1, an IPv6
// address for 2, a domain name for 3 (what the len methods count).
func gatewayPackByType(c *Ctx, r *Report, rule string) {
	r.rule(rule, 4, "packIPSECGateway calls no packer for type 0, packDataA for 1, packDataAAAA for 2, packDomainName for 3")
	fn := c.ssaFunc("packIPSECGateway")
	if fn == nil {
		r.cerr(rule, "packIPSECGateway", "function not found")
		return
	}
	r.fn("packIPSECGateway")
	gt := paramOf(fn, "gatewayType")
	if gt == nil {
		r.cerr(rule, "packIPSECGateway", "parameter gatewayType not found")
		return
	}
	want := map[int64]string{0: "", 1: "packDataA", 2: "packDataAAAA", 3: "packDomainName"}
	for k := int64(0); k <= 3; k++ {
		env := map[ssa.Value]int64{gt: k}
		bindNilTests(fn, env)
		var packers []string
		x := &scalarExec{pkg: fn.Pkg}
		x.visit = func(in ssa.Instruction, val func(ssa.Value) (int64, bool)) {
			if call, ok := in.(*ssa.Call); ok {
				if n := calleeNameSSA(&call.Call); strings.HasPrefix(n, "pack") {
					packers = append(packers, n)
				}
			}
		}
		res := x.run(fn, fn.Blocks[0], 0, env, 0)
		if res.GaveUp {
			r.undecided(rule, fmt.Sprintf("packIPSECGateway:type%d", k), c.pos(fn.Pos()), "the selection by the gateway type could not be followed")
			continue
		}
		got := strings.Join(uniqStrings(packers), ",")
		r.check(got == want[k], rule, fmt.Sprintf("packIPSECGateway:type%d", k), c.pos(fn.Pos()), "packs ["+want[k]+"]", "for gateway type %d packIPSECGateway calls [%s], the wire form (and the len methods) need [%s]: Len() and Pack disagree for such a record, and what is packed does not unpack", k, got, want[k])
	}
}

// signerNotNarrowed: the signing functions use the crypto.Signer they are given through its interface; they do not
// assert it to a concrete private-key type (keys held in hardware or behind a wrapper implement the interface only).
func signerNotNarrowed(c *Ctx, r *Report, rule string) {
	r.rule(rule, 3, "sign, RRSIG.Sign and SIG.Sign do not type-assert their crypto.Signer to a concrete key type")
	for _, name := range []string{"sign", "RRSIG.Sign", "SIG.Sign", "RRSIG.signAsIs"} {
		fn := c.ssaFunc(name)
		if fn == nil {
			if name == "RRSIG.signAsIs" {
				continue
			}
			r.cerr(rule, name, "function not found")
			continue
		}
		r.fn(name)
		var signers []ssa.Value
		for _, p := range fn.Params {
			if strings.HasSuffix(typeStr(p.Type()), "crypto.Signer") {
				signers = append(signers, p)
			}
		}
		var bad []string
		allInstrs(fn, func(in ssa.Instruction) {
			ta, ok := in.(*ssa.TypeAssert)
			if !ok {
				return
			}
			isSigner := false
			for _, s := range signers {
				if ta.X == s {
					isSigner = true
				}
			}
			if !isSigner {
				return
			}
			if _, isIface := ta.AssertedType.Underlying().(*types.Interface); !isIface {
				bad = append(bad, fmt.Sprintf("%s (%s)", c.pos(ta.Pos()), typeStr(ta.AssertedType)))
			}
		})
		r.check(len(bad) == 0, rule, name, c.pos(fn.Pos()), "used through the interface", "the crypto.Signer is asserted to a concrete key type at %s: a key that implements crypto.Signer without being one of those types (an HSM or KMS handle, a wrapper) is refused although it signs correctly", strings.Join(bad, ", "))
	}
}

// noOctetShortcut: CompareDomainName and IsSubDomain compare the two names through equal() on whole labels only; no
// octet of one name is compared with an octet of the other directly (that comparison would be case-sensitive).
func noOctetShortcut(c *Ctx, r *Report, rule string) {
	r.rule(rule, 1, "CompareDomainName compares no octet of one name with an octet of the other")
	for _, name := range []string{"CompareDomainName"} {
		fn := c.ssaFunc(name)
		if fn == nil || len(fn.Params) < 2 {
			r.cerr(rule, name, "function not found")
			continue
		}
		r.fn(name)
		octetOf := func(v ssa.Value, p ssa.Value) bool {
			for o := range shallowOrigins(v) {
				switch t := o.(type) {
				case *ssa.Index:
					if t.X == p {
						return true
					}
				case *ssa.Lookup:
					if t.X == p {
						return true
					}
				}
			}
			return false
		}
		var bad []string
		allInstrs(fn, func(in ssa.Instruction) {
			bin, ok := in.(*ssa.BinOp)
			if !ok || (bin.Op != token.EQL && bin.Op != token.NEQ) {
				return
			}
			a, b := ssa.Value(fn.Params[0]), ssa.Value(fn.Params[1])
			if (octetOf(bin.X, a) && octetOf(bin.Y, b)) || (octetOf(bin.X, b) && octetOf(bin.Y, a)) {
				bad = append(bad, c.pos(bin.Pos()))
			}
		})
		r.check(len(bad) == 0, rule, name, c.pos(fn.Pos()), "labels through equal() only", "an octet of one name is compared with an octet of the other at %s, without case folding: names that differ in the case of that octet (www.miek.NL / miek.nl) are said to share no label", strings.Join(bad, ", "))
	}
}

// scanExitsOnly: the backward scan over backslashes in NextLabel / PrevLabel stops for two reasons only: the start of
// the name, or an octet that is not a backslash. Any further bound (a cap on the run length) makes the parity of long
// runs wrong.
func scanExitsOnly(c *Ctx, r *Report, rule string, fnames []string, consequence string) {
	r.rule(rule, 1, "the backslash scan of NextLabel / PrevLabel has no exit but the start of the name and a non-backslash octet")
	n := 0
	for _, fname := range fnames {
		fn := c.ssaFunc(fname)
		if fn == nil {
			r.cerr(rule, fname, "function not found")
			continue
		}
		r.fn(fname)
		allInstrs(fn, func(in ssa.Instruction) {
			phi, ok := in.(*ssa.Phi)
			if !ok || !backTarget(fn, phi.Block()) {
				return
			}
			// a counter that goes down by one and indexes an octet compared with a backslash
			down := false
			for _, e := range phi.Edges {
				if b, ok := e.(*ssa.BinOp); ok && b.X == ssa.Value(phi) {
					if k, isK := constIntOf(b.Y); isK && ((b.Op == token.SUB && k == 1) || (b.Op == token.ADD && k == -1)) {
						down = true
					}
				}
			}
			if !down {
				return
			}
			// the loop of this phi: blocks on a cycle through its block
			// the natural loop of the back edges into this header that carry the decremented counter
			head := phi.Block()
			inLoop := map[*ssa.BasicBlock]bool{head: true}
			for i, e := range phi.Edges {
				b, ok := e.(*ssa.BinOp)
				if !ok || b.X != ssa.Value(phi) {
					continue
				}
				stack := []*ssa.BasicBlock{head.Preds[i]}
				for len(stack) > 0 {
					x := stack[len(stack)-1]
					stack = stack[:len(stack)-1]
					if inLoop[x] {
						continue
					}
					inLoop[x] = true
					stack = append(stack, x.Preds...)
				}
			}
			isSlashTest := func(v ssa.Value) bool {
				bin, ok := v.(*ssa.BinOp)
				if !ok || (bin.Op != token.EQL && bin.Op != token.NEQ) {
					return false
				}
				k, isK := constIntOf(bin.Y)
				return isK && k == '\\' && anyIn(sliceOf(bin.X), isValue(phi))
			}
			hasSlash := false
			var extra []string
			for b := range inLoop {
				ifi, ok := b.Instrs[len(b.Instrs)-1].(*ssa.If)
				if !ok {
					continue
				}
				exits := false
				for _, s := range b.Succs {
					if !inLoop[s] {
						exits = true
					}
				}
				if !exits {
					continue
				}
				atom, _ := condAtom(ifi.Cond)
				if isSlashTest(atom) {
					hasSlash = true
					continue
				}
				// a bound of the counter itself against a constant (>= 0, > -1, < 0 ...)
				if bin, ok := atom.(*ssa.BinOp); ok {
					if _, isK := constIntOf(bin.Y); isK && bin.X == ssa.Value(phi) {
						continue
					}
					if _, isK := constIntOf(bin.X); isK && bin.Y == ssa.Value(phi) {
						continue
					}
				}
				extra = append(extra, c.pos(ifi.Cond.Pos()))
			}
			if os.Getenv("SCANDEBUG") != "" {
				fmt.Fprintf(os.Stderr, "scan phi %s in %s: inLoop=%d hasSlash=%v extra=%v\n", phi.Name(), fname, len(inLoop), hasSlash, extra)
			}
			if !hasSlash {
				return // another counting loop
			}
			n++
			sort.Strings(extra)
			r.check(len(extra) == 0, rule, fmt.Sprintf("%s:scan#%d", fname, n), c.pos(phi.Pos()), "two exits", "the scan over the backslashes in front of a dot can also stop at %s: a run of backslashes longer than that bound is cut, its parity is judged from the part looked at, and %s", strings.Join(extra, ", "), consequence)
		})
	}
	if n == 0 {
		// the forward form (a run counter) has no such scan; the inlined helper form is covered above
		r.ok(rule, "no backward scan", "", "the label helpers carry a run counter forward (decided under the scan-start rule)")
	}
}

// readErrorNotOverwritten: once Transfer.ReadMsg has read (part of) a message, the error of that read can only be
// replaced by another error, never by a later step's nil: every other value that can reach the error it returns
// together with the message is known non-nil where it is taken (a verification that succeeded leaves the read's error
// in place).
func readErrorNotOverwritten(c *Ctx, r *Report, rule string) {
	r.rule(rule, 1, "the error Transfer.ReadMsg returns with a message is the read's own error or a value known non-nil")
	fn := c.ssaFunc("Transfer.ReadMsg")
	if fn == nil {
		r.cerr(rule, "Transfer.ReadMsg", "function not found")
		return
	}
	r.fn("Transfer.ReadMsg")
	var readErr ssa.Value
	for _, ci := range callsIn(fn, "(Conn).Read") {
		if call, ok := ci.(*ssa.Call); ok {
			for _, ref := range *call.Referrers() {
				if ex, isEx := ref.(*ssa.Extract); isEx && ex.Index == 1 {
					readErr = ex
				}
			}
		}
	}
	if readErr == nil {
		r.undecided(rule, "Transfer.ReadMsg", c.pos(fn.Pos()), "the read and its error were not found")
		return
	}
	var bad []string
	n := 0
	var walk func(v ssa.Value, blk *ssa.BasicBlock, extra []Fact, depth int)
	walk = func(v ssa.Value, blk *ssa.BasicBlock, extra []Fact, depth int) {
		if v == readErr || depth > 6 {
			return
		}
		if phi, ok := v.(*ssa.Phi); ok {
			for i, e := range phi.Edges {
				var ex []Fact
				if ef, ok := edgeFact(phi.Block().Preds[i], phi.Block()); ok {
					ex = append(ex, ef)
				}
				walk(e, phi.Block().Preds[i], ex, depth+1)
			}
			return
		}
		n++
		if isNilConst(v) || !isErrorValue(fn, blk, v, extra...) {
			bad = append(bad, fmt.Sprintf("%s (%s)", c.pos(v.Pos()), describeValue(v)))
		}
	}
	for _, b := range fn.Blocks {
		ret, ok := b.Instrs[len(b.Instrs)-1].(*ssa.Return)
		if !ok || len(ret.Results) != 2 || isNilConst(ret.Results[0]) {
			continue
		}
		walk(ret.Results[1], b, nil, 0)
	}
	r.check(len(bad) == 0, rule, "Transfer.ReadMsg:error", c.pos(fn.Pos()), "only replaced by another error", "the error returned with the message can be the value of a later step that may be nil (%s): with a TSIG provider set, an envelope whose frame was cut short (the read returned octets and an error) but whose signature still verifies is delivered with a nil error, and the transfer is reported complete", strings.Join(uniqStrings(bad), ", "))
}
