package main

import (
	"fmt"
	"go/ast"
	"go/token"
	"go/types"
	"sort"
	"strings"

	"golang.org/x/tools/go/ssa"
)

func init() { register("C08", true, false, checkC08) }

const c08Explanation = `Decided statically for every record type and path: (R1) each len method, evaluated symbolically into a linear form over per-field terms, adds for every wire field the length term of the field's kind - exactly 1/2/4/6/8 for integers, len+1 for character-strings, 4/16 for present addresses, domainNameLen(field, off+l, compression, flag) for names with flag true exactly for the compressible (RFC 1035) names and with the accumulated offset equal to the sum of the preceding fields, and an upper-bound term (len/2, DecodedLen, typeBitMapLen, option/parameter lengths) for blobs - so the prediction is exact for integer/address/name/character-string records and never below the packer's per-field maximum for the rest; RR_Header.len and Question.len add name + 10 / + 4; (R2) msgLenWithCompressionMap threads the running length as the offset of every record and starts at the 12-octet header; (R3) Pack sizes its buffer as uncompressed length + 1 and reuses the caller's buffer exactly when len(buf) is not below that; (R4) Len and PackBuffer enable compression under the same condition Compress && isCompressible(); (R5) the simulated compression inserts suffixes only below maxCompressionOffset, like the packer, and is consulted only with a map; escapedNameLen subtracts as many octets as it skips for each escape. NOT decided: numeric equality of the simulated and the real compression for all messages, typeBitMapLen vs packDataNsec arithmetic, escaped-name arithmetic beyond the skip/subtract pairing.`

func checkC08(c *Ctx, r *Report) {
	r.Explanation = c08Explanation
	r.Trusted = []string{"go/types resolution", "go/ssa translation", "kind->length-term table checker/e1len.go"}
	r.Assumptions = []string{"PrivateRR.len delegates to the user's PrivateRdata.Len"}
	gatewayPackByType(c, r, "C08.R1.gateway-pack-by-type")
	r.rule("C08.R1.len-form", 81, "len adds the kind's length term for every wire field, names measured at the right offset with the right compress flag")
	for _, t := range c.rrTypes() {
		if t.Name == "PrivateRR" {
			continue
		}
		c.checkLenForm(r, "C08.R1.len-form", t)
	}
	c08Header(c, r)
	c08R2(c, r)
	c08R3(c, r)
	c08R4(c, r)
	c08R5(c, r)
	c08APL(c, r)
	c08Bitmap(c, r)
	c08OctetCap(c, r)
	txtEmptyList(c, r, "C08.R1.txt-empty", "a TXT-like record without strings then packs one octet while its length method predicts none: Len() is short by one per such record and Pack() fails for lack of space once the one octet of slack is used up")
	lenNoRdlength(c, r, "C08.R1.len-no-rdlength")
	c08StringCap(c, r, "C08.R3.string-cap")
	packMapThreaded(c, r, "C08.R2.pack-map", "Len() under-counts the message and Pack fails for lack of room")
	bitmapLengthAgreement(c, r, "C08.R1.bitmap-length", "Len() is short for NSEC / NSEC3 / CSYNC records whose highest type in a window is divisible by 8, and Pack fails for lack of room")
	r.rule("C08.R2.len-search-walk", 1, "compressionLenSearch visits the labels through NextLabel (escaped dots do not start labels)")
	walkThroughNextLabel(c, r, "C08.R2.len-search-walk", "compressionLenSearch", "the length walk registers and finds suffixes at escaped dots that the packer never compresses against: Len() comes out too small")
	r.rule("C08.R3.label-room", 1, "packDomainName's room tests against len(msg) are strict")
	labelRoomExact(c, r, "C08.R3.label-room", "a name that fits its buffer exactly is refused: PackRR into a buffer of Len(rr) octets fails for a record whose last name is the root")
	borrow(c, r, c01R7, "C01.R7.uint-pack", "C08.R3.uint-pack-width", 5, "packUintN needs and writes exactly N/8 octets", nil, "a packer that touches octets beyond its field needs room Len() does not count: Pack fails with a buffer error on a valid message, or the next field is overwritten")
	aplExtentShared(c, r, "C08.R1.apl-extent", "for every prefix whose masked address ends in zero octets Len() is larger than what Pack writes, although the record holds only integers and addresses")
	emptyNameAgree(c, r, "C08.R1.empty-name")
	roomTestsNeeded(c, r, "C08.R3.room-tests", "PackRR into a buffer of exactly Len(rr) octets (ToRFC3597 does that) fails with 'buffer size too small' for a valid record whose last field is empty (CAA 0 issue \"\", URI with an empty target)")
	base64Agreement(c, r, "C08.R1.base64-encoding")
	lenSearchOffset(c, r, "C08.R2.len-search-offset")
	borrow(c, r, c04R2, "C04.R2.gate", "C08.R2.pack-gate", 1, "PackBuffer decides whether to compress with the same predicate Len uses (Compress && isCompressible())", nil, "Len() counts compression pointers Pack never writes: it is smaller than the packed message")
	hintWidth(c, r, "C08.R1.hint-width")
	windowGuardsAgree(c, r, "C08.R1.window-guards")
	lenSearchKey(c, r, "C08.R2.len-search-key", "Len() is smaller than the packed message for names spelled in two letter cases")
	c03NameBuffers(c, r, "C08.R3.name-buffers")
	round12(c, r, "C08")
}

func c08Header(c *Ctx, r *Report) {
	r.rule("C08.R1.header-len", 2, "RR_Header.len = name(compressible, at off) + 10; Question.len = name + 4")
	for _, h := range []struct {
		fn   string
		want int64
	}{{"RR_Header.len", 10}, {"Question.len", 4}} {
		fd := c.decl(h.fn)
		if fd == nil {
			r.cerr("C08.R1.header-len", h.fn, "function not found")
			continue
		}
		r.fn(h.fn)
		form, _, problems := c.evalLen(fd)
		want := newForm()
		want.K = h.want
		want.Atoms["dnl(Name,true)"] = 1
		if d := diffForms(form, want, true); d != "" {
			problems = append(problems, fmt.Sprintf("computes [%s], want [%s]: %s", form, want, d))
		}
		r.check(len(problems) == 0, "C08.R1.header-len", h.fn, c.pos(fd.Pos()), form.String(), "%s", strings.Join(problems, "; "))
	}
}

func c08R2(c *Ctx, r *Report) {
	r.rule("C08.R2.thread-offset", 2, "msgLenWithCompressionMap passes the running length as each record's offset, and the same map")
	fn := c.ssaFunc("msgLenWithCompressionMap")
	if fn == nil {
		r.cerr("C08.R2.thread-offset", "msgLenWithCompressionMap", "function not found")
		return
	}
	r.fn("msgLenWithCompressionMap")
	n := 0
	allInstrs(fn, func(in ssa.Instruction) {
		call, ok := in.(*ssa.Call)
		if !ok {
			return
		}
		name := calleeNameSSA(&call.Call)
		if !strings.HasSuffix(name, ".len") || strings.HasPrefix(name, "builtin.") {
			return
		}
		n++
		construct := fmt.Sprintf("msgLenWithCompressionMap->len#%d", n)
		args := call.Call.Args
		if !call.Call.IsInvoke() {
			args = args[1:]
		}
		var problems []string
		if len(args) != 2 {
			problems = append(problems, "unexpected arity")
		} else {
			if args[1] != fn.Params[1] {
				problems = append(problems, "does not pass the compression map parameter")
			}
			// result must be added to the very value passed as offset
			added := false
			for _, ref := range *call.Referrers() {
				if b, ok := ref.(*ssa.BinOp); ok && b.Op == token.ADD && ((b.X == args[0] && b.Y == call) || (b.Y == args[0] && b.X == call)) {
					added = true
				}
			}
			if !added {
				problems = append(problems, "the offset argument is not the running length the result is added to")
			}
			// running length starts at headerSize
			if !reachesConst(args[0], 12) {
				problems = append(problems, "the running length does not start at headerSize (12)")
			}
		}
		r.check(len(problems) == 0, "C08.R2.thread-offset", construct, c.pos(call.Pos()), "l += r.len(l, compression)", "%s", strings.Join(problems, "; "))
	})
	// a section measured by a helper: it is handed the section, the running length and the map, its result is the new
	// running length, and inside it the same threading holds with its parameters
	sectionOf := func(v ssa.Value) string {
		for _, sname := range []string{"Question", "Answer", "Ns", "Extra"} {
			if ld, ok := v.(*ssa.UnOp); ok && ld.Op == token.MUL && readsField("Msg", sname)(ld.X) {
				return sname
			}
		}
		return ""
	}
	isLenCall := func(call *ssa.Call) bool {
		name := calleeNameSSA(&call.Call)
		return strings.HasSuffix(name, ".len") && !strings.HasPrefix(name, "builtin.")
	}
	helperWalk := map[*ssa.Call]string{}
	allInstrs(fn, func(in ssa.Instruction) {
		call, ok := in.(*ssa.Call)
		if !ok {
			return
		}
		g := call.Call.StaticCallee()
		if g == nil || g.Pkg != fn.Pkg || isLenCall(call) || len(g.Blocks) == 0 {
			return
		}
		sec, secIdx := "", -1
		for i, a := range call.Call.Args {
			if sname := sectionOf(a); sname != "" {
				sec, secIdx = sname, i
			}
		}
		if sec == "" {
			return
		}
		var inner []*ssa.Call
		allInstrs(g, func(x ssa.Instruction) {
			if cl, ok := x.(*ssa.Call); ok && isLenCall(cl) {
				inner = append(inner, cl)
			}
		})
		if len(inner) == 0 {
			return
		}
		n++
		helperWalk[call] = sec
		construct := fmt.Sprintf("msgLenWithCompressionMap->%s(%s)", g.Name(), sec)
		var problems []string
		mapIdx, offIdx := -1, -1
		for i, a := range call.Call.Args {
			if a == fn.Params[1] {
				mapIdx = i
			}
			var running func(v ssa.Value, depth int) bool
			running = func(v ssa.Value, depth int) bool {
				if depth > 6 {
					return false
				}
				if reachesConst(v, 12) {
					return true
				}
				// the result of measuring the section before, with the same helper
				if prev, ok := v.(*ssa.Call); ok && prev.Call.StaticCallee() == g {
					for _, pa := range prev.Call.Args {
						if b, isB := pa.Type().Underlying().(*types.Basic); isB && b.Kind() == types.Int && running(pa, depth+1) {
							return true
						}
					}
				}
				return false
			}
			if i != secIdx && running(a, 0) {
				offIdx = i
			}
		}
		if mapIdx < 0 {
			problems = append(problems, "does not pass the compression map parameter")
		}
		if offIdx < 0 {
			problems = append(problems, "the running length (starting at headerSize) is not handed to the helper")
		}
		for _, cl := range inner {
			args := cl.Call.Args
			if !cl.Call.IsInvoke() {
				args = args[1:]
			}
			if len(args) != 2 {
				continue
			}
			if mapIdx >= 0 && args[1] != ssa.Value(g.Params[mapIdx]) {
				problems = append(problems, "the helper does not pass its map parameter on")
			}
			if offIdx >= 0 {
				fromParam := false
				for _, l := range phiLeaves(args[0]) {
					if l == ssa.Value(g.Params[offIdx]) {
						fromParam = true
					}
				}
				if !fromParam {
					problems = append(problems, "inside the helper the offset of a record does not start from the running length handed in")
				}
			}
		}
		r.check(len(problems) == 0, "C08.R2.thread-offset", construct, c.pos(call.Pos()), "l = helper(section, l, compression)", "%s", strings.Join(problems, "; "))
	})
	if hs, ok := c.constInt("headerSize"); !ok || hs != 12 {
		r.fail("C08.R2.thread-offset", "headerSize", "", "headerSize = %d, the DNS header is 12 octets", hs)
	}
	// the sections are measured in the order they are packed: the simulated compression of a name depends on
	// which names came before it
	{
		perCall := map[*ssa.Call][]string{}
		var calls []*ssa.Call
		var problems []string
		allInstrs(fn, func(in ssa.Instruction) {
			call, ok := in.(*ssa.Call)
			if !ok {
				return
			}
			if sec, isWalk := helperWalk[call]; isWalk {
				perCall[call] = []string{sec}
				calls = append(calls, call)
				return
			}
			name := calleeNameSSA(&call.Call)
			if !strings.HasSuffix(name, ".len") || strings.HasPrefix(name, "builtin.") {
				return
			}
			recv := call.Call.Value
			if !call.Call.IsInvoke() {
				recv = call.Call.Args[0]
			}
			var secs []string
			for _, sname := range []string{"Question", "Answer", "Ns", "Extra"} {
				if anyIn(sliceOf(recv), readsField("Msg", sname)) {
					secs = append(secs, sname)
				}
			}
			if len(secs) > 1 {
				// one walk over a concatenation of sections: the order is the order of the concatenation
				var concat func(v ssa.Value, depth int) ([]string, bool)
				concat = func(v ssa.Value, depth int) ([]string, bool) {
					if depth > 8 {
						return nil, false
					}
					if call, ok := v.(*ssa.Call); ok && calleeNameSSA(&call.Call) == "builtin.append" && len(call.Call.Args) == 2 {
						a, ok1 := concat(call.Call.Args[0], depth+1)
						b, ok2 := concat(call.Call.Args[1], depth+1)
						return append(a, b...), ok1 && ok2
					}
					for _, sname := range []string{"Question", "Answer", "Ns", "Extra"} {
						if ld, ok := v.(*ssa.UnOp); ok && readsField("Msg", sname)(ld.X) {
							return []string{sname}, true
						}
					}
					return nil, false
				}
				var got []string
				for v := range sliceOf(recv) {
					if ia, ok := v.(*ssa.IndexAddr); ok {
						if l, ok := concat(ia.X, 0); ok && len(l) > 1 {
							got = l
						}
					}
				}
				if got == nil {
					// one walk over a local table of the sections, from its first entry to its last
					for v := range sliceOf(recv) {
						if al, ok := v.(*ssa.Alloc); ok {
							if l, ok := sectionTableOrder(al); ok && len(l) == len(secs) {
								got = l
							}
						}
					}
				}
				if got == nil {
					problems = append(problems, fmt.Sprintf("%s: a record length is taken from %v, not from one section and not from a concatenation of sections whose order can be read off", c.pos(call.Pos()), secs))
					return
				}
				secs = got
			}
			if len(secs) == 0 {
				problems = append(problems, fmt.Sprintf("%s: a record length is taken from a record of no section", c.pos(call.Pos())))
				return
			}
			perCall[call] = secs
			calls = append(calls, call)
		})
		sort.SliceStable(calls, func(i, j int) bool { return precedes(calls[i], calls[j]) })
		var seq []string
		for _, cl := range calls {
			seq = append(seq, perCall[cl]...)
		}
		if len(problems) == 0 && strings.Join(seq, " ") != "Question Answer Ns Extra" {
			problems = append(problems, fmt.Sprintf("sections are measured in the order [%s], they are packed in the order [Question Answer Ns Extra]: a name first seen in a later section is taken for compressed too early", strings.Join(seq, " ")))
		}
		r.check(len(problems) == 0, "C08.R2.thread-offset", "msgLenWithCompressionMap:section-order", c.pos(fn.Pos()), "Question Answer Ns Extra", "%s", strings.Join(problems, "; "))
	}
}

// reachesConst: v is a chain of phis / additions bottoming out in constant k.
func reachesConst(v ssa.Value, k int64) bool {
	seen := map[ssa.Value]bool{}
	var walk func(v ssa.Value) bool
	walk = func(v ssa.Value) bool {
		if seen[v] {
			return false
		}
		seen[v] = true
		switch t := v.(type) {
		case *ssa.Const:
			x, ok := constIntOf(t)
			return ok && x == k
		case *ssa.Phi:
			for _, e := range t.Edges {
				if walk(e) {
					return true
				}
			}
		case *ssa.BinOp:
			if t.Op == token.ADD {
				return walk(t.X) || walk(t.Y)
			}
		}
		return false
	}
	return walk(v)
}

func c08R3(c *Ctx, r *Report) {
	r.rule("C08.R3.buffer", 1, "Pack allocates uncompressedLen+1 exactly when the caller's buffer is shorter than that")
	fn := c.ssaFunc("Msg.packBufferWithCompressionMap")
	if fn == nil {
		r.cerr("C08.R3.buffer", "Msg.packBufferWithCompressionMap", "function not found")
		return
	}
	r.fn("Msg.packBufferWithCompressionMap")
	var bufParam ssa.Value
	for _, p := range fn.Params {
		if p.Name() == "buf" {
			bufParam = p
		}
	}
	var makes []*ssa.MakeSlice
	allInstrs(fn, func(in ssa.Instruction) {
		if m, ok := in.(*ssa.MakeSlice); ok {
			makes = append(makes, m)
		}
	})
	var problems []string
	if len(makes) != 1 || bufParam == nil {
		problems = append(problems, fmt.Sprintf("%d buffer allocations, expected one", len(makes)))
	} else {
		m := makes[0]
		// size = msgLenWithCompressionMap(dns, nil) + k, k >= 0
		okSize := false
		if b, ok := m.Len.(*ssa.BinOp); ok && b.Op == token.ADD {
			x, y := b.X, b.Y
			if _, isC := x.(*ssa.Const); isC {
				x, y = y, x
			}
			if call, ok := x.(*ssa.Call); ok && calleeNameSSA(&call.Call) == "msgLenWithCompressionMap" && isNilConst(call.Call.Args[1]) {
				if k, ok := constIntOf(y); ok && k >= 0 {
					okSize = true
				}
			}
		}
		// the uncompressed length itself is enough: no packer asks for room it does not write into
		// (C08.R3.room-tests, C08.R3.label-room decide that)
		if call, ok := m.Len.(*ssa.Call); ok && calleeNameSSA(&call.Call) == "msgLenWithCompressionMap" && isNilConst(call.Call.Args[1]) {
			okSize = true
		}
		if !okSize {
			problems = append(problems, fmt.Sprintf("buffer size %v is not msgLenWithCompressionMap(dns, nil) or that plus a constant (the uncompressed length is what the packers may need)", m.Len))
		}
		lenOfBuf := func(v ssa.Value) bool {
			call, ok := v.(*ssa.Call)
			if !ok || calleeNameSSA(&call.Call) != "builtin.len" {
				return false
			}
			return call.Call.Args[0] == bufParam
		}
		g := Guard{Name: "len(buf) < packLen", Op: "lt", A: lenOfBuf, B: func(v ssa.Value) bool { return v == m.Len }, Holds: true}
		if miss := guardsMissing(fn, m.Block(), []Guard{g}); len(miss) > 0 {
			problems = append(problems, "allocation is not exactly on the edge "+miss[0]+" (buffer reuse condition changed)")
		}
		// the reuse edge: the If must have the allocation block as one successor and the join as the other
		// every pack call uses the merged buffer (phi of buf and the allocation)
		for _, ci := range callsIn(fn, "(Header).pack", "(Question).pack", "packRR") {
			args := ci.Common().Args
			var msgArg ssa.Value
			for _, a := range args {
				if _, isSlice := a.Type().Underlying().(*types.Slice); isSlice {
					msgArg = a
				}
			}
			good := false
			if phi, ok := msgArg.(*ssa.Phi); ok {
				hasBuf, hasMake := false, false
				for _, e := range phi.Edges {
					if e == bufParam {
						hasBuf = true
					}
					if e == m {
						hasMake = true
					}
				}
				good = hasBuf && hasMake
			}
			if !good {
				problems = append(problems, fmt.Sprintf("%s: pack call does not write into the sized buffer", c.pos(ci.Pos())))
			}
		}
	}
	r.check(len(problems) == 0, "C08.R3.buffer", "Msg.packBufferWithCompressionMap", c.pos(fn.Pos()), "make([]byte, uncompressedLen+1) iff len(buf) < that", "%s", strings.Join(problems, "; "))
}

func c08R4(c *Ctx, r *Report) {
	r.rule("C08.R4.same-gate", 1, "Msg.Len simulates compression under the same condition PackBuffer compresses")
	fn := c.ssaFunc("Msg.Len")
	if fn == nil {
		r.cerr("C08.R4.same-gate", "Msg.Len", "function not found")
		return
	}
	r.fn("Msg.Len")
	gs := []Guard{
		{Name: "dns.Compress", Op: "val", A: readsField("Msg", "Compress"), Holds: true},
		{Name: "dns.isCompressible()", Op: "call", A: callsFunc("(Msg).isCompressible"), Holds: true},
	}
	calls := callsIn(fn, "msgLenWithCompressionMap")
	if len(calls) == 0 {
		r.cerr("C08.R4.same-gate", "Msg.Len", "no call of msgLenWithCompressionMap")
	}
	for i, ci := range calls {
		construct := fmt.Sprintf("Msg.Len->msgLenWithCompressionMap#%d", i+1)
		arg := ci.Common().Args[1]
		if phi, isPhi := arg.(*ssa.Phi); isPhi {
			// one call, the map nil or made depending on the way in: a made map only where both guards hold, nil
			// only where they do not both hold
			var problems []string
			for k, e := range phi.Edges {
				facts := factsOnEdge(fn, phi.Block().Preds[k], phi.Block())
				miss := guardsMissingFacts(fn, facts, gs)
				if isNilConst(e) {
					if len(miss) == 0 {
						problems = append(problems, "the uncompressed length is computed although Compress && isCompressible() holds")
					}
					continue
				}
				if len(miss) > 0 {
					problems = append(problems, "compression is simulated without "+strings.Join(miss, ", ")+" although PackBuffer requires it")
				}
			}
			r.check(len(problems) == 0, "C08.R4.same-gate", construct, c.pos(ci.Pos()), "map made under Compress && isCompressible() only", "%s", strings.Join(problems, "; "))
			continue
		}
		if isNilConst(arg) {
			// must be the complement: not reachable when both guards hold -> it suffices that the non-nil call is guarded
			r.ok("C08.R4.same-gate", construct, c.pos(ci.Pos()), "uncompressed length")
			continue
		}
		miss := guardsMissing(fn, ci.Block(), gs)
		r.check(len(miss) == 0, "C08.R4.same-gate", construct, c.pos(ci.Pos()), "guarded by Compress && isCompressible()", "compression is simulated without %s although PackBuffer requires it", strings.Join(miss, ", "))
	}
	// and conversely: when both hold, Len must simulate: the nil-map call must be unreachable under both guards.
	for i, ci := range calls {
		if !isNilConst(ci.Common().Args[1]) {
			continue
		}
		// there must be a fact at this call negating one of the guards, or the other call dominates all returns under guards
		facts := factsAt(fn, ci.Block())
		neg := false
		for _, f := range facts {
			for _, g := range gs {
				g2 := g
				g2.Holds = false
				if matchGuard(f, g2) {
					neg = true
				}
			}
		}
		// `a && b` false edge is reached from two Ifs, so no single fact holds; accept when the block is not dominated by the conjunction's true edges
		if !neg {
			miss := guardsMissing(fn, ci.Block(), gs)
			if len(miss) == 0 {
				r.fail("C08.R4.same-gate", fmt.Sprintf("Msg.Len->uncompressed#%d", i+1), c.pos(ci.Pos()), "the uncompressed length is returned although Compress && isCompressible() holds")
			}
		}
	}
}

func c08R5(c *Ctx, r *Report) {
	r.rule("C08.R5.len-insert-limit", 1, "compressionLenSearch inserts a suffix only when msgOff+off < maxCompressionOffset")
	r.rule("C08.R5.search-gate", 1, "domainNameLen consults the map only when it is non-nil and (compress || off < maxCompressionOffset)")
	r.rule("C08.R5.escape-skip", 1, "escapedNameLen subtracts exactly the octets it skips for each escape form")
	maxOff, _ := c.constInt("maxCompressionOffset")
	if fn := c.ssaFunc("compressionLenSearch"); fn == nil {
		r.cerr("C08.R5.len-insert-limit", "compressionLenSearch", "function not found")
	} else {
		r.fn("compressionLenSearch")
		n := 0
		allInstrs(fn, func(in ssa.Instruction) {
			mu, ok := in.(*ssa.MapUpdate)
			if !ok {
				return
			}
			n++
			var msgOff ssa.Value
			for _, p := range fn.Params {
				if p.Name() == "msgOff" {
					msgOff = p
				}
			}
			g := Guard{Name: fmt.Sprintf("msgOff+off < %d", maxOff), Op: "lt", A: func(v ssa.Value) bool { return v == msgOff }, B: isConstInt(maxOff), Holds: true}
			miss := guardsMissing(fn, mu.Block(), []Guard{g})
			// key: suffix slice of s
			keyOK := false
			if sl, ok := mu.Key.(*ssa.Slice); ok && sl.High == nil {
				if p, ok := sl.X.(*ssa.Parameter); ok && p.Name() == "s" {
					keyOK = true
				}
			}
			var problems []string
			if len(miss) > 0 {
				problems = append(problems, "insertion not guarded by "+miss[0]+" (the packer only records offsets below the pointer limit)")
			}
			if !keyOK {
				problems = append(problems, "inserted key is not a suffix of the name")
			}
			r.check(len(problems) == 0, "C08.R5.len-insert-limit", "compressionLenSearch->insert", c.pos(mu.Pos()), "guarded", "%s", strings.Join(problems, "; "))
		})
		if n == 0 {
			r.fail("C08.R5.len-insert-limit", "compressionLenSearch->insert", c.pos(fn.Pos()), "no map insertion found")
		}
	}
	if fn := c.ssaFunc("domainNameLen"); fn == nil {
		r.cerr("C08.R5.search-gate", "domainNameLen", "function not found")
	} else {
		r.fn("domainNameLen")
		calls := callsIn(fn, "compressionLenSearch")
		if len(calls) != 1 {
			r.fail("C08.R5.search-gate", "domainNameLen->compressionLenSearch", c.pos(fn.Pos()), "%d calls of compressionLenSearch", len(calls))
		} else {
			var comprP ssa.Value
			for _, p := range fn.Params {
				if p.Name() == "compression" {
					comprP = p
				}
			}
			g := Guard{Name: "compression != nil", Op: "eq", A: func(v ssa.Value) bool { return v == comprP }, B: isNilConst, Holds: false}
			miss := guardsMissing(fn, calls[0].Block(), []Guard{g})
			var problems []string
			if len(miss) > 0 {
				problems = append(problems, "map consulted without "+miss[0])
			}
			// the compressed-length return (l + 2) must be guarded by ok && compress
			r.check(len(problems) == 0, "C08.R5.search-gate", "domainNameLen->compressionLenSearch", c.pos(calls[0].Pos()), "guarded", "%s", strings.Join(problems, "; "))
		}
	}
	escapeSkipExec(c, r, "C08.R5.escape-skip")
}

func identName(e ast.Expr) string {
	if id, ok := ast.Unparen(e).(*ast.Ident); ok {
		return id.Name
	}
	return ""
}

// sectionTableOrder: al is a local array whose entries (stored once each, at constant indices) are the addresses of
// sections of the Msg, and every variable index into it runs upwards by one from its first entry. The sections in the
// order of the entries.
func sectionTableOrder(al *ssa.Alloc) ([]string, bool) {
	pt, ok := al.Type().Underlying().(*types.Pointer)
	if !ok {
		return nil, false
	}
	arr, ok := pt.Elem().Underlying().(*types.Array)
	if !ok || al.Referrers() == nil {
		return nil, false
	}
	entries := make([]string, arr.Len())
	ascending := func(idx ssa.Value) bool {
		// phi [-1, phi+1] + 1, or phi [0, phi+1]
		var phi *ssa.Phi
		first := int64(0)
		switch t := idx.(type) {
		case *ssa.Phi:
			phi = t
		case *ssa.BinOp:
			k, isK := constIntOf(t.Y)
			p, isPhi := t.X.(*ssa.Phi)
			if t.Op != token.ADD || !isK || k != 1 || !isPhi {
				return false
			}
			phi, first = p, -1
		default:
			return false
		}
		for i, e := range phi.Edges {
			if phi.Block().Dominates(phi.Block().Preds[i]) {
				b, isBin := e.(*ssa.BinOp)
				if !isBin || b.Op != token.ADD || b.X != ssa.Value(phi) {
					return false
				}
				if k, isK := constIntOf(b.Y); !isK || k != 1 {
					return false
				}
			} else if k, isK := constIntOf(e); !isK || k != first {
				return false
			}
		}
		return true
	}
	var useIndex func(v ssa.Value, depth int) bool
	useIndex = func(v ssa.Value, depth int) bool {
		if depth > 3 || v.Referrers() == nil {
			return false
		}
		for _, ref := range *v.Referrers() {
			switch t := ref.(type) {
			case *ssa.DebugRef:
			case *ssa.IndexAddr:
				if k, isK := constIntOf(t.Index); isK && v == ssa.Value(al) {
					for _, rr := range *t.Referrers() {
						if st, isSt := rr.(*ssa.Store); isSt && st.Addr == ssa.Value(t) {
							if k < 0 || k >= int64(len(entries)) || entries[k] != "" {
								return false
							}
							for _, sname := range []string{"Question", "Answer", "Ns", "Extra"} {
								if readsField("Msg", sname)(st.Val) {
									entries[k] = sname
								}
							}
							if entries[k] == "" {
								return false
							}
						}
					}
				} else if !ascending(t.Index) {
					return false
				}
			case *ssa.Index:
				if !ascending(t.Index) {
					return false
				}
			case *ssa.UnOp:
				if t.Op != token.MUL || !useIndex(t, depth+1) {
					return false
				}
			case *ssa.Slice:
				if t.Low != nil || t.High != nil || !useIndex(t, depth+1) {
					return false
				}
			case *ssa.Call:
				if calleeNameSSA(&t.Call) != "builtin.len" {
					return false
				}
			default:
				return false
			}
		}
		return true
	}
	if !useIndex(al, 0) {
		return nil, false
	}
	for _, e := range entries {
		if e == "" {
			return nil, false
		}
	}
	return entries, true
}
