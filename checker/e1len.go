package main

// E1: symbolic evaluation of len() methods into linear forms.

import (
	"fmt"
	"go/ast"
	"go/token"
	"go/types"
	"sort"
	"strings"
)

type linForm struct {
	K     int64
	Atoms map[string]int64
}

func newForm() *linForm { return &linForm{Atoms: map[string]int64{}} }
func (f *linForm) clone() *linForm {
	g := newForm()
	g.K = f.K
	for k, v := range f.Atoms {
		g.Atoms[k] = v
	}
	return g
}
func (f *linForm) add(g *linForm, coef int64) {
	f.K += coef * g.K
	for k, v := range g.Atoms {
		f.Atoms[k] += coef * v
		if f.Atoms[k] == 0 {
			delete(f.Atoms, k)
		}
	}
}

// addSum adds sum(field: inner): split term by term, the constant part counted once per element
// (sum(F: a + k) = sum(F: a) + k*len(F)), so that a loop that adds 4 + x.len() per element and one that adds x.len() after
// 4*len(F) read the same.
func (f *linForm) addSum(field string, inner *linForm, coef int64) {
	for a, ca := range inner.Atoms {
		k := "sum(" + field + ": " + a + ")"
		f.Atoms[k] += coef * ca
		if f.Atoms[k] == 0 {
			delete(f.Atoms, k)
		}
	}
	if inner.K != 0 {
		k := "len(" + field + ")"
		f.Atoms[k] += coef * inner.K
		if f.Atoms[k] == 0 {
			delete(f.Atoms, k)
		}
	}
}

func (f *linForm) String() string {
	var ks []string
	for k := range f.Atoms {
		ks = append(ks, k)
	}
	sort.Strings(ks)
	var parts []string
	for _, k := range ks {
		if f.Atoms[k] == 1 {
			parts = append(parts, k)
		} else {
			parts = append(parts, fmt.Sprintf("%d*%s", f.Atoms[k], k))
		}
	}
	if f.K != 0 || len(parts) == 0 {
		parts = append(parts, fmt.Sprint(f.K))
	}
	return strings.Join(parts, " + ")
}

type lenEval struct {
	c         *Ctx
	fd        *ast.FuncDecl
	recv      types.Object
	offP      types.Object
	comprP    types.Object
	acc       types.Object // the accumulator variable l
	form      *linForm
	snaps     map[string]*linForm // atom name of a dnl term -> accumulated form just before it
	problems  []string
	loopVar   types.Object
	locals    map[types.Object]string // local -> atom (e.g. lo -> packlen(x))
	tagLocals map[types.Object]string // local -> union selector it was defined as
}

func (e *lenEval) prob(pos token.Pos, f string, a ...interface{}) {
	e.problems = append(e.problems, e.c.pos(pos)+": "+fmt.Sprintf(f, a...))
}

// fieldName renders rr.F (or x for the loop variable) for atoms.
func (e *lenEval) operandName(x ast.Expr) (string, bool) {
	x = ast.Unparen(x)
	if e.loopVar != nil && e.c.isIdentOf(x, e.loopVar) {
		return "x", true
	}
	if p, ok := e.c.fieldPath(x, e.recv); ok && p != "" {
		return p, true
	}
	return "", false
}

func (e *lenEval) eval(x ast.Expr) *linForm {
	c := e.c
	x = ast.Unparen(x)
	out := newForm()
	if k, ok := c.exprConst(x); ok {
		out.K = k
		return out
	}
	switch t := x.(type) {
	case *ast.BinaryExpr:
		switch t.Op {
		case token.ADD:
			out.add(e.eval(t.X), 1)
			out.add(e.eval(t.Y), 1)
			return out
		case token.QUO:
			if k, ok := c.exprConst(t.Y); ok && k == 2 {
				if call, ok := ast.Unparen(t.X).(*ast.CallExpr); ok && c.calleeName(call) == "builtin.len" && len(call.Args) == 1 {
					if n, ok := e.operandName(call.Args[0]); ok {
						out.Atoms["len("+n+")/2"] = 1
						return out
					}
				}
			}
		case token.MUL:
			if k, ok := c.exprConst(t.Y); ok {
				out.add(e.eval(t.X), k)
				return out
			}
			if k, ok := c.exprConst(t.X); ok {
				out.add(e.eval(t.Y), k)
				return out
			}
		}
	case *ast.Ident:
		if a, ok := e.locals[c.Info.Uses[t]]; ok {
			out.Atoms[a] = 1
			return out
		}
	case *ast.CallExpr:
		// conversions int(x)
		if tv, ok := c.Info.Types[t.Fun]; ok && tv.IsType() && len(t.Args) == 1 {
			return e.eval(t.Args[0])
		}
		name := c.calleeName(t)
		switch name {
		case "builtin.len":
			if len(t.Args) == 1 {
				if n, ok := e.operandName(t.Args[0]); ok {
					out.Atoms["len("+n+")"] = 1
					return out
				}
				if id, ok := ast.Unparen(t.Args[0]).(*ast.Ident); ok {
					if a, ok := e.locals[c.Info.Uses[id]]; ok {
						out.Atoms["len("+a+")"] = 1
						return out
					}
				}
			}
		case "(base64.Encoding).DecodedLen", "(base32.Encoding).DecodedLen":
			if len(t.Args) == 1 {
				if call, ok := ast.Unparen(t.Args[0]).(*ast.CallExpr); ok && c.calleeName(call) == "builtin.len" {
					if n, ok := e.operandName(call.Args[0]); ok {
						// which encoding object?
						enc := "b64"
						if strings.HasPrefix(name, "(base32") {
							enc = "b32"
						}
						if sel, ok := t.Fun.(*ast.SelectorExpr); ok {
							es := types.ExprString(sel.X)
							if enc == "b64" && es != "base64.StdEncoding" {
								e.prob(t.Pos(), "decoded length computed with %s, the packer decodes with base64.StdEncoding", es)
							}
							if enc == "b32" && es != "base32.HexEncoding" {
								e.prob(t.Pos(), "decoded length computed with %s, the packer decodes with base32.HexEncoding", es)
							}
						}
						out.Atoms[enc+"("+n+")"] = 1
						return out
					}
				}
			}
		case "domainNameLen":
			if len(t.Args) == 4 {
				n, ok := e.operandName(t.Args[0])
				flag, isK := c.Info.Types[t.Args[3]]
				if ok && isK && flag.Value != nil {
					atom := "dnl(" + n + "," + flag.Value.String() + ")"
					// offset argument: off + l (or off when the accumulator does not exist yet)
					good := false
					if be, ok := ast.Unparen(t.Args[1]).(*ast.BinaryExpr); ok && be.Op == token.ADD && e.acc != nil {
						if (c.isIdentOf(be.X, e.offP) && c.isIdentOf(be.Y, e.acc)) || (c.isIdentOf(be.Y, e.offP) && c.isIdentOf(be.X, e.acc)) {
							good = true
						}
					}
					if e.acc == nil && c.isIdentOf(t.Args[1], e.offP) {
						good = true
					}
					if !good {
						e.prob(t.Pos(), "domainNameLen is given offset %s, must be off+l (the simulated compression depends on the position)", types.ExprString(t.Args[1]))
					}
					if !c.isIdentOf(t.Args[2], e.comprP) {
						e.prob(t.Pos(), "domainNameLen is not given the compression map parameter")
					}
					if e.loopVar == nil {
						e.snaps[atom] = e.form.clone()
					}
					out.Atoms[atom] = 1
					return out
				}
			}
		case "typeBitMapLen":
			if len(t.Args) == 1 {
				if n, ok := e.operandName(t.Args[0]); ok {
					out.Atoms["bm("+n+")"] = 1
					return out
				}
			}
		case "(RR_Header).len":
			if sel, ok := t.Fun.(*ast.SelectorExpr); ok {
				if p, ok := c.fieldPath(sel.X, e.recv); ok && p == "Hdr" && len(t.Args) == 2 && c.isIdentOf(t.Args[0], e.offP) && c.isIdentOf(t.Args[1], e.comprP) {
					out.Atoms["hdr"] = 1
					return out
				}
			}
		default:
			// x.len() on the loop variable
			if sel, ok := t.Fun.(*ast.SelectorExpr); ok && len(t.Args) == 0 && sel.Sel.Name == "len" {
				if n, ok := e.operandName(sel.X); ok {
					out.Atoms[n+".len()"] = 1
					return out
				}
			}
			if sel, ok := t.Fun.(*ast.SelectorExpr); ok && len(t.Args) == 0 && sel.Sel.Name == "Len" {
				if n, ok := e.operandName(sel.X); ok {
					out.Atoms[n+".Len()"] = 1
					return out
				}
			}
		}
	}
	e.prob(x.Pos(), "cannot evaluate length term %s", types.ExprString(x))
	out.Atoms["?"+types.ExprString(x)] = 1
	return out
}

// tagName: rr.F, rr.F & K, or a local that was defined as one of those.
func (e *lenEval) tagName(x ast.Expr) (string, bool) {
	c := e.c
	x = ast.Unparen(x)
	if n, ok := e.operandName(x); ok {
		return n, true
	}
	if be, isB := x.(*ast.BinaryExpr); isB && be.Op == token.AND {
		if n, ok2 := e.operandName(be.X); ok2 {
			if k, isK := c.exprConst(be.Y); isK {
				return fmt.Sprintf("%s&%#x", n, k), true
			}
		}
	}
	if id, ok := x.(*ast.Ident); ok {
		if t, ok := e.tagLocals[c.Info.Uses[id]]; ok {
			return t, true
		}
	}
	return "", false
}

func (e *lenEval) stmts(list []ast.Stmt, into *linForm) (returned bool) {
	c := e.c
	for _, s := range list {
		switch st := s.(type) {
		case *ast.DeclStmt:
			// a named constant: its uses are evaluated by the type checker
			if gd, ok := st.Decl.(*ast.GenDecl); ok && gd.Tok == token.CONST {
				continue
			}
			e.prob(st.Pos(), "unrecognised statement")
		case *ast.AssignStmt:
			// t := rr.F & K : a union selector kept in a local
			if st.Tok == token.DEFINE && len(st.Lhs) == 1 && len(st.Rhs) == 1 && e.acc != nil {
				if id, ok := st.Lhs[0].(*ast.Ident); ok {
					if t, ok := e.tagName(st.Rhs[0]); ok {
						if e.tagLocals == nil {
							e.tagLocals = map[types.Object]string{}
						}
						e.tagLocals[c.Info.Defs[id]] = t
						continue
					}
				}
			}
			if len(st.Lhs) == 1 && len(st.Rhs) == 1 {
				if st.Tok == token.DEFINE && e.acc == nil {
					if id, ok := st.Lhs[0].(*ast.Ident); ok {
						f := e.eval(st.Rhs[0])
						into.add(f, 1)
						e.acc = c.Info.Defs[id]
						continue
					}
				}
				if c.isIdentOf(st.Lhs[0], e.acc) && st.Tok == token.ADD_ASSIGN {
					into.add(e.eval(st.Rhs[0]), 1)
					continue
				}
			}
			// lo, _ := x.pack()
			if st.Tok == token.DEFINE && len(st.Rhs) == 1 {
				if call, ok := ast.Unparen(st.Rhs[0]).(*ast.CallExpr); ok {
					if sel, ok := call.Fun.(*ast.SelectorExpr); ok && sel.Sel.Name == "pack" && len(call.Args) == 0 {
						if n, ok := e.operandName(sel.X); ok {
							if id, ok := st.Lhs[0].(*ast.Ident); ok {
								e.locals[c.Info.Defs[id]] = n + ".pack()"
								continue
							}
						}
					}
				}
			}
			e.prob(st.Pos(), "unrecognised statement %s", stmtString(c, st))
		case *ast.IncDecStmt:
			if c.isIdentOf(st.X, e.acc) && st.Tok == token.INC {
				into.K++
				continue
			}
			e.prob(st.Pos(), "unrecognised statement")
		case *ast.IfStmt:
			// if len(rr.F) != 0 { l += K }
			okForm := false
			if be, ok := ast.Unparen(st.Cond).(*ast.BinaryExpr); ok && (be.Op == token.NEQ || be.Op == token.GTR) && st.Else == nil && st.Init == nil {
				if call, ok := ast.Unparen(be.X).(*ast.CallExpr); ok && c.calleeName(call) == "builtin.len" {
					if k, ok := c.exprConst(be.Y); ok && k == 0 {
						if n, ok := e.operandName(call.Args[0]); ok {
							inner := newForm()
							saved := e.form
							e.stmts(st.Body.List, inner)
							e.form = saved
							if len(inner.Atoms) == 0 {
								into.Atoms["nz("+n+")"] += inner.K
								okForm = true
							}
						}
					}
				}
			}
			if !okForm {
				// if t == A { ... } else if t == B { ... } [else { ... }]: the union switch written as a chain
				var parts []string
				tag := ""
				chainOK := true
				var cur ast.Stmt = st
				for cur != nil && chainOK {
					switch n := cur.(type) {
					case *ast.IfStmt:
						if as, isAs := n.Init.(*ast.AssignStmt); isAs && as.Tok == token.DEFINE && len(as.Lhs) == 1 && len(as.Rhs) == 1 {
							// if t := rr.F & K; t == A { ...
							id, isId := as.Lhs[0].(*ast.Ident)
							t, isT := e.tagName(as.Rhs[0])
							if !isId || !isT {
								chainOK = false
								break
							}
							if e.tagLocals == nil {
								e.tagLocals = map[types.Object]string{}
							}
							e.tagLocals[c.Info.Defs[id]] = t
						} else if n.Init != nil {
							chainOK = false
							break
						}
						be, isB := ast.Unparen(n.Cond).(*ast.BinaryExpr)
						if !isB || be.Op != token.EQL {
							chainOK = false
							break
						}
						lhs, rhs := be.X, be.Y
						if _, isK := c.exprConst(lhs); isK {
							lhs, rhs = rhs, lhs
						}
						k, isK := c.exprConst(rhs)
						t, isT := e.tagName(lhs)
						if !isK || !isT || (tag != "" && tag != t) {
							chainOK = false
							break
						}
						tag = t
						inner := newForm()
						e.stmts(n.Body.List, inner)
						parts = append(parts, fmt.Sprint(k)+"=>"+inner.String())
						cur = n.Else
					case *ast.BlockStmt:
						inner := newForm()
						e.stmts(n.List, inner)
						parts = append(parts, "default=>"+inner.String())
						cur = nil
					default:
						chainOK = false
					}
				}
				if chainOK && tag != "" && len(parts) > 0 {
					sort.Strings(parts)
					into.Atoms["switch("+tag+"){"+strings.Join(parts, "; ")+"}"] += 1
					okForm = true
				}
			}
			if !okForm {
				e.prob(st.Pos(), "unrecognised conditional length term")
			}
		case *ast.RangeStmt:
			n, ok := e.operandName(st.X)
			v, isId := st.Value.(*ast.Ident)
			if !ok || !isId || e.loopVar != nil {
				e.prob(st.Pos(), "unrecognised loop")
				continue
			}
			e.loopVar = c.Info.Defs[v]
			inner := newForm()
			e.stmts(st.Body.List, inner)
			e.loopVar = nil
			into.addSum(n, inner, 1)
		case *ast.SwitchStmt:
			// gateway union
			tag, ok := "", false
			if st.Tag != nil {
				tag, ok = e.tagName(st.Tag)
			}
			if !ok || st.Init != nil {
				e.prob(st.Pos(), "unrecognised switch")
				continue
			}
			var parts []string
			for _, cl := range st.Body.List {
				cc := cl.(*ast.CaseClause)
				var vals []string
				for _, v := range cc.List {
					k, ok := c.exprConst(v)
					if !ok {
						e.prob(v.Pos(), "non-constant case")
					}
					vals = append(vals, fmt.Sprint(k))
				}
				if cc.List == nil {
					vals = []string{"default"}
				}
				inner := newForm()
				e.stmts(cc.Body, inner)
				parts = append(parts, strings.Join(vals, ",")+"=>"+inner.String())
			}
			sort.Strings(parts)
			into.Atoms["switch("+tag+"){"+strings.Join(parts, "; ")+"}"] += 1
		case *ast.ReturnStmt:
			if len(st.Results) == 1 && c.isIdentOf(st.Results[0], e.acc) {
				return true
			}
			// no accumulator at all: `return term + term + ...` is the whole sum
			if len(st.Results) == 1 && e.acc == nil {
				var flatAll func(x ast.Expr)
				flatAll = func(x ast.Expr) {
					x = ast.Unparen(x)
					if be, ok := x.(*ast.BinaryExpr); ok && be.Op == token.ADD {
						flatAll(be.X)
						flatAll(be.Y)
						return
					}
					into.add(e.eval(x), 1)
				}
				flatAll(st.Results[0])
				return true
			}
			// `return l + term + ...`: the same as `l += term; ...; return l`
			if len(st.Results) == 1 && e.acc != nil {
				var terms []ast.Expr
				var flat func(x ast.Expr)
				flat = func(x ast.Expr) {
					x = ast.Unparen(x)
					if be, ok := x.(*ast.BinaryExpr); ok && be.Op == token.ADD {
						flat(be.X)
						flat(be.Y)
						return
					}
					terms = append(terms, x)
				}
				flat(st.Results[0])
				nAcc := 0
				for _, t := range terms {
					if c.isIdentOf(t, e.acc) {
						nAcc++
					}
				}
				if nAcc == 1 {
					for _, t := range terms {
						if !c.isIdentOf(t, e.acc) {
							into.add(e.eval(t), 1)
						}
					}
					return true
				}
			}
			e.prob(st.Pos(), "returns %s, not the accumulator", stmtString(c, st))
			return true
		default:
			e.prob(s.Pos(), "unrecognised statement")
		}
	}
	return false
}

func stmtString(c *Ctx, s ast.Stmt) string {
	p := c.Fset.Position(s.Pos())
	return fmt.Sprintf("at line %d", p.Line)
}

// evalLen evaluates a len(off, compression) method body.
func (c *Ctx) evalLen(fd *ast.FuncDecl) (*linForm, map[string]*linForm, []string) {
	e := &lenEval{c: c, fd: fd, recv: c.recvObj(fd), offP: c.paramByName(fd, "off"), comprP: c.paramByName(fd, "compression"), form: newForm(), snaps: map[string]*linForm{}, locals: map[types.Object]string{}}
	if !e.stmts(fd.Body.List, e.form) {
		e.prob(fd.Pos(), "no `return l` at the end")
	}
	return e.form, e.snaps, e.problems
}

// expectedLenTerm: the accepted length term of one field kind. exact=false means upper-bound kinds.
func expectedLenTerm(k, field string) (f *linForm, exact bool, alt *linForm) {
	f = newForm()
	exact = true
	bk := strings.TrimSuffix(baseKind(k), "!amt")
	switch bk {
	case "u8":
		f.K = 1
	case "u16":
		f.K = 2
	case "u32":
		f.K = 4
	case "u48":
		f.K = 6
	case "u64":
		f.K = 8
	case "cs":
		f.K = 1
		f.Atoms["len("+field+")"] = 1
	case "cs+":
		f.Atoms["sum("+field+": len(x))"] = 1
		f.Atoms["len("+field+")"] = 1
	case "C":
		f.Atoms["dnl("+field+",true)"] = 1
	case "N":
		f.Atoms["dnl("+field+",false)"] = 1
	case "N*":
		f.Atoms["sum("+field+": dnl(x,false))"] = 1
	case "v4":
		f.Atoms["nz("+field+")"] = 4
	case "v6":
		f.Atoms["nz("+field+")"] = 16
	case "hex":
		exact = false
		f.Atoms["len("+field+")/2"] = 1
	case "b64":
		exact = false
		f.Atoms["b64("+field+")"] = 1
	case "b32":
		exact = false
		f.Atoms["b32("+field+")"] = 1
		alt = newForm()
		alt.Atoms["len("+field+")"] = 1 // upper bound of the decoded length
	case "raw", "text":
		exact = false
		f.Atoms["len("+field+")"] = 1
	case "bm":
		exact = false
		f.Atoms["bm("+field+")"] = 1
	case "opt":
		exact = false
		f.Atoms["sum("+field+": len(x.pack()))"] = 1
		f.Atoms["len("+field+")"] = 4
	case "svc":
		exact = false
		f.Atoms["sum("+field+": x.len())"] = 1
		f.Atoms["len("+field+")"] = 4
	case "apl":
		exact = false
		f.Atoms["sum("+field+": x.len())"] = 1
	case "gw":
		exact = false
		// RFC 4025 / RFC 8777: type 1 = IPv4 (4 octets), 2 = IPv6 (16), 3 = wire-format name (text length + 1 for an unescaped name)
		sel := "GatewayType"
		if strings.HasSuffix(k, "!amt") {
			sel = "GatewayType&0x7f" // RFC 8777: the top bit is the discovery flag
		}
		f.Atoms["switch("+sel+"){1=>4; 2=>16; 3=>len("+field+") + 1}"] = 1
	default:
		return nil, false, nil
	}
	return
}

// checkLenForm is rule len-form for one record type.
func (c *Ctx) checkLenForm(r *Report, rule string, t *rrType) {
	fname := t.Name + ".len"
	fd := c.decl(fname)
	if fd == nil && t.Embeds != "" && c.decl(t.Embeds+".len") != nil {
		r.ok(rule, t.Name, c.pos(t.Named.Obj().Pos()), "len promoted from embedded "+t.Embeds+" (checked there)")
		return
	}
	if fd == nil || fd.Body == nil {
		r.fail(rule, t.Name, "", "no method %s", fname)
		return
	}
	r.fn(fname)
	pos := c.pos(fd.Pos())
	form, snaps, problems := c.evalLen(fd)
	kinds, wf, err := wireKinds(t.Fields)
	if err != nil {
		r.fail(rule, t.Name, pos, "%v", err)
		return
	}
	want := newForm()
	want.Atoms["hdr"] = 1
	allExact := true
	type altT struct{ from, to *linForm }
	var alts []altT
	for i, k := range kinds {
		if wf[i].Tag == "amtrelayhost" {
			k += "!amt"
		}
		f, exact, alt := expectedLenTerm(k, wf[i].Name)
		if f == nil {
			r.undecided(rule, t.Name, pos, "no length term on file for kind %s", k)
			return
		}
		// position-sensitive terms: the accumulated form before a name must equal the expected prefix
		for a := range f.Atoms {
			if strings.HasPrefix(a, "dnl(") {
				if s, ok := snaps[a]; ok {
					if d := diffForms(s, want, allExact); d != "" {
						problems = append(problems, fmt.Sprintf("when the name %s is measured the accumulated length is [%s], the fields before it sum to [%s]", wf[i].Name, s, want))
					}
				}
			}
		}
		if !exact {
			allExact = false
		}
		if alt != nil {
			alts = append(alts, altT{f, alt})
		}
		want.add(f, 1)
	}
	d := diffForms(form, want, allExact)
	if d != "" && len(alts) > 0 {
		w2 := want.clone()
		for _, a := range alts {
			w2.add(a.from, -1)
			w2.add(a.to, 1)
		}
		if diffForms(form, w2, allExact) == "" {
			d = ""
		}
	}
	if d != "" {
		problems = append(problems, fmt.Sprintf("len computes [%s], the wire fields need [%s]: %s", form, want, d))
	}
	if len(problems) == 0 {
		r.ok(rule, t.Name, pos, form.String())
	} else {
		r.fail(rule, t.Name, pos, "%s", strings.Join(problems, "; "))
	}
}

// diffForms: got must equal want on every atom; the constant must be equal (exact) or at least want's.
func diffForms(got, want *linForm, exact bool) string {
	var d []string
	for a, v := range want.Atoms {
		if got.Atoms[a] != v {
			d = append(d, fmt.Sprintf("term %s has coefficient %d, want %d", a, got.Atoms[a], v))
		}
	}
	for a, v := range got.Atoms {
		if _, ok := want.Atoms[a]; !ok {
			d = append(d, fmt.Sprintf("unexpected term %d*%s", v, a))
		}
	}
	if exact && got.K != want.K {
		d = append(d, fmt.Sprintf("constant %d, want exactly %d", got.K, want.K))
	}
	if !exact && got.K < want.K {
		d = append(d, fmt.Sprintf("constant %d is below the %d fixed octets", got.K, want.K))
	}
	sort.Strings(d)
	return strings.Join(d, "; ")
}
