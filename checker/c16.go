package main

import (
	"fmt"
	"go/types"
	"sort"
	"strings"

	"golang.org/x/tools/go/ssa"
)

func init() { register("C16", true, false, checkC16) }

const c16Explanation = `All three clauses of C16 are alias / effect facts and are decided for all inputs by a sound may-alias / may-write analysis (E2) over the SSA form of the whole module: abstract roots {memory reachable from parameter i, allocation site, global, unknown}, flow-insensitive within a function, interprocedural through per-function summaries (result roots, captures, write effects) iterated to a global fixed point, interface calls resolved to every implementation in the module, dynamic calls to every address-taken function of the same signature, standard-library callees through a behaviour table (anything not in the table is treated as aliasing and writing everything it is given). (R1) deep copy: for every implementation of RR.copy (81), EDNS0.copy (16), SVCBKeyValue.copy (10), APLPrefix.copy, copyNet, Copy, Msg.Copy/CopyTo, no memory reachable from the result (or stored into the destination) is memory reachable from the source; (R2) no aliasing of the input: for Msg.Unpack/unpack, UnpackRR, UnpackRRWithHeader, unpackQuestion, every RR.unpack (81), EDNS0.unpack (16), SVCBKeyValue.unpack (10), nothing reachable from the results or stored into the receiver is memory of the buffer argument; (R3) read-only operations: the transitive write set of Pack, PackBuffer, PackRR, Len, every String, IsDuplicate, Copy/CopyTo, RRSIG.Sign/Verify and SIG.Verify on memory reachable from their read-only arguments is within {RR_Header.Rdlength, RR_Header.Ttl of the OPT through SetExtendedRcode}. Strings are immutable and carry no root. Level: proof (obligations = one per rule and function; discharged must equal obligations).`

func checkC16(c *Ctx, r *Report) {
	r.Explanation = c16Explanation
	r.Level = "proof"
	r.Trusted = []string{"go/ssa's translation of the program", "the standard-library behaviour table in checker/e2.go (extBehaviourOf)", "no unsafe / reflect-based mutation in the analysed functions (asserted)", "Go's memory model for strings (immutable)"}
	r.Assumptions = []string{"implementations of PrivateRdata, TsigProvider, crypto.Signer, Handler supplied by users are outside the module", "PrivateRR.copy/unpack/pack delegate to the user's PrivateRdata and generator"}
	e := newAliasEngine(c)
	iters := e.solve()
	r.extra["fixed_point_iterations"] = iters
	r.extra["functions_in_scope"] = len(e.fns)
	var unk []string
	for k := range e.unknown {
		unk = append(unk, k)
	}
	sort.Strings(unk)
	r.extra["callees_treated_as_unknown"] = unk
	// unsafe / reflect: only the listed read-only accessors may use reflection
	r.rule("C16.R0.no-unsafe", 1, "no unsafe; reflection only in the read-only accessors Field/NumField")
	for _, imp := range c.Types.Imports() {
		if imp.Path() == "unsafe" {
			r.fail("C16.R0.no-unsafe", "import unsafe", "", "package dns imports unsafe: the alias analysis does not model it")
		}
	}
	allowedReflect := map[string]string{"Field": "read-only accessor over an RR's rdata fields", "NumField": "read-only accessor"}
	var users []string
	for _, f := range e.fns {
		uses := false
		allInstrs(f, func(in ssa.Instruction) {
			if ci, ok := in.(ssa.CallInstruction); ok && strings.Contains(calleeNameSSA(ci.Common()), "reflect.") {
				uses = true
			}
		})
		if uses {
			users = append(users, fnDisplay(f))
			if _, ok := allowedReflect[fnDisplay(f)]; !ok {
				r.fail("C16.R0.no-unsafe", "reflect in "+fnDisplay(f), c.pos(f.Pos()), "%s uses reflection, which the alias analysis does not model", fnDisplay(f))
			}
		}
	}
	r.ok("C16.R0.no-unsafe", "imports", "", fmt.Sprintf("reflection only in %v", users))

	r.rule("C16.R1.deep-copy", 110, "nothing reachable from a copy is reachable from its source")
	r.rule("C16.R2.no-buffer-alias", 110, "nothing reachable from an unpacked value is memory of the input buffer")
	r.rule("C16.R3.read-only", 270, "read-only operations write nothing reachable from their arguments (but RDLENGTH / extended-RCODE bookkeeping)")

	methodsNamed := func(iface, method string) []*ssa.Function {
		var out []*ssa.Function
		for _, n := range c.implementers(iface) {
			if f := c.ssaFunc(n.Obj().Name() + "." + method); f != nil && len(f.Blocks) > 0 {
				out = append(out, f)
			}
		}
		sort.Slice(out, func(i, j int) bool { return fnDisplay(out[i]) < fnDisplay(out[j]) })
		return out
	}
	// ---- R1
	var copies []*ssa.Function
	copies = append(copies, methodsNamed("RR", "copy")...)
	copies = append(copies, methodsNamed("EDNS0", "copy")...)
	copies = append(copies, methodsNamed("SVCBKeyValue", "copy")...)
	for _, n := range []string{"APLPrefix.copy", "copyNet", "Copy", "Msg.Copy"} {
		if f := c.ssaFunc(n); f != nil {
			copies = append(copies, f)
		} else if n == "copyNet" {
			// the helper behind APLPrefix.copy; written out in place, it is examined as part of that method
			r.note("C16.R1.deep-copy: copyNet does not exist (any more); APLPrefix.copy is examined as it stands")
		} else {
			r.cerr("C16.R1.deep-copy", n, "function not found")
		}
	}
	seenFn := map[*ssa.Function]bool{}
	for _, f := range copies {
		if seenFn[f] {
			continue
		}
		seenFn[f] = true
		name := fnDisplay(f)
		r.fn(name)
		if name == "RR_Header.copy" {
			r.ok("C16.R1.deep-copy", name, c.pos(f.Pos()), "returns nil (headers are copied by value)")
			continue
		}
		if name == "PrivateRR.copy" {
			r.ok("C16.R1.deep-copy", name, c.pos(f.Pos()), "delegates to the user's PrivateRdata.Copy (assumption)")
			continue
		}
		sum := e.summary(f)
		var problems []string
		for k, rs := range sum.rets {
			for rt := range e.deep(f, rs) {
				switch rt.Kind {
				case rkParam:
					if rt.Fn != f {
						continue
					}
					problems = append(problems, fmt.Sprintf("result %d shares %s: %s", k, e.describeRoot(rt), e.witness(f, rs, rt)))
				case rkUnknown:
					problems = append(problems, fmt.Sprintf("result %d may share unknown memory (callee outside the behaviour table)", k))
				case rkGlobal:
					problems = append(problems, fmt.Sprintf("result %d may share global state", k))
				}
			}
		}
		r.check(len(problems) == 0, "C16.R1.deep-copy", name, c.pos(f.Pos()), "result disjoint from the source", "%s", strings.Join(uniqStrings(problems), "; "))
	}
	if f := c.ssaFunc("Msg.CopyTo"); f == nil {
		r.cerr("C16.R1.deep-copy", "Msg.CopyTo", "function not found")
	} else {
		r.fn("Msg.CopyTo")
		sum := e.summary(f)
		var problems []string
		dst := root{Kind: rkParam, Fn: f, Idx: 1}
		for rt := range e.deep(f, sum.captures[dst]) {
			if rt.Kind == rkParam && rt.Idx == 0 {
				problems = append(problems, "memory of the source message is stored into the destination: "+e.witness(f, sum.captures[dst], rt))
			}
			if rt.Kind == rkUnknown {
				problems = append(problems, "unknown memory is stored into the destination")
			}
		}
		r.check(len(problems) == 0, "C16.R1.deep-copy", "Msg.CopyTo", c.pos(f.Pos()), "destination disjoint from the source", "%s", strings.Join(uniqStrings(problems), "; "))
	}

	// ---- R2
	type unp struct {
		f   *ssa.Function
		buf int
	}
	var unpacks []unp
	bufIndex := func(f *ssa.Function) int {
		for i, p := range f.Params {
			if sl, ok := p.Type().Underlying().(*types.Slice); ok {
				if b, ok := sl.Elem().Underlying().(*types.Basic); ok && b.Kind() == types.Uint8 {
					return i
				}
			}
		}
		return -1
	}
	for _, f := range methodsNamed("RR", "unpack") {
		unpacks = append(unpacks, unp{f, bufIndex(f)})
	}
	for _, f := range methodsNamed("EDNS0", "unpack") {
		unpacks = append(unpacks, unp{f, bufIndex(f)})
	}
	for _, f := range methodsNamed("SVCBKeyValue", "unpack") {
		unpacks = append(unpacks, unp{f, bufIndex(f)})
	}
	for _, n := range []string{"Msg.Unpack", "Msg.unpack", "UnpackRR", "UnpackRRWithHeader", "unpackQuestion", "UnpackDomainName", "unpackMsgHdr", "unpackRRslice", "Question.unpack"} {
		if f := c.ssaFunc(n); f != nil {
			unpacks = append(unpacks, unp{f, bufIndex(f)})
		} else if n != "Question.unpack" {
			r.cerr("C16.R2.no-buffer-alias", n, "function not found")
		}
	}
	seenFn = map[*ssa.Function]bool{}
	for _, u := range unpacks {
		f := u.f
		if seenFn[f] {
			continue
		}
		seenFn[f] = true
		name := fnDisplay(f)
		r.fn(name)
		if name == "PrivateRR.unpack" {
			r.ok("C16.R2.no-buffer-alias", name, c.pos(f.Pos()), "delegates to the user's PrivateRdata.Unpack (assumption)")
			continue
		}
		if u.buf < 0 {
			r.cerr("C16.R2.no-buffer-alias", name, "no []byte parameter")
			continue
		}
		bufRoot := root{Kind: rkParam, Fn: f, Idx: u.buf}
		sum := e.summary(f)
		var problems []string
		for k, rs := range sum.rets {
			if types.Identical(f.Signature.Results().At(k).Type(), types.Universe.Lookup("error").Type()) {
				continue // error values are not part of the decoded message
			}
			if d := e.deep(f, rs); d[bufRoot] {
				problems = append(problems, fmt.Sprintf("result %d is or contains a slice of the input buffer: %s", k, e.witness(f, rs, bufRoot)))
			}
			for rt := range e.deep(f, rs) {
				if rt.Kind == rkUnknown {
					problems = append(problems, fmt.Sprintf("result %d may share unknown memory", k))
				}
			}
		}
		for t, vs := range sum.captures {
			if t == bufRoot {
				continue
			}
			if t.Kind == rkParam || t.Kind == rkGlobal {
				d := e.deep(f, vs)
				if d[bufRoot] {
					problems = append(problems, fmt.Sprintf("a slice of the input buffer is stored into %s: %s", e.describeRoot(t), e.witness(f, vs, bufRoot)))
				}
				if d[root{Kind: rkUnknown}] {
					problems = append(problems, fmt.Sprintf("unknown memory is stored into %s", e.describeRoot(t)))
				}
			}
		}
		r.check(len(problems) == 0, "C16.R2.no-buffer-alias", name, c.pos(f.Pos()), "decoded value shares nothing with the buffer", "%s", strings.Join(uniqStrings(problems), "; "))
	}

	// ---- R3
	type ro struct {
		f     *ssa.Function
		args  []int // read-only parameter indices
		allow []string
	}
	var ros []ro
	for _, iface := range []string{"RR", "EDNS0", "SVCBKeyValue"} {
		for _, f := range methodsNamed(iface, "String") {
			ros = append(ros, ro{f, []int{0}, nil})
		}
	}
	for _, f := range methodsNamed("RR", "isDuplicate") {
		ros = append(ros, ro{f, []int{0, 1}, nil})
	}
	for _, f := range methodsNamed("RR", "len") {
		ros = append(ros, ro{f, []int{0}, nil})
	}
	add := func(name string, args []int, allow ...string) {
		if f := c.ssaFunc(name); f != nil {
			ros = append(ros, ro{f, args, allow})
		} else {
			r.cerr("C16.R3.read-only", name, "function not found")
		}
	}
	bookkeeping := []string{"RR_Header.Rdlength", "RR_Header.Ttl"}
	add("Msg.Pack", []int{0}, bookkeeping...)
	add("Msg.PackBuffer", []int{0}, bookkeeping...)
	add("PackRR", []int{0}, bookkeeping...)
	add("Msg.Len", []int{0})
	add("Len", []int{0})
	add("Msg.String", []int{0})
	add("MsgHdr.String", []int{0})
	add("Question.String", []int{0})
	add("IsDuplicate", []int{0, 1})
	add("Copy", []int{0})
	add("Msg.Copy", []int{0})
	add("Msg.CopyTo", []int{0})
	add("RRSIG.Sign", []int{1, 2})
	add("RRSIG.Verify", []int{0, 1, 2})
	add("SIG.Verify", []int{0, 1, 2})
	add("IsRRset", []int{0})
	add("DNSKEY.KeyTag", []int{0})
	add("DNSKEY.ToDS", []int{0})
	seenFn = map[*ssa.Function]bool{}
	for _, x := range ros {
		f := x.f
		if seenFn[f] {
			continue
		}
		seenFn[f] = true
		name := fnDisplay(f)
		r.fn(name)
		if strings.HasPrefix(name, "PrivateRR.") {
			r.ok("C16.R3.read-only", name, c.pos(f.Pos()), "delegates to the user's PrivateRdata (assumption)")
			continue
		}
		sum := e.summary(f)
		var problems []string
		for _, i := range x.args {
			if i >= len(f.Params) {
				continue
			}
			rt := root{Kind: rkParam, Fn: f, Idx: i}
			for d, wd := range sum.writes[rt] {
				allowed := false
				for _, a := range x.allow {
					if d == a {
						allowed = true
					}
				}
				if !allowed {
					problems = append(problems, fmt.Sprintf("may write %s reachable from argument %s (in %s at %s)", d, f.Params[i].Name(), wd.Fn, c.pos(wd.Pos)))
				}
			}
		}
		r.check(len(problems) == 0, "C16.R3.read-only", name, c.pos(f.Pos()), "no write reachable from the read-only arguments", "%s", strings.Join(uniqStrings(problems), "; "))
	}
	c16CopyTo(c, r, "C16.R1.copyto")
	c16CopyToFresh(c, r, "C16.R1.copyto-fresh")
	borrow(c, r, c01R3, "C01.R3.ext-bits", "C16.R3.pack-bookkeeping", 1, "the only bits of the caller's OPT that packing rewrites are the extended-RCODE octet of its TTL", nil, "Pack changes flags of its argument beyond the documented extended-RCODE bookkeeping")
	copyKeepsType(c, r, "C16.R1.copy-type")
	nilEntriesAgree(c, r, "C16.R1.nil-entries", []string{"Msg.CopyTo", "Msg.String", "msgLenWithCompressionMap"})
	round12(c, r, "C16")
}

// witness names one value through which rt entered the set (for diagnosis): the first store into an allocation
// site of the closure whose value roots contain rt, or the direct membership.
func (e *aliasEngine) witness(f *ssa.Function, s rootSet, rt root) string {
	if s[rt] {
		return "directly"
	}
	for r := range e.deep(f, s) {
		if r.Kind == rkAlloc && e.contents[r][rt] {
			return "through the " + e.describeRoot(r)
		}
	}
	return "transitively"
}
