package main

import (
	"fmt"
	"go/constant"
	"go/types"
	"sort"

	"golang.org/x/tools/go/ssa"
)

// The lexer contract "a token classified zString is never empty", decided structurally on zlexer and then used by
// the bounds prover for the RDATA parsers (stringToCm indexes token[len(token)-1] of a zString token).
//
// The tokens zlexer.Next hands out are copies of two places: zl.l and the heap copy Peek parks in zl.cachedL (itself a
// copy of a Next result). The contract holds for every value read from those places when
//  1. every store to the token field of one of them stores a non-empty constant, or string(str[:stri]) at a point
//     where 1 <= stri is entailed by the dominating comparisons;
//  2. every store of zString to the value field of one of them is followed, in the same basic block, by a store to
//     its token field (so value == zString is never observable with a token from before the first token store);
//  3. pointers to the two places are only dereferenced, never passed on or stored (so 1 and 2 see every write);
//     zl.l is never overwritten whole; zl.cachedL only ever receives nil or a fresh copy of a Next result;
//  4. Next returns only such copies, or literals / zero values whose value field is not zString.
type lexContract struct {
	holds    bool
	problems []string
	sites    int // constructs examined
	value    *types.Var
	token    *types.Var
	zString  int64
	next     *ssa.Function
}

var theLexContract *lexContract

func buildLexContract(c *Ctx, bp *boundsProver) *lexContract {
	lc := &lexContract{}
	fail := func(format string, a ...any) {
		lc.problems = append(lc.problems, fmt.Sprintf(format, a...))
	}
	lexT, _ := c.lookup("lex").(*types.TypeName)
	zlT, _ := c.lookup("zlexer").(*types.TypeName)
	zs, okZ := c.constInt("zString")
	if lexT == nil || zlT == nil || !okZ {
		fail("lex / zlexer / zString not found")
		return lc
	}
	lc.zString = zs
	lexS, _ := lexT.Type().Underlying().(*types.Struct)
	zlS, _ := zlT.Type().Underlying().(*types.Struct)
	var lField, cachedField *types.Var
	for i := 0; lexS != nil && i < lexS.NumFields(); i++ {
		switch lexS.Field(i).Name() {
		case "value":
			lc.value = lexS.Field(i)
		case "token":
			lc.token = lexS.Field(i)
		}
	}
	for i := 0; zlS != nil && i < zlS.NumFields(); i++ {
		f := zlS.Field(i)
		if types.Identical(f.Type(), lexT.Type()) {
			if lField != nil {
				fail("zlexer has two fields of type lex")
			}
			lField = f
		}
		if p, ok := f.Type().(*types.Pointer); ok && types.Identical(p.Elem(), lexT.Type()) {
			if cachedField != nil {
				fail("zlexer has two fields of type *lex")
			}
			cachedField = f
		}
	}
	lc.next = c.ssaFunc("zlexer.Next")
	if lc.value == nil || lc.token == nil || lField == nil || lc.next == nil {
		fail("lex.value / lex.token / the lex field of zlexer / zlexer.Next not found")
		return lc
	}
	var placePtr func(v ssa.Value, d int) bool
	placePtr = func(v ssa.Value, d int) bool {
		if d > 4 {
			return false
		}
		switch t := v.(type) {
		case *ssa.FieldAddr:
			return fieldVarOf(t) == lField
		case *ssa.UnOp:
			if fa, ok := t.X.(*ssa.FieldAddr); ok && cachedField != nil {
				return fieldVarOf(fa) == cachedField
			}
		case *ssa.Phi:
			for _, e := range t.Edges {
				if !placePtr(e, d+1) {
					return false
				}
			}
			return len(t.Edges) > 0
		}
		return false
	}
	isNextResult := func(v ssa.Value) bool {
		ex, ok := v.(*ssa.Extract)
		if !ok || ex.Index != 0 {
			return false
		}
		call, ok := ex.Tuple.(*ssa.Call)
		return ok && call.Call.StaticCallee() == lc.next
	}
	nonEmpty := func(f *ssa.Function, st *ssa.Store) bool {
		if k, ok := st.Val.(*ssa.Const); ok && k.Value != nil && k.Value.Kind() == constant.String {
			return constant.StringVal(k.Value) != ""
		}
		cv, ok := st.Val.(*ssa.Convert)
		if !ok {
			return false
		}
		sl, ok := cv.X.(*ssa.Slice)
		if !ok || sl.High == nil {
			return false
		}
		env := newLinEnv()
		saved := bp.goalValues
		bp.goalValues = []ssa.Value{sl.High, sl.Low}
		facts := bp.factsAtPoint(f, st.Block(), nil, env)
		bp.goalValues = saved
		goal := newLin().add(env.lin(sl.High), -1) // 1 - high + low <= 0
		goal.c = 1
		if sl.Low != nil {
			goal = goal.add(env.lin(sl.Low), 1)
		}
		return env.entailsLin(facts, goal)
	}
	fns := append([]*ssa.Function{}, theModOracle.fns...)
	sort.Slice(fns, func(i, j int) bool { return fnDisplay(fns[i]) < fnDisplay(fns[j]) })
	for _, f := range fns {
		for _, b := range f.Blocks {
			for _, in := range b.Instrs {
				// 3: every use of a pointer to one of the places
				if v, ok := in.(ssa.Value); ok && placePtr(v, 0) {
					for _, ref := range *v.Referrers() {
						switch r := ref.(type) {
						case *ssa.FieldAddr, *ssa.UnOp, *ssa.Phi, *ssa.DebugRef:
						case *ssa.BinOp: // comparison with nil
						case *ssa.If:
						case *ssa.Store:
							if r.Val == v {
								if fa, ok := r.Addr.(*ssa.FieldAddr); !ok || fieldVarOf(fa) != cachedField {
									fail("%s: a pointer to the lexer's current token is stored away", c.pos(r.Pos()))
								}
							} else if _, whole := r.Val.Type().Underlying().(*types.Struct); whole {
								if !isNextResult(r.Val) {
									fail("%s: the lexer's current token is overwritten whole", c.pos(r.Pos()))
								}
							}
						default:
							fail("%s: a pointer to the lexer's current token is passed on (%T)", c.pos(ref.Pos()), ref)
						}
					}
				}
				st, ok := in.(*ssa.Store)
				if !ok {
					continue
				}
				fa, ok := st.Addr.(*ssa.FieldAddr)
				if !ok {
					continue
				}
				switch fieldVarOf(fa) {
				case lc.token:
					if !placePtr(fa.X, 0) {
						continue
					}
					lc.sites++
					if !nonEmpty(f, st) {
						fail("%s: the token stored here is not shown to be non-empty (a non-empty constant, or string(str[:stri]) under 1 <= stri)", c.pos(st.Pos()))
					}
				case lc.value:
					if !placePtr(fa.X, 0) {
						continue
					}
					k, isK := constIntOf(st.Val)
					if !isK {
						// one of the constants of a table built once (directive spelling -> class): none of them zString
						set, isSet := constSetOf(f.Pkg, st.Val)
						for _, sv := range set {
							if sv == zs {
								isSet = false
							}
						}
						if !isSet {
							fail("%s: the token class stored here is not a constant", c.pos(st.Pos()))
						}
						continue
					}
					if k != zs {
						continue
					}
					lc.sites++
					paired := false
					after := false
					for _, x := range b.Instrs {
						if x == in {
							after = true
							continue
						}
						if s2, ok := x.(*ssa.Store); ok && after {
							if fa2, ok := s2.Addr.(*ssa.FieldAddr); ok && fieldVarOf(fa2) == lc.token && fa2.X == fa.X {
								paired = true
							}
						}
					}
					if !paired {
						fail("%s: zString is stored without the token being stored in the same step", c.pos(st.Pos()))
					}
				case cachedField:
					if cachedField == nil {
						continue
					}
					lc.sites++
					if k, ok := st.Val.(*ssa.Const); ok && k.Value == nil {
						continue
					}
					al, ok := st.Val.(*ssa.Alloc)
					okCopy := ok
					if ok {
						for _, ref := range *al.Referrers() {
							switch r := ref.(type) {
							case *ssa.Store:
								if r.Addr == ssa.Value(al) && !isNextResult(r.Val) {
									okCopy = false
								}
							case *ssa.UnOp, *ssa.DebugRef:
							default:
								okCopy = false
							}
						}
					}
					if !okCopy {
						fail("%s: the cached token is not a fresh copy of a Next result", c.pos(st.Pos()))
					}
				}
			}
		}
	}
	// 4: what Next returns
	var okValue func(v ssa.Value, d int) bool
	okValue = func(v ssa.Value, d int) bool {
		if d > 4 {
			return false
		}
		switch t := v.(type) {
		case *ssa.Const:
			return t.Value == nil // zero value
		case *ssa.Phi:
			for _, e := range t.Edges {
				if !okValue(e, d+1) {
					return false
				}
			}
			return true
		case *ssa.UnOp:
			if placePtr(t.X, 0) {
				return true
			}
			al, ok := t.X.(*ssa.Alloc)
			if !ok {
				return false
			}
			for _, ref := range *al.Referrers() {
				switch r := ref.(type) {
				case *ssa.Store:
					if r.Addr == ssa.Value(al) && !okValue(r.Val, d+1) {
						return false
					}
				case *ssa.FieldAddr:
					for _, r2 := range *r.Referrers() {
						s2, isSt := r2.(*ssa.Store)
						if !isSt {
							continue
						}
						switch fieldVarOf(r) {
						case lc.value:
							if k, ok := constIntOf(s2.Val); !ok || k == zs {
								return false
							}
						case lc.token:
							return false
						}
					}
				case *ssa.UnOp, *ssa.DebugRef:
				default:
					return false
				}
			}
			return true
		}
		return false
	}
	for _, b := range lc.next.Blocks {
		for _, in := range b.Instrs {
			ret, ok := in.(*ssa.Return)
			if !ok || len(ret.Results) == 0 {
				continue
			}
			lc.sites++
			if !okValue(ret.Results[0], 0) {
				fail("%s: the token returned here is neither a copy of the lexer's current token nor a literal of another class", c.pos(ret.Pos()))
			}
		}
	}
	lc.holds = len(lc.problems) == 0
	return lc
}

// lexContractFact: on an edge where load(l.value) == zString holds and the local l was last assigned, whole, from a
// zlexer.Next result, the token read from the same assignment is non-empty.
func (e *linEnv) lexContractFact(f Fact) []linFact {
	lc := theLexContract
	if lc == nil || !lc.holds || !f.Holds {
		return nil
	}
	b, ok := f.Atom.(*ssa.BinOp)
	if !ok || b.Op.String() != "==" {
		return nil
	}
	ld, k := b.X, b.Y
	if _, isK := ld.(*ssa.Const); isK {
		ld, k = k, ld
	}
	kv, isK := constIntOf(k)
	if !isK || kv != lc.zString {
		return nil
	}
	u, base, path, okc := cellOf(ld)
	if !okc {
		return nil
	}
	fa, isFA := u.X.(*ssa.FieldAddr)
	if !isFA || fieldVarOf(fa) != lc.value || fa.X != base {
		return nil
	}
	key, _ := cellEpoch(ld)
	prefix := fmt.Sprintf("%p%s@", base, path)
	if len(key) <= len(prefix) || key[:len(prefix)] != prefix {
		return nil
	}
	ver := key[len(prefix):]
	fn := u.Parent()
	wholeNext := func(cellPath string) bool {
		defs, ok := versionDefs(fn, base, cellPath, ver)
		if !ok || len(defs) == 0 {
			return false
		}
		for _, d := range defs {
			st, isSt := d.(*ssa.Store)
			if !isSt || st.Addr != base {
				return false
			}
			ex, isEx := st.Val.(*ssa.Extract)
			if !isEx || ex.Index != 0 {
				return false
			}
			call, isCall := ex.Tuple.(*ssa.Call)
			if !isCall || call.Call.StaticCallee() != lc.next {
				return false
			}
		}
		return true
	}
	if !wholeNext(path) {
		return nil
	}
	// the token cell of the same local in the same memory version
	tokIdx := -1
	if pt, ok := base.Type().Underlying().(*types.Pointer); ok {
		if s, ok := pt.Elem().Underlying().(*types.Struct); ok {
			for j := 0; j < s.NumFields(); j++ {
				if s.Field(j) == lc.token {
					tokIdx = j
				}
			}
		}
	}
	if tokIdx < 0 {
		return nil
	}
	// the token cell must be in a version of the same name whose writers are the same kind of assignment: value and
	// token then stem from one and the same Next result on every path (both cells are written by every whole assignment)
	tpath := fmt.Sprintf(".%d", tokIdx)
	cellKeyAt(fn, base, tpath, u.Block(), instrIndex(u)) // make sure the token cell's versions are computed
	if !wholeNext(tpath) {
		return nil
	}
	tkey := fmt.Sprintf("%p%s@%s", base, tpath, ver)
	if e.cells == nil {
		e.cells = map[string]string{}
	}
	name, seen := e.cells[tkey]
	if !seen {
		name = fmt.Sprintf("token-of-%s~%d", exprKeyPretty(ld), len(e.names)+len(e.cells))
		e.cells[tkey] = name
	}
	ln := "len(" + name + ")"
	e.nonneg[ln] = true
	lf := newLin()
	lf.t[ln] = -1
	lf.c = 1
	return []linFact{{lf: lf, why: "a zString token of zlexer.Next is not empty"}}
}

func lastIndex(s, sub string) int {
	for i := len(s) - len(sub); i >= 0; i-- {
		if s[i:i+len(sub)] == sub {
			return i
		}
	}
	return -1
}
