package main

import (
	"fmt"
	"go/token"
	"strings"

	"golang.org/x/tools/go/ssa"
)

func init() { register("C15", true, false, checkC15) }

const c15Explanation = `Decided statically on every path of xfr.go (and the sender-side chaining in server.go): (R1) in inAxfr and inIxfr the deferred function is installed before the receive loop and closes the connection before the channel; every return inside the loop is immediately preceded by a send on the channel, so every way out delivers an envelope first; (R2) an envelope without error is sent only after ReadMsg succeeded, the reply ID equals the query ID and the RCODE is zero - on every envelope, not only the first - and, in the first iteration of the loop, only after isSOAFirst; (R3) Transfer.ReadMsg, whenever a TSIG provider is configured, verifies every message against the running request MAC and the timers-only flag and returns that verdict, and records the message's MAC as the next request MAC; both receive loops switch to timers-only before reading the second envelope; (R4) the sender writes each envelope through the response writer as a reply to the query, returns a write error, switches the writer to timers-only after the first envelope, and both message writers (response.WriteMsg, Transfer.WriteMsg) feed the running MAC and timers-only flag into TsigGenerateWithProvider and store the MAC it returns. NOT decided: that exactly the transmitted records are delivered in order and the transfer ends exactly at the closing SOA for every composition into envelopes (the IXFR serial counting): histories.`

func checkC15(c *Ctx, r *Report) {
	r.Explanation = c15Explanation
	r.Trusted = []string{"go/ssa translation"}
	readErrorNotOverwritten(c, r, "C15.R1.read-error-not-overwritten")
	borrow(c, r, func(c *Ctx, r *Report) { readErrorKept(c, r, "C12.R1.read-error-kept") }, "C12.R1.read-error-kept", "C15.R1.read-error-kept", 1, "the error of Transfer.ReadMsg's read flows into the error it returns with the message", nil, "a transfer whose connection is cut at a record boundary of the last envelope is reported complete")
	for _, name := range []string{"Transfer.inAxfr", "Transfer.inIxfr"} {
		c15Loop(c, r, name)
	}
	c15ReadMsg(c, r)
	c15Out(c, r)
	freshEnvelope(c, r, "C15.R5.fresh-envelope")
	borrow(c, r, c12R1, "C12.R1.stream-read", "C15.R1.stream-read", 3, "an envelope is read from the stream as a 2-octet length and then exactly that many octets (io.ReadFull), however the sender's writes were split", nil, "an envelope that arrives in more than one segment is cut and the transfer fails or loses records")
	c15FreshTime(c, r, "C15.R4.fresh-time")
	c15IxfrUpToDate(c, r, "C15.R2.ixfr-up-to-date")
	r.rule("C15.R1.envelope-buffer", 1, "Transfer.ReadMsg reads each envelope into a MaxMsgSize buffer")
	envelopeBuffer(c, r, "C15.R1.envelope-buffer")
	r.rule("C15.R3.deadline-per-envelope", 2, "inAxfr and inIxfr re-arm the read deadline for every envelope")
	perEnvelopeDeadline(c, r, "C15.R3.deadline-per-envelope")
	r.rule("C15.R2.envelope-id", 2, "inAxfr and inIxfr compare the envelope's header ID with the query's")
	envelopeIDCheck(c, r, "C15.R2.envelope-id")
	tsigStubKept(c, r, "C15.R4.stub-kept", "after the first transfer the query has silently lost its TSIG; the next refresh with the same query goes out unsigned and an untampered, correctly keyed transfer fails with ErrNoSig (or is refused by the primary)")
	c15ReceiveBounds(c, r, "C15.R5.receive-bounds")
	secretFromProvider(c, r, "C15.R4.secret-from-provider", "a Transfer configured with one secret for a key name accepts envelopes signed with the secret another provider had for that name, and refuses correctly keyed ones")
	borrow(c, r, c11R6, "C11.R6.strip", "C15.R3.strip", 3, "stripTsig cuts the message where the TSIG record starts", nil, "signer and verifier disagree about the signed octets as soon as an OPT precedes the TSIG: a valid signed transfer whose query carries EDNS fails")
	everyEnvelopeDelivered(c, r, "C15.R1.every-envelope-delivered")
	borrow(c, r, c11R1, "C11.R1.verify-guards", "C15.R3.time-window", 1, "tsigVerify accepts an envelope only inside the two-sided fudge window around its time signed", func(k string) bool { return strings.Contains(k, "Fudge") }, "a valid signed transfer from a primary whose clock is ahead is refused at the first envelope (or one outside the window is accepted)")
	borrowClause(c, r, c01R1, "C01.R1.unpack-seq", "C15.R1.records-decode", 70, "the unpack method of every record type reads its fields as the layout says", nil, func(d string) bool { return true }, "a zone holding such a record cannot be transferred: its envelope fails to decode")
	round12(c, r, "C15")
}

// backEdges: edges u->h where h dominates u.
func backEdges(fn *ssa.Function) map[edge]bool {
	out := map[edge]bool{}
	for _, b := range fn.Blocks {
		for _, s := range b.Succs {
			if s.Dominates(b) {
				out[edge{b, s}] = true
			}
		}
	}
	return out
}

func c15Loop(c *Ctx, r *Report, name string) {
	r.rule("C15.R1.exit-discipline", 4, "deferred Close-then-close(channel) installed before the loop; every return in the loop is preceded by a send")
	r.rule("C15.R2.no-error-guards", 8, "an error-free envelope is delivered only after read ok, ID match, RCODE 0 (every envelope) and SOA-first (first iteration)")
	r.rule("C15.R3.timers-only", 2, "timers-only is switched on before the second envelope is read")
	fn := c.ssaFunc(name)
	if fn == nil {
		r.cerr("C15.R1.exit-discipline", name, "function not found")
		return
	}
	r.fn(name)
	isCh := paramAlias(fn, "c")
	isQ := paramAlias(fn, "q")
	// --- R1
	var problems []string
	var deferIn *ssa.Defer
	allInstrs(fn, func(in ssa.Instruction) {
		if d, ok := in.(*ssa.Defer); ok {
			deferIn = d
		}
	})
	var reads []*ssa.Call
	allInstrs(fn, func(in ssa.Instruction) {
		if call, ok := in.(*ssa.Call); ok && calleeNameSSA(&call.Call) == "(Transfer).ReadMsg" {
			reads = append(reads, call)
		}
	})
	if deferIn == nil || len(reads) != 1 {
		problems = append(problems, fmt.Sprintf("anchors: defer=%v ReadMsg calls=%d", deferIn != nil, len(reads)))
	} else {
		if !precedes(deferIn, reads[0]) {
			problems = append(problems, "the cleanup is not deferred before the first read")
		}
		mc, ok := deferIn.Call.Value.(*ssa.MakeClosure)
		if !ok {
			problems = append(problems, "deferred value is not a closure")
		} else {
			clo := mc.Fn.(*ssa.Function)
			var closeConn, closeChan ssa.Instruction
			allInstrs(clo, func(in ssa.Instruction) {
				call, ok := in.(*ssa.Call)
				if !ok {
					return
				}
				n := calleeNameSSA(&call.Call)
				if strings.HasSuffix(n, ".Close") {
					closeConn = in
				}
				if n == "builtin.close" {
					closeChan = in
				}
			})
			if closeConn == nil || closeChan == nil {
				problems = append(problems, "the deferred function does not both close the connection and the channel")
			} else if !precedes(closeConn, closeChan) {
				problems = append(problems, "the channel is closed before the connection (receivers woken by the close would still see a live connection)")
			}
		}
	}
	r.check(len(problems) == 0, "C15.R1.exit-discipline", name+":defer", c.pos(fn.Pos()), "Close(); close(c) deferred before the loop", "%s", strings.Join(problems, "; "))
	problems = nil
	nRet := 0
	for _, b := range fn.Blocks {
		ret, ok := b.Instrs[len(b.Instrs)-1].(*ssa.Return)
		if !ok || b.Comment == "recover" {
			continue
		}
		nRet++
		sent := false
		blk := b
		for hops := 0; hops < 3 && !sent; hops++ {
			for _, in := range blk.Instrs {
				if s, ok := in.(*ssa.Send); ok && isCh(s.Chan) {
					sent = true
				}
			}
			if len(blk.Preds) == 1 && !sent {
				blk = blk.Preds[0]
			} else {
				break
			}
		}
		if !sent {
			problems = append(problems, fmt.Sprintf("%s: the loop is left without delivering an envelope (the consumer would see a closed channel and no error)", c.pos(ret.Pos())))
		}
	}
	if nRet == 0 {
		problems = append(problems, "no return found")
	}
	r.check(len(problems) == 0, "C15.R1.exit-discipline", name+":send-before-return", c.pos(fn.Pos()), fmt.Sprintf("%d returns", nRet), "%s", strings.Join(problems, "; "))
	if len(reads) != 1 {
		return
	}
	read := reads[0]
	// --- R2
	isIn := func(v ssa.Value) bool {
		e, ok := v.(*ssa.Extract)
		return ok && e.Tuple == read && e.Index == 0
	}
	isErr := func(v ssa.Value) bool {
		e, ok := v.(*ssa.Extract)
		return ok && e.Tuple == read && e.Index == 1
	}
	guards := []Guard{
		{Name: "ReadMsg err == nil", Op: "eq", A: isErr, B: isNilConst, Holds: true},
		{Name: "q.Id == in.Id", Op: "eq", A: fieldPathOf(isQ, "MsgHdr.Id"), B: fieldPathOf(isIn, "MsgHdr.Id"), Holds: true},
		{Name: "in.Rcode == RcodeSuccess", Op: "eq", A: fieldPathOf(isIn, "MsgHdr.Rcode"), B: isConstInt(0), Holds: true},
	}
	var okSends []*ssa.Send
	allInstrs(fn, func(in ssa.Instruction) {
		s, ok := in.(*ssa.Send)
		if !ok || !isCh(s.Chan) {
			return
		}
		al, ok := s.X.(*ssa.Alloc)
		if !ok {
			return
		}
		errNil := true
		for _, ref := range *al.Referrers() {
			fa, ok := ref.(*ssa.FieldAddr)
			if !ok || !readsField("Envelope", "Error")(fa) {
				continue
			}
			for _, r2 := range *fa.Referrers() {
				if st, ok := r2.(*ssa.Store); ok && !isNilConst(st.Val) {
					errNil = false
				}
			}
		}
		if errNil {
			okSends = append(okSends, s)
		}
	})
	if len(okSends) == 0 {
		r.fail("C15.R2.no-error-guards", name, c.pos(fn.Pos()), "no error-free envelope is ever delivered")
		return
	}
	for _, g := range guards {
		var ps []string
		for _, s := range okSends {
			if miss := guardsMissing(fn, s.Block(), []Guard{g}); len(miss) > 0 {
				ps = append(ps, fmt.Sprintf("error-free envelope sent at %s without it", c.pos(s.Pos())))
			}
		}
		r.check(len(ps) == 0, "C15.R2.no-error-guards", name+":"+g.Name, c.pos(fn.Pos()), fmt.Sprintf("dominates all %d error-free sends", len(okSends)), "%s: %s", g.Name, strings.Join(ps, "; "))
	}
	// first iteration: isSOAFirst. Paths from the entry that never take a back edge; loop-carried state (first, n) is
	// resolved through the entry edge, correlated tests are pruned.
	{
		var ps []string
		soaGuard := Guard{Op: "call", A: func(v ssa.Value) bool {
			call, ok := v.(*ssa.Call)
			return ok && calleeNameSSA(&call.Call) == "isSOAFirst" && isIn(call.Call.Args[0])
		}, Holds: true}
		isOK := map[*ssa.Send]bool{}
		for _, s := range okSends {
			isOK[s] = true
		}
		nFirst := 0
		done := enumIterPaths(fn, fn.Blocks[0], nil, 20000, func(path []pathStep, kind string) {
			facts := pathFacts(path)
			for _, st := range path {
				for _, in := range st.Block.Instrs {
					if s, ok := in.(*ssa.Send); ok && isOK[s] {
						nFirst++
						if !pathHas(facts, soaGuard) {
							ps = append(ps, fmt.Sprintf("in the first iteration an error-free envelope can be sent at %s although isSOAFirst did not hold", c.pos(s.Pos())))
						}
					}
				}
			}
		})
		if !done {
			r.undecided("C15.R2.no-error-guards", name+":isSOAFirst (first iteration)", c.pos(fn.Pos()), "too many paths")
		} else {
			if nFirst == 0 {
				ps = append(ps, "no error-free send is reachable in the first iteration")
			}
			r.check(len(ps) == 0, "C15.R2.no-error-guards", name+":isSOAFirst (first iteration)", c.pos(fn.Pos()), "first envelope must start with an SOA", "%s", strings.Join(uniqStrings(ps), "; "))
		}
	}
	// --- R3 timers-only before the next read
	isTimersStore := func(x ssa.Instruction) bool {
		st, ok := x.(*ssa.Store)
		if !ok || !readsField("Transfer", "tsigTimersOnly")(st.Addr) {
			return false
		}
		b, isB := constBool(st.Val)
		return isB && b
	}
	{
		// every iteration that goes round the loop again has switched timers-only on
		head := read.Block()
		for head != nil && !backTarget(fn, head) {
			head = head.Idom()
		}
		var ps []string
		if head == nil {
			ps = append(ps, "the read is not inside a loop")
		} else {
			done := enumIterPaths(fn, head, nil, 20000, func(path []pathStep, kind string) {
				if kind != "backedge" {
					return
				}
				if countOnPath(path, isTimersStore) == 0 {
					ps = append(ps, fmt.Sprintf("an iteration ending at %s goes on to read the next envelope without timers-only having been switched on", c.pos(path[len(path)-1].Block.Instrs[0].Pos())))
				}
			})
			if !done {
				ps = append(ps, "too many paths")
			}
		}
		r.check(len(ps) == 0, "C15.R3.timers-only", name, c.pos(read.Pos()), "tsigTimersOnly = true on every path round the loop", "%s", strings.Join(uniqStrings(ps), "; "))
	}
	// nothing ever switches it off inside the loop
	allInstrs(fn, func(in ssa.Instruction) {
		if st, ok := in.(*ssa.Store); ok && readsField("Transfer", "tsigTimersOnly")(st.Addr) {
			if b, isB := constBool(st.Val); !isB || !b {
				r.fail("C15.R3.timers-only", name+":reset", c.pos(st.Pos()), "timers-only is switched off during a transfer")
			}
		}
	})
}

func c15ReadMsg(c *Ctx, r *Report) {
	r.rule("C15.R3.verify-every-message", 2, "Transfer.ReadMsg verifies every message when a provider is configured and returns the verdict; the MAC chain is advanced")
	fn := c.ssaFunc("Transfer.ReadMsg")
	if fn == nil {
		r.cerr("C15.R3.verify-every-message", "Transfer.ReadMsg", "function not found")
		return
	}
	r.fn("Transfer.ReadMsg")
	t := fn.Params[0]
	var problems []string
	verifies := callsIn(fn, "TsigVerifyWithProvider")
	if len(verifies) != 1 {
		problems = append(problems, fmt.Sprintf("%d TsigVerifyWithProvider calls", len(verifies)))
	} else {
		v := verifies[0].(*ssa.Call)
		a := v.Call.Args
		isTp := func(x ssa.Value) bool {
			call, ok := x.(*ssa.Call)
			return ok && calleeNameSSA(&call.Call) == "(Transfer).tsigProvider"
		}
		if !isTp(a[1]) {
			problems = append(problems, "the configured provider is not the one used")
		}
		if !anyIn(sliceOf(a[2]), fieldPathOf(isValue(t), "Conn.tsigRequestMAC")) && !anyIn(sliceOf(a[2]), readsField("Conn", "tsigRequestMAC")) {
			problems = append(problems, "the running request MAC is not passed to the verifier")
		}
		if !anyIn(sliceOf(a[3]), readsField("Transfer", "tsigTimersOnly")) {
			problems = append(problems, "the timers-only flag is not passed to the verifier")
		}
		// the bytes verified are the bytes read (and unpacked)
		unpacks := callsIn(fn, "(Msg).Unpack")
		if len(unpacks) != 1 || unpacks[0].Common().Args[1] != a[0] {
			problems = append(problems, "the verified octets are not the octets that were unpacked")
		}
		// must-pass on the provider-configured edge
		found := false
		allInstrs(fn, func(in ssa.Instruction) {
			ifi, ok := in.(*ssa.If)
			if !ok {
				return
			}
			atom, pol := condAtom(ifi.Cond)
			b, ok := atom.(*ssa.BinOp)
			if !ok || !(isTp(b.X) && isNilConst(b.Y)) {
				return
			}
			found = true
			nonNil := 0
			if (b.Op == token.NEQ) != pol {
				nonNil = 1
			}
			if passed, _ := mustPass(fn, ifi.Block().Succs[nonNil], -1, func(x ssa.Instruction) bool { return x == v }); !passed {
				problems = append(problems, "with a provider configured a message can be returned without having been verified (e.g. when it carries no TSIG)")
			}
		})
		if !found {
			problems = append(problems, "no `tp != nil` test")
		}
		// the verdict is what is returned afterwards
		for _, rp := range returnPoints(fn, 1) {
			if !(v.Block() == rp.Block || v.Block().Dominates(rp.Block)) {
				continue
			}
			// the verdict itself, or, where the verdict is known to have been nil, whatever the read left (its error
			// stands); a value merged from several ways is looked at way by way
			nilVerdict := Guard{Op: "eq", A: isValue(v), B: isNilConst, Holds: true}
			var okVal func(x ssa.Value, facts []Fact, depth int) bool
			okVal = func(x ssa.Value, facts []Fact, depth int) bool {
				if x == ssa.Value(v) {
					return true
				}
				for _, f := range facts {
					if matchGuard(f, nilVerdict) {
						return true
					}
				}
				if phi, isPhi := x.(*ssa.Phi); isPhi && depth < 4 {
					for i, e := range phi.Edges {
						if !okVal(e, factsOnEdge(fn, phi.Block().Preds[i], phi.Block()), depth+1) {
							return false
						}
					}
					return true
				}
				return false
			}
			if !okVal(rp.Results[1], rp.factsOf(fn), 0) {
				problems = append(problems, fmt.Sprintf("%s: after verification the returned error is %v, not the verifier's verdict", c.pos(rp.Pos), rp.Results[1]))
			}
		}
	}
	r.check(len(problems) == 0, "C15.R3.verify-every-message", "Transfer.ReadMsg:verify", c.pos(fn.Pos()), "verified whenever a provider is configured", "%s", strings.Join(problems, "; "))
	problems = nil
	ok := false
	allInstrs(fn, func(in ssa.Instruction) {
		st, isSt := in.(*ssa.Store)
		if !isSt || !readsField("Conn", "tsigRequestMAC")(st.Addr) {
			return
		}
		if anyIn(sliceOf(st.Val), readsField("TSIG", "MAC")) && anyIn(sliceOf(st.Val), callsFunc("(Msg).IsTsig")) {
			ok = true
		}
	})
	if !ok {
		problems = append(problems, "the received message's MAC is not recorded as the next request MAC (the chain would not advance)")
	}
	r.check(len(problems) == 0, "C15.R3.verify-every-message", "Transfer.ReadMsg:chain", c.pos(fn.Pos()), "tsigRequestMAC = ts.MAC", "%s", strings.Join(problems, "; "))
}

func c15Out(c *Ctx, r *Report) {
	r.rule("C15.R4.sender", 3, "Transfer.Out replies per envelope, returns write errors, switches to timers-only; writers chain the MAC")
	fn := c.ssaFunc("Transfer.Out")
	if fn == nil {
		r.cerr("C15.R4.sender", "Transfer.Out", "function not found")
		return
	}
	r.fn("Transfer.Out")
	var problems []string
	var write, timers *ssa.Call
	allInstrs(fn, func(in ssa.Instruction) {
		call, ok := in.(*ssa.Call)
		if !ok || !call.Call.IsInvoke() {
			return
		}
		switch call.Call.Method.Name() {
		case "WriteMsg":
			write = call
		case "TsigTimersOnly":
			timers = call
		}
	})
	replies := callsIn(fn, "(Msg).SetReply")
	if write == nil || timers == nil || len(replies) != 1 {
		problems = append(problems, "SetReply / WriteMsg / TsigTimersOnly not all present")
	} else {
		if replies[0].Common().Args[1] != paramOf(fn, "q") || write.Call.Args[0] != replies[0].Common().Args[0] {
			problems = append(problems, "the envelope is not written as a reply to the query")
		}
		if b, ok := constBool(timers.Call.Args[0]); !ok || !b {
			problems = append(problems, "TsigTimersOnly is not switched to true")
		}
		if miss := guardsMissing(fn, timers.Block(), []Guard{{Name: "WriteMsg err == nil", Op: "eq", A: isValue(write), B: isNilConst, Holds: true}}); len(miss) > 0 {
			problems = append(problems, "timers-only is not set on the successful-write edge")
		}
		if !precedes(write, timers) {
			problems = append(problems, "timers-only is switched on before the first envelope is written")
		}
		// a write error is returned
		okErr := false
		for _, rp := range returnPoints(fn, 0) {
			if rp.Results[0] == write {
				okErr = true
			}
		}
		if !okErr {
			problems = append(problems, "a write error is not returned")
		}
		// the answer section is the envelope's records
		okAns := false
		for _, st := range storesToField(fn, "Msg", "Answer") {
			if anyIn(sliceOf(st.Val), readsField("Envelope", "RR")) {
				okAns = true
			}
		}
		if !okAns {
			problems = append(problems, "the reply's answer section is not the envelope's records")
		}
	}
	r.check(len(problems) == 0, "C15.R4.sender", "Transfer.Out", c.pos(fn.Pos()), "SetReply, WriteMsg, TsigTimersOnly(true)", "%s", strings.Join(problems, "; "))
	for _, w := range []struct{ fn, typ string }{{"response.WriteMsg", "response"}, {"Transfer.WriteMsg", "Conn"}} {
		wf := c.ssaFunc(w.fn)
		if wf == nil {
			r.cerr("C15.R4.sender", w.fn, "function not found")
			continue
		}
		r.fn(w.fn)
		var ps []string
		gens := callsIn(wf, "TsigGenerateWithProvider")
		if len(gens) != 1 {
			ps = append(ps, fmt.Sprintf("%d TsigGenerateWithProvider calls", len(gens)))
		} else {
			g := gens[0].(*ssa.Call)
			a := g.Call.Args
			if !anyIn(sliceOf(a[2]), readsField(w.typ, "tsigRequestMAC")) {
				ps = append(ps, "the running MAC is not fed into the generator")
			}
			timersField := w.typ
			if w.typ == "Conn" {
				timersField = "Transfer"
			}
			if !anyIn(sliceOf(a[3]), readsField(timersField, "tsigTimersOnly")) {
				ps = append(ps, "the timers-only flag is not fed into the generator")
			}
			stored := false
			allInstrs(wf, func(in ssa.Instruction) {
				st, ok := in.(*ssa.Store)
				if !ok || !readsField(w.typ, "tsigRequestMAC")(st.Addr) {
					return
				}
				if e, ok := st.Val.(*ssa.Extract); ok && e.Tuple == g && e.Index == 1 {
					stored = true
				}
			})
			if !stored {
				ps = append(ps, "the MAC returned by the generator is not stored as the next request MAC: the following envelope would not chain to this one")
			}
		}
		r.check(len(ps) == 0, "C15.R4.sender", w.fn+":mac-chain", c.pos(wf.Pos()), "MAC in, MAC out", "%s", strings.Join(ps, "; "))
	}
	// a Transfer value may be used for more than one transfer: In() starts from a clean chain
	if inFn := c.ssaFunc("Transfer.In"); inFn == nil {
		r.cerr("C15.R3.timers-only", "Transfer.In:chain-reset", "function not found")
	} else {
		r.fn("Transfer.In")
		var ps []string
		writes := callsIn(inFn, "(Transfer).WriteMsg")
		if len(writes) == 0 {
			ps = append(ps, "In does not write the query")
		}
		for _, w := range writes {
			for _, spec := range []struct {
				field string
				val   func(ssa.Value) bool
				what  string
			}{
				{"tsigTimersOnly", func(v ssa.Value) bool { b, ok := constBool(v); return ok && !b }, "tsigTimersOnly = false"},
				{"tsigRequestMAC", func(v ssa.Value) bool {
					k, ok := v.(*ssa.Const)
					return ok && k.Value != nil && k.Value.ExactString() == `""`
				}, `tsigRequestMAC = ""`},
			} {
				found := false
				sts := append(storesToField(inFn, "Transfer", spec.field), storesToField(inFn, "Conn", spec.field)...) // tsigRequestMAC is promoted from the embedded *Conn
				for _, st := range sts {
					if spec.val(st.Val) && precedes(st, w.(ssa.Instruction)) {
						found = true
					}
				}
				if !found {
					ps = append(ps, fmt.Sprintf("%s: the query is written without %s having been stored first: a Transfer that was used before signs its next query in the state the previous transfer ended in (timers-only, chained to the old MAC), and the server refuses it", c.pos(w.Pos()), spec.what))
				}
			}
		}
		r.check(len(ps) == 0, "C15.R3.timers-only", "Transfer.In:chain-reset", c.pos(inFn.Pos()), "fresh chain per transfer", "%s", strings.Join(ps, "; "))
	}
	// a new signed request on a connection that served a transfer starts a fresh chain
	if _, chain, pos, ok := serverTsigState(c); !ok {
		r.cerr("C15.R4.sender", "Server.serveDNS:chain-reset", "function not found")
	} else {
		r.check(len(chain) == 0, "C15.R4.sender", "Server.serveDNS:chain-reset", pos, "timers-only off, request MAC set", "%s", strings.Join(chain, "; "))
	}
}

// backTarget: block is the target of a back edge (a loop header).
func backTarget(fn *ssa.Function, b *ssa.BasicBlock) bool {
	for e := range backEdges(fn) {
		if e.to == b {
			return true
		}
	}
	return false
}
