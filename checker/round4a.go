package main

import (
	"fmt"
	"go/ast"
	"go/constant"
	"go/token"
	"go/types"
	"sort"
	"strings"

	"golang.org/x/tools/go/ssa"
)

// Rules added after the fourth round of independent breaking changes (part 1: wire format, text format).

// c01NsecBlockRange: the type-bitmap reader accepts exactly the block lengths the writer produces and RFC 4034
// s.4.1.2 allows: 1..32 octets per window block.
func c01NsecBlockRange(c *Ctx, r *Report, rule string) {
	r.rule(rule, 1, "unpackDataNsec accepts a window block of 1..32 octets, no fewer and no more (RFC 4034 s.4.1.2; packDataNsec emits up to 32)")
	fn := c.ssaFunc("unpackDataNsec")
	if fn == nil {
		r.cerr(rule, "unpackDataNsec", "function not found")
		return
	}
	r.fn("unpackDataNsec")
	// length := int(msg[off+1])
	var length ssa.Value
	allInstrs(fn, func(in ssa.Instruction) {
		cv, ok := in.(*ssa.Convert)
		if !ok {
			return
		}
		ld, ok := cv.X.(*ssa.UnOp)
		if !ok {
			return
		}
		ia, ok := ld.X.(*ssa.IndexAddr)
		if !ok {
			return
		}
		if b, ok := ia.Index.(*ssa.BinOp); ok && b.Op == token.ADD {
			if k, isK := constIntOf(b.Y); isK && k == 1 {
				length = cv
			}
		}
	})
	if length == nil {
		r.undecided(rule, "unpackDataNsec", c.pos(fn.Pos()), "the block length int(msg[off+1]) was not found")
		return
	}
	// the block where the bitmap octets are sliced off: msg[off : off+length]
	var use *ssa.Slice
	allInstrs(fn, func(in ssa.Instruction) {
		sl, ok := in.(*ssa.Slice)
		if !ok || sl.High == nil {
			return
		}
		if anyIn(sliceOf(sl.High), isValue(length)) {
			use = sl
		}
	})
	if use == nil {
		r.undecided(rule, "unpackDataNsec", c.pos(fn.Pos()), "the slice msg[off:off+length] was not found")
		return
	}
	lo, hi, hasLo, hasHi := intervalAt(fn, use.Block(), isValue(length))
	// length != 0 on a value converted from an octet: at least 1
	for _, f := range factsAt(fn, use.Block()) {
		b, ok := f.Atom.(*ssa.BinOp)
		if !ok || b.X != length {
			continue
		}
		if k, isK := constIntOf(b.Y); isK && k == 0 && ((b.Op == token.EQL && !f.Holds) || (b.Op == token.NEQ && f.Holds)) {
			if !hasLo || lo < 1 {
				lo, hasLo = 1, true
			}
		}
	}
	okRange := hasLo && hasHi && lo == 1 && hi == 32
	got := "unbounded"
	if hasLo && hasHi {
		got = fmt.Sprintf("%d..%d", lo, hi)
	} else if hasHi {
		got = fmt.Sprintf("..%d", hi)
	} else if hasLo {
		got = fmt.Sprintf("%d..", lo)
	}
	r.check(okRange, rule, "unpackDataNsec:block-length", c.pos(use.Pos()), "1..32", "the reader accepts block lengths %s, RFC 4034 s.4.1.2 and packDataNsec use 1..32: a bitmap with a type whose low octet is 248..255 (a full 32-octet block) packs but cannot be read back, or an over-long block is accepted", got)
}

// typeTableStructs: TypeToRR maps the code TypeX to a constructor of the struct X. The struct decides the wire
// layout, the compression of embedded names (struct tags) and the text form; two structs with the same Go fields
// (PTR / NSAPPTR, NS / MD / MF ...) differ in exactly those.
func typeTableStructs(c *Ctx, r *Report, rule, consequence string) {
	r.rule(rule, 80, "TypeToRR[TypeX] constructs the struct X")
	n := 0
	for _, f := range c.Dns.Syntax {
		ast.Inspect(f, func(nd ast.Node) bool {
			vs, ok := nd.(*ast.ValueSpec)
			if !ok || len(vs.Names) != 1 || vs.Names[0].Name != "TypeToRR" || len(vs.Values) != 1 {
				return true
			}
			cl, ok := vs.Values[0].(*ast.CompositeLit)
			if !ok {
				return true
			}
			for _, el := range cl.Elts {
				kv, ok := el.(*ast.KeyValueExpr)
				if !ok {
					continue
				}
				key, ok := kv.Key.(*ast.Ident)
				if !ok {
					continue
				}
				n++
				made := ""
				ast.Inspect(kv.Value, func(x ast.Node) bool {
					call, ok := x.(*ast.CallExpr)
					if !ok {
						return true
					}
					if id, ok := call.Fun.(*ast.Ident); ok && id.Name == "new" && len(call.Args) == 1 {
						if t, ok := call.Args[0].(*ast.Ident); ok {
							made = t.Name
						}
					}
					return true
				})
				ast.Inspect(kv.Value, func(x ast.Node) bool {
					if u, ok := x.(*ast.UnaryExpr); ok && u.Op == token.AND {
						if cl2, ok := u.X.(*ast.CompositeLit); ok {
							if t, ok := cl2.Type.(*ast.Ident); ok {
								made = t.Name
							}
						}
					}
					return true
				})
				want := strings.TrimPrefix(key.Name, "Type")
				r.check(made == want, rule, "TypeToRR["+key.Name+"]", c.pos(kv.Pos()), "new("+want+")", "the entry for %s constructs %s, not %s: %s", key.Name, made, want, consequence)
			}
			return false
		})
	}
	if n == 0 {
		r.cerr(rule, "TypeToRR", "table literal not found")
	}
}

// c03SuffixIndex: packDomainName walks a compacted copy (bs) of the presentation string (s) once an escape has been
// seen; positions in s are positions in bs plus the number of characters compaction has removed so far (compOff).
// Every suffix s[X:] taken inside the label loop (compression lookup, insertion, the length of the labels a pointer
// stands for) starts at the s-position of the current label: X is the variable that is assigned begin+compOff.
func c03SuffixIndex(c *Ctx, r *Report, rule string) {
	r.rule(rule, 1, "every suffix s[X:] of the presentation string taken in packDomainName's label loop starts at begin+compOff (the position in s, not in the compacted copy)")
	fn := c.ssaFunc("packDomainName")
	if fn == nil {
		r.cerr(rule, "packDomainName", "function not found")
		return
	}
	r.fn("packDomainName")
	s := paramOf(fn, "s")
	if s == nil {
		r.cerr(rule, "packDomainName", "parameter s not found")
		return
	}
	// begin: the low bound of the label copy bs[begin:i]
	var begin *ssa.Phi
	allInstrs(fn, func(in ssa.Instruction) {
		sl, ok := in.(*ssa.Slice)
		if !ok || sl.Low == nil || sl.High == nil || sl.X == s {
			return
		}
		if _, isSlice := sl.X.Type().Underlying().(*types.Slice); !isSlice {
			return
		}
		if p, ok := sl.Low.(*ssa.Phi); ok {
			// the copy source bs[begin:i]: high is the loop index, a phi as well
			if _, ok := sl.High.(*ssa.Phi); ok {
				begin = p
			}
		}
	})
	if begin == nil {
		r.undecided(rule, "packDomainName", c.pos(fn.Pos()), "the label copy bs[begin:i] was not found")
		return
	}
	// compBegin: a variable of the same loop one of whose assignments adds something to the value begin receives
	beginLeaf := map[ssa.Value]bool{}
	for _, l := range phiLeaves(begin) {
		if _, isK := l.(*ssa.Const); !isK {
			beginLeaf[l] = true
		}
	}
	var compBegin *ssa.Phi
	allInstrs(fn, func(in ssa.Instruction) {
		p, ok := in.(*ssa.Phi)
		if !ok || p == begin || p.Block() != begin.Block() {
			return
		}
		for _, l := range phiLeaves(p) {
			b, ok := l.(*ssa.BinOp)
			if !ok || b.Op != token.ADD {
				continue
			}
			if beginLeaf[b.X] || beginLeaf[b.Y] {
				compBegin = p
			}
		}
	})
	if compBegin == nil {
		r.undecided(rule, "packDomainName", c.pos(fn.Pos()), "no variable is assigned begin + <offset>: the position of the current label in s is not tracked")
		return
	}
	n := 0
	allInstrs(fn, func(in ssa.Instruction) {
		sl, ok := in.(*ssa.Slice)
		if !ok || sl.X != s || sl.High != nil || sl.Low == nil {
			return
		}
		n++
		r.check(sl.Low == ssa.Value(compBegin), rule, fmt.Sprintf("packDomainName:s[X:]#%d", n), c.pos(sl.Pos()), "X = begin+compOff", "this suffix of s starts at %s, which is not the variable holding begin+compOff: when an earlier label contains an escape the suffix starts too early, so a compression key, or the length of the labels a pointer stands for, is taken from the wrong place (valid names refused with ErrLongDomain only when compressing, or wrong pointers)", describeValue(sl.Low))
	})
	if n == 0 {
		r.undecided(rule, "packDomainName", c.pos(fn.Pos()), "no suffix s[X:] found")
	}
}

// c05ParseIntWidth: an integer field read from text with strconv.ParseUint(tok, 10, N) and stored into a field of
// M bits has N == M: N < M refuses values String() prints, N > M silently truncates.
func c05ParseIntWidth(c *Ctx, r *Report, rule string) {
	r.rule(rule, 60, "strconv.ParseUint(tok, 10, N) feeding an M-bit record field has N == M")
	sizes := types.SizesFor("gc", "amd64")
	var fns []*ssa.Function
	for _, T := range c.rrTypes() {
		if f := c.ssaFunc(T.Name + ".parse"); f != nil {
			fns = append(fns, withAnon(f)...)
		}
	}
	for _, n := range []string{"DS.parseDS", "DNSKEY.parseDNSKEY", "RKEY.parseRKEY", "NSAPPTR.parse"} {
		if f := c.ssaFunc(n); f != nil {
			fns = append(fns, withAnon(f)...)
		}
	}
	seenFn := map[*ssa.Function]bool{}
	counter := map[string]int{}
	for _, fn := range fns {
		if seenFn[fn] {
			continue
		}
		seenFn[fn] = true
		allInstrs(fn, func(in ssa.Instruction) {
			st, ok := in.(*ssa.Store)
			if !ok {
				return
			}
			fa, ok := st.Addr.(*ssa.FieldAddr)
			if !ok {
				return
			}
			bt, ok := st.Val.Type().Underlying().(*types.Basic)
			if !ok || bt.Info()&types.IsInteger == 0 {
				return
			}
			// value: Convert(Extract(ParseUint(...), 0)) possibly through a phi-free chain
			v := st.Val
			if cv, ok := v.(*ssa.Convert); ok {
				v = cv.X
			}
			ex, ok := v.(*ssa.Extract)
			if !ok || ex.Index != 0 {
				return
			}
			call, ok := ex.Tuple.(*ssa.Call)
			if !ok {
				return
			}
			cn := calleeNameSSA(&call.Call)
			if cn != "strconv.ParseUint" && cn != "strconv.ParseInt" {
				return
			}
			bits, okB := constIntOf(call.Call.Args[2])
			if !okB {
				return
			}
			m := sizes.Sizeof(bt) * 8
			// the width on the wire when the struct tag gives one (EUI48 keeps its 48 bits in a uint64)
			if v := fieldVarOf(fa); v != nil {
				if pt, ok := fa.X.Type().Underlying().(*types.Pointer); ok {
					if stt, ok := pt.Elem().Underlying().(*types.Struct); ok {
						if strings.Contains(stt.Tag(fa.Field), "uint48") {
							m = 48
						}
					}
				}
			}
			name := fnDisplay(fn) + ":" + fieldNameOf(fa)
			counter[name]++
			construct := name
			if counter[name] > 1 {
				construct = fmt.Sprintf("%s#%d", name, counter[name])
			}
			want := m
			if cn == "strconv.ParseInt" {
				// a signed parse feeding an unsigned field is its own problem; only the width is compared here
				want = m
			}
			r.check(bits == want || (bits == 0 && m == 64), rule, construct, c.pos(call.Pos()), fmt.Sprintf("%d bits", m), "%s is a %d-bit field but its text is parsed with bit size %d: %s", fieldNameOf(fa), m, bits, map[bool]string{true: "values the printer emits (up to 2^" + fmt.Sprint(m) + "-1) are refused when read back", false: "values beyond the field are accepted and silently truncated"}[bits < want])
		})
	}
}

// c05MnemonicIdent: the mnemonic tables spell each code the way its constant is named: TypeAFSDB <-> "AFSDB",
// ClassINET <-> "IN" is one of the listed exceptions. The identifier and the string are two independent spellings in
// the repository (the reverse tables are derived from these, so a round trip through the library cannot notice a typo).
var mnemonicExceptions = map[string]string{
	"TypeNSAPPTR":  "NSAP-PTR", // RFC 1348 writes the hyphen; Go identifiers cannot
	"TypeNone":     "None",
	"TypeReserved": "Reserved",
	"TypeNXNAME":   "NXNAME",
	"ClassINET":    "IN", // RFC 1035 mnemonics of the classes are two letters
	"ClassCSNET":   "CS",
	"ClassCHAOS":   "CH",
	"ClassHESIOD":  "HS",
	"ClassNONE":    "NONE",
	"ClassANY":     "ANY",
}

func c05MnemonicIdent(c *Ctx, r *Report, rule string) {
	r.rule(rule, 85, "TypeToString / ClassToString spell each code as its constant is named (Type<X> -> \"X\"), hyphenated and two-letter RFC mnemonics listed as exceptions")
	for _, table := range []struct{ name, prefix string }{{"TypeToString", "Type"}, {"ClassToString", "Class"}} {
		found := false
		for _, f := range c.Dns.Syntax {
			ast.Inspect(f, func(nd ast.Node) bool {
				vs, ok := nd.(*ast.ValueSpec)
				if !ok || len(vs.Names) != 1 || vs.Names[0].Name != table.name || len(vs.Values) != 1 {
					return true
				}
				cl, ok := vs.Values[0].(*ast.CompositeLit)
				if !ok {
					return true
				}
				found = true
				for _, el := range cl.Elts {
					kv, ok := el.(*ast.KeyValueExpr)
					if !ok {
						continue
					}
					key, ok := kv.Key.(*ast.Ident)
					if !ok {
						continue
					}
					tv, ok := c.Info.Types[kv.Value]
					if !ok || tv.Value == nil || tv.Value.Kind() != constant.String {
						r.undecided(rule, table.name+"["+key.Name+"]", c.pos(kv.Pos()), "the mnemonic is not a constant string")
						continue
					}
					got := constant.StringVal(tv.Value)
					want, exc := mnemonicExceptions[key.Name]
					if !exc {
						want = strings.TrimPrefix(key.Name, table.prefix)
					}
					r.check(got == want, rule, table.name+"["+key.Name+"]", c.pos(kv.Pos()), want, "%s is spelled %q in %s; its constant is named %s (expected %q): the reverse table is built from this one, so the library reads back its own spelling, but the registered mnemonic is refused as unknown and other implementations cannot read the text", key.Name, got, table.name, key.Name, want)
				}
				return false
			})
		}
		if !found {
			r.cerr(rule, table.name, "table literal not found")
		}
	}
}

// c06TTLDirectiveFlag: the TTL state says whether its value came from a $TTL directive; only the $TTL directive
// handler may create a state with that flag set. The configured default and the TTLs stated on records are the
// "most recently stated TTL" and must give way to later stated TTLs.
func c06TTLDirectiveFlag(c *Ctx, r *Report, rule string) {
	r.rule(rule, 4, "ttlState{.., isByDirective: true} is constructed only while handling the $TTL directive; every other construction has the flag false")
	flagVar := func(fa *ssa.FieldAddr) bool {
		v := fieldVarOf(fa)
		return v != nil && v.Name() == "isByDirective"
	}
	dirTTL, okK := c.constInt("zExpectDirTTL")
	n := 0
	var names []string
	for name := range c.decls {
		names = append(names, name)
	}
	sort.Strings(names)
	for _, name := range names {
		fn := c.ssaFunc(name)
		if fn == nil {
			continue
		}
		for _, sub := range withAnon(fn) {
			allInstrs(sub, func(in ssa.Instruction) {
				st, ok := in.(*ssa.Store)
				if !ok {
					return
				}
				fa, ok := st.Addr.(*ssa.FieldAddr)
				if !ok || !flagVar(fa) {
					return
				}
				n++
				construct := fmt.Sprintf("%s:ttlState#%d", fnDisplay(sub), n)
				b, isK := constBool(st.Val)
				if !isK {
					r.fail(rule, construct, c.pos(st.Pos()), "the by-directive flag stored here is not a constant")
					return
				}
				if !b {
					r.ok(rule, construct, c.pos(st.Pos()), "flag false")
					return
				}
				// true: only in ZoneParser.Next on the $TTL state
				inDir := false
				if fnDisplay(sub) == "ZoneParser.Next" && okK {
					for _, f := range factsAt(sub, st.Block()) {
						bin, ok := f.Atom.(*ssa.BinOp)
						if !ok || bin.Op != token.EQL || !f.Holds {
							continue
						}
						if k, isK := constIntOf(bin.Y); isK && k == dirTTL {
							inDir = true
						}
					}
				}
				r.check(inDir, rule, construct, c.pos(st.Pos()), "in the $TTL handler", "a TTL state flagged 'set by $TTL' is created outside the $TTL directive handler (%s): a TTL stated on a record no longer replaces it, so later records that omit their TTL get this value instead of the most recently stated TTL", fnDisplay(sub))
			})
		}
	}
	if n == 0 {
		r.cerr(rule, "ttlState", "no construction of the TTL state found")
	}
}
