package main

import (
	"fmt"
	"go/ast"
	"go/token"
	"go/types"
	"sort"
	"strings"

	"golang.org/x/tools/go/ssa"
)

func init() { register("C10", true, false, checkC10) }

const c10Explanation = `Decided statically on every path: (R1) RRSIG.Verify can return success only from the cryptographic verifier's verdict (rsa.VerifyPKCS1v15's result, or nil on the true edge of ecdsa.Verify / ed25519.Verify) and only after every pre-check the property lists has passed: IsRRset, key tag, class, algorithm, signer name vs key owner, protocol 3, zone-key flag, RRset class / covered type / label count / owner name vs the RRSIG, owner under the signer name; the digest is fed the RRSIG RDATA prefix then the canonical RRset, and the verifier gets the key's public key and the RRSIG's signature; (R2) rrsigWireFmt is field for field RRSIG's RDATA without the signature, packed in RRSIG order with the signer name uncompressed, and both fill sites (signAsIs, Verify) copy every field from the same-named RRSIG field, the signer name through CanonicalName; (R3) rawSignatureData writes only to copies (every store to a record goes to the result of r.copy()), substitutes OrigTtl and the lower-cased (wildcard-reconstructed when labels > Labels) owner on every iteration path before packing, lower-cases every embedded name of every RFC 4034 s.6.2 type (type switch checked against the struct tags), sorts before concatenating, skips byte-equal neighbours, and wireSlice.Less orders by RDATA (owner name + 10 octets skipped on both sides); (R4) RRSIG.Sign fills owner, class, type, covered type, labels (minus one for a wildcard owner) and OrigTtl (when unset) from the first record before signing; (R5) the RSA public-key decoder accepts every modulus size the generator produces. NOT decided: that the octet string equals RFC 4034 s.3.1.8.1 for all inputs and the cryptographic facts (any altered bit fails).`

// RFC 4034 s.6.2 (as amended by RFC 6840 s.5.1: HINFO dropped; A6 obsolete and not implemented)
var rfc4034LowercaseTypes = []string{"NS", "MD", "MF", "CNAME", "SOA", "MB", "MG", "MR", "PTR", "MINFO", "MX", "RP", "AFSDB", "RT", "SIG", "PX", "NXT", "NAPTR", "KX", "SRV", "DNAME"}

func checkC10(c *Ctx, r *Report) {
	r.Explanation = c10Explanation
	r.Trusted = []string{"go/ssa translation", "crypto/rsa, crypto/ecdsa, crypto/ed25519 verifiers", "RFC 4034 s.6.2 type list in checker/c10.go"}
	c10R1(c, r)
	c10R2(c, r)
	borrow(c, r, func(c *Ctx, r *Report) { freshHash(c, r, "C17.R5.fresh-hash") }, "C17.R5.fresh-hash", "C10.R2.fresh-hash", 1, "hashFromAlgorithm returns a hash state of its own for every call", nil, "concurrent Sign / Verify calls share one buffer: an Ed25519 signature is made over a mixture of two RRsets and does not verify")
	c10R3(c, r)
	canonicalOwnerLast(c, r, "C10.R3.canonical-owner-last")
	c10R4(c, r)
	c17R6as(c, r, "C10.R5.rsa-limits")
	// the name pre-checks go through equal(); the canonical form is computed on copies
	r.rule("C10.R5.alg-coverage", 3, "every algorithm Generate makes keys for is handled by sign(), RRSIG.Verify and the hash table")
	algorithmCoverage(c, r, "C10.R5.alg-coverage", []string{"sign", "RRSIG.Verify", "AlgorithmToHash"})
	r.rule("C10.R5.alg-hash-table", 8, "AlgorithmToHash maps each algorithm number to the hash its RFC specifies")
	algorithmHashTable(c, r, "C10.R5.alg-hash-table")
	r.rule("C10.R3.canonical-fold", 1, "CanonicalName (owner, signer and RDATA names in the signed data) lower-cases exactly A-Z")
	foldRangeRule(c, r, "C10.R3.canonical-fold", "CanonicalName", "names containing the letter left out are signed in the case they were written in: signatures depend on letter case")
	r.rule("C10.R2.int-to-bytes", 1, "ECDSA r and s are left-padded to exactly the curve width")
	intToBytesRule(c, r, "C10.R2.int-to-bytes")
	// the RRset test that opens Verify compares owners like every other name comparison: case-insensitively
	r.rule("C10.R1.rrset-owner-case", 1, "IsRRset compares owner names through the case-insensitive comparator")
	if fn := c.ssaFunc("IsRRset"); fn == nil {
		r.cerr("C10.R1.rrset-owner-case", "IsRRset", "function not found")
	} else {
		r.fn("IsRRset")
		var problems []string
		viaEqual := false
		for _, ci := range callsIn(fn, "isDuplicateName", "equal") {
			a := ci.Common().Args
			if anyIn(sliceOf(a[0]), readsField("RR_Header", "Name")) && anyIn(sliceOf(a[1]), readsField("RR_Header", "Name")) {
				viaEqual = true
			}
		}
		allInstrs(fn, func(in ssa.Instruction) {
			b, ok := in.(*ssa.BinOp)
			if !ok || (b.Op != token.EQL && b.Op != token.NEQ) {
				return
			}
			if anyIn(sliceOf(b.X), readsField("RR_Header", "Name")) && anyIn(sliceOf(b.Y), readsField("RR_Header", "Name")) {
				problems = append(problems, fmt.Sprintf("%s: owner names are compared as Go strings: records of one RRset that spell the owner in different case are refused by Verify as 'bad rrset'", c.pos(b.Pos())))
			}
		})
		if !viaEqual && len(problems) == 0 {
			problems = append(problems, "IsRRset does not compare owner names")
		}
		r.check(len(problems) == 0, "C10.R1.rrset-owner-case", "IsRRset", c.pos(fn.Pos()), "isDuplicateName", "%s", strings.Join(problems, "; "))
	}
	r.rule("C10.R1.name-eq", 1, "the owner / signer name pre-checks compare through equal(), which folds exactly A-Z on both sides")
	foldRule(c, r, "C10.R1.name-eq")
	r.rule("C10.R3.copy-faithful", 81, "the copy rawSignatureData canonicalises carries field i of the record in field i")
	for _, t := range c.rrTypes() {
		if t.Name != "PrivateRR" {
			c.checkCopyPos(r, "C10.R3.copy-faithful", t)
		}
	}
	c10DedupAfterSort(c, r, "C10.R1.dedup-after-sort")
	r.rule("C10.R1.ecdsa-sig-length", 1, "RRSIG.Verify compares the ECDSA signature length with twice the curve size before splitting it into r and s")
	ecdsaSigLength(c, r, "C10.R1.ecdsa-sig-length", "RRSIG.Verify", "a signature padded with leading zero octets in r and s (66 instead of 64 octets) verifies although it is not the RFC 6605 encoding: Verify succeeds for octets that are not a signature of the canonical form")
	c10RRsetInputs(c, r, "C10.R1.rrset-inputs")
	borrow(c, r, c17KeyTag, "C17.R8.keytag-formula", "C10.R1.keytag-formula", 1, "the key tag Sign writes and Verify compares is the RFC 4034 Appendix B sum, folded once", nil, "for keys whose sum carries twice the tag differs from every other implementation's: their signatures name a key nobody else finds, and signatures others made with the right tag are refused with ErrKey")
	decodeErrorsUsed(c, r, "C10.R1.decode-errors", "a signature (or key) followed by characters that are not base64 is taken for the signature in front of them: an altered RRSIG still verifies", func(fn *ssa.Function) bool {
		return strings.HasSuffix(c.Fset.Position(fn.Pos()).Filename, "dnssec.go")
	})
	borrow(c, r, c19Derived, "C19.R2.walk", "C10.R3.label-count", 1, "CountLabel (the RRSIG Labels field, the wildcard test) counts the label starts NextLabel finds", func(k string) bool { return k == "CountLabel" }, "Sign writes a Labels value that disagrees with the labels rawSignatureData splits the owner into: a signature that covers other names, or a valid one refused")
	r.rule("C10.R1.ecdsa-widths", 1, "ECDSA keys are read with RFC 6605's coordinate widths per algorithm")
	ecdsaWidths(c, r, "C10.R1.ecdsa-widths")
	r.rule("C10.R1.ed25519-key-length", 1, "publicKeyED25519 returns a key only when it is exactly 32 octets long")
	ed25519KeyLength(c, r, "C10.R1.ed25519-key-length")
	noPackageState(c, r, "C10.R1.key-from-record", []string{"DNSKEY.publicKeyRSA", "DNSKEY.publicKeyECDSA", "DNSKEY.publicKeyED25519"}, "signatures are checked against a key decoded earlier from another DNSKEY with the same name, algorithm and tag")
	wildcardBelowRoot(c, r, "C10.R2.wildcard-below-root")
	round12(c, r, "C10")
}

// c17R6as runs the RSA size-limit rule under another rule id (shared by C10, C17, C18).
func c17R6as(c *Ctx, r *Report, rule string) {
	sub := newReport("tmp", r.Tier)
	c17R6(c, sub)
	r.rule(rule, 1, "publicKeyRSA accepts modulus lengths covering every RSA size Generate produces")
	for _, o := range sub.obls {
		r.add(rule, o.Construct, o.Status, o.Pos, o.Detail)
	}
	for f := range sub.funcs {
		r.fn(f)
	}
}

type successPoint struct {
	Block *ssa.BasicBlock
	Pos   token.Pos
	Kind  string // "nil" | "verdict:<callee>"
}

// successPoints classifies the ways fn can return a nil error (result index idx).
// verdicts: callees whose error result is itself the verdict.
func successPoints(c *Ctx, fn *ssa.Function, idx int, verdicts []string) (pts []successPoint, undecided []string) {
	for _, rp := range returnPoints(fn, idx) {
		v := rp.Results[idx]
		if isNilConst(v) {
			pts = append(pts, successPoint{rp.Block, rp.Pos, "nil"})
			continue
		}
		if call, ok := v.(*ssa.Call); ok {
			n := calleeNameSSA(&call.Call)
			isV := false
			for _, vd := range verdicts {
				if n == vd {
					isV = true
				}
			}
			if isV {
				pts = append(pts, successPoint{call.Block(), rp.Pos, "verdict:" + n})
				continue
			}
		}
		// a non-nil error: loaded global Err*, a fresh &Error{}, or a value known non-nil on this path
		if isErrorValue(fn, rp.Block, v, rp.EdgeFacts...) {
			continue
		}
		undecided = append(undecided, fmt.Sprintf("%s: cannot tell whether the returned error %v can be nil", c.pos(rp.Pos), v))
	}
	return
}

func isErrorValue(fn *ssa.Function, b *ssa.BasicBlock, v ssa.Value, extra ...Fact) bool {
	switch t := v.(type) {
	case *ssa.UnOp:
		if t.Op == token.MUL {
			if g, ok := t.X.(*ssa.Global); ok && strings.HasPrefix(g.Name(), "Err") {
				return true
			}
		}
	case *ssa.MakeInterface:
		return true
	case *ssa.Call:
		n := calleeNameSSA(&t.Call)
		if n == "fmt.Errorf" || n == "errors.New" {
			return true
		}
	}
	// known non-nil on this path
	all := append(factsAt(fn, b), extra...)
	for _, f := range all {
		if matchGuard(f, Guard{Op: "eq", A: isValue(v), B: isNilConst, Holds: false}) {
			return true
		}
	}
	// ctx.Err() style / extract of a call compared on this path
	if e, ok := v.(*ssa.Extract); ok {
		for _, f := range all {
			if matchGuard(f, Guard{Op: "eq", A: isValue(e), B: isNilConst, Holds: false}) {
				return true
			}
		}
	}
	return false
}

func c10R1(c *Ctx, r *Report) {
	r.rule("C10.R1.verify-guards", 13, "RRSIG.Verify's success is preceded by every listed pre-check")
	r.rule("C10.R1.verdict", 3, "success comes only from the cryptographic verifier's verdict, fed the RRSIG prefix then the canonical RRset")
	fn := c.ssaFunc("RRSIG.Verify")
	if fn == nil {
		r.cerr("C10.R1.verify-guards", "RRSIG.Verify", "function not found")
		return
	}
	r.fn("RRSIG.Verify")
	rr, k, rrset := paramOf(fn, "rr"), paramOf(fn, "k"), paramOf(fn, "rrset")
	isH0 := func(v ssa.Value) bool {
		call, ok := v.(*ssa.Call)
		if !ok || !call.Call.IsInvoke() || call.Call.Method.Name() != "Header" {
			return false
		}
		return anyIn(sliceOf(call.Call.Value), func(x ssa.Value) bool {
			ia, ok := x.(*ssa.IndexAddr)
			if !ok || ia.X != rrset {
				return false
			}
			k0, isK := constIntOf(ia.Index)
			return isK && k0 == 0
		})
	}
	zone, _ := c.constInt("ZONE")
	isCanonSigner := func(v ssa.Value) bool {
		call, ok := v.(*ssa.Call)
		return ok && calleeNameSSA(&call.Call) == "CanonicalName" && anyIn(sliceOf(call.Call.Args[0]), fieldPathOf(isValue(rr), "SignerName"))
	}
	callWith := func(name string, a0, a1 vpred) vpred {
		return func(v ssa.Value) bool {
			call, ok := v.(*ssa.Call)
			if !ok || calleeNameSSA(&call.Call) != name || len(call.Call.Args) != 2 {
				return false
			}
			s0, s1 := sliceOf(call.Call.Args[0]), sliceOf(call.Call.Args[1])
			return (anyIn(s0, a0) && anyIn(s1, a1)) || (name == "equal" && anyIn(s0, a1) && anyIn(s1, a0))
		}
	}
	guards := []Guard{
		{Name: "IsRRset(rrset)", Op: "call", A: func(v ssa.Value) bool {
			call, ok := v.(*ssa.Call)
			return ok && calleeNameSSA(&call.Call) == "IsRRset" && call.Call.Args[0] == rrset
		}, Holds: true},
		{Name: "rr.KeyTag == k.KeyTag()", Op: "eq", A: fieldPathOf(isValue(rr), "KeyTag"), B: func(v ssa.Value) bool {
			call, ok := v.(*ssa.Call)
			return ok && calleeNameSSA(&call.Call) == "(DNSKEY).KeyTag" && call.Call.Args[0] == k
		}, Holds: true},
		{Name: "rr.Hdr.Class == k.Hdr.Class", Op: "eq", A: fieldPathOf(isValue(rr), "Hdr.Class"), B: fieldPathOf(isValue(k), "Hdr.Class"), Holds: true},
		{Name: "rr.Algorithm == k.Algorithm", Op: "eq", A: fieldPathOf(isValue(rr), "Algorithm"), B: fieldPathOf(isValue(k), "Algorithm"), Holds: true},
		{Name: "equal(CanonicalName(rr.SignerName), k.Hdr.Name)", Op: "call", A: callWith("equal", isCanonSigner, fieldPathOf(isValue(k), "Hdr.Name")), Holds: true},
		{Name: "k.Protocol == 3", Op: "eq", A: fieldPathOf(isValue(k), "Protocol"), B: isConstInt(3), Holds: true},
		{Name: "k.Flags&ZONE != 0", Op: "eq", A: func(v ssa.Value) bool {
			b, ok := v.(*ssa.BinOp)
			if !ok || b.Op != token.AND {
				return false
			}
			kk, isK := constIntOf(b.Y)
			return isK && kk == zone && zone == 256 && anyIn(sliceOf(b.X), fieldPathOf(isValue(k), "Flags"))
		}, B: isConstInt(0), Holds: false, Alt: &Guard{Op: "eq", A: func(v ssa.Value) bool {
			// the same test written k.Flags&ZONE == ZONE (ZONE is a single bit)
			b, ok := v.(*ssa.BinOp)
			if !ok || b.Op != token.AND {
				return false
			}
			kk, isK := constIntOf(b.Y)
			return isK && kk == zone && zone == 256 && anyIn(sliceOf(b.X), fieldPathOf(isValue(k), "Flags"))
		}, B: isConstInt(256), Holds: true}},
		{Name: "h0.Class == rr.Hdr.Class", Op: "eq", A: fieldPathOf(isH0, "Class"), B: fieldPathOf(isValue(rr), "Hdr.Class"), Holds: true},
		{Name: "h0.Rrtype == rr.TypeCovered", Op: "eq", A: fieldPathOf(isH0, "Rrtype"), B: fieldPathOf(isValue(rr), "TypeCovered"), Holds: true},
		{Name: "CountLabel(h0.Name) >= rr.Labels", Op: "lt", A: func(v ssa.Value) bool {
			call, ok := v.(*ssa.Call)
			return ok && calleeNameSSA(&call.Call) == "CountLabel" && anyIn(sliceOf(call.Call.Args[0]), fieldPathOf(isH0, "Name"))
		}, B: fieldPathOf(isValue(rr), "Labels"), Holds: false},
		{Name: "equal(h0.Name, rr.Hdr.Name)", Op: "call", A: callWith("equal", fieldPathOf(isH0, "Name"), fieldPathOf(isValue(rr), "Hdr.Name")), Holds: true},
		{Name: "HasSuffix(CanonicalName(h0.Name), signerName)", Op: "call", A: callWith("strings.HasSuffix", fieldPathOf(isH0, "Name"), isCanonSigner), Holds: true},
	}
	pts, und := successPoints(c, fn, 0, []string{"rsa.VerifyPKCS1v15"})
	for _, u := range und {
		r.undecided("C10.R1.verdict", "RRSIG.Verify:returns", c.pos(fn.Pos()), "%s", u)
	}
	for _, g := range guards {
		var problems []string
		for _, p := range pts {
			if miss := guardsMissing(fn, p.Block, []Guard{g}); len(miss) > 0 {
				problems = append(problems, fmt.Sprintf("success at %s is reachable without it", c.pos(p.Pos)))
			}
		}
		r.check(len(problems) == 0 && len(pts) > 0, "C10.R1.verify-guards", "RRSIG.Verify:"+g.Name, c.pos(fn.Pos()), fmt.Sprintf("dominates all %d success points", len(pts)), "pre-check %s: %s", g.Name, strings.Join(problems, "; "))
	}
	r.check(len(pts) >= 3, "C10.R1.verify-guards", "RRSIG.Verify:success-points", c.pos(fn.Pos()), fmt.Sprintf("%d", len(pts)), "only %d success points found (RSA, ECDSA, Ed25519 expected)", len(pts))
	// verdicts
	verifiers := map[string]string{"nil": "", "verdict:rsa.VerifyPKCS1v15": "rsa"}
	_ = verifiers
	for i, p := range pts {
		construct := fmt.Sprintf("RRSIG.Verify:success#%d", i+1)
		var problems []string
		var verifier *ssa.Call
		if p.Kind == "nil" {
			for _, f := range factsAt(fn, p.Block) {
				if call, ok := f.Atom.(*ssa.Call); ok && f.Holds {
					n := calleeNameSSA(&call.Call)
					if n == "ecdsa.Verify" || n == "ed25519.Verify" {
						verifier = call
					}
				}
			}
			if verifier == nil {
				problems = append(problems, "nil is returned without a cryptographic verifier having said yes")
			}
		} else {
			for _, in := range p.Block.Instrs {
				if call, ok := in.(*ssa.Call); ok && calleeNameSSA(&call.Call) == "rsa.VerifyPKCS1v15" {
					verifier = call
				}
			}
		}
		if verifier != nil {
			// inputs: public key from k, signature from rr.sigBuf(), data = prefix then rrset
			args := verifier.Call.Args
			all := map[ssa.Value]bool{}
			for _, a := range args {
				for v := range sliceOf(a) {
					all[v] = true
				}
			}
			if !anyIn(all, func(v ssa.Value) bool {
				call, ok := v.(*ssa.Call)
				return ok && strings.HasPrefix(calleeNameSSA(&call.Call), "(DNSKEY).publicKey") && call.Call.Args[0] == k
			}) {
				problems = append(problems, "the verifier is not given the public key of k")
			}
			// ... on every path: the key argument is never anything but the key decoded from k by this call
			for _, l := range phiLeaves(args[0]) {
				if ex, isEx := l.(*ssa.Extract); isEx {
					l = ex.Tuple
				}
				call, ok := l.(*ssa.Call)
				if !ok || !strings.HasPrefix(calleeNameSSA(&call.Call), "(DNSKEY).publicKey") || call.Call.Args[0] != k {
					problems = append(problems, fmt.Sprintf("on some path the verifier's key is %s, not the key decoded from k by this call", describeValue(l)))
				}
			}
			if !anyIn(all, func(v ssa.Value) bool {
				call, ok := v.(*ssa.Call)
				return ok && calleeNameSSA(&call.Call) == "(RRSIG).sigBuf" && call.Call.Args[0] == rr
			}) {
				problems = append(problems, "the verifier is not given the RRSIG's signature")
			}
			// data order
			var seq []string
			if calleeNameSSA(&verifier.Call) == "ed25519.Verify" {
				// append(signeddata, wire...)
				for v := range sliceOf(args[1]) {
					if call, ok := v.(*ssa.Call); ok && calleeNameSSA(&call.Call) == "builtin.append" {
						seq = []string{bufferClass(fn, call.Call.Args[0]), bufferClass(fn, call.Call.Args[1])}
					}
				}
			} else {
				for _, b := range fn.Blocks {
					if !(b == verifier.Block() || b.Dominates(verifier.Block())) {
						continue
					}
					for _, in := range b.Instrs {
						call, ok := in.(*ssa.Call)
						if ok && call.Call.IsInvoke() && call.Call.Method.Name() == "Write" && precedes(call, verifier) {
							// only writes in the verifier's own branch
							if call.Block() == verifier.Block() || len(call.Block().Succs) > 0 {
								seq = append(seq, bufferClass(fn, call.Call.Args[0]))
							}
						}
					}
				}
			}
			if fmt.Sprint(seq) != "[sigwire call:rawSignatureData]" {
				problems = append(problems, fmt.Sprintf("the signed data is assembled as %v, RFC 4034 s.3.1.8.1 is RRSIG_RDATA | RR(1) | RR(2)...", seq))
			}
		}
		r.check(len(problems) == 0, "C10.R1.verdict", construct, c.pos(p.Pos), p.Kind, "%s", strings.Join(problems, "; "))
	}
}

func c10R2(c *Ctx, r *Report) {
	r.rule("C10.R2.sigwire-struct", 1, "rrsigWireFmt equals RRSIG's RDATA prefix and is packed in order, signer name uncompressed")
	r.rule("C10.R2.sigwire-fill", 2, "signAsIs and Verify fill every rrsigWireFmt field from the same-named RRSIG field (SignerName via CanonicalName)")
	c.checkSideStruct(r, "C10.R2.sigwire-struct", "rrsigWireFmt", "RRSIG", "packSigWire")
	for _, fn := range []string{"RRSIG.signAsIs", "RRSIG.Verify"} {
		c.checkSideFill(r, "C10.R2.sigwire-fill", fn, "rrsigWireFmt", "RRSIG", map[string][]string{"SignerName": {"CanonicalName"}})
	}
	// the signer name must be lower-cased in both
	for _, name := range []string{"RRSIG.signAsIs", "RRSIG.Verify"} {
		fn := c.ssaFunc(name)
		if fn == nil {
			continue
		}
		ok := false
		allInstrs(fn, func(in ssa.Instruction) {
			st, isSt := in.(*ssa.Store)
			if !isSt || !readsField("rrsigWireFmt", "SignerName")(st.Addr) {
				return
			}
			if anyIn(sliceOf(st.Val), callsFunc("CanonicalName")) {
				ok = true
			}
		})
		r.check(ok, "C10.R2.sigwire-fill", name+":signer-lowercase", c.pos(fn.Pos()), "CanonicalName(rr.SignerName)", "the signer name enters the signed data without being lower-cased: signatures would depend on its letter case")
	}
}

// recordRoots classifies where the record whose field is written comes from.
func recordRoots(v ssa.Value, rrset ssa.Value) map[string]bool {
	out := map[string]bool{}
	seen := map[ssa.Value]bool{}
	var walk func(v ssa.Value)
	walk = func(v ssa.Value) {
		if v == nil || seen[v] {
			return
		}
		seen[v] = true
		switch t := v.(type) {
		case *ssa.FieldAddr:
			walk(t.X)
		case *ssa.TypeAssert:
			walk(t.X)
		case *ssa.Extract:
			walk(t.Tuple)
		case *ssa.Phi:
			for _, e := range t.Edges {
				walk(e)
			}
		case *ssa.ChangeInterface:
			walk(t.X)
		case *ssa.MakeInterface:
			walk(t.X)
		case *ssa.Call:
			if t.Call.IsInvoke() {
				switch t.Call.Method.Name() {
				case "copy":
					out["copy"] = true
				case "Header":
					walk(t.Call.Value)
				default:
					out["call:"+t.Call.Method.Name()] = true
				}
				return
			}
			n := calleeNameSSA(&t.Call)
			if n == "Copy" {
				out["copy"] = true
				return
			}
			if strings.HasSuffix(n, ".Header") && len(t.Call.Args) > 0 {
				walk(t.Call.Args[0])
				return
			}
			out["call:"+n] = true
		case *ssa.UnOp:
			if t.Op == token.MUL {
				if ia, ok := t.X.(*ssa.IndexAddr); ok && ia.X == rrset {
					out["rrset-element"] = true
					return
				}
				if a, ok := t.X.(*ssa.Alloc); ok {
					// spilled local: follow the stores
					for _, ref := range *a.Referrers() {
						if st, ok := ref.(*ssa.Store); ok && st.Addr == a {
							walk(st.Val)
						}
					}
					return
				}
				walk(t.X)
				return
			}
			out["?"] = true
		case *ssa.Alloc:
			out["local"] = true
		case *ssa.Parameter:
			out["param:"+t.Name()] = true
		default:
			out["?"] = true
		}
	}
	walk(v)
	return out
}

func c10R3(c *Ctx, r *Report) {
	r.rule("C10.R3.copy-only", 1, "rawSignatureData stores only into copies of the records")
	r.rule("C10.R3.canonical-header", 1, "OrigTtl and the canonical (wildcard-reconstructed) owner are substituted on every iteration path before packing")
	r.rule("C10.R3.lowercase-types", 21, "every RFC 4034 s.6.2 type has a case lower-casing each of its embedded names")
	r.rule("C10.R3.sort-dedup", 2, "records are sorted by RDATA before concatenation and byte-equal neighbours are skipped")
	fn := c.ssaFunc("rawSignatureData")
	fd := c.decl("rawSignatureData")
	if fn == nil || fd == nil {
		r.cerr("C10.R3.copy-only", "rawSignatureData", "function not found")
		return
	}
	r.fn("rawSignatureData")
	rrset := paramOf(fn, "rrset")
	sig := paramOf(fn, "s")
	var problems []string
	nStores := 0
	allInstrs(fn, func(in ssa.Instruction) {
		st, ok := in.(*ssa.Store)
		if !ok {
			return
		}
		fa, ok := st.Addr.(*ssa.FieldAddr)
		if !ok {
			return
		}
		if _, isLocal := fa.X.(*ssa.Alloc); isLocal {
			return
		}
		nStores++
		roots := recordRoots(fa.X, rrset)
		var bad []string
		for k := range roots {
			if k != "copy" {
				bad = append(bad, k)
			}
		}
		sort.Strings(bad)
		if len(bad) > 0 || !roots["copy"] {
			n := derefNamed(fa.X.Type())
			tn := "?"
			if n != nil {
				tn = n.Obj().Name() + "." + n.Underlying().(*types.Struct).Field(fa.Field).Name()
			}
			problems = append(problems, fmt.Sprintf("%s: store to %s may hit the caller's record (reached from %v, not only from r.copy())", c.pos(st.Pos()), tn, bad))
		}
	})
	if nStores < 20 {
		problems = append(problems, fmt.Sprintf("only %d record stores seen", nStores))
	}
	r.check(len(problems) == 0, "C10.R3.copy-only", "rawSignatureData", c.pos(fn.Pos()), fmt.Sprintf("%d stores, all into copies", nStores), "%s", strings.Join(problems, "; "))

	// canonical header: from the copy call, every path to PackRR passes the Ttl store (value s.OrigTtl) and a Name store fed by CanonicalName
	problems = nil
	var copyCall ssa.Instruction
	allInstrs(fn, func(in ssa.Instruction) {
		if call, ok := in.(*ssa.Call); ok && call.Call.IsInvoke() && call.Call.Method.Name() == "copy" {
			copyCall = in
		}
	})
	packs := callsIn(fn, "PackRR")
	if copyCall == nil || len(packs) != 1 {
		problems = append(problems, "anchors (r.copy(), PackRR) not found")
	} else {
		pack := packs[0].(ssa.Instruction)
		isTtl := func(x ssa.Instruction) bool {
			st, ok := x.(*ssa.Store)
			return ok && readsField("RR_Header", "Ttl")(st.Addr) && anyIn(sliceOf(st.Val), fieldPathOf(isValue(sig), "OrigTtl"))
		}
		isName := func(x ssa.Instruction) bool {
			st, ok := x.(*ssa.Store)
			if !ok || !readsField("RR_Header", "Name")(st.Addr) {
				return false
			}
			call, ok := st.Val.(*ssa.Call)
			return ok && calleeNameSSA(&call.Call) == "CanonicalName"
		}
		for _, h := range []struct {
			name string
			hit  func(ssa.Instruction) bool
		}{{"h.Ttl = s.OrigTtl", isTtl}, {"h.Name = CanonicalName(h.Name)", isName}} {
			stop := func(x ssa.Instruction) bool { return x == pack }
			passed := mustPassBefore(fn, copyCall, h.hit, stop)
			if !passed {
				problems = append(problems, fmt.Sprintf("a record can be packed for signing without %s", h.name))
			}
		}
		// PackRR packs the copy, uncompressed
		pa := packs[0].Common().Args
		if roots := recordRoots(pa[0], rrset); !roots["copy"] || len(roots) != 1 {
			problems = append(problems, "PackRR is not given the canonicalised copy")
		}
		if b, ok := constBool(pa[4]); !ok || b || !isNilConst(pa[3]) {
			problems = append(problems, "canonical form must be packed without compression")
		}
		// wildcard reconstruction guarded by len(labels) > s.Labels
		nWild := 0
		isStar := func(v ssa.Value) bool {
			cst, ok := v.(*ssa.Const)
			return ok && cst.Value != nil && cst.Value.ExactString() == `"*."`
		}
		usesStar := func(f *ssa.Function) bool {
			found := false
			allInstrs(f, func(in ssa.Instruction) {
				for _, op := range in.Operands(nil) {
					if *op != nil && isStar(*op) {
						found = true
					}
				}
			})
			return found
		}
		// the reconstruction sits in rawSignatureData or in a helper it calls (whose Labels argument is s.Labels)
		wfn := calleeWith(fn, usesStar)
		if wfn != nil {
			labelsIn := boundTo(fn, wfn, fieldPathOf(isValue(sig), "Labels"))
			var extras []string
			allInstrs(wfn, func(in ssa.Instruction) {
				blocks := []*ssa.BasicBlock{}
				if phi, isPhi := in.(*ssa.Phi); isPhi {
					for i, e := range phi.Edges {
						if isStar(e) {
							blocks = append(blocks, phi.Block().Preds[i])
						}
					}
				} else {
					for _, op := range in.Operands(nil) {
						if *op != nil && isStar(*op) {
							blocks = append(blocks, in.Block())
						}
					}
				}
				for _, b := range blocks {
					nWild++
					g := Guard{Name: "len(labels) > int(Labels)", Op: "lt", A: labelsIn, B: callsFunc("builtin.len"), Holds: true, Alt: diffPositive(labelsIn)}
					if miss := guardsMissing(wfn, b, []Guard{g}); len(miss) > 0 {
						problems = append(problems, fmt.Sprintf("%s: wildcard owner reconstruction not guarded by %s", c.pos(in.Pos()), miss[0]))
					}
					extra := ""
					for _, fc := range factsAt(wfn, b) {
						if fc.If == nil || matchGuard(fc, g) {
							continue
						}
						// in rawSignatureData itself only what lies behind the copy of the record counts (the loop over
						// the RRset and the tests before it are not conditions of the reconstruction)
						if wfn == fn && !(copyCall.Block() == fc.If.Block() || copyCall.Block().Dominates(fc.If.Block())) {
							continue
						}
						extra = fc.Atom.String()
					}
					extras = append(extras, extra)
				}
			})
			// the "*." of the rebuilt owner is used where nothing but the label-count test has been passed (its use in
			// the arm that appends the remaining labels lies behind a further test)
			if len(extras) > 0 {
				free := false
				for _, e := range extras {
					if e == "" {
						free = true
					}
				}
				if !free {
					problems = append(problems, fmt.Sprintf("the wildcard owner is rebuilt only under an additional condition (%s): owners with more labels than RRSIG.Labels that fail it are signed/verified under their own name, so valid wildcard expansions are refused", extras[0]))
				}
			}
			if nWild >= 1 {
				nWild = 1
			}
		}
		allInstrs(fn, func(in ssa.Instruction) {
			st, ok := in.(*ssa.Store)
			if !ok || !readsField("RR_Header", "Name")(st.Addr) || wfn != nil {
				return
			}
			if _, isCall := st.Val.(*ssa.Call); isCall {
				return
			}
			// a concatenation starting with "*."
			if anyIn(sliceOf(st.Val), isStar) {
				nWild++
				g := Guard{Name: "len(labels) > int(s.Labels)", Op: "lt", A: fieldPathOf(isValue(sig), "Labels"), B: callsFunc("builtin.len"), Holds: true, Alt: diffPositive(fieldPathOf(isValue(sig), "Labels"))}
				if miss := guardsMissing(fn, st.Block(), []Guard{g}); len(miss) > 0 {
					problems = append(problems, fmt.Sprintf("%s: wildcard owner reconstruction not guarded by %s", c.pos(st.Pos()), miss[0]))
				}
				// ... and by nothing else: RFC 4035 s.5.3.2 rebuilds the owner whenever it has more labels than the RRSIG's Labels field
				for _, fc := range factsAt(fn, st.Block()) {
					if fc.If == nil || !(copyCall.Block() == fc.If.Block() || copyCall.Block().Dominates(fc.If.Block())) {
						continue
					}
					if !matchGuard(fc, g) {
						problems = append(problems, fmt.Sprintf("%s: the wildcard owner is rebuilt only under an additional condition (%s): owners with more labels than RRSIG.Labels that fail it are signed/verified under their own name, so valid wildcard expansions are refused", c.pos(st.Pos()), c.pos(fc.If.Pos())))
					}
				}
			}
		})
		if nWild != 1 {
			problems = append(problems, fmt.Sprintf("%d wildcard reconstructions found", nWild))
		}
	}
	r.check(len(problems) == 0, "C10.R3.canonical-header", "rawSignatureData", c.pos(fn.Pos()), "OrigTtl, canonical owner, wildcard", "%s", strings.Join(problems, "; "))

	// type switch coverage (AST)
	var ts *ast.TypeSwitchStmt
	ast.Inspect(fd.Body, func(n ast.Node) bool {
		if t, ok := n.(*ast.TypeSwitchStmt); ok && ts == nil {
			ts = t
		}
		return true
	})
	if ts == nil {
		r.undecided("C10.R3.lowercase-types", "rawSignatureData", c.pos(fd.Pos()), "no type switch found")
	} else {
		clauses := map[string]*ast.CaseClause{}
		for _, cl := range ts.Body.List {
			cc := cl.(*ast.CaseClause)
			for _, e := range cc.List {
				if n := derefNamed(c.Info.TypeOf(e)); n != nil {
					clauses[n.Obj().Name()] = cc
				}
			}
		}
		byName := map[string]*rrType{}
		for _, t := range c.rrTypes() {
			byName[t.Name] = t
		}
		for _, tn := range rfc4034LowercaseTypes {
			t := byName[tn]
			if t == nil {
				r.cerr("C10.R3.lowercase-types", tn, "record type not found")
				continue
			}
			cc := clauses[tn]
			if cc == nil {
				r.fail("C10.R3.lowercase-types", tn, c.pos(ts.Pos()), "RFC 4034 s.6.2 lists %s among the types whose embedded names are lower-cased for signing, but rawSignatureData has no case for it: an RRset signed with one spelling fails to verify with another", tn)
				continue
			}
			lowered := map[string]bool{}
			for _, s := range cc.Body {
				// helper(&x.F, &x.G) where the helper stores CanonicalName(*p) through every pointer it is given
				if es, isES := s.(*ast.ExprStmt); isES {
					if hc, isCall := ast.Unparen(es.X).(*ast.CallExpr); isCall {
						if hd := c.decl(c.calleeName(hc)); hd != nil && hd.Body != nil && lowersThroughPointersAST(c, hd) {
							for _, a := range hc.Args {
								if ue, isU := ast.Unparen(a).(*ast.UnaryExpr); isU && ue.Op == token.AND {
									if f := c.fieldOf(ue.X); f != nil {
										lowered[f.Name()] = true
									}
								}
							}
						}
					}
					continue
				}
				as, ok := s.(*ast.AssignStmt)
				if !ok || len(as.Lhs) != 1 || len(as.Rhs) != 1 {
					continue
				}
				lf := c.fieldOf(as.Lhs[0])
				call, ok := ast.Unparen(as.Rhs[0]).(*ast.CallExpr)
				if lf == nil || !ok || c.calleeName(call) != "CanonicalName" || len(call.Args) != 1 {
					continue
				}
				if rf := c.fieldOf(call.Args[0]); rf == lf {
					lowered[lf.Name()] = true
				}
			}
			var missing []string
			for _, f := range t.Fields {
				k, _ := kindOf(f)
				if bk := baseKind(k); bk == "C" || bk == "N" {
					if !lowered[f.Name] {
						missing = append(missing, f.Name)
					}
				}
			}
			r.check(len(missing) == 0, "C10.R3.lowercase-types", tn, c.pos(cc.Pos()), "all embedded names lower-cased", "case *%s does not lower-case %v", tn, missing)
		}
	}

	// sort and dedup
	problems = nil
	sorts := callsIn(fn, "sort.Sort")
	var appendCall *ssa.Call
	allInstrs(fn, func(in ssa.Instruction) {
		if call, ok := in.(*ssa.Call); ok && calleeNameSSA(&call.Call) == "builtin.append" {
			if _, isByte := call.Type().Underlying().(*types.Slice); isByte {
				if b, ok := call.Type().Underlying().(*types.Slice).Elem().Underlying().(*types.Basic); ok && b.Kind() == types.Uint8 {
					appendCall = call
				}
			}
		}
	})
	if len(sorts) != 1 || appendCall == nil {
		problems = append(problems, "sort.Sort / concatenation not found")
	} else {
		if !precedes(sorts[0].(ssa.Instruction), appendCall) {
			problems = append(problems, "the wires are concatenated before being sorted")
		}
		eqs := callsIn(fn, "bytes.Equal")
		if compact := compactByBytesEqual(fn); len(eqs) == 0 && compact != nil {
			// wires = slices.CompactFunc(wires, bytes.Equal): the library's removal of equal neighbours, between the
			// sort and the concatenation, and what is concatenated is what it returned
			if !precedes(sorts[0].(ssa.Instruction), compact) {
				problems = append(problems, "equal neighbours are removed before the wires are sorted")
			}
			if !precedes(compact, appendCall) || !sliceOf(appendCall.Call.Args[len(appendCall.Call.Args)-1])[compact] {
				problems = append(problems, "what is concatenated is not what the removal of equal neighbours returned")
			}
		} else if len(eqs) != 1 {
			problems = append(problems, "no bytes.Equal duplicate test")
		} else {
			eq := eqs[0].(*ssa.Call)
			// find the If on eq
			var ifb *ssa.BasicBlock
			trueIdx := 0
			for _, ref := range *eq.Referrers() {
				if ifi, ok := ref.(*ssa.If); ok {
					ifb = ifi.Block()
				}
			}
			for _, b := range fn.Blocks {
				if ifi, ok := b.Instrs[len(b.Instrs)-1].(*ssa.If); ok {
					atom, pol := condAtom(ifi.Cond)
					if atom == eq {
						ifb = b
						if !pol {
							trueIdx = 1
						}
					}
				}
			}
			if ifb == nil {
				problems = append(problems, "bytes.Equal result is not branched on")
			} else {
				// loop head of the append: nearest dominator that the append block can reach back to
				head := appendCall.Block().Idom()
				for head != nil && !reach(appendCall.Block(), nil, nil)[head] {
					head = head.Idom()
				}
				if head == nil {
					problems = append(problems, "the concatenation is not in a loop")
				} else if reach(ifb.Succs[trueIdx], nil, map[*ssa.BasicBlock]bool{head: true})[appendCall.Block()] {
					problems = append(problems, "a record byte-equal to its predecessor is still appended (duplicates must be removed, RFC 4034 s.6.3)")
				}
				// compared with the predecessor wires[i-1]
				if !anyIn(sliceOf(eq.Call.Args[1]), func(v ssa.Value) bool {
					b, ok := v.(*ssa.BinOp)
					if !ok || b.Op != token.SUB {
						return false
					}
					k, isK := constIntOf(b.Y)
					return isK && k == 1
				}) && !anyIn(sliceOf(eq.Call.Args[0]), func(v ssa.Value) bool {
					b, ok := v.(*ssa.BinOp)
					if !ok || b.Op != token.SUB {
						return false
					}
					k, isK := constIntOf(b.Y)
					return isK && k == 1
				}) {
					problems = append(problems, "the duplicate test does not compare with the preceding record")
				}
			}
		}
	}
	r.check(len(problems) == 0, "C10.R3.sort-dedup", "rawSignatureData", c.pos(fn.Pos()), "sort, then skip equal neighbours", "%s", strings.Join(problems, "; "))
	// Less: compares from owner-name end + 10 on both sides
	if less := c.ssaFunc("wireSlice.Less"); less == nil {
		r.cerr("C10.R3.sort-dedup", "wireSlice.Less", "function not found")
	} else {
		r.fn("wireSlice.Less")
		var lp []string
		cmps := callsIn(less, "bytes.Compare")
		if len(cmps) != 1 {
			lp = append(lp, "no bytes.Compare")
		} else {
			for i, a := range cmps[0].Common().Args {
				sl, ok := a.(*ssa.Slice)
				if !ok || sl.Low == nil || sl.High != nil {
					lp = append(lp, fmt.Sprintf("operand %d is not p[x][off+10:]", i))
					continue
				}
				base, k := offsetOf(sl.Low)
				if k != 10 || base == nil || !callsExtract("UnpackDomainName")(base) {
					lp = append(lp, fmt.Sprintf("operand %d skips the owner name plus %d octets; type(2)+class(2)+ttl(4)+rdlength(2) = 10 must be skipped so that the order is by RDATA alone", i, k))
				}
			}
			// result is compare < 0
			for _, rp := range returnPoints(less, 0) {
				b, ok := rp.Results[0].(*ssa.BinOp)
				if !ok || b.Op != token.LSS || b.X != cmps[0].Value() {
					lp = append(lp, "Less is not bytes.Compare(...) < 0")
				} else if k, isK := constIntOf(b.Y); !isK || k != 0 {
					lp = append(lp, "Less is not bytes.Compare(...) < 0")
				}
			}
		}
		r.check(len(lp) == 0, "C10.R3.sort-dedup", "wireSlice.Less", c.pos(less.Pos()), "RDATA order", "%s", strings.Join(lp, "; "))
	}
}

// mustPassBefore: from just after `from`, every path that reaches an instruction satisfying stop has passed hit.
func mustPassBefore(fn *ssa.Function, from ssa.Instruction, hit, stop func(ssa.Instruction) bool) bool {
	type item struct {
		b     *ssa.BasicBlock
		start int
	}
	seen := map[*ssa.BasicBlock]bool{}
	stack := []item{{from.Block(), instrIndex(from) + 1}}
	for len(stack) > 0 {
		it := stack[len(stack)-1]
		stack = stack[:len(stack)-1]
		done := false
		for i := it.start; i < len(it.b.Instrs); i++ {
			in := it.b.Instrs[i]
			if hit(in) {
				done = true
				break
			}
			if stop(in) {
				return false
			}
		}
		if done {
			continue
		}
		for _, s := range it.b.Succs {
			if !seen[s] {
				seen[s] = true
				stack = append(stack, item{s, 0})
			}
		}
	}
	return true
}

func c10R4(c *Ctx, r *Report) {
	r.rule("C10.R4.sign-fill", 1, "RRSIG.Sign fills owner, class, type, covered type, labels and OrigTtl from the first record before signing")
	fn := c.ssaFunc("RRSIG.Sign")
	if fn == nil {
		r.cerr("C10.R4.sign-fill", "RRSIG.Sign", "function not found")
		return
	}
	r.fn("RRSIG.Sign")
	rr, rrset := paramOf(fn, "rr"), paramOf(fn, "rrset")
	isH0 := func(v ssa.Value) bool {
		call, ok := v.(*ssa.Call)
		if !ok || !call.Call.IsInvoke() || call.Call.Method.Name() != "Header" {
			return false
		}
		return anyIn(sliceOf(call.Call.Value), func(x ssa.Value) bool {
			ia, ok := x.(*ssa.IndexAddr)
			return ok && ia.X == rrset
		})
	}
	signs := callsIn(fn, "(RRSIG).signAsIs")
	var problems []string
	if len(signs) != 1 {
		problems = append(problems, "signAsIs is not called exactly once")
	} else {
		sign := signs[0].(ssa.Instruction)
		typeRRSIG, _ := c.constInt("TypeRRSIG")
		need := []struct {
			path string
			src  vpred
			what string
		}{
			{"Hdr.Rrtype", isConstInt(typeRRSIG), "TypeRRSIG"},
			{"Hdr.Name", fieldPathOf(isH0, "Name"), "h0.Name"},
			{"Hdr.Class", fieldPathOf(isH0, "Class"), "h0.Class"},
			{"TypeCovered", fieldPathOf(isH0, "Rrtype"), "h0.Rrtype"},
			{"Labels", func(v ssa.Value) bool {
				call, ok := v.(*ssa.Call)
				return ok && calleeNameSSA(&call.Call) == "CountLabel" && anyIn(sliceOf(call.Call.Args[0]), fieldPathOf(isH0, "Name"))
			}, "CountLabel(h0.Name)"},
			{"OrigTtl", fieldPathOf(isH0, "Ttl"), "h0.Ttl"},
		}
		for _, n := range need {
			ok := false
			allInstrs(fn, func(in ssa.Instruction) {
				st, isSt := in.(*ssa.Store)
				if !isSt || !fieldPathOf(isValue(rr), n.path)(st.Addr) {
					return
				}
				if !(n.src(st.Val) || anyIn(sliceOf(st.Val), n.src)) {
					return
				}
				if n.path == "OrigTtl" {
					// only when unset
					if len(guardsMissing(fn, st.Block(), []Guard{{Op: "eq", A: fieldPathOf(isValue(rr), "OrigTtl"), B: isConstInt(0), Holds: true}})) > 0 {
						problems = append(problems, "OrigTtl is overwritten although the caller set it")
						return
					}
					// the store precedes the signing on its path: its block reaches the sign call
					if reach(st.Block(), nil, nil)[sign.Block()] {
						ok = true
					}
					return
				}
				if precedes(st, sign) {
					ok = true
				}
			})
			if !ok {
				problems = append(problems, fmt.Sprintf("rr.%s is not set from %s before signing", n.path, n.what))
			}
		}
		// wildcard: Labels-- on the HasPrefix(h0.Name, "*") edge
		okWild := false
		wildProblem := ""
		// the count minus one, computed in the field itself or in a local that is stored into the field afterwards
		labelsStored := map[ssa.Value]bool{}
		allInstrs(fn, func(in ssa.Instruction) {
			if st, isSt := in.(*ssa.Store); isSt && fieldPathOf(isValue(rr), "Labels")(st.Addr) {
				for o := range sliceOf(st.Val) {
					labelsStored[o] = true
				}
			}
		})
		allInstrs(fn, func(in ssa.Instruction) {
			b, ok := in.(*ssa.BinOp)
			if !ok || b.Op != token.SUB || !labelsStored[b] {
				return
			}
			if k, isK := constIntOf(b.Y); !isK || k != 1 {
				return
			}
			fromCount := false
			for o := range sliceOf(b.X) {
				if call, isCall := o.(*ssa.Call); isCall && calleeNameSSA(&call.Call) == "CountLabel" {
					fromCount = true
				}
				if fieldPathOf(isValue(rr), "Labels")(o) {
					fromCount = true
				}
			}
			if !fromCount {
				return
			}
			st := b
			if len(guardsMissing(fn, st.Block(), []Guard{{Op: "call", A: func(v ssa.Value) bool {
				call, ok := v.(*ssa.Call)
				if !(ok && calleeNameSSA(&call.Call) == "strings.HasPrefix" && anyIn(sliceOf(call.Call.Args[0]), fieldPathOf(isH0, "Name"))) {
					return false
				}
				// the wildcard is a LABEL: the prefix tested is "*." (a label "*abc" is not a wildcard)
				if k, isK := call.Call.Args[1].(*ssa.Const); !isK || k.Value == nil || k.Value.ExactString() != `"*."` {
					wildProblem = fmt.Sprintf("%s: a wildcard owner is recognised by the prefix %v, not by a leading \"*\" label: an ordinary owner such as *abc.example.org. is signed as *.example.org. and the RRSIG verifies every name under example.org.", c.pos(call.Pos()), call.Call.Args[1])
				}
				return true
			}, Holds: true}})) == 0 && reach(st.Block(), nil, nil)[sign.Block()] {
				okWild = true
			}
		})
		if !okWild {
			problems = append(problems, "the label count is not reduced by one for a wildcard owner")
		}
		if wildProblem != "" {
			problems = append(problems, wildProblem)
		}
		if signs[0].Common().Args[0] != rr || signs[0].Common().Args[2] != rrset {
			problems = append(problems, "signAsIs is not applied to the same RRSIG and RRset")
		}
	}
	r.check(len(problems) == 0, "C10.R4.sign-fill", "RRSIG.Sign", c.pos(fn.Pos()), "six fields from the first record", "%s", strings.Join(problems, "; "))
}

// compactByBytesEqual: the call slices.CompactFunc(x, bytes.Equal) in fn, nil when there is none.
func compactByBytesEqual(fn *ssa.Function) *ssa.Call {
	var out *ssa.Call
	allInstrs(fn, func(in ssa.Instruction) {
		call, ok := in.(*ssa.Call)
		if !ok || calleeNameSSA(&call.Call) != "slices.CompactFunc" || len(call.Call.Args) != 2 {
			return
		}
		eq := call.Call.Args[1]
		if mc, isMC := eq.(*ssa.MakeClosure); isMC {
			eq = mc.Fn
		}
		if ct, isCT := eq.(*ssa.ChangeType); isCT {
			eq = ct.X
		}
		if f, isF := eq.(*ssa.Function); isF && f.Object() != nil && objName(f.Object()) == "bytes.Equal" {
			out = call
		}
	})
	return out
}

// lowersThroughPointersAST: the function's only stores are `*p = CanonicalName(*p)` for a pointer p taken from its
// parameters (directly or by ranging over a variadic parameter).
func lowersThroughPointersAST(c *Ctx, fd *ast.FuncDecl) bool {
	found, other := false, false
	ast.Inspect(fd.Body, func(n ast.Node) bool {
		as, ok := n.(*ast.AssignStmt)
		if !ok || as.Tok != token.ASSIGN {
			return true
		}
		for i, l := range as.Lhs {
			st, isStar := ast.Unparen(l).(*ast.StarExpr)
			if !isStar || i >= len(as.Rhs) {
				other = true
				continue
			}
			call, isCall := ast.Unparen(as.Rhs[i]).(*ast.CallExpr)
			if !isCall || c.calleeName(call) != "CanonicalName" || len(call.Args) != 1 {
				other = true
				continue
			}
			arg, isStarArg := ast.Unparen(call.Args[0]).(*ast.StarExpr)
			if !isStarArg || types.ExprString(arg.X) != types.ExprString(st.X) {
				other = true
				continue
			}
			found = true
		}
		return true
	})
	return found && !other
}

// diffPositive: the same test written on the difference, `len(labels) - int(Labels) > 0`.
func diffPositive(isLabels vpred) *Guard {
	return &Guard{Name: "len(labels) - int(Labels) > 0", Op: "lt", A: isConstInt(0), B: func(v ssa.Value) bool {
		b, ok := v.(*ssa.BinOp)
		return ok && b.Op == token.SUB && anyIn(sliceOf(b.X), callsFunc("builtin.len")) && anyIn(sliceOf(b.Y), isLabels) && !anyIn(sliceOf(b.X), isLabels)
	}, Holds: true}
}
