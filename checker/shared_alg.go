package main

import (
	"fmt"
	"go/ast"
	"go/types"
	"sort"
	"strings"
)

// algorithmConsts: the DNSSEC algorithm constants, identified as the keys of the AlgorithmToString literal.
func (c *Ctx) algorithmConsts() map[types.Object]int64 {
	out := map[types.Object]int64{}
	for _, f := range c.Dns.Syntax {
		ast.Inspect(f, func(n ast.Node) bool {
			vs, ok := n.(*ast.ValueSpec)
			if !ok || len(vs.Names) != 1 || vs.Names[0].Name != "AlgorithmToString" || len(vs.Values) != 1 {
				return true
			}
			cl, ok := vs.Values[0].(*ast.CompositeLit)
			if !ok {
				return true
			}
			for _, el := range cl.Elts {
				kv, ok := el.(*ast.KeyValueExpr)
				if !ok {
					continue
				}
				if id, ok := kv.Key.(*ast.Ident); ok {
					if o := c.Info.Uses[id]; o != nil {
						if v, ok := c.exprConst(id); ok {
							out[o] = v
						}
					}
				}
			}
			return false
		})
	}
	return out
}

// algorithmCases: the algorithm constants named in case clauses of fn.
func (c *Ctx) algorithmCases(fn string, algs map[types.Object]int64) (map[int64]bool, bool) {
	fd := c.decl(fn)
	if fd == nil || fd.Body == nil {
		return nil, false
	}
	out := map[int64]bool{}
	ast.Inspect(fd.Body, func(n ast.Node) bool {
		cc, ok := n.(*ast.CaseClause)
		if !ok {
			return true
		}
		for _, e := range cc.List {
			if id, ok := ast.Unparen(e).(*ast.Ident); ok {
				if v, isAlg := algs[c.Info.Uses[id]]; isAlg {
					out[v] = true
				}
			}
		}
		return true
	})
	return out, true
}

// algorithmCoverage: every signature algorithm DNSKEY.Generate can make a key for is handled by each consumer:
// the signer, both verifiers, the private-key reader and the hash table. A key the library generates and signs
// with must verify and re-read.
func algorithmCoverage(c *Ctx, r *Report, rule string, consumers []string) {
	algs := c.algorithmConsts()
	if len(algs) < 8 {
		r.cerr(rule, "AlgorithmToString", "algorithm constants not found (%d)", len(algs))
		return
	}
	names := map[int64]string{}
	for o, v := range algs {
		names[v] = o.Name()
	}
	gen, ok := c.algorithmCases("DNSKEY.Generate", algs)
	if !ok || len(gen) < 5 {
		r.cerr(rule, "DNSKEY.Generate", "algorithm switch of DNSKEY.Generate not found")
		return
	}
	var want []int64
	for v := range gen {
		want = append(want, v)
	}
	sort.Slice(want, func(i, j int) bool { return want[i] < want[j] })
	for _, fn := range consumers {
		var have map[int64]bool
		if fn == "AlgorithmToHash" {
			have = map[int64]bool{}
			vals := c.mapLiteralExprs("AlgorithmToHash")
			if len(vals) == 0 {
				r.cerr(rule, fn, "map literal not found")
				continue
			}
			for k := range vals {
				have[k] = true
			}
		} else {
			var ok bool
			have, ok = c.algorithmCases(fn, algs)
			if !ok {
				r.cerr(rule, fn, "function not found")
				continue
			}
			r.fn(fn)
		}
		var missing []string
		for _, v := range want {
			if !have[v] {
				missing = append(missing, fmt.Sprintf("%s (%d)", names[v], v))
			}
		}
		pos := ""
		if fd := c.decl(fn); fd != nil {
			pos = c.pos(fd.Pos())
		}
		r.check(len(missing) == 0, rule, fn, pos, fmt.Sprintf("%d algorithms", len(want)), "%s has no case for %s, which DNSKEY.Generate produces keys for and sign() signs with: such keys / signatures are made by the library and then refused by it", fn, strings.Join(missing, ", "))
	}
}

// mapLiteralExprs: key constant -> value expression of a package-level map literal.
func (c *Ctx) mapLiteralExprs(name string) map[int64]ast.Expr {
	out := map[int64]ast.Expr{}
	for _, f := range c.Dns.Syntax {
		ast.Inspect(f, func(n ast.Node) bool {
			vs, ok := n.(*ast.ValueSpec)
			if !ok {
				return true
			}
			for i, id := range vs.Names {
				if id.Name != name || i >= len(vs.Values) {
					continue
				}
				cl, ok := vs.Values[i].(*ast.CompositeLit)
				if !ok {
					continue
				}
				for _, el := range cl.Elts {
					if kv, ok := el.(*ast.KeyValueExpr); ok {
						if k, okK := c.exprConst(kv.Key); okK {
							out[k] = kv.Value
						}
					}
				}
			}
			return true
		})
	}
	return out
}

// algorithmHashTable: AlgorithmToHash against the RFC table (RFC 3110, 5702, 6605, 8080; 1 and 3 historic).
func algorithmHashTable(c *Ctx, r *Report, rule string) {
	want := map[int64]string{1: "MD5", 3: "SHA1", 5: "SHA1", 7: "SHA1", 8: "SHA256", 10: "SHA512", 13: "SHA256", 14: "SHA384", 15: "0"}
	got := c.mapLiteralExprs("AlgorithmToHash")
	if len(got) == 0 {
		r.cerr(rule, "AlgorithmToHash", "map literal not found")
		return
	}
	var keys []int64
	for k := range got {
		keys = append(keys, k)
	}
	sort.Slice(keys, func(i, j int) bool { return keys[i] < keys[j] })
	for _, k := range keys {
		e := got[k]
		name := types.ExprString(e)
		if sel, ok := e.(*ast.SelectorExpr); ok {
			name = sel.Sel.Name
		}
		w, known := want[k]
		construct := fmt.Sprintf("AlgorithmToHash[%d]", k)
		if !known {
			r.note("%s: algorithm %d has no hash on file (%s); not compared", rule, k, name)
			r.ok(rule, construct, c.pos(e.Pos()), "no independent entry on file")
			continue
		}
		r.check(name == w, rule, construct, c.pos(e.Pos()), w, "algorithm %d is hashed with %s; its RFC specifies %s: Sign and Verify agree with each other, but the signatures are not the RFC's and signatures made elsewhere are refused", k, name, w)
	}
}

// ecdsaWidths: the ECDSA writer (setPublicKeyECDSA) and reader (publicKeyECDSA) agree on the coordinate width per
// algorithm, and it is RFC 6605's: algorithm 13 -> 32 octets per coordinate (64 in the key), 14 -> 48 (96).
func ecdsaWidths(c *Ctx, r *Report, rule string) { ecdsaWidthsExec(c, r, rule) }

// ecdsaWidthsAST is the first, spelling-bound form of the rule (kept for reference; not run).
func ecdsaWidthsAST(c *Ctx, r *Report, rule string) {
	algs := c.algorithmConsts()
	type entry struct{ alg, width int64 }
	collect := func(fname string, wantAssign bool) (map[int64]int64, bool) {
		fd := c.decl(fname)
		if fd == nil || fd.Body == nil {
			return nil, false
		}
		out := map[int64]int64{}
		ast.Inspect(fd.Body, func(n ast.Node) bool {
			cc, ok := n.(*ast.CaseClause)
			if !ok {
				return true
			}
			var keys []int64
			okKeys := true
			for _, e := range cc.List {
				v, isK := c.exprConst(e)
				id, isId := ast.Unparen(e).(*ast.Ident)
				if !isK || !isId {
					okKeys = false
					continue
				}
				_ = algs
				_ = id
				keys = append(keys, v)
			}
			if !okKeys || len(keys) == 0 {
				return true
			}
			// the width constant in the body: `intlen = K` or `len(keybuf) != K`
			var width int64 = -1
			for _, st := range cc.Body {
				ast.Inspect(st, func(m ast.Node) bool {
					switch t := m.(type) {
					case *ast.AssignStmt:
						if wantAssign && len(t.Rhs) == 1 {
							if v, ok := c.exprConst(t.Rhs[0]); ok {
								width = v
							}
						}
					case *ast.BinaryExpr:
						if !wantAssign {
							if v, ok := c.exprConst(t.Y); ok {
								if call, isCall := t.X.(*ast.CallExpr); isCall && c.calleeName(call) == "builtin.len" {
									width = v
								}
							}
						}
					}
					return true
				})
			}
			if width >= 0 {
				for _, k := range keys {
					out[k] = width
				}
			}
			return true
		})
		return out, true
	}
	w, ok1 := collect("DNSKEY.setPublicKeyECDSA", true)
	rd, ok2 := collect("DNSKEY.publicKeyECDSA", false)
	if !ok1 || !ok2 {
		r.cerr(rule, "ecdsa", "setPublicKeyECDSA / publicKeyECDSA not found")
		return
	}
	want := map[int64]int64{13: 32, 14: 48}
	var problems []string
	for alg, cw := range want {
		if got, ok := w[alg]; !ok {
			problems = append(problems, fmt.Sprintf("setPublicKeyECDSA has no coordinate width for algorithm %d (it would encode with width 0: coordinates with leading zero octets come out short)", alg))
		} else if got != cw {
			problems = append(problems, fmt.Sprintf("setPublicKeyECDSA pads algorithm %d coordinates to %d octets, RFC 6605 needs %d", alg, got, cw))
		}
		if got, ok := rd[alg]; !ok {
			problems = append(problems, fmt.Sprintf("publicKeyECDSA has no key length test for algorithm %d", alg))
		} else if got != 2*cw {
			problems = append(problems, fmt.Sprintf("publicKeyECDSA expects %d octets for algorithm %d, RFC 6605 needs %d", got, alg, 2*cw))
		}
	}
	for alg := range w {
		if _, ok := want[alg]; !ok {
			problems = append(problems, fmt.Sprintf("setPublicKeyECDSA has a width for %d, which is not an ECDSA signature algorithm number (13, 14)", alg))
		}
	}
	sort.Strings(problems)
	r.check(len(problems) == 0, rule, "ECDSA coordinate widths", "", "13:32/64, 14:48/96", "%s", strings.Join(problems, "; "))
}
