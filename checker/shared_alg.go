package main

import (
	"fmt"
	"go/ast"
	"go/types"
	"sort"
	"strings"
)

// algorithmConsts: the DNSSEC algorithm constants, identified as the keys of the AlgorithmToString literal.
func (c *Ctx) algorithmConsts() map[types.Object]int64 {
	out := map[types.Object]int64{}
	for _, f := range c.Dns.Syntax {
		ast.Inspect(f, func(n ast.Node) bool {
			vs, ok := n.(*ast.ValueSpec)
			if !ok || len(vs.Names) != 1 || vs.Names[0].Name != "AlgorithmToString" || len(vs.Values) != 1 {
				return true
			}
			cl, ok := vs.Values[0].(*ast.CompositeLit)
			if !ok {
				return true
			}
			for _, el := range cl.Elts {
				kv, ok := el.(*ast.KeyValueExpr)
				if !ok {
					continue
				}
				if id, ok := kv.Key.(*ast.Ident); ok {
					if o := c.Info.Uses[id]; o != nil {
						if v, ok := c.exprConst(id); ok {
							out[o] = v
						}
					}
				}
			}
			return false
		})
	}
	return out
}

// algorithmCases: the algorithm constants named in case clauses of fn.
func (c *Ctx) algorithmCases(fn string, algs map[types.Object]int64) (map[int64]bool, bool) {
	fd := c.decl(fn)
	if fd == nil || fd.Body == nil {
		return nil, false
	}
	out := map[int64]bool{}
	ast.Inspect(fd.Body, func(n ast.Node) bool {
		cc, ok := n.(*ast.CaseClause)
		if !ok {
			return true
		}
		for _, e := range cc.List {
			if id, ok := ast.Unparen(e).(*ast.Ident); ok {
				if v, isAlg := algs[c.Info.Uses[id]]; isAlg {
					out[v] = true
				}
			}
		}
		return true
	})
	return out, true
}

// algorithmCoverage: every signature algorithm DNSKEY.Generate can make a key for is handled by each consumer:
// the signer, both verifiers, the private-key reader and the hash table. A key the library generates and signs
// with must verify and re-read.
func algorithmCoverage(c *Ctx, r *Report, rule string, consumers []string) {
	algs := c.algorithmConsts()
	if len(algs) < 8 {
		r.cerr(rule, "AlgorithmToString", "algorithm constants not found (%d)", len(algs))
		return
	}
	names := map[int64]string{}
	for o, v := range algs {
		names[v] = o.Name()
	}
	gen, ok := c.algorithmCases("DNSKEY.Generate", algs)
	if !ok || len(gen) < 5 {
		r.cerr(rule, "DNSKEY.Generate", "algorithm switch of DNSKEY.Generate not found")
		return
	}
	var want []int64
	for v := range gen {
		want = append(want, v)
	}
	sort.Slice(want, func(i, j int) bool { return want[i] < want[j] })
	for _, fn := range consumers {
		var have map[int64]bool
		if fn == "AlgorithmToHash" {
			have = map[int64]bool{}
			vals := c.mapLiteralExprs("AlgorithmToHash")
			if len(vals) == 0 {
				r.cerr(rule, fn, "map literal not found")
				continue
			}
			for k := range vals {
				have[k] = true
			}
		} else {
			var ok bool
			have, ok = c.algorithmCases(fn, algs)
			if !ok {
				r.cerr(rule, fn, "function not found")
				continue
			}
			r.fn(fn)
		}
		var missing []string
		for _, v := range want {
			if !have[v] {
				missing = append(missing, fmt.Sprintf("%s (%d)", names[v], v))
			}
		}
		pos := ""
		if fd := c.decl(fn); fd != nil {
			pos = c.pos(fd.Pos())
		}
		r.check(len(missing) == 0, rule, fn, pos, fmt.Sprintf("%d algorithms", len(want)), "%s has no case for %s, which DNSKEY.Generate produces keys for and sign() signs with: such keys / signatures are made by the library and then refused by it", fn, strings.Join(missing, ", "))
	}
}

// mapLiteralExprs: key constant -> value expression of a package-level map literal.
func (c *Ctx) mapLiteralExprs(name string) map[int64]ast.Expr {
	out := map[int64]ast.Expr{}
	for _, f := range c.Dns.Syntax {
		ast.Inspect(f, func(n ast.Node) bool {
			vs, ok := n.(*ast.ValueSpec)
			if !ok {
				return true
			}
			for i, id := range vs.Names {
				if id.Name != name || i >= len(vs.Values) {
					continue
				}
				cl, ok := vs.Values[i].(*ast.CompositeLit)
				if !ok {
					continue
				}
				for _, el := range cl.Elts {
					if kv, ok := el.(*ast.KeyValueExpr); ok {
						if k, okK := c.exprConst(kv.Key); okK {
							out[k] = kv.Value
						}
					}
				}
			}
			return true
		})
	}
	return out
}

// algorithmHashTable: AlgorithmToHash against the RFC table (RFC 3110, 5702, 6605, 8080; 1 and 3 historic).
func algorithmHashTable(c *Ctx, r *Report, rule string) {
	want := map[int64]string{1: "MD5", 3: "SHA1", 5: "SHA1", 7: "SHA1", 8: "SHA256", 10: "SHA512", 13: "SHA256", 14: "SHA384", 15: "0"}
	got := c.mapLiteralExprs("AlgorithmToHash")
	if len(got) == 0 {
		r.cerr(rule, "AlgorithmToHash", "map literal not found")
		return
	}
	var keys []int64
	for k := range got {
		keys = append(keys, k)
	}
	sort.Slice(keys, func(i, j int) bool { return keys[i] < keys[j] })
	for _, k := range keys {
		e := got[k]
		name := types.ExprString(e)
		if sel, ok := e.(*ast.SelectorExpr); ok {
			name = sel.Sel.Name
		}
		w, known := want[k]
		construct := fmt.Sprintf("AlgorithmToHash[%d]", k)
		if !known {
			r.note("%s: algorithm %d has no hash on file (%s); not compared", rule, k, name)
			r.ok(rule, construct, c.pos(e.Pos()), "no independent entry on file")
			continue
		}
		r.check(name == w, rule, construct, c.pos(e.Pos()), w, "algorithm %d is hashed with %s; its RFC specifies %s: Sign and Verify agree with each other, but the signatures are not the RFC's and signatures made elsewhere are refused", k, name, w)
	}
}
