package main

import (
	"fmt"
	"go/constant"
	"go/token"
	"go/types"
	"sort"
	"strings"

	"golang.org/x/tools/go/ssa"
)

// Rules added after the tenth round of independent breaking changes.

// errResultsOf: the error-typed values extracted from a call's result tuple, and the phis that merge them.
func errResultsOf(call *ssa.Call) map[ssa.Value]bool {
	out := map[ssa.Value]bool{}
	if call.Referrers() == nil {
		return out
	}
	if isErrorType(call.Type()) {
		out[call] = true
	}
	for _, ref := range *call.Referrers() {
		if ex, ok := ref.(*ssa.Extract); ok && isErrorType(ex.Type()) {
			out[ex] = true
		}
	}
	// phis (and stores into result cells) that carry them
	changed := true
	for changed {
		changed = false
		for v := range out {
			refs := v.Referrers()
			if refs == nil {
				continue
			}
			for _, ref := range *refs {
				switch x := ref.(type) {
				case *ssa.Phi:
					if !out[x] {
						out[x] = true
						changed = true
					}
				case *ssa.Store:
					// err kept in a cell (named result captured by a defer): loads of the cell carry it
					if a, ok := x.Addr.(*ssa.Alloc); ok && a.Referrers() != nil {
						for _, r2 := range *a.Referrers() {
							if ld, ok := r2.(*ssa.UnOp); ok && ld.Op == token.MUL && !out[ld] {
								out[ld] = true
								changed = true
							}
						}
					}
				}
			}
		}
	}
	return out
}

func isErrorType(t types.Type) bool {
	n, ok := t.(*types.Named)
	return ok && n.Obj().Pkg() == nil && n.Obj().Name() == "error"
}

// errTest: cond is `e != nil` / `e == nil` for an e of the set; returns the successor index taken when e is nil.
func errTest(ifi *ssa.If, errs map[ssa.Value]bool) (nilSucc int, ok bool) {
	atom, pol := condAtom(ifi.Cond)
	bin, isBin := atom.(*ssa.BinOp)
	if !isBin || (bin.Op != token.NEQ && bin.Op != token.EQL) {
		return 0, false
	}
	var e ssa.Value
	switch {
	case isNilConst(bin.Y):
		e = bin.X
	case isNilConst(bin.X):
		e = bin.Y
	default:
		return 0, false
	}
	if !errs[e] {
		return 0, false
	}
	// atom true means: NEQ -> e non-nil, EQL -> e nil. cond true == atom is pol.
	atomTrueIsNil := bin.Op == token.EQL
	condTrueIsNil := atomTrueIsNil == pol
	if condTrueIsNil {
		return 0, true
	}
	return 1, true
}

// reachesCall: fn (or what it calls inside the package, three levels deep) contains a call instruction satisfying p.
func reachesCall(fn *ssa.Function, depth int, seen map[*ssa.Function]bool, p func(ssa.CallInstruction) bool) bool {
	if fn == nil || seen[fn] || depth < 0 || len(fn.Blocks) == 0 {
		return false
	}
	seen[fn] = true
	found := false
	for _, sub := range withAnon(fn) {
		allInstrs(sub, func(in ssa.Instruction) {
			if found {
				return
			}
			ci, ok := in.(ssa.CallInstruction)
			if !ok {
				return
			}
			if p(ci) {
				found = true
				return
			}
			if callee := ci.Common().StaticCallee(); callee != nil && callee.Pkg == fn.Pkg {
				if reachesCall(callee, depth-1, seen, p) {
					found = true
				}
			}
		})
	}
	return found
}

// readThenDispatch: in the serve loops a message that was read without an error is handed on: from the read, every
// path on which the read's error is nil reaches the dispatch (or the invalid-message report) before it reaches the
// next read or a way out of the function. A test that can drop a message that was read (the server was stopped in
// the meantime, the per-connection limit is reached) belongs before the read or on its error branch.
func readThenDispatch(c *Ctx, r *Report, rule string) {
	r.rule(rule, 3, "in serveUDP, serveTCPConn and serveTCP what was read without error reaches the dispatch on every path")
	type spec struct {
		fn       string
		reads    []string // interface methods / functions that read
		dispatch []string
	}
	specs := []spec{
		{"Server.serveUDP", []string{"ReadUDP", "ReadPacketConn"}, []string{"Server.serveUDPPacket", "Server.serveDNS"}},
		{"Server.serveTCPConn", []string{"ReadTCP"}, []string{"Server.serveDNS"}},
		{"Server.serveTCP", []string{"Accept"}, []string{"Server.serveTCPConn"}},
	}
	for _, sp := range specs {
		fn := c.ssaFunc(sp.fn)
		if fn == nil {
			r.cerr(rule, sp.fn, "function not found")
			continue
		}
		r.fn(sp.fn)
		isReadInvoke := func(ci ssa.CallInstruction) bool {
			cc := ci.Common()
			if !cc.IsInvoke() {
				return false
			}
			for _, n := range sp.reads {
				if cc.Method.Name() == n {
					return true
				}
			}
			return false
		}
		isRead := func(in ssa.Instruction) bool {
			call, ok := in.(*ssa.Call)
			if !ok {
				return false
			}
			if isReadInvoke(call) {
				return true
			}
			if callee := call.Call.StaticCallee(); callee != nil && callee.Pkg == fn.Pkg && len(errResultsOf(call)) > 0 {
				return reachesCall(callee, 3, map[*ssa.Function]bool{}, isReadInvoke)
			}
			return false
		}
		isDispatchCall := func(ci ssa.CallInstruction) bool {
			name := calleeNameSSA(ci.Common())
			for _, d := range sp.dispatch {
				if strings.HasSuffix(name, d) || name == "(*"+strings.Replace(d, ".", ").", 1) {
					return true
				}
			}
			return false
		}
		isDispatch := func(in ssa.Instruction) bool {
			if isInvalidCallback(in) {
				return true
			}
			ci, ok := in.(ssa.CallInstruction)
			if !ok {
				return false
			}
			if _, isDefer := in.(*ssa.Defer); isDefer {
				return false
			}
			if isDispatchCall(ci) {
				return true
			}
			if callee := ci.Common().StaticCallee(); callee != nil && callee.Pkg == fn.Pkg {
				return reachesCall(callee, 3, map[*ssa.Function]bool{}, func(x ssa.CallInstruction) bool {
					return isDispatchCall(x) || isInvalidCallback(x.(ssa.Instruction))
				})
			}
			// a closure started with go / called directly
			if mc, ok := ci.Common().Value.(*ssa.MakeClosure); ok {
				if f, ok := mc.Fn.(*ssa.Function); ok {
					return reachesCall(f, 3, map[*ssa.Function]bool{}, func(x ssa.CallInstruction) bool {
						return isDispatchCall(x) || isInvalidCallback(x.(ssa.Instruction))
					})
				}
			}
			return false
		}
		var reads []*ssa.Call
		allInstrs(fn, func(in ssa.Instruction) {
			if isRead(in) {
				reads = append(reads, in.(*ssa.Call))
			}
		})
		if len(reads) == 0 {
			r.undecided(rule, sp.fn, c.pos(fn.Pos()), "no read (%s) found in the serve loop", strings.Join(sp.reads, "/"))
			continue
		}
		errs := map[ssa.Value]bool{}
		readBlocks := map[*ssa.BasicBlock]int{}
		for _, rd := range reads {
			for v := range errResultsOf(rd) {
				errs[v] = true
			}
			readBlocks[rd.Block()] = instrIndex(rd)
		}
		var bad []string
		for _, rd := range reads {
			type item struct {
				b     *ssa.BasicBlock
				start int
			}
			seen := map[*ssa.BasicBlock]bool{}
			stack := []item{{rd.Block(), instrIndex(rd) + 1}}
			for len(stack) > 0 {
				it := stack[len(stack)-1]
				stack = stack[:len(stack)-1]
				done := false
				for i := it.start; i < len(it.b.Instrs) && !done; i++ {
					in := it.b.Instrs[i]
					switch {
					case isDispatch(in):
						done = true
					case isRead(in):
						bad = append(bad, fmt.Sprintf("%s: the next read is reached from the read at %s without the message having been dispatched", c.pos(in.Pos()), c.pos(rd.Pos())))
						done = true
					default:
						if ret, ok := in.(*ssa.Return); ok {
							bad = append(bad, fmt.Sprintf("%s: the function returns after the read at %s succeeded, without dispatching what was read", c.pos(ret.Pos()), c.pos(rd.Pos())))
							done = true
						}
					}
				}
				if done {
					continue
				}
				succs := it.b.Succs
				if ifi, ok := it.b.Instrs[len(it.b.Instrs)-1].(*ssa.If); ok && len(succs) == 2 {
					if nilSucc, ok := errTest(ifi, errs); ok {
						succs = []*ssa.BasicBlock{succs[nilSucc]} // the error branch is not about a message that was read
					}
				}
				for _, s := range succs {
					if idx, isReadBlock := readBlocks[s]; isReadBlock && seen[s] {
						_ = idx
						continue
					}
					if !seen[s] {
						seen[s] = true
						stack = append(stack, item{s, 0})
					}
				}
			}
		}
		// the way out of the loop body through the end of the function (break) counts as a return: handled above
		// because the blocks behind the loop end in a Return.
		r.check(len(bad) == 0, rule, sp.fn, c.pos(fn.Pos()), "every successful read is dispatched", "%s: a message that arrived is neither handled, refused nor reported", strings.Join(uniqStrings(bad), "; "))
	}
}

// noReadAhead: nothing in the package puts a buffering reader in front of a network connection: the stream readers
// are called once per message, and what a per-call bufio.Reader has read ahead (the next pipelined query) is lost
// with it.
func noReadAhead(c *Ctx, r *Report, rule string) {
	r.rule(rule, 1, "no bufio reader is constructed over a net.Conn (read-ahead octets of the next message would be dropped with it)")
	netConn := lookupNetConn(c)
	n := 0
	var bad []string
	for _, fn := range c.allFuncs() {
		allInstrs(fn, func(in ssa.Instruction) {
			call, ok := in.(*ssa.Call)
			if !ok {
				return
			}
			name := calleeNameSSA(&call.Call)
			if name != "bufio.NewReader" && name != "bufio.NewReaderSize" && name != "bufio.NewScanner" && name != "bufio.NewReadWriter" {
				return
			}
			n++
			arg := call.Call.Args[0]
			for o := range shallowOrigins(arg) {
				t := o.Type()
				if mi, ok := o.(*ssa.MakeInterface); ok {
					t = mi.X.Type()
				}
				if ci, ok := o.(*ssa.ChangeInterface); ok {
					t = ci.X.Type()
				}
				if netConn != nil && (types.Implements(t, netConn) || types.Implements(types.NewPointer(t), netConn)) {
					bad = append(bad, fmt.Sprintf("%s in %s wraps a %s", c.pos(call.Pos()), fnDisplay(fn), types.TypeString(t, func(p *types.Package) string { return p.Name() })))
				}
			}
		})
	}
	r.check(len(bad) == 0, rule, "bufio-over-conn", "", fmt.Sprintf("%d buffered readers, none over a connection", n), "%s: a stream message is read through a buffer that lives for one call only, so the octets it read beyond the message (the next query of a client that pipelines, or the rest of a reply) are thrown away and the stream is mis-framed from there on", strings.Join(uniqStrings(bad), "; "))
}

func lookupNetConn(c *Ctx) *types.Interface {
	for _, imp := range c.Types.Imports() {
		if imp.Path() == "net" {
			if o := imp.Scope().Lookup("Conn"); o != nil {
				if it, ok := o.Type().Underlying().(*types.Interface); ok {
					return it
				}
			}
		}
	}
	return nil
}

// matchingIdEndsWait: the datagram branch of the client's exchange goes back to reading only when the reply's ID
// differs from the query's: a reply carrying the query's ID is the one the exchange returns.
func matchingIdEndsWait(c *Ctx, r *Report, rule string) {
	r.rule(rule, 1, "the datagram read loop of Client.ExchangeWithConnContext repeats only on the ID-mismatch edge")
	const name = "Client.ExchangeWithConnContext"
	fn := c.ssaFunc(name)
	if fn == nil {
		r.cerr(rule, name, "function not found")
		return
	}
	r.fn(name)
	isIdLoad := func(v ssa.Value) bool {
		for o := range shallowOrigins(v) {
			if ld, ok := o.(*ssa.UnOp); ok && ld.Op == token.MUL {
				if fa, ok := ld.X.(*ssa.FieldAddr); ok && fieldNameOf(fa) == "Id" {
					return true
				}
			}
		}
		return false
	}
	n := 0
	for _, ci := range callsIn(fn, "(Conn).ReadMsg") {
		call, ok := ci.(*ssa.Call)
		if !ok {
			continue
		}
		// only a read inside a loop
		if !reach(call.Block(), nil, nil)[call.Block()] || !selfReach(call.Block()) {
			continue
		}
		n++
		removed := map[edge]bool{}
		errs := errResultsOf(call)
		for _, b := range fn.Blocks {
			ifi, ok := b.Instrs[len(b.Instrs)-1].(*ssa.If)
			if !ok || len(b.Succs) != 2 {
				continue
			}
			atom, pol := condAtom(ifi.Cond)
			bin, isBin := atom.(*ssa.BinOp)
			if isBin && (bin.Op == token.EQL || bin.Op == token.NEQ) && isIdLoad(bin.X) && isIdLoad(bin.Y) {
				// successor taken when the IDs differ
				diffIsTrue := (bin.Op == token.NEQ) == pol
				if diffIsTrue {
					removed[edge{b, b.Succs[0]}] = true
				} else {
					removed[edge{b, b.Succs[1]}] = true
				}
			}
			if nilSucc, ok := errTest(ifi, errs); ok {
				removed[edge{b, b.Succs[1-nilSucc]}] = true // error edge: leaving (or not) is not about a matching reply
			}
		}
		again := false
		for _, s := range call.Block().Succs {
			if removed[edge{call.Block(), s}] {
				continue
			}
			if s == call.Block() || reach(s, removed, nil)[call.Block()] {
				again = true
			}
		}
		r.check(!again, rule, name+":datagram-loop", c.pos(call.Pos()), "repeats on ID mismatch only", "the loop can go back to reading although the reply just read carries the query's ID and no error occurred: a further condition decides whether the matching reply is accepted, and a reply that fails it is skipped until the deadline although it is the answer to this query")
	}
	if n == 0 {
		r.undecided(rule, name, c.pos(fn.Pos()), "no ReadMsg inside a loop found")
	}
}

func selfReach(b *ssa.BasicBlock) bool {
	for _, s := range b.Succs {
		if s == b || reach(s, nil, nil)[b] {
			return true
		}
	}
	return false
}

// shutdownClosesPacketConn: every return of ShutdownContext behind the store started = false is preceded, when a
// PacketConn is set, by Close on it: the serve loop's own deferred Close runs only after the drain, which an expired
// context does not wait for.
func shutdownClosesPacketConn(c *Ctx, r *Report, rule string) {
	r.rule(rule, 1, "ShutdownContext closes the PacketConn it unblocked before it returns")
	const name = "Server.ShutdownContext"
	fn := c.ssaFunc(name)
	if fn == nil {
		r.cerr(rule, name, "function not found")
		return
	}
	r.fn(name)
	var stores []*ssa.Store
	for _, st := range storesToField(fn, "Server", "started") {
		if b, ok := constBool(st.Val); ok && !b {
			stores = append(stores, st)
		}
	}
	if len(stores) == 0 {
		r.undecided(rule, name, c.pos(fn.Pos()), "the store started = false was not found")
		return
	}
	isPconn := func(v ssa.Value) bool { return anyIn(sliceOf(v), readsField("Server", "PacketConn")) }
	isClose := func(in ssa.Instruction) bool {
		ci, ok := in.(ssa.CallInstruction)
		if !ok {
			return false
		}
		cc := ci.Common()
		if cc.IsInvoke() && cc.Method.Name() == "Close" && isPconn(cc.Value) {
			return true
		}
		return false
	}
	// paths on which the connection is known to be nil need no Close: cut the nil edges of tests of the PacketConn
	var bad []string
	for _, st := range stores {
		type item struct {
			b     *ssa.BasicBlock
			start int
		}
		seen := map[*ssa.BasicBlock]bool{}
		stack := []item{{st.Block(), instrIndex(st) + 1}}
		for len(stack) > 0 {
			it := stack[len(stack)-1]
			stack = stack[:len(stack)-1]
			done := false
			for i := it.start; i < len(it.b.Instrs); i++ {
				in := it.b.Instrs[i]
				if isClose(in) {
					done = true
					break
				}
				if ret, ok := in.(*ssa.Return); ok {
					bad = append(bad, c.pos(ret.Pos()))
					done = true
					break
				}
			}
			if done {
				continue
			}
			succs := it.b.Succs
			if ifi, ok := it.b.Instrs[len(it.b.Instrs)-1].(*ssa.If); ok && len(succs) == 2 {
				// where the connection is known to be nil there is nothing to close: follow the non-nil edge only
				atom, pol := condAtom(ifi.Cond)
				if bin, ok := atom.(*ssa.BinOp); ok && (bin.Op == token.NEQ || bin.Op == token.EQL) {
					if (isNilConst(bin.Y) && isPconn(bin.X)) || (isNilConst(bin.X) && isPconn(bin.Y)) {
						nonNilIsTrue := (bin.Op == token.NEQ) == pol
						if nonNilIsTrue {
							succs = succs[:1]
						} else {
							succs = succs[1:]
						}
					}
				}
			}
			for _, s := range succs {
				if !seen[s] {
					seen[s] = true
					stack = append(stack, item{s, 0})
				}
			}
		}
	}
	r.check(len(bad) == 0, rule, name+":PacketConn", c.pos(fn.Pos()), "closed on every return", "ShutdownContext returns at %s without having closed the PacketConn: when the context expires while a handler is still running, the serve loop's deferred Close has not run (it waits for the handlers), the socket stays bound after Shutdown returned and the address cannot be bound again", strings.Join(uniqStrings(bad), ", "))
}

// decodedUnderNilError: what a text decoder (base64, base32, hex) returned is used only where its error is known
// nil; a decoder that failed half-way has returned the octets it got so far.
func decodedUnderNilError(c *Ctx, r *Report, rule string, files []string, floor int, consequence string) {
	r.rule(rule, floor, "the result of fromBase64 / fromBase32 / hex.DecodeString is used only on the nil-error edge")
	inFile := func(p token.Pos) bool {
		f := c.Fset.Position(p).Filename
		for _, x := range files {
			if strings.HasSuffix(f, "/"+x) {
				return true
			}
		}
		return false
	}
	for _, fn := range c.allFuncs() {
		if !inFile(fn.Pos()) {
			continue
		}
		allInstrs(fn, func(in ssa.Instruction) {
			call, ok := in.(*ssa.Call)
			if !ok {
				return
			}
			name := calleeNameSSA(&call.Call)
			if name != "fromBase64" && name != "fromBase32" && name != "hex.DecodeString" {
				return
			}
			var data *ssa.Extract
			if call.Referrers() != nil {
				for _, ref := range *call.Referrers() {
					if ex, ok := ref.(*ssa.Extract); ok && ex.Index == 0 {
						data = ex
					}
				}
			}
			construct := fmt.Sprintf("%s:%s", fnDisplay(fn), name)
			if data == nil || data.Referrers() == nil {
				r.ok(rule, construct, c.pos(call.Pos()), "result not used")
				return
			}
			errs := errResultsOf(call)
			var bad []string
			for _, ref := range *data.Referrers() {
				if _, isDbg := ref.(*ssa.DebugRef); isDbg {
					continue
				}
				// returned together with the error: the caller decides
				if ret, ok := ref.(*ssa.Return); ok {
					withErr := false
					for _, res := range ret.Results {
						if errs[res] {
							withErr = true
						}
					}
					if withErr {
						continue
					}
				}
				b := ref.Block()
				if phi, ok := ref.(*ssa.Phi); ok {
					// the use is on the incoming edge
					okAll := true
					for i, e := range phi.Edges {
						if e == ssa.Value(data) && !nilErrKnown(fn, phi.Block().Preds[i], phi.Block(), errs) {
							okAll = false
						}
					}
					if !okAll {
						bad = append(bad, c.pos(call.Pos()))
					}
					continue
				}
				if !nilErrKnown(fn, nil, b, errs) {
					// len(data) in the very test that also looks at the error is a use too
					bad = append(bad, c.pos(ref.Pos()))
				}
			}
			r.check(len(bad) == 0, rule, construct, c.pos(call.Pos()), "used under err == nil", "the octets decoded so far are used at %s where the decoder's error is not known to be nil: %s", strings.Join(uniqStrings(bad), ", "), consequence)
		})
	}
}

// nilErrKnown: at block b (or on the edge from->b) one of the errors is known nil.
func nilErrKnown(fn *ssa.Function, from, b *ssa.BasicBlock, errs map[ssa.Value]bool) bool {
	var facts []Fact
	if from != nil {
		facts = factsOnEdge(fn, from, b)
	} else {
		facts = factsAt(fn, b)
	}
	for _, f := range facts {
		bin, ok := f.Atom.(*ssa.BinOp)
		if !ok || (bin.Op != token.NEQ && bin.Op != token.EQL) {
			continue
		}
		var e ssa.Value
		if isNilConst(bin.Y) {
			e = bin.X
		} else if isNilConst(bin.X) {
			e = bin.Y
		}
		if e == nil || !errs[e] {
			continue
		}
		if (bin.Op == token.EQL) == f.Holds {
			return true
		}
	}
	return false
}

// dsNoValueRefusal: ToDS gives up (returns nil) on errors and on digest types it does not know, never because a
// number computed from the key has a particular value (a key tag of 0 is an ordinary key tag).
func dsNoValueRefusal(c *Ctx, r *Report, rule string) {
	r.rule(rule, 1, "no nil return of DNSKEY.ToDS is conditioned on a number computed from the key compared with a constant")
	fn := c.ssaFunc("DNSKEY.ToDS")
	if fn == nil {
		r.cerr(rule, "DNSKEY.ToDS", "function not found")
		return
	}
	r.fn("DNSKEY.ToDS")
	k := fn.Params[0]
	var bad []string
	n := 0
	for _, b := range fn.Blocks {
		ret, ok := b.Instrs[len(b.Instrs)-1].(*ssa.Return)
		if !ok || len(ret.Results) != 1 || !isNilConst(ret.Results[0]) {
			continue
		}
		n++
		for _, p := range b.Preds {
			for _, f := range factsOnEdge(fn, p, b) {
				bin, ok := f.Atom.(*ssa.BinOp)
				if !ok || f.If.Block() != p {
					continue // only the test that sends control into the refusal
				}
				for _, pair := range [][2]ssa.Value{{bin.X, bin.Y}, {bin.Y, bin.X}} {
					cst, isConst := pair[1].(*ssa.Const)
					if !isConst || cst.Value == nil || cst.Value.Kind() != constant.Int {
						continue
					}
					if _, isBasic := pair[0].Type().Underlying().(*types.Basic); !isBasic {
						continue
					}
					if sliceOf(pair[0])[k] {
						bad = append(bad, fmt.Sprintf("%s: %s %s %s", c.pos(ret.Pos()), pair[0].Name(), bin.Op, cst.Value))
					}
				}
			}
		}
	}
	sort.Strings(bad)
	r.check(n > 0 && len(bad) == 0, rule, "DNSKEY.ToDS:value", c.pos(fn.Pos()), "refusals are errors and unknown digest types only", "ToDS returns nil where a value computed from the key equals a constant (%s): keys for which the value happens to come out that way (one key in 65536 has key tag 0) get no DS record although they pack and digest like any other", strings.Join(uniqStrings(bad), "; "))
}

// ---- octet classes by abstract execution ----

// octetClass: what a function of one octet does for a given value of it.
type octetClass struct {
	Backslash bool // writes a backslash constant
	DDD       bool // calls escapeByte
	Raw       bool // hands the octet itself to a write call
}

// octetClasses executes fn's control flow for each of the 256 values of its octet parameter: branch conditions that
// are built from comparisons of the octet with constants are decided, every other branch is followed both ways. The
// result says, per value, which kinds of output the function can produce. The spelling of the tests (switch, if
// chain, merged or split conditions, negations) does not matter.
func octetClasses(fn *ssa.Function, octet ssa.Value) (out [256]octetClass) {
	for v := 0; v < 256; v++ {
		var eval func(x ssa.Value, prev *ssa.BasicBlock, depth int) (int64, bool)
		eval = func(x ssa.Value, prev *ssa.BasicBlock, depth int) (int64, bool) {
			if depth > 12 {
				return 0, false
			}
			if x == octet {
				return int64(v), true
			}
			if k, ok := constIntOf(x); ok {
				return k, true
			}
			if b, ok := constBool(x); ok {
				if b {
					return 1, true
				}
				return 0, true
			}
			switch t := x.(type) {
			case *ssa.Convert:
				k, ok := eval(t.X, prev, depth+1)
				if !ok {
					return 0, false
				}
				if bt, isB := t.Type().Underlying().(*types.Basic); isB {
					switch bt.Kind() {
					case types.Uint8:
						k &= 0xff
					case types.Int8:
						k = int64(int8(k))
					case types.Uint16:
						k &= 0xffff
					}
				}
				return k, true
			case *ssa.UnOp:
				if t.Op == token.NOT {
					k, ok := eval(t.X, prev, depth+1)
					return 1 - k, ok
				}
			case *ssa.Phi:
				if prev != nil {
					for i, p := range t.Block().Preds {
						if p == prev {
							return eval(t.Edges[i], nil, depth+1)
						}
					}
				}
			case *ssa.BinOp:
				a, ok1 := eval(t.X, prev, depth+1)
				b, ok2 := eval(t.Y, prev, depth+1)
				if !ok1 || !ok2 {
					return 0, false
				}
				tb := func(c bool) (int64, bool) {
					if c {
						return 1, true
					}
					return 0, true
				}
				u8 := false
				if bt, isB := t.X.Type().Underlying().(*types.Basic); isB && bt.Kind() == types.Uint8 {
					u8 = true
				}
				wrap := func(k int64) (int64, bool) {
					if u8 {
						return k & 0xff, true
					}
					return k, true
				}
				switch t.Op {
				case token.EQL:
					return tb(a == b)
				case token.NEQ:
					return tb(a != b)
				case token.LSS:
					return tb(a < b)
				case token.LEQ:
					return tb(a <= b)
				case token.GTR:
					return tb(a > b)
				case token.GEQ:
					return tb(a >= b)
				case token.ADD:
					return wrap(a + b)
				case token.SUB:
					return wrap(a - b)
				case token.AND:
					return a & b, true
				case token.OR:
					return a | b, true
				}
			}
			return 0, false
		}
		type state struct{ b, prev *ssa.BasicBlock }
		seen := map[state]bool{}
		var run func(b, prev *ssa.BasicBlock)
		run = func(b, prev *ssa.BasicBlock) {
			if seen[state{b, prev}] {
				return
			}
			seen[state{b, prev}] = true
			for _, in := range b.Instrs {
				ci, ok := in.(ssa.CallInstruction)
				if !ok {
					continue
				}
				if calleeNameSSA(ci.Common()) == "escapeByte" {
					out[v].DDD = true
				}
				for _, a := range ci.Common().Args {
					if k, isK := constIntOf(a); isK && k == '\\' {
						if bt, isB := a.Type().Underlying().(*types.Basic); isB && (bt.Kind() == types.Uint8 || bt.Kind() == types.Int32 || bt.Kind() == types.UntypedRune) {
							out[v].Backslash = true
						}
					}
					if a == octet && calleeNameSSA(ci.Common()) != "escapeByte" {
						out[v].Raw = true
					}
				}
			}
			if ifi, ok := b.Instrs[len(b.Instrs)-1].(*ssa.If); ok && len(b.Succs) == 2 {
				if k, ok := eval(ifi.Cond, prev, 0); ok {
					if k != 0 {
						run(b.Succs[0], b)
					} else {
						run(b.Succs[1], b)
					}
					return
				}
			}
			for _, s := range b.Succs {
				run(s, b)
			}
		}
		if len(fn.Blocks) > 0 {
			run(fn.Blocks[0], nil)
		}
	}
	return
}

// ---- looking for an anchor in the function or in a helper it calls ----

// calleeWith: fn itself when has(fn) holds, otherwise a function of the same package it calls (two levels down) for
// which it holds; nil when none does. A block of a function that has been moved into a helper of its own is still
// found this way.
func calleeWith(fn *ssa.Function, has func(*ssa.Function) bool) *ssa.Function {
	if fn == nil {
		return nil
	}
	if has(fn) {
		return fn
	}
	seen := map[*ssa.Function]bool{fn: true}
	level := []*ssa.Function{fn}
	for depth := 0; depth < 2; depth++ {
		var next []*ssa.Function
		for _, f := range level {
			for _, sub := range withAnon(f) {
				var found *ssa.Function
				allInstrs(sub, func(in ssa.Instruction) {
					ci, ok := in.(ssa.CallInstruction)
					if !ok || found != nil {
						return
					}
					g := ci.Common().StaticCallee()
					if g == nil || g.Pkg != fn.Pkg || seen[g] || len(g.Blocks) == 0 {
						return
					}
					seen[g] = true
					if has(g) {
						found = g
						return
					}
					next = append(next, g)
				})
				if found != nil {
					return found
				}
			}
		}
		level = next
	}
	return nil
}

// argsAtCalls: the values handed for parameter p of g at the calls of g found in fn and in what fn calls.
func argsAtCalls(fn, g *ssa.Function, p *ssa.Parameter) []ssa.Value {
	idx := -1
	for i, q := range g.Params {
		if q == p {
			idx = i
		}
	}
	var out []ssa.Value
	if idx < 0 {
		return out
	}
	seen := map[*ssa.Function]bool{}
	var visit func(f *ssa.Function, depth int)
	visit = func(f *ssa.Function, depth int) {
		if f == nil || seen[f] || depth > 2 {
			return
		}
		seen[f] = true
		for _, sub := range withAnon(f) {
			allInstrs(sub, func(in ssa.Instruction) {
				ci, ok := in.(ssa.CallInstruction)
				if !ok {
					return
				}
				callee := ci.Common().StaticCallee()
				if callee == g && idx < len(ci.Common().Args) {
					out = append(out, ci.Common().Args[idx])
				} else if callee != nil && callee.Pkg == fn.Pkg {
					visit(callee, depth+1)
				}
			})
		}
	}
	visit(fn, 0)
	return out
}

// boundTo: pred, read through the parameters of helper: a parameter counts when every call of the helper from fn
// hands it a value that (shallowly) satisfies pred.
func boundTo(fn, helper *ssa.Function, pred vpred) vpred {
	return func(v ssa.Value) bool {
		if pred(v) {
			return true
		}
		for o := range shallowOrigins(v) {
			if pred(o) {
				return true
			}
			p, ok := o.(*ssa.Parameter)
			if !ok || helper == fn || p.Parent() != helper {
				continue
			}
			args := argsAtCalls(fn, helper, p)
			if len(args) == 0 {
				continue
			}
			all := true
			for _, a := range args {
				if !anyIn(shallowOrigins(a), pred) && !pred(a) {
					all = false
				}
			}
			if all {
				return true
			}
		}
		return false
	}
}
