package main

import (
	"fmt"
	"go/constant"
	"go/token"
	"go/types"
	"sort"
	"strings"

	"golang.org/x/tools/go/ssa"
)

// Rules added after the tenth round of independent breaking changes.

// errResultsOf: the error-typed values extracted from a call's result tuple, and the phis that merge them.
func errResultsOf(call *ssa.Call) map[ssa.Value]bool {
	out := map[ssa.Value]bool{}
	if call.Referrers() == nil {
		return out
	}
	if isErrorType(call.Type()) {
		out[call] = true
	}
	for _, ref := range *call.Referrers() {
		if ex, ok := ref.(*ssa.Extract); ok && isErrorType(ex.Type()) {
			out[ex] = true
		}
	}
	// phis (and stores into result cells) that carry them
	changed := true
	for changed {
		changed = false
		for v := range out {
			refs := v.Referrers()
			if refs == nil {
				continue
			}
			for _, ref := range *refs {
				switch x := ref.(type) {
				case *ssa.Phi:
					if !out[x] {
						out[x] = true
						changed = true
					}
				case *ssa.Store:
					// err kept in a cell (named result captured by a defer): loads of the cell carry it
					if a, ok := x.Addr.(*ssa.Alloc); ok && a.Referrers() != nil {
						for _, r2 := range *a.Referrers() {
							if ld, ok := r2.(*ssa.UnOp); ok && ld.Op == token.MUL && !out[ld] {
								out[ld] = true
								changed = true
							}
						}
					}
				}
			}
		}
	}
	return out
}

func isErrorType(t types.Type) bool {
	n, ok := t.(*types.Named)
	return ok && n.Obj().Pkg() == nil && n.Obj().Name() == "error"
}

// errTest: cond is `e != nil` / `e == nil` for an e of the set; returns the successor index taken when e is nil.
func errTest(ifi *ssa.If, errs map[ssa.Value]bool) (nilSucc int, ok bool) {
	atom, pol := condAtom(ifi.Cond)
	bin, isBin := atom.(*ssa.BinOp)
	if !isBin || (bin.Op != token.NEQ && bin.Op != token.EQL) {
		return 0, false
	}
	var e ssa.Value
	switch {
	case isNilConst(bin.Y):
		e = bin.X
	case isNilConst(bin.X):
		e = bin.Y
	default:
		return 0, false
	}
	if !errs[e] {
		return 0, false
	}
	// atom true means: NEQ -> e non-nil, EQL -> e nil. cond true == atom is pol.
	atomTrueIsNil := bin.Op == token.EQL
	condTrueIsNil := atomTrueIsNil == pol
	if condTrueIsNil {
		return 0, true
	}
	return 1, true
}

// reachesCall: fn (or what it calls inside the package, three levels deep) contains a call instruction satisfying p.
func reachesCall(fn *ssa.Function, depth int, seen map[*ssa.Function]bool, p func(ssa.CallInstruction) bool) bool {
	if fn == nil || seen[fn] || depth < 0 || len(fn.Blocks) == 0 {
		return false
	}
	seen[fn] = true
	found := false
	for _, sub := range withAnon(fn) {
		allInstrs(sub, func(in ssa.Instruction) {
			if found {
				return
			}
			ci, ok := in.(ssa.CallInstruction)
			if !ok {
				return
			}
			if p(ci) {
				found = true
				return
			}
			if callee := ci.Common().StaticCallee(); callee != nil && callee.Pkg == fn.Pkg {
				if reachesCall(callee, depth-1, seen, p) {
					found = true
				}
			}
		})
	}
	return found
}

// readThenDispatch: in the serve loops a message that was read without an error is handed on: from the read, every
// path on which the read's error is nil reaches the dispatch (or the invalid-message report) before it reaches the
// next read or a way out of the function. A test that can drop a message that was read (the server was stopped in
// the meantime, the per-connection limit is reached) belongs before the read or on its error branch.
func readThenDispatch(c *Ctx, r *Report, rule string) {
	r.rule(rule, 3, "in serveUDP, serveTCPConn and serveTCP what was read without error reaches the dispatch on every path")
	type spec struct {
		fn       string
		reads    []string // interface methods / functions that read
		dispatch []string
	}
	specs := []spec{
		{"Server.serveUDP", []string{"ReadUDP", "ReadPacketConn"}, []string{"Server.serveUDPPacket", "Server.serveDNS"}},
		{"Server.serveTCPConn", []string{"ReadTCP"}, []string{"Server.serveDNS"}},
		{"Server.serveTCP", []string{"Accept"}, []string{"Server.serveTCPConn"}},
	}
	for _, sp := range specs {
		fn := c.ssaFunc(sp.fn)
		if fn == nil {
			r.cerr(rule, sp.fn, "function not found")
			continue
		}
		r.fn(sp.fn)
		isReadInvoke := func(ci ssa.CallInstruction) bool {
			cc := ci.Common()
			if !cc.IsInvoke() {
				return false
			}
			for _, n := range sp.reads {
				if cc.Method.Name() == n {
					return true
				}
			}
			return false
		}
		isRead := func(in ssa.Instruction) bool {
			call, ok := in.(*ssa.Call)
			if !ok {
				return false
			}
			if isReadInvoke(call) {
				return true
			}
			if callee := call.Call.StaticCallee(); callee != nil && callee.Pkg == fn.Pkg && len(errResultsOf(call)) > 0 {
				return reachesCall(callee, 3, map[*ssa.Function]bool{}, isReadInvoke)
			}
			// a reader chosen beforehand: a call of a local function value every possible value of which reads
			if call.Call.StaticCallee() == nil && !call.Call.IsInvoke() && len(errResultsOf(call)) > 0 {
				targets := closureTargets(call.Call.Value)
				for _, t := range targets {
					if !reachesCall(t, 3, map[*ssa.Function]bool{}, isReadInvoke) {
						return false
					}
				}
				return len(targets) > 0
			}
			return false
		}
		isDispatchCall := func(ci ssa.CallInstruction) bool {
			name := calleeNameSSA(ci.Common())
			for _, d := range sp.dispatch {
				if strings.HasSuffix(name, d) || name == "(*"+strings.Replace(d, ".", ").", 1) {
					return true
				}
			}
			return false
		}
		isDispatch := func(in ssa.Instruction) bool {
			if isInvalidCallback(in) {
				return true
			}
			ci, ok := in.(ssa.CallInstruction)
			if !ok {
				return false
			}
			if _, isDefer := in.(*ssa.Defer); isDefer {
				return false
			}
			if isDispatchCall(ci) {
				return true
			}
			if callee := ci.Common().StaticCallee(); callee != nil && callee.Pkg == fn.Pkg {
				return reachesCall(callee, 3, map[*ssa.Function]bool{}, func(x ssa.CallInstruction) bool {
					return isDispatchCall(x) || isInvalidCallback(x.(ssa.Instruction))
				})
			}
			// a closure started with go / called directly
			if mc, ok := ci.Common().Value.(*ssa.MakeClosure); ok {
				if f, ok := mc.Fn.(*ssa.Function); ok {
					return reachesCall(f, 3, map[*ssa.Function]bool{}, func(x ssa.CallInstruction) bool {
						return isDispatchCall(x) || isInvalidCallback(x.(ssa.Instruction))
					})
				}
			}
			return false
		}
		var reads []*ssa.Call
		allInstrs(fn, func(in ssa.Instruction) {
			if isRead(in) {
				reads = append(reads, in.(*ssa.Call))
			}
		})
		if len(reads) == 0 {
			r.undecided(rule, sp.fn, c.pos(fn.Pos()), "no read (%s) found in the serve loop", strings.Join(sp.reads, "/"))
			continue
		}
		errs := map[ssa.Value]bool{}
		readBlocks := map[*ssa.BasicBlock]int{}
		for _, rd := range reads {
			for v := range errResultsOf(rd) {
				errs[v] = true
			}
			readBlocks[rd.Block()] = instrIndex(rd)
		}
		var bad []string
		for _, rd := range reads {
			type item struct {
				b     *ssa.BasicBlock
				start int
			}
			seen := map[*ssa.BasicBlock]bool{}
			stack := []item{{rd.Block(), instrIndex(rd) + 1}}
			for len(stack) > 0 {
				it := stack[len(stack)-1]
				stack = stack[:len(stack)-1]
				done := false
				for i := it.start; i < len(it.b.Instrs) && !done; i++ {
					in := it.b.Instrs[i]
					switch {
					case isDispatch(in):
						done = true
					case isRead(in):
						bad = append(bad, fmt.Sprintf("%s: the next read is reached from the read at %s without the message having been dispatched", c.pos(in.Pos()), c.pos(rd.Pos())))
						done = true
					default:
						if ret, ok := in.(*ssa.Return); ok {
							bad = append(bad, fmt.Sprintf("%s: the function returns after the read at %s succeeded, without dispatching what was read", c.pos(ret.Pos()), c.pos(rd.Pos())))
							done = true
						}
					}
				}
				if done {
					continue
				}
				succs := it.b.Succs
				if ifi, ok := it.b.Instrs[len(it.b.Instrs)-1].(*ssa.If); ok && len(succs) == 2 {
					if nilSucc, ok := errTest(ifi, errs); ok {
						succs = []*ssa.BasicBlock{succs[nilSucc]} // the error branch is not about a message that was read
					}
				}
				for _, s := range succs {
					if idx, isReadBlock := readBlocks[s]; isReadBlock && seen[s] {
						_ = idx
						continue
					}
					if !seen[s] {
						seen[s] = true
						stack = append(stack, item{s, 0})
					}
				}
			}
		}
		// the way out of the loop body through the end of the function (break) counts as a return: handled above
		// because the blocks behind the loop end in a Return.
		r.check(len(bad) == 0, rule, sp.fn, c.pos(fn.Pos()), "every successful read is dispatched", "%s: a message that arrived is neither handled, refused nor reported", strings.Join(uniqStrings(bad), "; "))
	}
}

// noReadAhead: nothing in the package puts a buffering reader in front of a network connection: the stream readers
// are called once per message, and what a per-call bufio.Reader has read ahead (the next pipelined query) is lost
// with it.
func noReadAhead(c *Ctx, r *Report, rule string) {
	r.rule(rule, 1, "no bufio reader is constructed over a net.Conn (read-ahead octets of the next message would be dropped with it)")
	netConn := lookupNetConn(c)
	n := 0
	var bad []string
	for _, fn := range c.allFuncs() {
		allInstrs(fn, func(in ssa.Instruction) {
			call, ok := in.(*ssa.Call)
			if !ok {
				return
			}
			name := calleeNameSSA(&call.Call)
			if name != "bufio.NewReader" && name != "bufio.NewReaderSize" && name != "bufio.NewScanner" && name != "bufio.NewReadWriter" {
				return
			}
			n++
			arg := call.Call.Args[0]
			for o := range shallowOrigins(arg) {
				t := o.Type()
				if mi, ok := o.(*ssa.MakeInterface); ok {
					t = mi.X.Type()
				}
				if ci, ok := o.(*ssa.ChangeInterface); ok {
					t = ci.X.Type()
				}
				if netConn != nil && (types.Implements(t, netConn) || types.Implements(types.NewPointer(t), netConn)) {
					bad = append(bad, fmt.Sprintf("%s in %s wraps a %s", c.pos(call.Pos()), fnDisplay(fn), types.TypeString(t, func(p *types.Package) string { return p.Name() })))
				}
			}
		})
	}
	r.check(len(bad) == 0, rule, "bufio-over-conn", "", fmt.Sprintf("%d buffered readers, none over a connection", n), "%s: a stream message is read through a buffer that lives for one call only, so the octets it read beyond the message (the next query of a client that pipelines, or the rest of a reply) are thrown away and the stream is mis-framed from there on", strings.Join(uniqStrings(bad), "; "))
}

func lookupNetConn(c *Ctx) *types.Interface {
	for _, imp := range c.Types.Imports() {
		if imp.Path() == "net" {
			if o := imp.Scope().Lookup("Conn"); o != nil {
				if it, ok := o.Type().Underlying().(*types.Interface); ok {
					return it
				}
			}
		}
	}
	return nil
}

// matchingIdEndsWait: the datagram branch of the client's exchange goes back to reading only when the reply's ID
// differs from the query's: a reply carrying the query's ID is the one the exchange returns.
func matchingIdEndsWait(c *Ctx, r *Report, rule string) {
	r.rule(rule, 1, "the datagram read loop of Client.ExchangeWithConnContext repeats only on the ID-mismatch edge")
	const name = "Client.ExchangeWithConnContext"
	fn := c.ssaFunc(name)
	if fn == nil {
		r.cerr(rule, name, "function not found")
		return
	}
	r.fn(name)
	isIdLoad := func(v ssa.Value) bool {
		for o := range shallowOrigins(v) {
			if ld, ok := o.(*ssa.UnOp); ok && ld.Op == token.MUL {
				if fa, ok := ld.X.(*ssa.FieldAddr); ok && fieldNameOf(fa) == "Id" {
					return true
				}
			}
		}
		return false
	}
	n := 0
	for _, ci := range callsIn(fn, "(Conn).ReadMsg") {
		call, ok := ci.(*ssa.Call)
		if !ok {
			continue
		}
		// only a read inside a loop
		if !reach(call.Block(), nil, nil)[call.Block()] || !selfReach(call.Block()) {
			continue
		}
		n++
		removed := map[edge]bool{}
		errs := errResultsOf(call)
		for _, b := range fn.Blocks {
			ifi, ok := b.Instrs[len(b.Instrs)-1].(*ssa.If)
			if !ok || len(b.Succs) != 2 {
				continue
			}
			atom, pol := condAtom(ifi.Cond)
			bin, isBin := atom.(*ssa.BinOp)
			if isBin && (bin.Op == token.EQL || bin.Op == token.NEQ) && isIdLoad(bin.X) && isIdLoad(bin.Y) {
				// successor taken when the IDs differ
				diffIsTrue := (bin.Op == token.NEQ) == pol
				if diffIsTrue {
					removed[edge{b, b.Succs[0]}] = true
				} else {
					removed[edge{b, b.Succs[1]}] = true
				}
			}
			if nilSucc, ok := errTest(ifi, errs); ok {
				removed[edge{b, b.Succs[1-nilSucc]}] = true // error edge: leaving (or not) is not about a matching reply
			}
		}
		again := false
		for _, s := range call.Block().Succs {
			if removed[edge{call.Block(), s}] {
				continue
			}
			if s == call.Block() || reach(s, removed, nil)[call.Block()] {
				again = true
			}
		}
		r.check(!again, rule, name+":datagram-loop", c.pos(call.Pos()), "repeats on ID mismatch only", "the loop can go back to reading although the reply just read carries the query's ID and no error occurred: a further condition decides whether the matching reply is accepted, and a reply that fails it is skipped until the deadline although it is the answer to this query")
	}
	if n == 0 {
		r.undecided(rule, name, c.pos(fn.Pos()), "no ReadMsg inside a loop found")
	}
}

func selfReach(b *ssa.BasicBlock) bool {
	for _, s := range b.Succs {
		if s == b || reach(s, nil, nil)[b] {
			return true
		}
	}
	return false
}

// shutdownClosesPacketConn: every return of ShutdownContext behind the store started = false is preceded, when a
// PacketConn is set, by Close on it: the serve loop's own deferred Close runs only after the drain, which an expired
// context does not wait for.
func shutdownClosesPacketConn(c *Ctx, r *Report, rule string) {
	r.rule(rule, 1, "ShutdownContext closes the PacketConn it unblocked before it returns")
	const name = "Server.ShutdownContext"
	fn := c.ssaFunc(name)
	if fn == nil {
		r.cerr(rule, name, "function not found")
		return
	}
	r.fn(name)
	var stores []*ssa.Store
	for _, st := range storesToField(fn, "Server", "started") {
		if b, ok := constBool(st.Val); ok && !b {
			stores = append(stores, st)
		}
	}
	if len(stores) == 0 {
		r.undecided(rule, name, c.pos(fn.Pos()), "the store started = false was not found")
		return
	}
	isPconn := func(v ssa.Value) bool { return anyIn(sliceOf(v), readsField("Server", "PacketConn")) }
	isClose := func(in ssa.Instruction) bool {
		ci, ok := in.(ssa.CallInstruction)
		if !ok {
			return false
		}
		cc := ci.Common()
		if cc.IsInvoke() && cc.Method.Name() == "Close" && isPconn(cc.Value) {
			return true
		}
		return false
	}
	// paths on which the connection is known to be nil need no Close: cut the nil edges of tests of the PacketConn
	var bad []string
	for _, st := range stores {
		type item struct {
			b     *ssa.BasicBlock
			start int
		}
		seen := map[*ssa.BasicBlock]bool{}
		stack := []item{{st.Block(), instrIndex(st) + 1}}
		for len(stack) > 0 {
			it := stack[len(stack)-1]
			stack = stack[:len(stack)-1]
			done := false
			for i := it.start; i < len(it.b.Instrs); i++ {
				in := it.b.Instrs[i]
				if isClose(in) {
					done = true
					break
				}
				if ret, ok := in.(*ssa.Return); ok {
					bad = append(bad, c.pos(ret.Pos()))
					done = true
					break
				}
			}
			if done {
				continue
			}
			succs := succsFrom(st.Block(), it.b)
			if ifi, ok := it.b.Instrs[len(it.b.Instrs)-1].(*ssa.If); ok && len(succs) == 2 {
				// where the connection is known to be nil there is nothing to close: follow the non-nil edge only
				atom, pol := condAtom(ifi.Cond)
				if bin, ok := atom.(*ssa.BinOp); ok && (bin.Op == token.NEQ || bin.Op == token.EQL) {
					if (isNilConst(bin.Y) && isPconn(bin.X)) || (isNilConst(bin.X) && isPconn(bin.Y)) {
						nonNilIsTrue := (bin.Op == token.NEQ) == pol
						if nonNilIsTrue {
							succs = succs[:1]
						} else {
							succs = succs[1:]
						}
					}
				}
			}
			for _, s := range succs {
				if !seen[s] {
					seen[s] = true
					stack = append(stack, item{s, 0})
				}
			}
		}
	}
	r.check(len(bad) == 0, rule, name+":PacketConn", c.pos(fn.Pos()), "closed on every return", "ShutdownContext returns at %s without having closed the PacketConn: when the context expires while a handler is still running, the serve loop's deferred Close has not run (it waits for the handlers), the socket stays bound after Shutdown returned and the address cannot be bound again", strings.Join(uniqStrings(bad), ", "))
}

// decodedUnderNilError: what a text decoder (base64, base32, hex) returned is used only where its error is known
// nil; a decoder that failed half-way has returned the octets it got so far.
func decodedUnderNilError(c *Ctx, r *Report, rule string, files []string, floor int, consequence string) {
	r.rule(rule, floor, "the result of fromBase64 / fromBase32 / hex.DecodeString is used only on the nil-error edge")
	inFile := func(p token.Pos) bool {
		f := c.Fset.Position(p).Filename
		for _, x := range files {
			if strings.HasSuffix(f, "/"+x) {
				return true
			}
		}
		return false
	}
	for _, fn := range c.allFuncs() {
		if !inFile(fn.Pos()) {
			continue
		}
		allInstrs(fn, func(in ssa.Instruction) {
			call, ok := in.(*ssa.Call)
			if !ok {
				return
			}
			name := calleeNameSSA(&call.Call)
			if name != "fromBase64" && name != "fromBase32" && name != "hex.DecodeString" {
				return
			}
			var data *ssa.Extract
			if call.Referrers() != nil {
				for _, ref := range *call.Referrers() {
					if ex, ok := ref.(*ssa.Extract); ok && ex.Index == 0 {
						data = ex
					}
				}
			}
			construct := fmt.Sprintf("%s:%s", fnDisplay(fn), name)
			if data == nil || data.Referrers() == nil {
				r.ok(rule, construct, c.pos(call.Pos()), "result not used")
				return
			}
			errs := errResultsOf(call)
			var bad []string
			for _, ref := range *data.Referrers() {
				if _, isDbg := ref.(*ssa.DebugRef); isDbg {
					continue
				}
				// returned together with the error: the caller decides
				if ret, ok := ref.(*ssa.Return); ok {
					withErr := false
					for _, res := range ret.Results {
						if errs[res] {
							withErr = true
						}
					}
					if withErr {
						continue
					}
				}
				b := ref.Block()
				if phi, ok := ref.(*ssa.Phi); ok {
					// the use is on the incoming edge
					okAll := true
					for i, e := range phi.Edges {
						if e == ssa.Value(data) && !nilErrKnown(fn, phi.Block().Preds[i], phi.Block(), errs) {
							okAll = false
						}
					}
					if !okAll {
						bad = append(bad, c.pos(call.Pos()))
					}
					continue
				}
				if !nilErrKnown(fn, nil, b, errs) {
					// len(data) in the very test that also looks at the error is a use too
					bad = append(bad, c.pos(ref.Pos()))
				}
			}
			r.check(len(bad) == 0, rule, construct, c.pos(call.Pos()), "used under err == nil", "the octets decoded so far are used at %s where the decoder's error is not known to be nil: %s", strings.Join(uniqStrings(bad), ", "), consequence)
		})
	}
}

// nilErrKnown: at block b (or on the edge from->b) one of the errors is known nil.
func nilErrKnown(fn *ssa.Function, from, b *ssa.BasicBlock, errs map[ssa.Value]bool) bool {
	var facts []Fact
	if from != nil {
		facts = factsOnEdge(fn, from, b)
	} else {
		facts = factsAt(fn, b)
	}
	for _, f := range facts {
		bin, ok := f.Atom.(*ssa.BinOp)
		if !ok || (bin.Op != token.NEQ && bin.Op != token.EQL) {
			continue
		}
		var e ssa.Value
		if isNilConst(bin.Y) {
			e = bin.X
		} else if isNilConst(bin.X) {
			e = bin.Y
		}
		if e == nil || !errs[e] {
			continue
		}
		if (bin.Op == token.EQL) == f.Holds {
			return true
		}
	}
	return false
}

// dsNoValueRefusal: ToDS gives up (returns nil) on errors and on digest types it does not know, never because a
// number computed from the key has a particular value (a key tag of 0 is an ordinary key tag).
func dsNoValueRefusal(c *Ctx, r *Report, rule string) {
	r.rule(rule, 1, "no nil return of DNSKEY.ToDS is conditioned on a number computed from the key compared with a constant")
	fn := c.ssaFunc("DNSKEY.ToDS")
	if fn == nil {
		r.cerr(rule, "DNSKEY.ToDS", "function not found")
		return
	}
	r.fn("DNSKEY.ToDS")
	k := fn.Params[0]
	var bad []string
	n := 0
	for _, b := range fn.Blocks {
		ret, ok := b.Instrs[len(b.Instrs)-1].(*ssa.Return)
		if !ok || len(ret.Results) != 1 || !isNilConst(ret.Results[0]) {
			continue
		}
		n++
		for _, p := range b.Preds {
			for _, f := range factsOnEdge(fn, p, b) {
				bin, ok := f.Atom.(*ssa.BinOp)
				if !ok || f.If.Block() != p {
					continue // only the test that sends control into the refusal
				}
				for _, pair := range [][2]ssa.Value{{bin.X, bin.Y}, {bin.Y, bin.X}} {
					cst, isConst := pair[1].(*ssa.Const)
					if !isConst || cst.Value == nil || cst.Value.Kind() != constant.Int {
						continue
					}
					if _, isBasic := pair[0].Type().Underlying().(*types.Basic); !isBasic {
						continue
					}
					if sliceOf(pair[0])[k] {
						bad = append(bad, fmt.Sprintf("%s: %s %s %s", c.pos(ret.Pos()), pair[0].Name(), bin.Op, cst.Value))
					}
				}
			}
		}
	}
	sort.Strings(bad)
	r.check(n > 0 && len(bad) == 0, rule, "DNSKEY.ToDS:value", c.pos(fn.Pos()), "refusals are errors and unknown digest types only", "ToDS returns nil where a value computed from the key equals a constant (%s): keys for which the value happens to come out that way (one key in 65536 has key tag 0) get no DS record although they pack and digest like any other", strings.Join(uniqStrings(bad), "; "))
}

// ---- octet classes by abstract execution ----

// octetClass: what a function of one octet does for a given value of it.
type octetClass struct {
	Backslash bool // writes a backslash constant
	DDD       bool // calls escapeByte
	Raw       bool // hands the octet itself to a write call
}

// octetClasses executes fn's control flow for each of the 256 values of its octet parameter: branch conditions that
// are built from comparisons of the octet with constants are decided, every other branch is followed both ways. The
// result says, per value, which kinds of output the function can produce. The spelling of the tests (switch, if
// chain, merged or split conditions, negations) does not matter.
func octetClasses(fn *ssa.Function, octet ssa.Value) (out [256]octetClass) {
	for v := 0; v < 256; v++ {
		var eval func(x ssa.Value, prev *ssa.BasicBlock, depth int) (int64, bool)
		eval = func(x ssa.Value, prev *ssa.BasicBlock, depth int) (int64, bool) {
			if depth > 12 {
				return 0, false
			}
			if x == octet {
				return int64(v), true
			}
			if k, ok := constIntOf(x); ok {
				return k, true
			}
			if b, ok := constBool(x); ok {
				if b {
					return 1, true
				}
				return 0, true
			}
			switch t := x.(type) {
			case *ssa.Convert:
				k, ok := eval(t.X, prev, depth+1)
				if !ok {
					return 0, false
				}
				if bt, isB := t.Type().Underlying().(*types.Basic); isB {
					switch bt.Kind() {
					case types.Uint8:
						k &= 0xff
					case types.Int8:
						k = int64(int8(k))
					case types.Uint16:
						k &= 0xffff
					}
				}
				return k, true
			case *ssa.UnOp:
				if t.Op == token.NOT {
					k, ok := eval(t.X, prev, depth+1)
					return 1 - k, ok
				}
			case *ssa.Phi:
				if prev != nil {
					for i, p := range t.Block().Preds {
						if p == prev {
							return eval(t.Edges[i], nil, depth+1)
						}
					}
				}
			case *ssa.BinOp:
				a, ok1 := eval(t.X, prev, depth+1)
				b, ok2 := eval(t.Y, prev, depth+1)
				if !ok1 || !ok2 {
					return 0, false
				}
				tb := func(c bool) (int64, bool) {
					if c {
						return 1, true
					}
					return 0, true
				}
				u8 := false
				if bt, isB := t.X.Type().Underlying().(*types.Basic); isB && bt.Kind() == types.Uint8 {
					u8 = true
				}
				wrap := func(k int64) (int64, bool) {
					if u8 {
						return k & 0xff, true
					}
					return k, true
				}
				switch t.Op {
				case token.EQL:
					return tb(a == b)
				case token.NEQ:
					return tb(a != b)
				case token.LSS:
					return tb(a < b)
				case token.LEQ:
					return tb(a <= b)
				case token.GTR:
					return tb(a > b)
				case token.GEQ:
					return tb(a >= b)
				case token.ADD:
					return wrap(a + b)
				case token.SUB:
					return wrap(a - b)
				case token.AND:
					return a & b, true
				case token.OR:
					return a | b, true
				}
			}
			return 0, false
		}
		type state struct{ b, prev *ssa.BasicBlock }
		seen := map[state]bool{}
		var run func(b, prev *ssa.BasicBlock)
		run = func(b, prev *ssa.BasicBlock) {
			if seen[state{b, prev}] {
				return
			}
			seen[state{b, prev}] = true
			for _, in := range b.Instrs {
				ci, ok := in.(ssa.CallInstruction)
				if !ok {
					continue
				}
				if calleeNameSSA(ci.Common()) == "escapeByte" {
					out[v].DDD = true
				}
				for _, a := range ci.Common().Args {
					if k, isK := constIntOf(a); isK && k == '\\' {
						if bt, isB := a.Type().Underlying().(*types.Basic); isB && (bt.Kind() == types.Uint8 || bt.Kind() == types.Int32 || bt.Kind() == types.UntypedRune) {
							out[v].Backslash = true
						}
					}
					if a == octet && calleeNameSSA(ci.Common()) != "escapeByte" {
						out[v].Raw = true
					}
				}
			}
			if ifi, ok := b.Instrs[len(b.Instrs)-1].(*ssa.If); ok && len(b.Succs) == 2 {
				if k, ok := eval(ifi.Cond, prev, 0); ok {
					if k != 0 {
						run(b.Succs[0], b)
					} else {
						run(b.Succs[1], b)
					}
					return
				}
			}
			for _, s := range b.Succs {
				run(s, b)
			}
		}
		if len(fn.Blocks) > 0 {
			run(fn.Blocks[0], nil)
		}
	}
	return
}

// ---- looking for an anchor in the function or in a helper it calls ----

// calleeWith: fn itself when has(fn) holds, otherwise a function of the same package it calls (two levels down) for
// which it holds; nil when none does. A block of a function that has been moved into a helper of its own is still
// found this way.
func calleeWith(fn *ssa.Function, has func(*ssa.Function) bool) *ssa.Function {
	if fn == nil {
		return nil
	}
	if has(fn) {
		return fn
	}
	seen := map[*ssa.Function]bool{fn: true}
	level := []*ssa.Function{fn}
	for depth := 0; depth < 2; depth++ {
		var next []*ssa.Function
		for _, f := range level {
			for _, sub := range withAnon(f) {
				var found *ssa.Function
				allInstrs(sub, func(in ssa.Instruction) {
					ci, ok := in.(ssa.CallInstruction)
					if !ok || found != nil {
						return
					}
					g := ci.Common().StaticCallee()
					if g == nil || g.Pkg != fn.Pkg || seen[g] || len(g.Blocks) == 0 {
						return
					}
					seen[g] = true
					if has(g) {
						found = g
						return
					}
					next = append(next, g)
				})
				if found != nil {
					return found
				}
			}
		}
		level = next
	}
	return nil
}

// argsAtCalls: the values handed for parameter p of g at the calls of g found in fn and in what fn calls.
func argsAtCalls(fn, g *ssa.Function, p *ssa.Parameter) []ssa.Value {
	idx := -1
	for i, q := range g.Params {
		if q == p {
			idx = i
		}
	}
	var out []ssa.Value
	if idx < 0 {
		return out
	}
	seen := map[*ssa.Function]bool{}
	var visit func(f *ssa.Function, depth int)
	visit = func(f *ssa.Function, depth int) {
		if f == nil || seen[f] || depth > 2 {
			return
		}
		seen[f] = true
		for _, sub := range withAnon(f) {
			allInstrs(sub, func(in ssa.Instruction) {
				ci, ok := in.(ssa.CallInstruction)
				if !ok {
					return
				}
				callee := ci.Common().StaticCallee()
				if callee == g && idx < len(ci.Common().Args) {
					out = append(out, ci.Common().Args[idx])
				} else if callee != nil && callee.Pkg == fn.Pkg {
					visit(callee, depth+1)
				}
			})
		}
	}
	visit(fn, 0)
	return out
}

// boundTo: pred, read through the parameters of helper: a parameter counts when every call of the helper from fn
// hands it a value that (shallowly) satisfies pred.
func boundTo(fn, helper *ssa.Function, pred vpred) vpred {
	return func(v ssa.Value) bool {
		if pred(v) {
			return true
		}
		for o := range shallowOrigins(v) {
			if pred(o) {
				return true
			}
			p, ok := o.(*ssa.Parameter)
			if !ok || helper == fn || p.Parent() != helper {
				continue
			}
			args := argsAtCalls(fn, helper, p)
			if len(args) == 0 {
				continue
			}
			all := true
			for _, a := range args {
				if !anyIn(shallowOrigins(a), pred) && !pred(a) {
					all = false
				}
			}
			if all {
				return true
			}
		}
		return false
	}
}

// ---- set-of-octets abstract execution over a region of a function ----

// scalarExec walks the control flow of a function from a block with some SSA values bound to concrete small integers
// (the elements of a finite abstract domain enumerated one by one): branch conditions, arithmetic and phis over the bound
// values are decided; calls of functions of the package whose arguments are all decided are walked the same way for
// their result. It stops at a Return (reporting its results as far as decided), or when it comes back to a block it
// has been in ("loops": the region was left through its back edge). Everything it cannot decide makes it give up.
type scalarExec struct {
	pkg    *ssa.Package
	steps  int
	region *ssa.BasicBlock // the block the outermost walk started from
	// visit, when set, sees every instruction of the blocks the outermost walk passes through, with a way to ask for
	// the decided value of an operand
	visit   func(in ssa.Instruction, val func(ssa.Value) (int64, bool))
	tables  map[*ssa.Global]map[int64]int64
	tableOK map[*ssa.Global]bool
}

type execResult struct {
	Returned bool    // a Return was reached
	Results  []int64 // its decided results
	Decided  []bool
	NilConst []bool             // the result is the nil constant
	PhiIn    map[*ssa.Phi]int64 // on Looped: the decided values the phis of the block come back to receive
	Looped   bool               // came back to a visited block
	GaveUp   bool
}

func (x *scalarExec) value(v ssa.Value, env map[ssa.Value]int64, prev *ssa.BasicBlock, depth int) (int64, bool) {
	if depth > 16 {
		return 0, false
	}
	if k, ok := env[v]; ok {
		return k, true
	}
	if k, ok := constIntOf(v); ok {
		return k, true
	}
	if b, ok := constBool(v); ok {
		if b {
			return 1, true
		}
		return 0, true
	}
	narrow := func(k int64, t types.Type) int64 {
		if bt, isB := t.Underlying().(*types.Basic); isB {
			switch bt.Kind() {
			case types.Uint8:
				return k & 0xff
			case types.Int8:
				return int64(int8(k))
			case types.Uint16:
				return k & 0xffff
			case types.Int16:
				return int64(int16(k))
			case types.Uint32:
				return k & 0xffffffff
			case types.Int32:
				return int64(int32(k))
			}
		}
		return k
	}
	switch t := v.(type) {
	case *ssa.Convert:
		k, ok := x.value(t.X, env, prev, depth+1)
		return narrow(k, t.Type()), ok
	case *ssa.UnOp:
		if t.Op == token.NOT {
			k, ok := x.value(t.X, env, prev, depth+1)
			return 1 - k, ok
		}
		if t.Op == token.SUB {
			k, ok := x.value(t.X, env, prev, depth+1)
			return narrow(-k, t.Type()), ok
		}
		if t.Op == token.MUL {
			// an element of a package-level table (an array variable filled once by its initialiser and never written
			// elsewhere): the value the initialiser stores at that index, the zero value otherwise
			if ia, ok := t.X.(*ssa.IndexAddr); ok {
				if g, isG := ia.X.(*ssa.Global); isG && g.Pkg == x.pkg {
					if idx, okI := x.value(ia.Index, env, prev, depth+1); okI {
						if tbl, okT := x.globalTable(g); okT {
							return tbl[idx], true
						}
					}
				}
			}
		}
	case *ssa.BinOp:
		a, ok1 := x.value(t.X, env, prev, depth+1)
		b, ok2 := x.value(t.Y, env, prev, depth+1)
		if !ok1 || !ok2 {
			return 0, false
		}
		tb := func(c bool) (int64, bool) {
			if c {
				return 1, true
			}
			return 0, true
		}
		switch t.Op {
		case token.EQL:
			return tb(a == b)
		case token.NEQ:
			return tb(a != b)
		case token.LSS:
			return tb(a < b)
		case token.LEQ:
			return tb(a <= b)
		case token.GTR:
			return tb(a > b)
		case token.GEQ:
			return tb(a >= b)
		case token.ADD:
			return narrow(a+b, t.Type()), true
		case token.SUB:
			return narrow(a-b, t.Type()), true
		case token.MUL:
			return narrow(a*b, t.Type()), true
		case token.AND:
			return a & b, true
		case token.OR:
			return a | b, true
		case token.XOR:
			return narrow(a^b, t.Type()), true
		case token.AND_NOT:
			return a &^ b, true
		case token.SHL:
			if b >= 0 && b < 63 {
				return narrow(a<<uint(b), t.Type()), true
			}
			// a 64-bit unsigned word: the bit pattern is kept (two's complement); the bitwise operators and the
			// comparison with zero that follow are exact on patterns
			if bt, isB := t.Type().Underlying().(*types.Basic); isB && (bt.Kind() == types.Uint64 || bt.Kind() == types.Uint || bt.Kind() == types.Uintptr) {
				if b == 63 {
					return int64(uint64(a) << 63), true
				}
				if b >= 64 {
					return 0, true
				}
			}
		case token.SHR:
			if b >= 0 && b < 63 {
				return a >> uint(b), true
			}
			if b >= 63 && a >= 0 {
				return 0, true // a non-negative value below 2^63 shifted right by 63 or more
			}
			if bt, isB := t.X.Type().Underlying().(*types.Basic); isB && a < 0 && b >= 0 && (bt.Kind() == types.Uint64 || bt.Kind() == types.Uint || bt.Kind() == types.Uintptr) {
				if b >= 64 {
					return 0, true
				}
				return int64(uint64(a) >> uint(b)), true // the pattern of a 64-bit unsigned word, shifted logically
			}
		}
	case *ssa.Call:
		g := t.Call.StaticCallee()
		if g == nil || g.Pkg != x.pkg || len(g.Blocks) == 0 || t.Call.IsInvoke() {
			return 0, false
		}
		cenv := map[ssa.Value]int64{}
		for i, a := range t.Call.Args {
			k, ok := x.value(a, env, prev, depth+1)
			if !ok || i >= len(g.Params) {
				return 0, false
			}
			cenv[g.Params[i]] = k
		}
		res := x.run(g, g.Blocks[0], 0, cenv, depth+1)
		if res.Returned && len(res.Results) == 1 && res.Decided[0] {
			return res.Results[0], true
		}
	}
	return 0, false
}

// run executes from instruction index start of block b.
func (x *scalarExec) run(fn *ssa.Function, b *ssa.BasicBlock, start int, env map[ssa.Value]int64, depth int) execResult {
	seen := map[*ssa.BasicBlock]bool{}
	var prev *ssa.BasicBlock
	for {
		x.steps++
		if x.steps > 4_000_000 || depth > 6 {
			return execResult{GaveUp: true}
		}
		if seen[b] || (depth == 0 && x.region != nil && b != x.region && b.Dominates(x.region)) {
			// back at a block already walked, or left the region through a back edge to an enclosing loop header
			res := execResult{Looped: true, PhiIn: map[*ssa.Phi]int64{}}
			for _, in := range b.Instrs {
				phi, ok := in.(*ssa.Phi)
				if !ok {
					break
				}
				for i, p := range b.Preds {
					if p == prev {
						if k, ok := x.value(phi.Edges[i], env, nil, depth); ok {
							res.PhiIn[phi] = k
						}
					}
				}
			}
			return res
		}
		seen[b] = true
		// phis of the block take the value of the edge taken
		for _, in := range b.Instrs {
			phi, ok := in.(*ssa.Phi)
			if !ok {
				break
			}
			if prev == nil {
				continue
			}
			for i, p := range b.Preds {
				if p == prev {
					if k, ok := x.value(phi.Edges[i], env, nil, depth); ok {
						env[phi] = k
					} else {
						delete(env, phi)
					}
				}
			}
		}
		if depth == 0 && x.visit != nil {
			pv := prev
			for _, in := range b.Instrs {
				x.visit(in, func(v ssa.Value) (int64, bool) { return x.value(v, env, pv, depth) })
			}
		}
		last := b.Instrs[len(b.Instrs)-1]
		switch t := last.(type) {
		case *ssa.Return:
			res := execResult{Returned: true}
			for _, rv := range t.Results {
				k, ok := x.value(rv, env, prev, depth)
				res.Results = append(res.Results, k)
				res.Decided = append(res.Decided, ok)
				res.NilConst = append(res.NilConst, isNilConst(rv))
			}
			return res
		case *ssa.If:
			k, ok := x.value(t.Cond, env, prev, depth)
			if !ok {
				// the loop's own continuation test (a rotated loop tests `i+1 < n` at the bottom): this turn is over
				if depth == 0 && x.region != nil {
					for _, s := range b.Succs {
						if s == x.region || (s != b && s.Dominates(x.region)) {
							res := execResult{Looped: true, PhiIn: map[*ssa.Phi]int64{}}
							for _, in := range s.Instrs {
								phi, isPhi := in.(*ssa.Phi)
								if !isPhi {
									break
								}
								for i, p := range s.Preds {
									if p == b {
										if kv, okv := x.value(phi.Edges[i], env, nil, depth); okv {
											res.PhiIn[phi] = kv
										}
									}
								}
							}
							return res
						}
					}
				}
				return execResult{GaveUp: true}
			}
			prev = b
			if k != 0 {
				b = b.Succs[0]
			} else {
				b = b.Succs[1]
			}
		case *ssa.Jump:
			prev = b
			b = b.Succs[0]
		default:
			return execResult{GaveUp: true}
		}
		start = 0
	}
}

// equalFoldsPairs: labels.go equal() declares two names different exactly when, at some position, the two octets
// differ after A-Z have been mapped to a-z. Decided over the 256 x 256 pairs of octet values by walking the loop body
// with the two octets bound (whatever the fold is written as: in place, in a helper, with |= or +=).
func equalFoldsPairs(c *Ctx, r *Report, rule string) {
	fn := c.ssaFunc("equal")
	if fn == nil || len(fn.Params) != 2 {
		r.cerr(rule, "equal", "function not found")
		return
	}
	r.fn("equal")
	var la, lb ssa.Value
	allInstrs(fn, func(in ssa.Instruction) {
		var xv ssa.Value
		switch t := in.(type) {
		case *ssa.Lookup:
			xv = t.X
		case *ssa.Index:
			xv = t.X
		default:
			return
		}
		if xv == ssa.Value(fn.Params[0]) {
			la = in.(ssa.Value)
		}
		if xv == ssa.Value(fn.Params[1]) {
			lb = in.(ssa.Value)
		}
	})
	var problems []string
	if la == nil || lb == nil {
		problems = append(problems, "the octets a[i] and b[i] are not read in equal")
	} else {
		idxOf := func(v ssa.Value) ssa.Value {
			switch t := v.(type) {
			case *ssa.Lookup:
				return t.Index
			case *ssa.Index:
				return t.Index
			}
			return nil
		}
		if idxOf(la) != idxOf(lb) {
			problems = append(problems, "the two names are not read at the same position")
		}
		start := la.(ssa.Instruction).Block()
		if bb := lb.(ssa.Instruction).Block(); bb != start && !start.Dominates(bb) {
			start = bb
		}
		fold := func(v int) int {
			if v >= 'A' && v <= 'Z' {
				return v + 32
			}
			return v
		}
		x := &scalarExec{pkg: fn.Pkg, region: start}
		var wrong []string
		gaveUp := false
		for a := 0; a < 256 && len(wrong) < 4 && !gaveUp; a++ {
			for b := 0; b < 256; b++ {
				res := x.run(fn, start, 0, map[ssa.Value]int64{la: int64(a), lb: int64(b)}, 0)
				if res.GaveUp {
					gaveUp = true
					break
				}
				saysDifferent := res.Returned && len(res.Results) == 1 && res.Decided[0] && res.Results[0] == 0
				saysEqualNow := res.Returned && len(res.Results) == 1 && res.Decided[0] && res.Results[0] == 1
				want := fold(a) != fold(b)
				if saysDifferent != want || saysEqualNow {
					wrong = append(wrong, fmt.Sprintf("%#x vs %#x: equal %s", a, b, map[bool]string{true: "reports a difference", false: "goes on as if they were the same"}[saysDifferent]))
					if len(wrong) >= 4 {
						break
					}
				}
			}
		}
		if gaveUp {
			r.undecided(rule, "equal", c.pos(fn.Pos()), "the comparison of one pair of octets could not be followed (a call outside the package, or a value that is not a function of the two octets)")
			return
		}
		if len(wrong) > 0 {
			problems = append(problems, "the two names are not compared octet by octet with exactly A-Z folded onto a-z: "+strings.Join(wrong, "; "))
		}
	}
	// lengths: some test of len(a) against len(b) sends a difference to `return false`
	lenTest := false
	for _, b := range fn.Blocks {
		ifi, ok := b.Instrs[len(b.Instrs)-1].(*ssa.If)
		if !ok {
			continue
		}
		atom, _ := condAtom(ifi.Cond)
		bin, ok := atom.(*ssa.BinOp)
		if !ok || (bin.Op != token.NEQ && bin.Op != token.EQL) {
			continue
		}
		isLenOf := func(v ssa.Value, p ssa.Value) bool {
			for o := range shallowOrigins(v) {
				if call, ok := o.(*ssa.Call); ok && calleeNameSSA(&call.Call) == "builtin.len" && call.Call.Args[0] == p {
					return true
				}
			}
			return false
		}
		if (isLenOf(bin.X, fn.Params[0]) && isLenOf(bin.Y, fn.Params[1])) || (isLenOf(bin.X, fn.Params[1]) && isLenOf(bin.Y, fn.Params[0])) {
			lenTest = true
		}
	}
	if !lenTest {
		problems = append(problems, "no comparison of the two lengths")
	}
	if len(problems) == 0 {
		r.ok(rule, "equal", c.pos(fn.Pos()), "65536 octet pairs: a difference is reported exactly when the octets differ after folding A-Z")
	} else {
		r.fail(rule, "equal", c.pos(fn.Pos()), "%s", strings.Join(problems, "; "))
	}
}

// bindNilTests: the comparisons with nil of a function, bound as "no error occurred, every pointer is set".
func bindNilTests(fn *ssa.Function, env map[ssa.Value]int64) {
	allInstrs(fn, func(in ssa.Instruction) {
		bin, ok := in.(*ssa.BinOp)
		if !ok || (bin.Op != token.EQL && bin.Op != token.NEQ) {
			return
		}
		var other ssa.Value
		if isNilConst(bin.Y) {
			other = bin.X
		} else if isNilConst(bin.X) {
			other = bin.Y
		} else {
			return
		}
		isNil := isErrorType(other.Type()) // an error is nil, anything else is not
		if (bin.Op == token.EQL) == isNil {
			env[bin] = 1
		} else {
			env[bin] = 0
		}
	})
}

// ecdsaWidthsExec: the coordinate width setPublicKeyECDSA pads to and the key length publicKeyECDSA accepts, per
// algorithm number, read off by walking the two functions with the algorithm (and the key length) bound: 13 -> 32 and
// 64 octets, 14 -> 48 and 96. Whatever the selection is written as (switch, if chain, table in a helper).
func ecdsaWidthsExec(c *Ctx, r *Report, rule string) {
	setFn, getFn := c.ssaFunc("DNSKEY.setPublicKeyECDSA"), c.ssaFunc("DNSKEY.publicKeyECDSA")
	if setFn == nil || getFn == nil {
		r.cerr(rule, "ecdsa", "setPublicKeyECDSA / publicKeyECDSA not found")
		return
	}
	r.fn("DNSKEY.setPublicKeyECDSA")
	r.fn("DNSKEY.publicKeyECDSA")
	algLoads := func(fn *ssa.Function) []ssa.Value {
		var out []ssa.Value
		allInstrs(fn, func(in ssa.Instruction) {
			if ld, ok := in.(*ssa.UnOp); ok && ld.Op == token.MUL && readsField("DNSKEY", "Algorithm")(ld.X) {
				out = append(out, ld)
			}
		})
		return out
	}
	want := map[int64]int64{13: 32, 14: 48}
	var problems []string
	undecided := false
	// the encoder
	for _, alg := range []int64{13, 14, 5, 8, 10, 15} {
		env := map[ssa.Value]int64{}
		bindNilTests(setFn, env)
		for _, ld := range algLoads(setFn) {
			env[ld] = alg
		}
		var widths []int64
		x := &scalarExec{pkg: setFn.Pkg}
		x.visit = func(in ssa.Instruction, val func(ssa.Value) (int64, bool)) {
			call, ok := in.(*ssa.Call)
			if !ok {
				return
			}
			name := calleeNameSSA(&call.Call)
			if name != "curveToBuf" && name != "intToBytes" {
				return
			}
			if k, ok := val(call.Call.Args[len(call.Call.Args)-1]); ok {
				widths = append(widths, k)
			} else {
				widths = append(widths, -1)
			}
		}
		res := x.run(setFn, setFn.Blocks[0], 0, env, 0)
		if res.GaveUp {
			undecided = true
			continue
		}
		refused := res.Returned && len(res.Results) == 1 && res.Decided[0] && res.Results[0] == 0
		cw, isEcdsa := want[alg]
		switch {
		case isEcdsa && (refused || len(widths) == 0):
			problems = append(problems, fmt.Sprintf("setPublicKeyECDSA has no coordinate width for algorithm %d (it would encode with width 0: coordinates with leading zero octets come out short)", alg))
		case isEcdsa:
			for _, w := range widths {
				if w != cw {
					problems = append(problems, fmt.Sprintf("setPublicKeyECDSA pads algorithm %d coordinates to %d octets, RFC 6605 needs %d", alg, w, cw))
				}
			}
		case !isEcdsa:
			for _, w := range widths {
				if w > 0 {
					problems = append(problems, fmt.Sprintf("setPublicKeyECDSA has a width for %d, which is not an ECDSA signature algorithm number (13, 14)", alg))
				}
			}
		}
	}
	// the decoder
	var lens []ssa.Value
	allInstrs(getFn, func(in ssa.Instruction) {
		if call, ok := in.(*ssa.Call); ok && calleeNameSSA(&call.Call) == "builtin.len" {
			if sl, isSl := call.Call.Args[0].Type().Underlying().(*types.Slice); isSl {
				if b, isB := sl.Elem().Underlying().(*types.Basic); isB && b.Kind() == types.Uint8 {
					lens = append(lens, call)
				}
			}
		}
	})
	for alg, cw := range want {
		var accepted []int64
		for L := int64(0); L < 256; L++ {
			env := map[ssa.Value]int64{}
			bindNilTests(getFn, env)
			for _, ld := range algLoads(getFn) {
				env[ld] = alg
			}
			for _, lc := range lens {
				env[lc] = L
			}
			x := &scalarExec{pkg: getFn.Pkg}
			res := x.run(getFn, getFn.Blocks[0], 0, env, 0)
			if res.GaveUp {
				undecided = true
				break
			}
			if res.Returned && len(res.NilConst) == 1 && res.NilConst[0] {
				continue
			}
			accepted = append(accepted, L)
		}
		if len(lens) == 0 || len(accepted) == 256 {
			problems = append(problems, fmt.Sprintf("publicKeyECDSA has no key length test for algorithm %d", alg))
		} else if len(accepted) != 1 || accepted[0] != 2*cw {
			problems = append(problems, fmt.Sprintf("publicKeyECDSA expects %v octets for algorithm %d, RFC 6605 needs %d", accepted, alg, 2*cw))
		}
	}
	if undecided {
		r.undecided(rule, "ECDSA coordinate widths", "", "the selection of the width by the algorithm number could not be followed")
		return
	}
	sort.Strings(problems)
	r.check(len(problems) == 0, rule, "ECDSA coordinate widths", "", "13:32/64, 14:48/96", "%s", strings.Join(uniqStrings(problems), "; "))
}

// escapeSkipExec: one turn of escapedNameLen's loop, walked for the three kinds of position (no backslash, backslash
// before three digits, backslash before anything else): the index moves on by 1, 4 and 2, and the length drops by 0, 3
// and 1. The variables are recognised by what they are (the index starts at 0, the length at len(s)).
func escapeSkipExec(c *Ctx, r *Report, rule string) {
	fn := c.ssaFunc("escapedNameLen")
	if fn == nil {
		r.cerr(rule, "escapedNameLen", "function not found")
		return
	}
	r.fn("escapedNameLen")
	// the count: the loop variable the result is made of — returned as it is (it starts at len(s) and drops), or taken
	// off len(s) at the end (it starts at 0 and grows)
	var idx, length *ssa.Phi
	var head *ssa.BasicBlock
	sign := int64(1)
	isLen := func(v ssa.Value) bool {
		call, isCall := v.(*ssa.Call)
		return isCall && calleeNameSSA(&call.Call) == "builtin.len"
	}
	entryEdge := func(phi *ssa.Phi) ssa.Value {
		for i, e := range phi.Edges {
			if !phi.Block().Dominates(phi.Block().Preds[i]) {
				return e
			}
		}
		return nil
	}
	allInstrs(fn, func(in ssa.Instruction) {
		ret, ok := in.(*ssa.Return)
		if !ok || len(ret.Results) != 1 {
			return
		}
		switch t := ret.Results[0].(type) {
		case *ssa.Phi:
			if backTarget(fn, t.Block()) && isLen(entryEdge(t)) {
				length, sign = t, 1
			}
		case *ssa.BinOp:
			if phi, isPhi := t.Y.(*ssa.Phi); isPhi && t.Op == token.SUB && isLen(t.X) && backTarget(fn, phi.Block()) {
				if k, isK := constIntOf(entryEdge(phi)); isK && k == 0 {
					length, sign = phi, -1
				}
			}
		}
	})
	if length != nil {
		head = length.Block()
		for _, in := range head.Instrs {
			phi, ok := in.(*ssa.Phi)
			if !ok {
				break
			}
			if phi == length {
				continue
			}
			if k, isK := constIntOf(entryEdge(phi)); isK && k == 0 {
				idx = phi
			}
		}
	}
	if idx == nil || length == nil || idx.Block() != length.Block() {
		r.undecided(rule, "escapedNameLen", c.pos(fn.Pos()), "the loop with an index starting at 0 and a count the result is made of (starting at len(s) and returned, or starting at 0 and taken off len(s)) was not found")
		return
	}
	var slashTests, dddCalls, lens []ssa.Value
	allInstrs(fn, func(in ssa.Instruction) {
		switch t := in.(type) {
		case *ssa.BinOp:
			if t.Op == token.EQL || t.Op == token.NEQ {
				if k, isK := constIntOf(t.Y); isK && k == '\\' {
					slashTests = append(slashTests, t)
				}
			}
		case *ssa.Call:
			switch calleeNameSSA(&t.Call) {
			case "isDDD":
				dddCalls = append(dddCalls, t)
			case "builtin.len":
				lens = append(lens, t)
			}
		}
	})
	if len(slashTests) == 0 || len(dddCalls) == 0 {
		r.undecided(rule, "escapedNameLen", c.pos(fn.Pos()), "no test for a backslash / no isDDD call found")
		return
	}
	var problems []string
	for _, cs := range []struct {
		slash, ddd bool
		di, dl     int64
		what       string
	}{{false, false, 1, 0, "an ordinary octet"}, {true, true, 4, -3, "a \\DDD escape"}, {true, false, 2, -1, "a \\c escape"}} {
		env := map[ssa.Value]int64{idx: 10, length: 100}
		for _, lc := range lens {
			env[lc] = 1000
		}
		for _, st := range slashTests {
			bin := st.(*ssa.BinOp)
			if (bin.Op == token.EQL) == cs.slash {
				env[st] = 1
			} else {
				env[st] = 0
			}
		}
		for _, dc := range dddCalls {
			if cs.ddd {
				env[dc] = 1
			} else {
				env[dc] = 0
			}
		}
		x := &scalarExec{pkg: fn.Pkg}
		res := x.run(fn, head, 0, env, 0)
		if !res.Looped {
			r.undecided(rule, "escapedNameLen", c.pos(fn.Pos()), "one turn of the loop could not be followed for %s", cs.what)
			return
		}
		ni, ok1 := res.PhiIn[idx]
		nl, ok2 := res.PhiIn[length]
		if !ok1 || !ok2 {
			r.undecided(rule, "escapedNameLen", c.pos(fn.Pos()), "the index / length after one turn are not decided for %s", cs.what)
			return
		}
		if ni-10 != cs.di || sign*(nl-100) != cs.dl {
			problems = append(problems, fmt.Sprintf("for %s the index moves on by %d and the length changes by %d (want %d and %d): the octets skipped and the octets subtracted do not agree with the escape form", cs.what, ni-10, sign*(nl-100), cs.di, cs.dl))
		}
	}
	r.check(len(problems) == 0, rule, "escapedNameLen", c.pos(fn.Pos()), "(1,0) (4,-3) (2,-1)", "%s", strings.Join(problems, "; "))
}

// ownGeneration: serveTCP and serveUDP close the drain channel of their own generation: the channel is taken from
// Server.shutdown once, before the loop blocks for the first time, and never read again (not in the deferred
// wait-then-close either). A restart after an expired ShutdownContext installs a new channel in the field while the old
// loop is still draining; read at close time, the old loop would close the new generation's channel (its Shutdown
// returns early, and its own serve call panics closing the channel a second time).
func ownGeneration(c *Ctx, r *Report, rule string) {
	r.rule(rule, 2, "serveTCP and serveUDP read Server.shutdown only before their first blocking read (not at close time)")
	for _, name := range []string{"Server.serveTCP", "Server.serveUDP"} {
		fn := c.ssaFunc(name)
		if fn == nil {
			r.cerr(rule, name, "function not found")
			continue
		}
		r.fn(name)
		isBlocking := func(in ssa.Instruction) bool {
			ci, ok := in.(ssa.CallInstruction)
			if !ok || !ci.Common().IsInvoke() {
				return false
			}
			switch ci.Common().Method.Name() {
			case "Accept", "ReadUDP", "ReadPacketConn", "ReadTCP":
				return true
			}
			return false
		}
		// blocks at or behind a blocking call
		late := map[*ssa.BasicBlock]int{}
		for _, b := range fn.Blocks {
			for i, in := range b.Instrs {
				if isBlocking(in) {
					if _, has := late[b]; !has {
						late[b] = i
					}
					for rb := range reach(b, nil, nil) {
						if rb != b {
							if _, has := late[rb]; !has {
								late[rb] = -1
							}
						} else if _, has := late[rb]; !has {
							late[rb] = i
						}
					}
				}
			}
		}
		readsDrain := func(in ssa.Instruction) bool {
			if ld, ok := in.(*ssa.UnOp); ok && ld.Op == token.MUL && readsField("Server", "shutdown")(ld.X) {
				return true
			}
			if call, ok := in.(*ssa.Call); ok {
				if g := call.Call.StaticCallee(); g != nil && g.Pkg == fn.Pkg && len(g.Blocks) > 0 && g != fn {
					if _, isChan := call.Type().Underlying().(*types.Chan); isChan && isDrainChan(call, 0) {
						return true
					}
				}
			}
			return false
		}
		var bad []string
		n := 0
		for _, sub := range withAnon(fn) {
			allInstrs(sub, func(in ssa.Instruction) {
				if !readsDrain(in) {
					return
				}
				n++
				if sub != fn {
					bad = append(bad, fmt.Sprintf("%s (inside a closure, i.e. when it runs)", c.pos(in.Pos())))
					return
				}
				if idx, isLate := late[in.Block()]; isLate && (idx < 0 || instrIndex(in) > idx) {
					bad = append(bad, fmt.Sprintf("%s (behind a blocking read)", c.pos(in.Pos())))
				}
			})
		}
		r.check(n > 0 && len(bad) == 0, rule, name, c.pos(fn.Pos()), "captured once at the start", "Server.shutdown is read at %s: after an expired ShutdownContext and a restart the field holds the new generation's channel, so the old loop, when its handlers are finally done, closes the new one: the new generation's Shutdown returns while its handlers still run, and its serve call panics with 'close of closed channel'", strings.Join(bad, ", "))
	}
}

// globalTable: the contents of a package-level array of small integers / booleans, as stored by the package
// initialiser; ok only when nothing else in the package writes to the variable or takes its address.
func (x *scalarExec) globalTable(g *ssa.Global) (map[int64]int64, bool) {
	if x.tables == nil {
		x.tables = map[*ssa.Global]map[int64]int64{}
		x.tableOK = map[*ssa.Global]bool{}
	}
	if t, done := x.tables[g]; done {
		return t, x.tableOK[g]
	}
	tbl := map[int64]int64{}
	okAll := true
	initFn := x.pkg.Func("init")
	for _, m := range x.pkg.Members {
		fn, isFn := m.(*ssa.Function)
		if !isFn {
			continue
		}
		for _, sub := range withAnon(fn) {
			allInstrs(sub, func(in ssa.Instruction) {
				for _, op := range in.Operands(nil) {
					if *op != ssa.Value(g) {
						continue
					}
					ia, isIA := in.(*ssa.IndexAddr)
					if st, isSt := in.(*ssa.Store); isSt && st.Addr == ssa.Value(g) && fn == initFn {
						// var t = func() (t [N]T) { ... }(): the table is what the function literal computes
						if call, isCall := st.Val.(*ssa.Call); isCall && len(call.Call.Args) == 0 {
							var callee *ssa.Function
							switch f := call.Call.Value.(type) {
							case *ssa.Function:
								callee = f
							case *ssa.MakeClosure:
								callee, _ = f.Fn.(*ssa.Function)
							}
							if callee != nil {
								if vals, okE := evalInitTable(callee); okE {
									for k, v := range vals {
										tbl[k] = v
									}
									continue
								}
							}
						}
						// var t = [N]T{i: v, ...}: the literal is built in a local and stored whole
						if ld, isLd := st.Val.(*ssa.UnOp); isLd && ld.Op == token.MUL {
							if al, isAl := ld.X.(*ssa.Alloc); isAl && al.Referrers() != nil {
								for _, ref := range *al.Referrers() {
									ia2, isIA2 := ref.(*ssa.IndexAddr)
									if !isIA2 {
										continue
									}
									for _, r2 := range *ia2.Referrers() {
										st2, isSt2 := r2.(*ssa.Store)
										if !isSt2 {
											continue
										}
										idx, ok1 := constIntOf(ia2.Index)
										if !ok1 {
											okAll = false
											continue
										}
										if k, isK := constIntOf(st2.Val); isK {
											tbl[idx] = k
										} else if b, isB := constBool(st2.Val); isB {
											if b {
												tbl[idx] = 1
											} else {
												tbl[idx] = 0
											}
										} else {
											okAll = false
										}
									}
								}
								continue
							}
						}
						okAll = false
						continue
					}
					if !isIA {
						okAll = false // the variable escapes
						continue
					}
					for _, ref := range *ia.Referrers() {
						switch r := ref.(type) {
						case *ssa.Store:
							if r.Addr != ssa.Value(ia) || fn != initFn {
								okAll = false
								continue
							}
							idx, ok1 := constIntOf(ia.Index)
							var val int64
							ok2 := false
							if k, isK := constIntOf(r.Val); isK {
								val, ok2 = k, true
							} else if b, isB := constBool(r.Val); isB {
								ok2 = true
								if b {
									val = 1
								}
							}
							if !ok1 || !ok2 {
								okAll = false
								continue
							}
							tbl[idx] = val
						case *ssa.UnOp:
						default:
							okAll = false
						}
					}
				}
			})
		}
	}
	x.tables[g], x.tableOK[g] = tbl, okAll
	return tbl, okAll
}

// closureTargets: the functions a local function value can be — function literals and functions of the package, through
// merges and through a local variable's stores. nil when some possible value is not such a function.
func closureTargets(v ssa.Value) []*ssa.Function {
	var out []*ssa.Function
	seen := map[ssa.Value]bool{}
	var visit func(v ssa.Value) bool
	visit = func(v ssa.Value) bool {
		if seen[v] {
			return true
		}
		seen[v] = true
		switch t := v.(type) {
		case *ssa.Phi:
			for _, e := range t.Edges {
				if !visit(e) {
					return false
				}
			}
			return true
		case *ssa.MakeClosure:
			if f, ok := t.Fn.(*ssa.Function); ok {
				out = append(out, f)
				return true
			}
		case *ssa.Function:
			out = append(out, t)
			return true
		case *ssa.UnOp:
			if al, ok := t.X.(*ssa.Alloc); ok && t.Op == token.MUL && al.Referrers() != nil {
				n := 0
				for _, ref := range *al.Referrers() {
					switch r := ref.(type) {
					case *ssa.Store:
						if r.Addr != ssa.Value(al) || !visit(r.Val) {
							return false
						}
						n++
					case *ssa.UnOp, *ssa.DebugRef:
					default:
						return false
					}
				}
				return n > 0
			}
		}
		return false
	}
	if !visit(v) {
		return nil
	}
	return out
}

// constMapValues: the values of a package-level map that is built once by the package initialiser from constants
// (var m = map[K]V{k1: c1, ...}) and afterwards only read by lookups and len: nothing in the package stores into the
// variable again, updates or deletes an entry, or lets the map value go anywhere else. ok is false otherwise.
func constMapValues(pkg *ssa.Package, g *ssa.Global) (vals []int64, ok bool) {
	vals, _, ok = constMapEntries(pkg, g)
	return vals, ok
}

// constMapEntries: the same, with the entries whose key is an integer constant as well (key -> value).
func constMapEntries(pkg *ssa.Package, g *ssa.Global) (vals []int64, entries map[int64]int64, ok bool) {
	entries = map[int64]int64{}
	initFn := pkg.Func("init")
	okAll := true
	var mk *ssa.MakeMap
	mapValueOK := func(v ssa.Value, inInit bool) {
		// every use of the map value itself
		if v.Referrers() == nil {
			okAll = false
			return
		}
		for _, ref := range *v.Referrers() {
			switch r := ref.(type) {
			case *ssa.Lookup, *ssa.DebugRef, *ssa.Range:
			case *ssa.Call:
				if calleeNameSSA(&r.Call) != "builtin.len" {
					okAll = false
				}
			case *ssa.MapUpdate:
				if !inInit || r.Map != v {
					okAll = false
					continue
				}
				if k, isK := constIntOf(r.Value); isK {
					vals = append(vals, k)
					if key, isKey := constIntOf(r.Key); isKey {
						entries[key] = k
					}
				} else if b, isB := constBool(r.Value); isB {
					if b {
						vals = append(vals, 1)
					} else {
						vals = append(vals, 0)
					}
				} else {
					okAll = false
				}
			case *ssa.Store:
				if !inInit || r.Val != v || r.Addr != ssa.Value(g) {
					okAll = false
				}
			default:
				okAll = false
			}
		}
	}
	nStores := 0
	for _, m := range pkg.Members {
		fn, isFn := m.(*ssa.Function)
		if !isFn {
			continue
		}
		for _, sub := range withAnon(fn) {
			allInstrs(sub, func(in ssa.Instruction) {
				for _, op := range in.Operands(nil) {
					if *op != ssa.Value(g) {
						continue
					}
					switch t := in.(type) {
					case *ssa.Store:
						if t.Addr != ssa.Value(g) || sub != initFn {
							okAll = false
							continue
						}
						nStores++
						m, isMk := t.Val.(*ssa.MakeMap)
						if !isMk {
							okAll = false
							continue
						}
						mk = m
					case *ssa.UnOp:
						if t.Op != token.MUL {
							okAll = false
							continue
						}
						mapValueOK(t, false)
					case *ssa.DebugRef:
					default:
						okAll = false
					}
				}
			})
		}
	}
	if nStores != 1 || mk == nil {
		return nil, nil, false
	}
	mapValueOK(mk, true)
	return vals, entries, okAll
}

// constSetOf: the constants a value can be: a constant, or what a lookup in a constant package-level map yields (the
// zero value too when the lookup is not the checked form used under its ok).
func constSetOf(pkg *ssa.Package, v ssa.Value) ([]int64, bool) {
	if k, isK := constIntOf(v); isK {
		return []int64{k}, true
	}
	var lk *ssa.Lookup
	zero := false
	switch t := v.(type) {
	case *ssa.Extract:
		l, ok := t.Tuple.(*ssa.Lookup)
		if !ok || t.Index != 0 || !l.CommaOk {
			return nil, false
		}
		lk, zero = l, true // without the ok being known, the zero value is possible
	case *ssa.Lookup:
		if t.CommaOk {
			return nil, false
		}
		lk, zero = t, true
	default:
		return nil, false
	}
	ld, ok := lk.X.(*ssa.UnOp)
	if !ok || ld.Op != token.MUL {
		return nil, false
	}
	g, ok := ld.X.(*ssa.Global)
	if !ok || g.Pkg != pkg {
		return nil, false
	}
	vals, ok := constMapValues(pkg, g)
	if !ok {
		return nil, false
	}
	if zero {
		vals = append(vals, 0)
	}
	return vals, true
}
