package main

import (
	"fmt"
	"sort"
	"strings"

	"golang.org/x/tools/go/ssa"
)

// Rules added after the second round of independent breaking changes.

// c04WholeMessage: a compression pointer is an offset from the start of the message. Every in-module call of
// UnpackDomainName from a decoder therefore passes the message buffer it was given itself (or a prefix msg[:end],
// which keeps offsets), never a sub-slice starting later: pointers inside it would resolve relative to the slice.
func c04WholeMessage(c *Ctx, r *Report) {
	r.rule("C04.R5.whole-message", 38, "decoders hand UnpackDomainName the message buffer itself (offsets preserved), never a sub-slice that starts later")
	e := newAliasEngine(c)
	scope := e.reachable(decodeEntryPoints(c))
	var fns []*ssa.Function
	for f := range scope {
		fns = append(fns, f)
	}
	sort.Slice(fns, func(i, j int) bool { return fnDisplay(fns[i]) < fnDisplay(fns[j]) })
	for _, fn := range fns {
		n := 0
		for _, ci := range callsIn(fn, "UnpackDomainName") {
			n++
			arg := ci.Common().Args[0]
			construct := fmt.Sprintf("%s->UnpackDomainName#%d", fnDisplay(fn), n)
			var problems []string
			// walk through prefix slices
			v := arg
			for i := 0; i < 4; i++ {
				sl, ok := v.(*ssa.Slice)
				if !ok {
					break
				}
				if sl.Low != nil {
					if k, isK := constIntOf(sl.Low); !isK || k != 0 {
						problems = append(problems, fmt.Sprintf("%s: the name is decoded from a sub-slice that does not start at the beginning of the message: compression pointers (offsets from the start of the message) resolve to the wrong octets or are refused", c.pos(sl.Pos())))
					}
				}
				v = sl.X
			}
			if _, isParam := v.(*ssa.Parameter); !isParam && len(problems) == 0 {
				if _, isFree := v.(*ssa.FreeVar); !isFree {
					r.undecided("C04.R5.whole-message", construct, c.pos(ci.Pos()), "the buffer handed to UnpackDomainName (%s) is not the function's own message parameter; cannot tell whether offsets are preserved", describeValue(v))
					continue
				}
			}
			r.check(len(problems) == 0, "C04.R5.whole-message", construct, c.pos(ci.Pos()), "message buffer itself", "%s", strings.Join(problems, "; "))
		}
	}
}

// c04FreshMap: the compression map of a Pack call holds offsets into the message being packed; PackBuffer must
// start from a map that holds nothing of an earlier message: a map allocated in the call.
func c04FreshMap(c *Ctx, r *Report) {
	r.rule("C04.R3.fresh-map", 1, "PackBuffer compresses with a map allocated for this call (no offsets of another message)")
	fn := c.ssaFunc("Msg.PackBuffer")
	if fn == nil {
		r.cerr("C04.R3.fresh-map", "Msg.PackBuffer", "function not found")
		return
	}
	n := 0
	for _, ci := range callsIn(fn, "(Msg).packBufferWithCompressionMap") {
		arg := ci.Common().Args[2]
		// compressionMap{int: m} / compressionMap{} : find map-typed values in the composite
		var maps []ssa.Value
		for v := range sliceOf(arg) {
			switch t := v.(type) {
			case *ssa.MakeMap:
				maps = append(maps, t)
			case *ssa.Call, *ssa.TypeAssert, *ssa.Lookup, *ssa.UnOp:
				if isMapType(v) {
					maps = append(maps, v)
				}
			}
		}
		for _, m := range maps {
			n++
			construct := fmt.Sprintf("Msg.PackBuffer:map#%d", n)
			if _, ok := m.(*ssa.MakeMap); ok {
				r.ok("C04.R3.fresh-map", construct, c.pos(ci.Pos()), "make(map) in the call")
				continue
			}
			if u, ok := m.(*ssa.UnOp); ok {
				if _, isAlloc := u.X.(*ssa.Alloc); isAlloc {
					continue // load of the local composite being built
				}
			}
			r.undecided("C04.R3.fresh-map", construct, c.pos(ci.Pos()), "the compression map handed to the packer comes from %s, not from a make in this call: unless it is emptied on every path (error paths included) before reuse, pointers to offsets of an earlier message are emitted", describeValue(m))
		}
	}
	if n == 0 {
		r.note("C04.R3.fresh-map: PackBuffer passes no map (uncompressed only)")
		r.ok("C04.R3.fresh-map", "Msg.PackBuffer:map#0", c.pos(fn.Pos()), "no map")
	}
}

func isMapType(v ssa.Value) bool {
	t := v.Type().Underlying().String()
	return strings.HasPrefix(t, "map[")
}
