package main

import (
	"fmt"
	"go/token"
	"go/types"
	"sort"
	"strings"

	"golang.org/x/tools/go/ssa"
)

// Rules added after the seventh round of independent breaking changes (part 1).

// nsecZeroed: packDataNsec ORs the type bits into the buffer, which may be a caller's buffer that held something else:
// the octets it ORs into are zeroed first, over the extent typeBitMapLen computes (the same function Len uses).
func nsecZeroed(c *Ctx, r *Report, rule string) {
	r.rule(rule, 1, "packDataNsec zeroes the octets of the whole type bitmap (typeBitMapLen) before it ORs bits into them")
	fn := c.ssaFunc("packDataNsec")
	if fn == nil {
		r.cerr(rule, "packDataNsec", "function not found")
		return
	}
	r.fn("packDataNsec")
	msg := paramOf(fn, "msg")
	var zeroed []ssa.Value // the slices that are zeroed, element by element or with clear()
	hasOr := false
	fromMsg := func(x ssa.Value) bool { return anyIn(sliceOf(x), func(v ssa.Value) bool { return v == msg }) }
	allInstrs(fn, func(in ssa.Instruction) {
		if call, isCall := in.(*ssa.Call); isCall && calleeNameSSA(&call.Call) == "builtin.clear" && len(call.Call.Args) == 1 && fromMsg(call.Call.Args[0]) {
			zeroed = append(zeroed, call.Call.Args[0])
			return
		}
		st, ok := in.(*ssa.Store)
		if !ok {
			return
		}
		ia, ok := st.Addr.(*ssa.IndexAddr)
		if !ok || !anyIn(sliceOf(ia.X), func(v ssa.Value) bool { return v == msg }) {
			return
		}
		if k, isK := constIntOf(st.Val); isK && k == 0 {
			zeroed = append(zeroed, ia.X)
		}
		if b, isB := st.Val.(*ssa.BinOp); isB && b.Op == token.OR {
			hasOr = true
		}
	})
	if !hasOr {
		r.ok(rule, "packDataNsec", c.pos(fn.Pos()), "no bit is ORed into the buffer")
		return
	}
	okZero := false
	detail := "no store of zero into the buffer found"
	for _, zx := range zeroed {
		// the zeroed slice: the rest of the buffer, cut at typeBitMapLen(bitmap) when that is shorter
		bounded, byLen := false, false
		for v := range sliceOf(zx) {
			if sl, ok := v.(*ssa.Slice); ok && sl.High != nil {
				bounded = true
				if anyIn(sliceOf(sl.High), callsFunc("typeBitMapLen")) {
					byLen = true
				} else {
					detail = fmt.Sprintf("%s: the zeroed region ends at %s, which is not typeBitMapLen(bitmap)", c.pos(sl.Pos()), describeValue(sl.High))
				}
			}
		}
		if !bounded || byLen {
			okZero = true
		}
	}
	r.check(okZero, rule, "packDataNsec", c.pos(fn.Pos()), "zeroed over typeBitMapLen", "%s: in a reused buffer (PackBuffer, PackRR) the windows not covered keep their old bits, and NSEC / NSEC3 / CSYNC records go out listing types the record does not have", detail)
}

// pointerRoom: the compression pointer packDomainName writes after its loop needs two octets at off. The only test
// that provides them is the room test of the label the pointer replaces (off+1+labelLen <= len(msg), labelLen >= 1):
// every way on which `pointer` gets a value passes that test first.
func pointerRoom(c *Ctx, r *Report, rule, consequence string) {
	r.rule(rule, 1, "every assignment of a pointer target in packDomainName is dominated by the room test of the label it replaces")
	fn := c.ssaFunc("packDomainName")
	if fn == nil {
		r.cerr(rule, "packDomainName", "function not found")
		return
	}
	r.fn("packDomainName")
	msg := paramOf(fn, "msg")
	isLenMsg := func(v ssa.Value) bool {
		call, ok := v.(*ssa.Call)
		return ok && calleeNameSSA(&call.Call) == "builtin.len" && call.Call.Args[0] == msg
	}
	roomKnown := func(b *ssa.BasicBlock) bool {
		for _, f := range factsAt(fn, b) {
			bin, ok := f.Atom.(*ssa.BinOp)
			if !ok {
				continue
			}
			// x > len(msg) false, x <= len(msg) true, len(msg) < x false, len(msg) >= x true; x an offset plus something
			var other ssa.Value
			switch {
			case isLenMsg(bin.Y) && ((bin.Op == token.GTR && !f.Holds) || (bin.Op == token.LEQ && f.Holds)):
				other = bin.X
			case isLenMsg(bin.X) && ((bin.Op == token.LSS && !f.Holds) || (bin.Op == token.GEQ && f.Holds)):
				other = bin.Y
			}
			if other == nil {
				continue
			}
			if _, isB := other.(*ssa.BinOp); isB {
				return true
			}
		}
		return false
	}
	n := 0
	var bad []string
	allInstrs(fn, func(in ssa.Instruction) {
		phi, ok := in.(*ssa.Phi)
		if !ok {
			return
		}
		// the pointer target: the int variable that starts at -1 ("none")
		startsNone := false
		for _, e := range phi.Edges {
			if k, isK := constIntOf(e); isK && k == -1 {
				startsNone = true
			}
		}
		if !startsNone {
			return
		}
		for i, e := range phi.Edges {
			if k, isK := constIntOf(e); isK && k == -1 {
				continue
			}
			if _, isPhi := e.(*ssa.Phi); isPhi {
				continue
			}
			n++
			if !roomKnown(phi.Block().Preds[i]) {
				bad = append(bad, fmt.Sprintf("%s (value %s)", c.pos(phi.Block().Preds[i].Instrs[len(phi.Block().Preds[i].Instrs)-1].Pos()), describeValue(e)))
			}
		}
	})
	if n == 0 {
		r.undecided(rule, "packDomainName", c.pos(fn.Pos()), "no assignment of a pointer target found")
		return
	}
	sort.Strings(bad)
	r.check(len(bad) == 0, rule, "packDomainName:pointer", c.pos(fn.Pos()), "behind the room test", "a pointer target is assigned at %s without the room test of the replaced label having been passed: %s", strings.Join(uniqStrings(bad), ", "), consequence)
}

// noPrefixCopy: the decoders copy field values (msg[off:end], bounded by the field), never a prefix of the message
// (msg[:x]): a prefix copy per record is quadratic in the size of the message.
func noPrefixCopy(c *Ctx, r *Report, rule string, fns []*ssa.Function) {
	r.rule(rule, 1, "no decoder copies a slice of the message that starts at the beginning of the message")
	n := 0
	for _, fn := range fns {
		allInstrs(fn, func(in ssa.Instruction) {
			sl, ok := in.(*ssa.Slice)
			if !ok || sl.High == nil {
				return
			}
			if sl.Low != nil {
				if k, isK := constIntOf(sl.Low); !isK || k != 0 {
					return
				}
			}
			bt, ok := sl.X.Type().Underlying().(*types.Slice)
			if !ok {
				return
			}
			if eb, ok := bt.Elem().Underlying().(*types.Basic); !ok || eb.Kind() != types.Uint8 {
				return
			}
			// a slice of a []byte parameter (the message)
			fromParam := anyIn(sliceOf(sl.X), func(v ssa.Value) bool { _, isP := v.(*ssa.Parameter); return isP })
			if !fromParam {
				return
			}
			// a prefix no longer than one length octet says (string(rest[:int(rest[0])])) is at most 255 octets: not the
			// message up to here
			small := true
			for _, o := range phiLeaves(sl.High) {
				if k, isK := constIntOf(o); isK && k >= 0 && k <= 255 {
					continue
				}
				cv, isConv := o.(*ssa.Convert)
				if !isConv {
					small = false
					continue
				}
				if fb, ok := cv.X.Type().Underlying().(*types.Basic); !ok || fb.Kind() != types.Uint8 {
					small = false
				}
			}
			if small {
				return
			}
			n++
			var copied []string
			for _, ref := range *sl.Referrers() {
				switch t := ref.(type) {
				case *ssa.Call:
					name := calleeNameSSA(&t.Call)
					switch {
					case name == "builtin.append" && len(t.Call.Args) == 2 && t.Call.Args[1] == ssa.Value(sl):
						copied = append(copied, fmt.Sprintf("%s appends it to another slice", c.pos(t.Pos())))
					case name == "builtin.copy" && len(t.Call.Args) == 2 && t.Call.Args[1] == ssa.Value(sl):
						copied = append(copied, fmt.Sprintf("%s copies it", c.pos(t.Pos())))
					case name == "cloneSlice" || strings.HasSuffix(name, ".Clone"):
						copied = append(copied, fmt.Sprintf("%s clones it", c.pos(t.Pos())))
					}
				case *ssa.Convert:
					if bt, ok := t.Type().Underlying().(*types.Basic); ok && bt.Info()&types.IsString != 0 {
						copied = append(copied, fmt.Sprintf("%s converts it to a string", c.pos(t.Pos())))
					}
				}
			}
			construct := fmt.Sprintf("%s:%s", fnDisplay(fn), shortSlice(sl))
			r.check(len(copied) == 0, rule, construct, c.pos(sl.Pos()), "not copied", "a prefix of the message is copied (%s): done once per record this allocates and copies memory quadratic in the size of the input (a 64 KiB message with 4000 records costs over 100 MB per Unpack)", strings.Join(copied, "; "))
		})
	}
	if n == 0 {
		r.ok(rule, "none", "", "no prefix slice of a message parameter in the decoders")
	}
}

func shortSlice(sl *ssa.Slice) string {
	lo, hi := "", ""
	if sl.Low != nil {
		lo = shortValue(sl.Low)
	}
	if sl.High != nil {
		hi = shortValue(sl.High)
	}
	return shortValue(sl.X) + "[" + lo + ":" + hi + "]"
}

// originQualified: the origin a ZoneParser completes relative names with is fully qualified: every value stored
// into ZoneParser.origin comes out of Fqdn or toAbsoluteName (or is another parser's origin, or empty).
func originQualified(c *Ctx, r *Report, rule, consequence string) {
	r.rule(rule, 2, "every value stored into ZoneParser.origin is the result of Fqdn or toAbsoluteName, another parser's origin, or empty")
	n := 0
	for _, fn := range c.allFuncs() {
		if fn.Synthetic != "" {
			continue
		}
		k := 0
		allInstrs(fn, func(in ssa.Instruction) {
			st, ok := in.(*ssa.Store)
			if !ok || !readsField("ZoneParser", "origin")(st.Addr) {
				return
			}
			n++
			k++
			r.fn(fnDisplay(fn))
			var bad []string
			for _, l := range phiLeaves(st.Val) {
				okLeaf := false
				switch t := l.(type) {
				case *ssa.Call:
					okLeaf = calleeNameSSA(&t.Call) == "Fqdn"
				case *ssa.Extract:
					if call, isCall := t.Tuple.(*ssa.Call); isCall && calleeNameSSA(&call.Call) == "toAbsoluteName" && t.Index == 0 {
						okLeaf = true
					}
				case *ssa.Const:
					okLeaf = true // "" (no origin): relative names are then refused
				case *ssa.UnOp:
					okLeaf = readsField("ZoneParser", "origin")(t.X)
				}
				if par, isPar := l.(*ssa.Parameter); isPar && !okLeaf {
					// the parameter itself only where it is known to be empty
					if phi, isPhi := st.Val.(*ssa.Phi); isPhi {
						all := true
						for i, e := range phi.Edges {
							if e != ssa.Value(par) {
								continue
							}
							empty := false
							for _, f := range factsOnEdge(fn, phi.Block().Preds[i], phi.Block()) {
								if bin, ok := f.Atom.(*ssa.BinOp); ok && bin.X == ssa.Value(par) {
									if k, isK := bin.Y.(*ssa.Const); isK && k.Value != nil && k.Value.ExactString() == `""` {
										if (bin.Op == token.EQL && f.Holds) || (bin.Op == token.NEQ && !f.Holds) {
											empty = true
										}
									}
								}
							}
							if !empty {
								all = false
							}
						}
						okLeaf = all
					}
				}
				if !okLeaf {
					bad = append(bad, describeValue(l))
				}
			}
			r.check(len(bad) == 0, rule, fmt.Sprintf("%s:origin#%d", fnDisplay(fn), k), c.pos(st.Pos()), "fully qualified by construction", "the origin is stored as %s, which has not been through Fqdn or toAbsoluteName: %s", strings.Join(bad, ", "), consequence)
		})
	}
	if n == 0 {
		r.undecided(rule, "ZoneParser.origin", "", "no store into ZoneParser.origin found")
	}
}

// pointersOnlyFromPacker: compression pointers (0xC000 | offset) are written by packDomainName and by nothing else:
// it alone knows the rules (not for the root, only below 1<<14, only to names written before, only under compress).
func pointersOnlyFromPacker(c *Ctx, r *Report, rule string) {
	r.rule(rule, 1, "the pointer flag 0xC000 is combined with an offset in packDomainName only")
	n := 0
	var bad []string
	for _, fn := range c.allFuncs() {
		if fn.Synthetic != "" {
			continue
		}
		allInstrs(fn, func(in ssa.Instruction) {
			bin, ok := in.(*ssa.BinOp)
			if !ok || (bin.Op != token.OR && bin.Op != token.XOR && bin.Op != token.ADD) {
				return
			}
			kx, isKx := constIntOf(bin.X)
			ky, isKy := constIntOf(bin.Y)
			if !(isKx && kx == 0xC000) && !(isKy && ky == 0xC000) {
				return
			}
			if isKx && isKy {
				return
			}
			n++
			if fnDisplay(fn) != "packDomainName" {
				bad = append(bad, fmt.Sprintf("%s in %s", c.pos(bin.Pos()), fnDisplay(fn)))
			}
		})
		// constant-folded forms: packUint16(0xC000|k, ...) with a constant
		allInstrs(fn, func(in ssa.Instruction) {
			call, ok := in.(*ssa.Call)
			if !ok || fnDisplay(fn) == "packDomainName" {
				return
			}
			name := calleeNameSSA(&call.Call)
			if name != "packUint16" && name != "(binary.bigEndian).PutUint16" {
				return
			}
			for _, a := range call.Call.Args {
				if k, isK := constIntOf(a); isK && k >= 0xC000 && k < 0x10000 && k&0x3FFF < 1024 && k != 0xFFFF {
					// a 16-bit constant with both top bits set and a small offset: a hand-made pointer
					if bt, ok := a.Type().Underlying().(*types.Basic); ok && bt.Kind() == types.Uint16 {
						n++
						bad = append(bad, fmt.Sprintf("%s in %s (constant %#x)", c.pos(call.Pos()), fnDisplay(fn), k))
					}
				}
			}
		})
	}
	sort.Strings(bad)
	r.check(n > 0 && len(bad) == 0, rule, "0xC000", "", "only packDomainName", "a compression pointer is composed outside packDomainName (%s): it is written without the name packer's rules (never for the root, whose pointer is longer than the name; only to offsets below 1<<14; only to a name actually written before), so the compressed message can be longer than the uncompressed one or not decode to the same names", strings.Join(bad, "; "))
}

// ctorByTypeOnly: which struct a record is decoded into depends on its TYPE alone: with a constructor on file the
// opaque RFC 3597 form is not chosen (the typed form expands compressed names and re-packs them; the opaque form
// keeps pointer octets as data).
func ctorByTypeOnly(c *Ctx, r *Report, rule string) {
	r.rule(rule, 1, "UnpackRRWithHeader falls back to RFC3597 only when TypeToRR has no constructor for the type")
	fn := c.ssaFunc("UnpackRRWithHeader")
	if fn == nil {
		r.cerr(rule, "UnpackRRWithHeader", "function not found")
		return
	}
	r.fn("UnpackRRWithHeader")
	n := 0
	allInstrs(fn, func(in ssa.Instruction) {
		al, ok := in.(*ssa.Alloc)
		if !ok || typeStr(al.Type()) != "*RFC3597" {
			return
		}
		n++
		// the lookup's ok is known false here
		known := false
		var other []string
		for _, f := range factsAt(fn, al.Block()) {
			if ex, isEx := f.Atom.(*ssa.Extract); isEx && ex.Index == 1 {
				if lk, isLk := ex.Tuple.(*ssa.Lookup); isLk && anyIn(sliceOf(lk.X), func(v ssa.Value) bool {
					g, isG := v.(*ssa.Global)
					return isG && g.Name() == "TypeToRR"
				}) {
					if !f.Holds {
						known = true
					}
					continue
				}
			}
			other = append(other, fmt.Sprintf("%v=%v", f.Atom, f.Holds))
		}
		r.check(known, rule, fmt.Sprintf("UnpackRRWithHeader:RFC3597#%d", n), c.pos(al.Pos()), "only without a constructor", "the opaque form is chosen although TypeToRR has a constructor for the type (the choice also depends on %s): compressed names in the RDATA of such records are kept as pointer octets, so the compressed and the uncompressed form of a message decode differently and a re-pack emits dangling pointers", strings.Join(other, ", "))
	})
	if n == 0 {
		r.undecided(rule, "UnpackRRWithHeader", c.pos(fn.Pos()), "no RFC3597 fallback found")
	}
}

// tokenGrowth: the lexer's token and comment buffers grow whenever they are full; nothing refuses a long token
// (a 65535-octet RDATA is 131070 hex digits in one word).
func tokenGrowth(c *Ctx, r *Report, rule string) {
	r.rule(rule, 1, "when the token buffer of zlexer.Next is full it is grown: no return lies between the fullness test and the growth")
	fn := c.ssaFunc("zlexer.Next")
	if fn == nil {
		r.cerr(rule, "zlexer.Next", "function not found")
		return
	}
	r.fn("zlexer.Next")
	n := 0
	for _, b := range fn.Blocks {
		iff, ok := b.Instrs[len(b.Instrs)-1].(*ssa.If)
		if !ok {
			continue
		}
		bin, ok := iff.Cond.(*ssa.BinOp)
		if !ok || bin.Op != token.GEQ {
			continue
		}
		_, isPhi := bin.X.(*ssa.Phi)
		lc, isLen := bin.Y.(*ssa.Call)
		if !isPhi || !isLen || calleeNameSSA(&lc.Call) != "builtin.len" {
			continue
		}
		n++
		var bad []string
		seen := map[*ssa.BasicBlock]bool{}
		stack := []*ssa.BasicBlock{b.Succs[0]}
		for len(stack) > 0 {
			x := stack[len(stack)-1]
			stack = stack[:len(stack)-1]
			if seen[x] {
				continue
			}
			seen[x] = true
			grown := false
			for _, in := range x.Instrs {
				if call, ok := in.(*ssa.Call); ok && calleeNameSSA(&call.Call) == "builtin.append" {
					grown = true
					break
				}
				if ret, ok := in.(*ssa.Return); ok {
					bad = append(bad, c.pos(ret.Pos()))
				}
			}
			if !grown {
				stack = append(stack, x.Succs...)
			}
		}
		sort.Strings(bad)
		r.check(len(bad) == 0, rule, fmt.Sprintf("zlexer.Next:stri>=len#%d", n), c.pos(iff.Cond.Pos()), "grown unconditionally", "with the token buffer full the lexer can return at %s instead of growing it: a word longer than the cap is refused, and the text String() prints for a large record (RFC 3597 form, TLSA, DS, OPENPGPKEY: one word of hex or base64 for up to 65535 octets) is not read back", strings.Join(bad, ", "))
	}
	if n == 0 {
		r.undecided(rule, "zlexer.Next", c.pos(fn.Pos()), "no `stri >= len(str)` test found")
	}
}

// lineCounted: readByte notes the end of a line for every newline octet, whatever state the lexer is in (inside
// quotes, parentheses, comments): positions in error messages count physical lines.
func lineCounted(c *Ctx, r *Report, rule string) {
	r.rule(rule, 1, "zlexer.readByte sets eol for every newline octet: the store is conditioned on the octet alone")
	fn := c.ssaFunc("zlexer.readByte")
	if fn == nil {
		r.cerr(rule, "zlexer.readByte", "function not found")
		return
	}
	r.fn("zlexer.readByte")
	n := 0
	allInstrs(fn, func(in ssa.Instruction) {
		st, ok := in.(*ssa.Store)
		if !ok || !readsField("zlexer", "eol")(st.Addr) {
			return
		}
		if b, isB := constBool(st.Val); !isB || !b {
			return
		}
		n++
		var bad []string
		nl := false
		for _, f := range factsAt(fn, st.Block()) {
			if bin, ok := f.Atom.(*ssa.BinOp); ok {
				if k, isK := constIntOf(bin.Y); isK && k == '\n' && ((bin.Op == token.EQL && f.Holds) || (bin.Op == token.NEQ && !f.Holds)) {
					nl = true
					continue
				}
			}
			// any other condition that reads the lexer's state
			for _, fld := range []string{"quote", "brace", "commt", "space", "rrtype", "owner", "nextL", "keyword"} {
				if anyIn(sliceOf(f.Atom), readsField("zlexer", fld)) {
					bad = append(bad, fmt.Sprintf("zl.%s (%v=%v)", fld, f.Atom, f.Holds))
				}
			}
		}
		if !nl {
			bad = append(bad, "the store is not on the `c == '\\n'` edge")
		}
		r.check(len(bad) == 0, rule, fmt.Sprintf("zlexer.readByte:eol#%d", n), c.pos(st.Pos()), "for every newline", "the end of a line is only noted depending on %s: newlines in that state are not counted, and every later error position in the file is short by one line for each of them", strings.Join(uniqStrings(bad), ", "))
	})
	if n == 0 {
		r.undecided(rule, "zlexer.readByte", c.pos(fn.Pos()), "no store of true into zl.eol found")
	}
}
