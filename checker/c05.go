package main

import (
	"fmt"
	"go/ast"
	"go/constant"
	"go/token"
	"go/types"
	"sort"
	"strings"

	"golang.org/x/tools/go/ssa"
)

func init() { register("C05", true, false, checkC05) }

const c05Explanation = `Decided statically for every record type: (R1) no field is lost between text and record: the transitive read set of String (through the interprocedural effect analysis E2) contains every wire field of the type and the transitive write set of parse contains every wire field, except the listed derived-length fields and the types without a presentation format; (R2) mnemonic tables are re-readable: every type / class / algorithm mnemonic is unique and is a fixed point of the upper-casing the parsers apply before looking it up; the TYPE / CLASS prefixes and the \# token the printers emit are the ones the lexer and parsers look for; (R3) character-strings are printed through the quoting helpers (sprintTxt / sprintTxtOctet) whose escape set contains the quote and the backslash and everything non-printable; the SVCB value printer escapes at least '"', '\\', ';' and ' ' and everything outside the printable range; (R4) type bitmaps (NSEC, NSEC3, CSYNC) print every type through Type.String (which covers unknown types as TYPEnnn) and record types are printed through Type/Class String; names are never case-folded on output; (R5) the TTL parser accepts exactly the 32-bit range; (R6) length octets that parse derives from a blob (NSEC3/NSEC3PARAM salt, HIP HIT and key) are computed at full width and narrowed last; the numeric forms TYPEnnn / CLASSnnn are read back over the whole 16-bit range and put the lexer into the same state as a mnemonic. NOT decided: octet-identical RDATA after a round trip, numeric formatting (TTL overflow guard, LOC arithmetic), escape interaction with 255-octet splitting: value-level.`

// fields that String need not read / parse need not write, with reasons (DESIGN.md Appendix D)
var textCoverExceptions = map[string]string{
	"HIP.HitLength":         "derived from Hit by parse, implied by it in String",
	"HIP.PublicKeyLength":   "derived from PublicKey by parse, implied by it in String",
	"NSEC3.SaltLength":      "derived from Salt",
	"NSEC3.HashLength":      "derived from NextDomain",
	"NSEC3PARAM.SaltLength": "derived from Salt",
	"TSIG.MACSize":          "implied by MAC",
	"TSIG.OtherLen":         "implied by OtherData",
	"TKEY.KeySize":          "implied by Key",
	"TKEY.OtherLen":         "implied by OtherData",
	"LOC.Version":           "the RFC 1876 presentation format has no version field (version is always 0)",
}

var noPresentationFormat = map[string]string{
	"ANY": "no RDATA", "NXNAME": "no RDATA", "NULL": "parse is the constant 'no presentation format' error", "OPT": "pseudo record, no zone-file form",
	"TSIG": "meta record, no zone-file form", "TKEY": "String is a comment; no stable presentation format", "PrivateRR": "delegates to the user's PrivateRdata",
}

func checkC05(c *Ctx, r *Report) {
	r.Explanation = c05Explanation
	r.Trusted = []string{"go/ssa translation", "E2 read/write effect summaries (checker/e2.go)", "kind table checker/e1.go"}
	c05R1(c, r)
	c05R2(c, r)
	c05R3(c, r)
	selectorMaskedInText(c, r, "C05.R3.selector-masked")
	emptyAlpnAccepted(c, r, "C05.R3.empty-alpn")
	noTokenDroppedBeforeSlurp(c, r, "C05.R3.no-token-dropped")
	parsersKeepCase(c, r, "C05.R3.parsers-keep-case")
	gatewayTypeDecides(c, r, "C05.R3.gateway-type-decides")
	c05R4(c, r)
	c05R5(c, r)
	c05R6(c, r)
	c05R2b(c, r)
	c05LookupOk(c, r)
	c05ParseIntWidth(c, r, "C05.R6.parse-int-width")
	c05MnemonicIdent(c, r, "C05.R2.mnemonic-ident")
	c05DDDGuards(c, r, "C05.R4.ddd-guard")
	ttlNoWrap(c, r, "C05.R5.ttl-no-wrap")
	rfc3597Whole(c, r, "C05.R2.rfc3597-whole")
	endingConsumesLine(c, r, "C05.R3.ending-consumes-line")
	namesEscaped(c, r, "C05.R3.names-escaped", "a name holding a blank, a semicolon, a quote or a non-printable octet (which PackDomainName accepts and every other type prints escaped) prints as text that is not that name: the record does not read back, or reads back as a different record")
	textAllPaths(c, r, "C05.R1.string-all-paths", "C05.R1.parse-all-paths")
	zeroPadded(c, r, "C05.R3.zero-padded")
	parseNarrowing(c, r, "C05.R6.parse-narrowing")
	genericPrefix(c, r, "C05.R2.generic-prefix")
	nodeIDFormat(c, r, "C05.R4.nodeid-format")
	resetOnConvert(c, r, "C05.R2.rfc3597-reset", "a reused RFC3597 value keeps the Rdata of the record converted before: the generic form printed for an RDATA-less record shows another record's octets")
	keywordCase(c, r, "C05.R2.keyword-case")
	dddDigits(c, r, "C05.R3.ddd-digits")
	separatorCount(c, r, "C05.R1.separator-count")
	tablesInStep(c, r, "C05.R2.tables-in-step")
	serialWidth(c, r, "C05.R6.print-width")
	tokenGrowth(c, r, "C05.R3.token-growth")
	tablesMirrored(c, r, "C05.R2.tables-mirrored")
	floatRounding(c, r, "C05.R6.float-rounding")
	parseAcceptsWholeField(c, r, "C05.R6.whole-field")
	chunksCoverString(c, r, "C05.R1.chunks-cover")
	textIgnoresRdlength(c, r, "C05.R1.text-ignores-rdlength")
	mappedAddressAgreement(c, r, "C05.R3.mapped-address-agreement")
	lexerKeepsEscaped(c, r, "C05.R3.lexer-keeps-escaped")
	round12(c, r, "C05")
}

// c05R5: numeric limit agreement: the TTL parser accepts exactly the range the 32-bit header field (and its printer) has.
func c05R5(c *Ctx, r *Report) {
	r.rule("C05.R5.ttl-range", 1, "stringToTTL accepts values up to 2^32-1, the largest TTL String can print")
	fn := c.ssaFunc("stringToTTL")
	if fn == nil {
		r.cerr("C05.R5.ttl-range", "stringToTTL", "function not found")
		return
	}
	r.fn("stringToTTL")
	var problems []string
	n := 0
	for _, rp := range returnPoints(fn, 1) {
		if b, ok := constBool(rp.Results[1]); !ok || !b {
			continue
		}
		n++
		v := rp.Results[0]
		if cv, ok := v.(*ssa.Convert); ok {
			v = cv.X
		}
		facts := rp.factsOf(fn)
		var hi int64 = -1
		for _, f := range facts {
			_, h, _, hasHi := intervalFromFact(f, func(x ssa.Value) bool { return sameExpr(x, v) })
			if hasHi {
				hi = h
			}
		}
		if hi < 0 {
			problems = append(problems, fmt.Sprintf("%s: the value is converted to uint32 without an upper bound (it would wrap)", c.pos(rp.Pos)))
		} else if hi != 1<<32-1 {
			problems = append(problems, fmt.Sprintf("%s: the largest accepted TTL is %d; the header field holds (and String prints) up to %d", c.pos(rp.Pos), hi, int64(1<<32-1)))
		}
	}
	if n == 0 {
		problems = append(problems, "no success return")
	}
	r.check(len(problems) == 0, "C05.R5.ttl-range", "stringToTTL", c.pos(fn.Pos()), "<= 4294967295", "%s", strings.Join(problems, "; "))
}

func c05R1(c *Ctx, r *Report) {
	r.rule("C05.R1.string-reads", 70, "String reads every wire field")
	r.rule("C05.R1.parse-writes", 70, "parse assigns every wire field")
	e := newAliasEngine(c)
	e.solve()
	for _, t := range c.rrTypes() {
		if _, skip := noPresentationFormat[t.Name]; skip {
			continue
		}
		owner := t.Name
		if t.Embeds != "" {
			owner = t.Embeds
		}
		for _, spec := range []struct {
			rule, method string
			write        bool
		}{{"C05.R1.string-reads", "String", false}, {"C05.R1.parse-writes", "parse", true}} {
			fn := c.ssaFunc(t.Name + "." + spec.method)
			if fn == nil {
				r.fail(spec.rule, t.Name, "", "no method %s.%s", t.Name, spec.method)
				continue
			}
			r.fn(fnDisplay(fn))
			sum := e.summary(fn)
			recv := root{Kind: rkParam, Fn: fn, Idx: 0}
			have := map[string]bool{}
			if spec.write {
				for d := range sum.writes[recv] {
					have[d] = true
				}
			} else {
				for d := range sum.reads[recv] {
					have[d] = true
				}
			}
			var missing []string
			for _, f := range t.Fields {
				key := owner + "." + f.Name
				if _, ok := textCoverExceptions[key]; ok {
					continue
				}
				if f.Tag == "-" {
					// the gateway address is printed / parsed through the union with GatewayHost
					if !have[key] {
						missing = append(missing, f.Name)
					}
					continue
				}
				if !have[key] {
					missing = append(missing, f.Name)
				}
			}
			verb := "printed by String"
			if spec.write {
				verb = "set by parse"
			}
			r.check(len(missing) == 0, spec.rule, t.Name, c.pos(fn.Pos()), fmt.Sprintf("%d fields", len(t.Fields)), "field(s) %v of %s are not %s: the text form loses them", missing, t.Name, verb)
		}
	}
}

// mapLiteral returns the (key constant, string value) pairs of a package-level map literal.
func (c *Ctx) mapLiteral(name string) (map[int64]string, map[int64]token.Pos, bool) {
	vals := map[int64]string{}
	poss := map[int64]token.Pos{}
	found := false
	for _, f := range c.Dns.Syntax {
		for _, d := range f.Decls {
			gd, ok := d.(*ast.GenDecl)
			if !ok || gd.Tok != token.VAR {
				continue
			}
			for _, sp := range gd.Specs {
				vs := sp.(*ast.ValueSpec)
				for i, id := range vs.Names {
					if id.Name != name || i >= len(vs.Values) {
						continue
					}
					cl, ok := vs.Values[i].(*ast.CompositeLit)
					if !ok {
						continue
					}
					found = true
					for _, el := range cl.Elts {
						kv, ok := el.(*ast.KeyValueExpr)
						if !ok {
							continue
						}
						k, okK := c.exprConst(kv.Key)
						s, okS := c.exprConstString(kv.Value)
						if okK && okS {
							vals[k] = s
							poss[k] = kv.Pos()
						}
					}
				}
			}
		}
	}
	return vals, poss, found
}

func c05R2(c *Ctx, r *Report) {
	r.rule("C05.R2.mnemonics", 100, "mnemonics are unique and fixed points of the upper-casing applied by the parsers")
	r.rule("C05.R2.generic-forms", 4, "TYPE/CLASS prefixes and the \\# token agree between printer and lexer/parser")
	for _, tbl := range []string{"TypeToString", "ClassToString", "AlgorithmToString"} {
		vals, poss, ok := c.mapLiteral(tbl)
		if !ok || len(vals) < 4 {
			r.cerr("C05.R2.mnemonics", tbl, "map literal not found")
			continue
		}
		byVal := map[string]int64{}
		var keys []int64
		for k := range vals {
			keys = append(keys, k)
		}
		sort.Slice(keys, func(i, j int) bool { return keys[i] < keys[j] })
		for _, k := range keys {
			s := vals[k]
			construct := fmt.Sprintf("%s[%d]=%s", tbl, k, s)
			var problems []string
			if strings.ToUpper(s) != s {
				problems = append(problems, fmt.Sprintf("mnemonic %q is not upper case: the parsers upper-case the token before looking it up, so the printed form cannot be read back", s))
			}
			if prev, dup := byVal[s]; dup {
				problems = append(problems, fmt.Sprintf("mnemonic %q is used for both %d and %d", s, prev, k))
			}
			byVal[s] = k
			if strings.ContainsAny(s, " \t\"();") {
				problems = append(problems, "mnemonic contains a character that is structural in zone files")
			}
			r.check(len(problems) == 0, "C05.R2.mnemonics", construct, c.pos(poss[k]), "upper case, unique", "%s", strings.Join(problems, "; "))
		}
	}
	// generic prefixes
	lits := func(fname string) map[string]bool {
		out := map[string]bool{}
		fd := c.decl(fname)
		if fd == nil {
			return out
		}
		ast.Inspect(fd.Body, func(n ast.Node) bool {
			if bl, ok := n.(*ast.BasicLit); ok && bl.Kind == token.STRING {
				if s, ok := c.exprConstString(bl); ok {
					out[s] = true
				}
			}
			return true
		})
		return out
	}
	for _, spec := range []struct{ printer, prefix, reader string }{{"Type.String", "TYPE", "typeToInt"}, {"Class.String", "CLASS", "classToInt"}} {
		p := lits(spec.printer)
		lx := lits("zlexer.Next")
		var problems []string
		if !p[spec.prefix] {
			problems = append(problems, fmt.Sprintf("%s does not emit the %s prefix for codes without a mnemonic", spec.printer, spec.prefix))
		}
		if !lx[spec.prefix] {
			problems = append(problems, fmt.Sprintf("the lexer does not recognise the %s prefix", spec.prefix))
		}
		// the reader strips exactly len(prefix) characters
		if fd := c.decl(spec.reader); fd == nil {
			problems = append(problems, spec.reader+" not found")
		} else {
			okStrip := false
			_ = fd
			if sf := c.ssaFunc(spec.reader); sf != nil {
				allInstrs(sf, func(in ssa.Instruction) {
					if sl, ok := in.(*ssa.Slice); ok && sl.Low != nil && sl.High == nil {
						// the token itself, or the local it was handed on in
						fromTok := false
						for o := range shallowOrigins(sl.X) {
							if o == ssa.Value(sf.Params[0]) {
								fromTok = true
							}
						}
						if !fromTok {
							return
						}
						// the constant, or len() of the constant prefix
						for o := range shallowOrigins(sl.Low) {
							if k, isK := constIntOf(o); isK && k == int64(len(spec.prefix)) {
								okStrip = true
							}
							if call, isCall := o.(*ssa.Call); isCall && calleeNameSSA(&call.Call) == "builtin.len" {
								for a := range shallowOrigins(call.Call.Args[0]) {
									if cst, isC := a.(*ssa.Const); isC && cst.Value != nil && cst.Value.Kind() == constant.String && strings.EqualFold(constant.StringVal(cst.Value), spec.prefix) {
										okStrip = true
									}
								}
							}
						}
					}
				})
			}
			if !okStrip {
				problems = append(problems, fmt.Sprintf("%s does not strip exactly %d characters (%s)", spec.reader, len(spec.prefix), spec.prefix))
			}
		}
		r.check(len(problems) == 0, "C05.R2.generic-forms", spec.prefix+"nnn", "", "printer and lexer agree", "%s", strings.Join(problems, "; "))
	}
	{
		p := lits("RFC3597.String")
		var problems []string
		has := false
		for s := range p {
			if strings.Contains(s, `\#`) {
				has = true
			}
		}
		if !has {
			problems = append(problems, `RFC3597.String does not emit \#`)
		}
		if !lits("ZoneParser.Next")[`\#`] {
			problems = append(problems, `ZoneParser.Next does not look for \#`)
		}
		if !lits("RFC3597.parse")[`\#`] {
			problems = append(problems, `RFC3597.parse does not look for \#`)
		}
		r.check(len(problems) == 0, "C05.R2.generic-forms", `\#`, "", "printer and parser agree", "%s", strings.Join(problems, "; "))
	}
	// Type.String / Class.String fall back to the numeric form on a table miss
	for _, name := range []string{"Type.String", "Class.String"} {
		fn := c.ssaFunc(name)
		if fn == nil {
			continue
		}
		okNum := false
		for _, rp := range returnPoints(fn, 0) {
			if anyIn(sliceOf(rp.Results[0]), callsFunc("strconv.Itoa")) {
				okNum = true
			}
		}
		r.check(okNum, "C05.R2.generic-forms", name, c.pos(fn.Pos()), "numeric fallback", "%s has no numeric fallback for codes without a mnemonic", name)
	}
}

// escapeSetOf extracts from a byte-classifying function the set of printable bytes it backslash-escapes and the
// printable range outside of which it uses escapeByte.
func (c *Ctx) escapeSetOf(fd *ast.FuncDecl) (set map[byte]bool, lo, hi int64) {
	set = map[byte]bool{}
	lo, hi = -1, -1
	ast.Inspect(fd.Body, func(n ast.Node) bool {
		switch t := n.(type) {
		case *ast.CaseClause:
			// case '"', ';': ... WriteByte('\\')
			writesBackslash := false
			ast.Inspect(t, func(n ast.Node) bool {
				if call, ok := n.(*ast.CallExpr); ok && len(call.Args) == 1 {
					if k, isK := c.exprConst(call.Args[0]); isK && k == '\\' {
						writesBackslash = true
					}
				}
				return true
			})
			if writesBackslash {
				for _, e := range t.List {
					if k, ok := c.exprConst(e); ok && k >= 0 && k < 256 {
						set[byte(k)] = true
					}
					// b == '"' || b == '\\'
					ast.Inspect(e, func(n ast.Node) bool {
						if be, ok := n.(*ast.BinaryExpr); ok && be.Op == token.EQL {
							if k, ok := c.exprConst(be.Y); ok && k >= 0 && k < 256 {
								set[byte(k)] = true
							}
						}
						return true
					})
				}
			}
			// range test in a case: b < ' ' || b > '~'
			for _, e := range t.List {
				c.rangeTest(e, &lo, &hi)
			}
		case *ast.IfStmt:
			c.rangeTest(t.Cond, &lo, &hi)
		}
		return true
	})
	return
}

func (c *Ctx) rangeTest(e ast.Expr, lo, hi *int64) {
	be, ok := ast.Unparen(e).(*ast.BinaryExpr)
	if !ok {
		return
	}
	l, ok1 := ast.Unparen(be.X).(*ast.BinaryExpr)
	rr, ok2 := ast.Unparen(be.Y).(*ast.BinaryExpr)
	if !ok1 || !ok2 {
		return
	}
	switch be.Op {
	case token.LOR: // b < ' ' || b > '~'
		if l.Op == token.LSS && rr.Op == token.GTR {
			if a, ok := c.exprConst(l.Y); ok {
				if b, ok := c.exprConst(rr.Y); ok {
					*lo, *hi = a, b
				}
			}
		}
	case token.LAND: // ' ' <= e && e <= '~'
		if l.Op == token.LEQ && rr.Op == token.LEQ {
			if a, ok := c.exprConst(l.X); ok {
				if b, ok := c.exprConst(rr.Y); ok {
					*lo, *hi = a, b
				}
			}
		}
	}
}

func c05R3(c *Ctx, r *Report) {
	r.rule("C05.R3.quoted-strings", 18, "character-string fields are printed through sprintTxt / sprintTxtOctet")
	r.rule("C05.R3.escape-sets", 3, "the text escapers cover quote, backslash (and the SVCB specials) and everything non-printable")
	for _, t := range c.rrTypes() {
		if _, skip := noPresentationFormat[t.Name]; skip {
			continue
		}
		fd := c.decl(t.Name + ".String")
		if fd == nil {
			continue // promoted
		}
		recv := c.recvObj(fd)
		for _, f := range t.Fields {
			k, err := kindOf(f)
			if err != nil {
				continue
			}
			bk := baseKind(k)
			if bk != "cs" && bk != "cs+" && bk != "text" {
				continue
			}
			construct := t.Name + "." + f.Name
			// every occurrence of rr.F in String must be an argument of a quoting helper
			var bad []string
			n := 0
			// accepted idiom: the field concatenated between two literal quotes ("\"" + rr.F + "\" ")
			betweenQuotes := map[ast.Node]bool{}
			ast.Inspect(fd.Body, func(n ast.Node) bool {
				be, ok := n.(*ast.BinaryExpr)
				if !ok || be.Op != token.ADD {
					return true
				}
				var ops []ast.Expr
				var flat func(e ast.Expr)
				flat = func(e ast.Expr) {
					if b, ok := ast.Unparen(e).(*ast.BinaryExpr); ok && b.Op == token.ADD {
						flat(b.X)
						flat(b.Y)
						return
					}
					ops = append(ops, ast.Unparen(e))
				}
				flat(be)
				for i := 1; i+1 < len(ops); i++ {
					l, okl := c.exprConstString(ops[i-1])
					rgt, okr := c.exprConstString(ops[i+1])
					if okl && okr && strings.HasSuffix(l, `"`) && strings.HasPrefix(rgt, `"`) {
						betweenQuotes[ops[i]] = true
					}
				}
				return false
			})
			var visit func(n ast.Node, quoted bool)
			visit = func(node ast.Node, quoted bool) {
				ast.Inspect(node, func(n2 ast.Node) bool {
					if n2 == nil {
						return false
					}
					if betweenQuotes[n2] {
						quoted = true
					}
					if call, ok := n2.(*ast.CallExpr); ok {
						name := c.calleeName(call)
						q := name == "sprintTxt" || name == "sprintTxtOctet"
						for _, a := range call.Args {
							visit(a, quoted || q)
						}
						visit(call.Fun, quoted)
						return false
					}
					if se, ok := n2.(*ast.SelectorExpr); ok {
						if p, okp := c.fieldPath(se, recv); okp && c.fieldOf(se) == f.Var && p != "" {
							n++
							if !quoted {
								bad = append(bad, c.pos(se.Pos()))
							}
							return false
						}
					}
					return true
				})
			}
			visit(fd.Body, false)
			if n == 0 {
				continue // not printed here: C05.R1 decides
			}
			r.check(len(bad) == 0, "C05.R3.quoted-strings", construct, c.pos(fd.Pos()), "quoted", "character-string field %s is printed raw at %v: a value containing a space, quote, semicolon or parenthesis does not read back as the same string", construct, bad)
		}
	}
	// escape sets
	if fd := c.decl("writeTXTStringByte"); fd == nil {
		r.cerr("C05.R3.escape-sets", "writeTXTStringByte", "function not found")
	} else {
		var problems []string
		// what the function does for each of the 256 octet values (abstract execution over its tests of the octet)
		if fnS := c.ssaFunc("writeTXTStringByte"); fnS == nil || len(fnS.Params) < 2 {
			problems = append(problems, "writeTXTStringByte(builder, octet) not found in SSA form")
		} else {
			cls := octetClasses(fnS, fnS.Params[len(fnS.Params)-1])
			for _, b := range []byte{'"', '\\'} {
				if !cls[b].Backslash || cls[b].DDD {
					problems = append(problems, fmt.Sprintf("%q is not backslash-escaped inside quoted strings", rune(b)))
				}
			}
			var wrong []string
			for v := 0; v < 256; v++ {
				np := v < 0x20 || v > 0x7e
				if np && (!cls[v].DDD || cls[v].Raw || cls[v].Backslash) {
					wrong = append(wrong, fmt.Sprintf("%#x is not written as \\DDD", v))
				}
				if !np && cls[v].DDD {
					wrong = append(wrong, fmt.Sprintf("%#x is written as \\DDD", v))
				}
				if !np && v != '"' && v != '\\' && (!cls[v].Raw || cls[v].Backslash) {
					wrong = append(wrong, fmt.Sprintf("%#x is not written as itself", v))
				}
			}
			if len(wrong) > 4 {
				wrong = append(wrong[:4], fmt.Sprintf("... (%d octet values in all)", len(wrong)))
			}
			if len(wrong) > 0 {
				problems = append(problems, "octets outside [0x20,0x7e] must be written as \\DDD and printable ones as themselves: "+strings.Join(wrong, ", "))
			}
		}
		r.check(len(problems) == 0, "C05.R3.escape-sets", "writeTXTStringByte", c.pos(fd.Pos()), `{" \} + non-printables`, "%s", strings.Join(problems, "; "))
	}
	for _, h := range []string{"sprintTxt", "sprintTxtOctet"} {
		fd := c.decl(h)
		if fd == nil {
			r.cerr("C05.R3.escape-sets", h, "function not found")
			continue
		}
		uses, quotes := false, 0
		ast.Inspect(fd.Body, func(n ast.Node) bool {
			if call, ok := n.(*ast.CallExpr); ok {
				if c.calleeName(call) == "writeTXTStringByte" {
					uses = true
				}
				for _, a := range call.Args {
					if k, isK := c.exprConst(a); isK && k == '"' {
						quotes++
					}
					if s, isS := c.exprConstString(a); isS && strings.Contains(s, `"`) {
						quotes++
					}
				}
			}
			return true
		})
		r.check(uses && quotes >= 2, "C05.R3.escape-sets", h, c.pos(fd.Pos()), "quotes + writeTXTStringByte", "%s does not write every octet through writeTXTStringByte between quotes", h)
	}
	if fd := c.decl("svcbParamToStr"); fd == nil {
		r.cerr("C05.R3.escape-sets", "svcbParamToStr", "function not found")
	} else {
		set, lo, hi := c.escapeSetOf(fd)
		var problems []string
		for _, b := range []byte{'"', '\\', ';', ' '} {
			if !set[b] {
				problems = append(problems, fmt.Sprintf("%q is not backslash-escaped in SVCB parameter values (the value parser treats a backslash as the escape character and the zone lexer treats the others specially)", rune(b)))
			}
		}
		if lo != 0x20 || hi != 0x7e {
			problems = append(problems, fmt.Sprintf("printable range [%#x,%#x]", lo, hi))
		}
		r.check(len(problems) == 0, "C05.R3.escape-sets", "svcbParamToStr", c.pos(fd.Pos()), `{" \ ; space} + non-printables`, "%s", strings.Join(problems, "; "))
	}
}

func c05R4(c *Ctx, r *Report) {
	r.rule("C05.R4.bitmap-types", 3, "type bitmaps print each type through Type.String")
	r.rule("C05.R4.no-case-folding", 1, "names are not case-folded on output")
	for _, t := range c.rrTypes() {
		fd := c.decl(t.Name + ".String")
		if fd == nil {
			continue
		}
		for _, f := range t.Fields {
			k, _ := kindOf(f)
			if baseKind(k) != "bm" {
				continue
			}
			fn := c.ssaFunc(t.Name + ".String")
			if fn == nil {
				continue
			}
			r.fn(t.Name + ".String")
			// some call of (Type).String whose receiver derives from an element of rr.<F>
			ok := false
			for _, ci := range callsIn(fn, "(Type).String") {
				if anyIn(sliceOf(ci.Common().Args[0]), func(v ssa.Value) bool {
					fa, isFA := v.(*ssa.FieldAddr)
					if !isFA {
						return false
					}
					st, _ := fa.X.Type().Underlying().(*types.Pointer).Elem().Underlying().(*types.Struct)
					return st != nil && st.Field(fa.Field) == f.Var
				}) {
					ok = true
				}
			}
			// no direct table lookup on the element
			bad := false
			allInstrs(fn, func(in ssa.Instruction) {
				if lk, isLk := in.(*ssa.Lookup); isLk {
					if g, isG := lk.X.(*ssa.UnOp); isG {
						if gl, isGl := g.X.(*ssa.Global); isGl && gl.Name() == "TypeToString" {
							bad = true
						}
					}
				}
			})
			r.check(ok && !bad, "C05.R4.bitmap-types", t.Name+"."+f.Name, c.pos(fd.Pos()), "Type(t).String()", "the types of the bitmap are not printed through Type.String (direct table lookup=%v): a type without a mnemonic prints as an empty string instead of TYPEnnn and is lost on re-reading", bad)
		}
	}
	// no ToUpper/ToLower applied to a name field in String methods
	var problems []string
	for _, t := range c.rrTypes() {
		fd := c.decl(t.Name + ".String")
		if fd == nil {
			continue
		}
		recv := c.recvObj(fd)
		nameFields := map[*types.Var]bool{}
		for _, f := range t.Fields {
			k, _ := kindOf(f)
			if bk := baseKind(k); bk == "C" || bk == "N" || bk == "N*" {
				nameFields[f.Var] = true
			}
		}
		ast.Inspect(fd.Body, func(n ast.Node) bool {
			call, ok := n.(*ast.CallExpr)
			if !ok {
				return true
			}
			name := c.calleeName(call)
			if name != "strings.ToUpper" && name != "strings.ToLower" && name != "CanonicalName" {
				return true
			}
			ast.Inspect(call, func(n2 ast.Node) bool {
				if se, ok := n2.(*ast.SelectorExpr); ok {
					if _, okp := c.fieldPath(se, recv); okp && nameFields[c.fieldOf(se)] {
						problems = append(problems, fmt.Sprintf("%s: %s case-folds the name %s on output", c.pos(call.Pos()), t.Name, se.Sel.Name))
					}
				}
				return true
			})
			return true
		})
	}
	r.check(len(problems) == 0, "C05.R4.no-case-folding", "String methods", "", "names printed as stored", "%s", strings.Join(problems, "; "))
}
