package main

import (
	"fmt"
	"go/constant"
	"go/token"
	"go/types"
	"sort"
	"strings"

	"golang.org/x/tools/go/ssa"
)

// Rules added after the fifth round of independent breaking changes (part 3).

// fieldTouchBlocks: the blocks of fn in which field `owner.field` of the receiver is written (write) or read,
// directly or by a callee that is handed the receiver (per the E2 effect summaries).
func fieldTouchBlocks(e *aliasEngine, fn *ssa.Function, owner, field string, write bool) map[*ssa.BasicBlock]bool {
	out := map[*ssa.BasicBlock]bool{}
	key := owner + "." + field
	recv := fn.Params[0]
	isRecv := func(v ssa.Value) bool {
		for o := range sliceOf(v) {
			if o == ssa.Value(recv) {
				return true
			}
		}
		return false
	}
	for _, b := range fn.Blocks {
		for _, in := range b.Instrs {
			switch t := in.(type) {
			case *ssa.Store:
				if write {
					if fa, ok := t.Addr.(*ssa.FieldAddr); ok && fieldNameOf(fa) == field && isRecv(fa.X) {
						out[b] = true
					}
				}
			case *ssa.UnOp:
				if !write && t.Op == token.MUL {
					if fa, ok := t.X.(*ssa.FieldAddr); ok && fieldNameOf(fa) == field && isRecv(fa.X) {
						out[b] = true
					}
				}
			case *ssa.Range:
				if !write {
					if ld, ok := t.X.(*ssa.UnOp); ok {
						if fa, ok := ld.X.(*ssa.FieldAddr); ok && fieldNameOf(fa) == field && isRecv(fa.X) {
							out[b] = true
						}
					}
				}
			case ssa.CallInstruction:
				cc := t.Common()
				callees, _ := e.resolve(cc)
				args := cc.Args
				for _, g := range callees {
					sum := e.summary(g)
					for i, a := range args {
						if !isRecv(a) {
							continue
						}
						rt := root{Kind: rkParam, Fn: g, Idx: i}
						if write {
							if _, ok := sum.writes[rt][key]; ok {
								out[b] = true
							}
						} else if sum.reads[rt][key] {
							out[b] = true
						}
					}
				}
			}
		}
	}
	return out
}

// textAllPaths: C05.R1 asks that String reads and parse assigns every wire field somewhere; here, on every path:
// no success return of parse, and no return of String, is reachable from the entry without passing a block that
// touches the field. Fields that are legitimately optional are listed with their reason.
var textPathExceptions = map[string]string{
	"HINFO.Cpu:parse":             "an empty RDATA (no character-string at all) is accepted and leaves the record empty",
	"HINFO.Os:parse":              "as HINFO.Cpu",
	"ISDN.Address:parse":          "as HINFO.Cpu",
	"ISDN.SubAddress:parse":       "as HINFO.Cpu",
	"UINFO.Uinfo:parse":           "as HINFO.Cpu",
	"L64.Locator64:parse":         "`if e1 != nil || l.err { return e1 }`: on the lexer-error edge e1 may be nil; ZoneParser.Next reports the lexer error afterwards (C07.R3.sticky rdata-lexer-error)",
	"NID.NodeID:parse":            "as L64.Locator64",
	"NSEC3.Salt:parse":            "the salt `-` denotes the empty salt and leaves the field empty",
	"NSEC3PARAM.Salt:parse":       "as NSEC3.Salt",
	"SOA.Serial:parse":            "the five numbers are assigned by a `switch i` inside a counted loop; the path analysis does not unroll it",
	"SOA.Refresh:parse":           "as SOA.Serial",
	"SOA.Retry:parse":             "as SOA.Serial",
	"SOA.Expire:parse":            "as SOA.Serial",
	"SOA.Minttl:parse":            "as SOA.Serial",
	"IPSECKEY.GatewayHost:String": "printed through the union with GatewayAddr, selected by GatewayType",
	"AMTRELAY.GatewayHost:String": "as IPSECKEY.GatewayHost",
}

func textAllPaths(c *Ctx, r *Report, ruleString, ruleParse string) {
	r.rule(ruleString, 60, "every return of String has read every wire field on the way (a list by ranging over it)")
	r.rule(ruleParse, 60, "every success return of parse has assigned every (scalar) wire field on the way")
	e := newAliasEngine(c)
	e.solve()
	for _, t := range c.rrTypes() {
		if _, skip := noPresentationFormat[t.Name]; skip {
			continue
		}
		owner := t.Name
		if t.Embeds != "" {
			owner = t.Embeds
		}
		for _, spec := range []struct {
			rule, method string
			write        bool
		}{{ruleString, "String", false}, {ruleParse, "parse", true}} {
			fn := c.ssaFunc(t.Name + "." + spec.method)
			if fn == nil || len(fn.Params) == 0 {
				continue
			}
			var missing []string
			for _, f := range t.Fields {
				key := owner + "." + f.Name
				if _, ok := textCoverExceptions[key]; ok {
					continue
				}
				if _, ok := textPathExceptions[t.Name+"."+f.Name+":"+spec.method]; ok {
					continue
				}
				if f.Tag == "-" {
					continue
				}
				// scalars only: a list may be empty, and is then neither printed nor assigned
				if _, isSl := f.Type.Underlying().(*types.Slice); isSl && spec.write {
					continue
				}
				touch := fieldTouchBlocks(e, fn, owner, f.Name, spec.write)
				if len(touch) == 0 || touch[fn.Blocks[0]] {
					continue // never touched: C05.R1 reports that; touched at entry: on every path
				}
				for b := range reach(fn.Blocks[0], nil, touch) {
					ret, ok := b.Instrs[len(b.Instrs)-1].(*ssa.Return)
					if !ok || len(ret.Results) == 0 {
						continue
					}
					if spec.write {
						// error returns do not count
						switch v := ret.Results[0].(type) {
						case *ssa.Alloc, *ssa.MakeInterface:
							_ = v
							continue
						case *ssa.Const:
						default:
							// the result of a helper (slurpRemainder ...): may be nil, unless this is the `e != nil` edge
							if nonNilAt(fn, b, func(x ssa.Value) bool { return x == ret.Results[0] }) {
								continue
							}
						}
					}
					missing = append(missing, fmt.Sprintf("%s (return at %s)", f.Name, c.pos(ret.Pos())))
				}
			}
			sort.Strings(missing)
			verb := "printing"
			what := "the text form loses the field for the records that take that path, and does not read back to the same RDATA"
			if spec.write {
				verb = "assigning"
				what = "text that takes that path is accepted and the field silently keeps its zero value"
			}
			r.fn(fnDisplay(fn))
			r.check(len(missing) == 0, spec.rule, t.Name, c.pos(fn.Pos()), "every path", "%s.%s can return without %s %s: %s", t.Name, spec.method, verb, strings.Join(uniqStrings(missing), ", "), what)
		}
	}
}

// zeroPadded: a number formatted to a fixed width inside a record's text is padded with zeros, never with blanks
// (a blank is a field separator in the master-file format).
func zeroPadded(c *Ctx, r *Report, rule string) {
	r.rule(rule, 5, "fixed-width integer verbs in the printers' formats pad with zeros (flag 0 or a precision), not with blanks")
	e := newAliasEngine(c)
	var entries []*ssa.Function
	for _, T := range c.rrTypes() {
		if f := c.ssaFunc(T.Name + ".String"); f != nil {
			entries = append(entries, f)
		}
	}
	scope := e.reachable(entries)
	var fns []*ssa.Function
	for f := range scope {
		fns = append(fns, f)
	}
	sort.Slice(fns, func(i, j int) bool { return fnDisplay(fns[i]) < fnDisplay(fns[j]) })
	n := 0
	for _, f := range fns {
		for _, ci := range callsIn(f, "fmt.Sprintf", "fmt.Fprintf") {
			args := ci.Common().Args
			var format string
			found := false
			for _, a := range args {
				if k, ok := a.(*ssa.Const); ok && k.Value != nil && k.Value.Kind() == constant.String {
					format, found = constant.StringVal(k.Value), true
					break
				}
			}
			if !found {
				continue
			}
			var bad []string
			i := 0
			widths := 0
			for i < len(format) {
				if format[i] != '%' {
					i++
					continue
				}
				j := i + 1
				zero := false
				for j < len(format) && strings.ContainsRune("+-# 0", rune(format[j])) {
					if format[j] == '0' {
						zero = true
					}
					j++
				}
				w, p := 0, -1
				for j < len(format) && format[j] >= '0' && format[j] <= '9' {
					w = w*10 + int(format[j]-'0')
					j++
				}
				if j < len(format) && format[j] == '.' {
					j++
					p = 0
					for j < len(format) && format[j] >= '0' && format[j] <= '9' {
						p = p*10 + int(format[j]-'0')
						j++
					}
				}
				if j < len(format) && strings.ContainsRune("dxXob", rune(format[j])) && w > 0 {
					widths++
					if !zero && p < w {
						bad = append(bad, format[i:j+1])
					}
				}
				i = j + 1
			}
			if widths == 0 {
				continue
			}
			n++
			r.fn(fnDisplay(f))
			r.check(len(bad) == 0, rule, fmt.Sprintf("%s:format#%d", fnDisplay(f), n), c.pos(ci.Pos()), format, "the format %q pads %s with blanks: a value with fewer digits prints with blanks inside the field, which the zone parser reads as field separators (the text does not read back)", format, strings.Join(bad, ", "))
		}
	}
	if n == 0 {
		r.undecided(rule, "printers", "", "no fixed-width integer format found")
	}
}

// parseNarrowing: the value strconv.ParseUint / ParseInt yields for bit size N is converted only to integer types of
// at least N bits; narrowing silently wraps a number that was accepted because it fits N bits.
func parseNarrowing(c *Ctx, r *Report, rule string) {
	r.rule(rule, 60, "the result of strconv.ParseUint/ParseInt(…, N) is never converted to an integer type narrower than N bits")
	sizes := types.SizesFor("gc", "amd64")
	n := 0
	for _, f := range c.allFuncs() {
		for _, sub := range withAnon(f) {
			allInstrs(sub, func(in ssa.Instruction) {
				call, ok := in.(*ssa.Call)
				if !ok {
					return
				}
				cn := calleeNameSSA(&call.Call)
				if cn != "strconv.ParseUint" && cn != "strconv.ParseInt" {
					return
				}
				bits, okB := constIntOf(call.Call.Args[2])
				if !okB {
					return
				}
				if bits == 0 {
					bits = 64
				}
				for _, ref := range *call.Referrers() {
					ex, ok := ref.(*ssa.Extract)
					if !ok || ex.Index != 0 {
						continue
					}
					for _, r2 := range *ex.Referrers() {
						cv, ok := r2.(*ssa.Convert)
						if !ok {
							continue
						}
						bt, ok := cv.Type().Underlying().(*types.Basic)
						if !ok || bt.Info()&types.IsInteger == 0 {
							continue
						}
						n++
						m := sizes.Sizeof(bt) * 8
						r.fn(fnDisplay(sub))
						r.check(m >= bits, rule, fmt.Sprintf("%s:%s#%d", fnDisplay(sub), bt.Name(), n), c.pos(cv.Pos()), fmt.Sprintf("%d bits into %d", bits, m), "a number parsed with bit size %d is narrowed to %s: values that do not fit %d bits are accepted and wrap (CLASS65537 is read as class 1) instead of being refused", bits, bt.Name(), m)
					}
				}
			})
		}
	}
	if n == 0 {
		r.undecided(rule, "module", "", "no converted ParseUint result found")
	}
}

// c06GenerateInherits: the $GENERATE sub-parser takes over the includer's TTL state whenever there is one; the
// library default applies only when no TTL has been stated at all.
func c06GenerateInherits(c *Ctx, r *Report, rule string) {
	r.rule(rule, 1, "generate falls back to the default TTL only on the edge zp.defttl == nil")
	fn := c.ssaFunc("ZoneParser.generate")
	if fn == nil {
		r.cerr(rule, "ZoneParser.generate", "function not found")
		return
	}
	r.fn("ZoneParser.generate")
	n := 0
	// the fall-back sites: a call of SetDefaultTTL, or (the setter written out) a store into a parser's defttl of a
	// TTL state that is not the parent's
	var sites []ssa.Instruction
	for _, ci := range callsIn(fn, "(ZoneParser).SetDefaultTTL") {
		sites = append(sites, ci.(ssa.Instruction))
	}
	for _, st := range storesToField(fn, "ZoneParser", "defttl") {
		if !anyIn(sliceOf(st.Val), readsField("ZoneParser", "defttl")) {
			sites = append(sites, st)
		}
	}
	for _, ci := range sites {
		n++
		blk := ci.Block()
		// every way into this block is the nil edge of a test of zp.defttl: no other condition may send a parser that
		// has a TTL state to the default
		okAll := len(blk.Preds) > 0
		for _, p := range blk.Preds {
			ef, ok := edgeFact(p, blk)
			if !ok {
				okAll = false
				continue
			}
			bin, isB := ef.Atom.(*ssa.BinOp)
			isNilTest := false
			if isB && (bin.Op == token.EQL || bin.Op == token.NEQ) {
				if k, isK := bin.Y.(*ssa.Const); isK && k.Value == nil && anyIn(sliceOf(bin.X), readsField("ZoneParser", "defttl")) {
					isNilTest = (bin.Op == token.EQL) == ef.Holds
				}
			}
			if !isNilTest {
				okAll = false
			}
		}
		r.check(okAll, rule, fmt.Sprintf("generate:default-ttl#%d", n), c.pos(ci.Pos()), "only when defttl == nil", "the sub-parser is given the library default TTL on an edge other than `zp.defttl == nil`: generated records then get 3600 although a TTL was stated before the directive (the most recently stated TTL, or the configured default, is lost for the expansion only)")
	}
	if n == 0 {
		r.undecided(rule, "ZoneParser.generate", c.pos(fn.Pos()), "no SetDefaultTTL call found")
	}
}

// c07FalseIsEOF: when zlexer.Next reports "no more tokens" (false) the token it hands out is of class zEOF: the
// rest-of-line loops of the RDATA parsers (`for l.value != zNewline && l.value != zEOF`) end on it.
func c07FalseIsEOF(c *Ctx, r *Report, rule string) {
	fn := c.ssaFunc("zlexer.Next")
	eof, okK := c.constInt("zEOF")
	if fn == nil || !okK {
		r.cerr(rule, "zlexer.Next", "function or zEOF not found")
		return
	}
	n := 0
	for _, b := range fn.Blocks {
		ret, ok := b.Instrs[len(b.Instrs)-1].(*ssa.Return)
		if !ok || len(ret.Results) != 2 {
			continue
		}
		if v, isB := constBool(ret.Results[1]); !isB || v {
			continue
		}
		n++
		okTok := false
		if ld, ok := ret.Results[0].(*ssa.UnOp); ok {
			if al, ok := ld.X.(*ssa.Alloc); ok {
				for _, ref := range *al.Referrers() {
					fa, ok := ref.(*ssa.FieldAddr)
					if !ok || fieldNameOf(fa) != "value" {
						continue
					}
					for _, r2 := range *fa.Referrers() {
						if st, ok := r2.(*ssa.Store); ok {
							if k, isK := constIntOf(st.Val); isK && k == eof {
								okTok = true
							}
						}
					}
				}
			}
		}
		if k, ok := ret.Results[0].(*ssa.Const); ok && k.Value == nil && eof == 0 {
			okTok = true // the zero lex is of class zEOF
		}
		r.check(okTok, rule, fmt.Sprintf("zlexer.Next:false-return#%d", n), c.pos(ret.Pos()), "lex{value: zEOF}", "Next returns false with a token that is not the literal lex{value: zEOF}: after a lexer error the parsers that read to the end of the line (NSEC, NSEC3, CSYNC, SVCB, LOC, APL ...) never see zEOF or a newline and loop for ever")
	}
	if n == 0 {
		r.undecided(rule, "zlexer.Next", c.pos(fn.Pos()), "no (token, false) return found")
	}
}

// c11CopyAfterDefaults: the TSIG that goes on the wire is a copy of the one that was digested: the copy is taken
// after the signer's defaults (time signed, fudge) have been filled in, i.e. no field of the digested TSIG is stored
// after the copy was made.
func c11CopyAfterDefaults(c *Ctx, r *Report, rule string) {
	r.rule(rule, 1, "TsigGenerateWithProvider copies the stub TSIG for the wire after the signer's defaults were stored into it")
	fn := c.ssaFunc("TsigGenerateWithProvider")
	if fn == nil {
		r.cerr(rule, "TsigGenerateWithProvider", "function not found")
		return
	}
	r.fn("TsigGenerateWithProvider")
	n := 0
	allInstrs(fn, func(in ssa.Instruction) {
		st, ok := in.(*ssa.Store)
		if !ok {
			return
		}
		if nm := derefNamed(st.Val.Type()); nm == nil || nm.Obj().Name() != "TSIG" {
			return
		}
		if _, isStruct := st.Val.Type().Underlying().(*types.Struct); !isStruct {
			return
		}
		ld, ok := st.Val.(*ssa.UnOp)
		if !ok {
			return
		}
		src := ld.X // the digested TSIG
		// only the copy that goes on the wire (the record handed to PackRR); a private working copy of the caller's
		// stub is not it
		onWire := false
		for _, ci := range callsIn(fn, "PackRR") {
			a := ci.Common().Args[0]
			for {
				if mi, ok := a.(*ssa.MakeInterface); ok {
					a = mi.X
					continue
				}
				if ch, ok := a.(*ssa.ChangeInterface); ok {
					a = ch.X
					continue
				}
				break
			}
			if a == st.Addr {
				onWire = true
			}
		}
		if !onWire {
			return
		}
		n++
		// ... and it is a copy of the very record that is digested
		for _, ci := range callsIn(fn, "tsigBuffer") {
			if len(ci.Common().Args) > 1 && ci.Common().Args[1] != src {
				r.fail(rule, fmt.Sprintf("TsigGenerateWithProvider:wire-copy#%d:source", n), c.pos(st.Pos()), "the TSIG that goes on the wire is copied from %s, the one that is digested is %s: the MAC covers the defaulted values (time signed, fudge 300) while the message carries the other record's, so the message does not verify", describeValue(src), describeValue(ci.Common().Args[1]))
			}
		}
		after := reach(st.Block(), nil, nil)
		var late []string
		allInstrs(fn, func(x ssa.Instruction) {
			s2, ok := x.(*ssa.Store)
			if !ok {
				return
			}
			fa, ok := s2.Addr.(*ssa.FieldAddr)
			if !ok || fa.X != src {
				return
			}
			if (s2.Block() == st.Block() && instrIndex(s2) > instrIndex(st)) || (s2.Block() != st.Block() && after[s2.Block()]) {
				late = append(late, fmt.Sprintf("%s (%s)", c.pos(s2.Pos()), fieldNameOf(fa)))
			}
		})
		sort.Strings(late)
		r.check(len(late) == 0, rule, fmt.Sprintf("TsigGenerateWithProvider:wire-copy#%d", n), c.pos(st.Pos()), "after the defaults", "fields of the digested TSIG are stored after the copy for the wire was taken (%s): the MAC covers the defaulted value while the message carries the stub's (fudge 0 on the wire, 300 in the digest), so the message does not verify", strings.Join(late, ", "))
	})
	if n == 0 {
		r.undecided(rule, "TsigGenerateWithProvider", c.pos(fn.Pos()), "no whole copy of the TSIG found")
	}
}

// sideStructOffsets: the hand-written packers of the digest structures thread the offset through every field: the
// offset a field codec returns is used (by the next codec or the return), never discarded.
func sideStructOffsets(c *Ctx, r *Report, rule, consequence string) {
	r.rule(rule, 5, "in packSigWire / packKeyWire / packTsigWire / packMacWire / packTimerWire the offset returned by every field codec is used")
	var names []string
	for _, p := range sideStructs {
		names = append(names, p)
	}
	sort.Strings(names)
	for _, name := range names {
		fn := c.ssaFunc(name)
		if fn == nil {
			r.cerr(rule, name, "function not found")
			continue
		}
		r.fn(name)
		var bad []string
		allInstrs(fn, func(in ssa.Instruction) {
			call, ok := in.(*ssa.Call)
			if !ok {
				return
			}
			g := call.Call.StaticCallee()
			if g == nil || g.Signature.Results().Len() != 2 {
				return
			}
			if bt, ok := g.Signature.Results().At(0).Type().Underlying().(*types.Basic); !ok || bt.Kind() != types.Int {
				return
			}
			used := false
			for _, ref := range *call.Referrers() {
				if ex, ok := ref.(*ssa.Extract); ok && ex.Index == 0 {
					for _, r2 := range *ex.Referrers() {
						if _, isDbg := r2.(*ssa.DebugRef); !isDbg {
							used = true
						}
					}
				}
			}
			if !used {
				bad = append(bad, fmt.Sprintf("%s: the offset returned by %s is dropped", c.pos(call.Pos()), g.Name()))
			}
		})
		r.check(len(bad) == 0, rule, name, c.pos(fn.Pos()), "offsets threaded", "%s: the function returns an offset that stops short of that field, so %s", strings.Join(bad, "; "), consequence)
	}
}

// c12NoReleaseAfterServe: a handler may keep its ResponseWriter and write after ServeDNS has returned (answering
// from its own goroutine); nothing the writer refers to is handed to a buffer pool when the request function ends.
func c12NoReleaseAfterServe(c *Ctx, r *Report, rule string) {
	r.rule(rule, 2, "after serveDNS returns, serveUDPPacket / serveTCPConn pass nothing the response writer refers to to a function that reaches sync.Pool.Put")
	putters := map[*ssa.Function]bool{}
	// functions that (transitively, statically) call (sync.Pool).Put
	changed := true
	fns := c.allFuncs()
	for changed {
		changed = false
		for _, f := range fns {
			for _, sub := range withAnon(f) {
				if putters[sub] {
					continue
				}
				allInstrs(sub, func(in ssa.Instruction) {
					ci, ok := in.(ssa.CallInstruction)
					if !ok || putters[sub] {
						return
					}
					cn := calleeNameSSA(ci.Common())
					if cn == "(sync.Pool).Put" || cn == "(*sync.Pool).Put" {
						putters[sub] = true
						changed = true
						return
					}
					if g := ci.Common().StaticCallee(); g != nil && putters[g] {
						putters[sub] = true
						changed = true
					}
				})
			}
		}
	}
	for _, name := range []string{"Server.serveUDPPacket", "Server.serveTCPConn"} {
		fn := c.ssaFunc(name)
		if fn == nil {
			r.cerr(rule, name, "function not found")
			continue
		}
		r.fn(name)
		var w *ssa.Alloc
		allInstrs(fn, func(in ssa.Instruction) {
			if al, ok := in.(*ssa.Alloc); ok {
				if nm := derefNamed(al.Type()); nm != nil && nm.Obj().Name() == "response" {
					w = al
				}
			}
		})
		if w == nil {
			r.undecided(rule, name, c.pos(fn.Pos()), "no response writer allocated")
			continue
		}
		// what the writer refers to: values stored into its fields
		held := map[ssa.Value]bool{w: true}
		allInstrs(fn, func(in ssa.Instruction) {
			if st, ok := in.(*ssa.Store); ok {
				if fa, ok := st.Addr.(*ssa.FieldAddr); ok && fa.X == ssa.Value(w) {
					held[st.Val] = true
					if mi, ok := st.Val.(*ssa.MakeInterface); ok {
						held[mi.X] = true
					}
				}
			}
		})
		var bad []string
		for _, sv := range callsIn(fn, "(Server).serveDNS") {
			start := sv.(ssa.Instruction)
			after := reach(start.Block(), nil, nil)
			allInstrs(fn, func(x ssa.Instruction) {
				ci, ok := x.(ssa.CallInstruction)
				if !ok || x == start {
					return
				}
				if !((x.Block() == start.Block() && instrIndex(x) > instrIndex(start)) || (x.Block() != start.Block() && after[x.Block()])) {
					return
				}
				g := ci.Common().StaticCallee()
				cn := calleeNameSSA(ci.Common())
				if g == nil || !(putters[g] || cn == "(sync.Pool).Put" || cn == "(*sync.Pool).Put") {
					return
				}
				for _, a := range ci.Common().Args {
					for o := range sliceOf(a) {
						if held[o] {
							bad = append(bad, fmt.Sprintf("%s: %s is given %s", c.pos(x.Pos()), g.Name(), describeValue(o)))
						}
					}
				}
			})
		}
		r.check(len(bad) == 0, rule, name, c.pos(fn.Pos()), "nothing released", "%s, which the response writer still refers to, and that function returns memory to a sync.Pool: a handler that writes its reply after ServeDNS returned (from its own goroutine) sends it with another request's session data (wrong source address: the client never receives it)", strings.Join(uniqStrings(bad), "; "))
	}
}

// c16CopyToFresh: the sections of a CopyTo destination are built in memory allocated by that call; reusing the
// destination's old arrays shares them with whatever else points at them (the source, when the destination started
// as a shallow copy of it).
func c16CopyToFresh(c *Ctx, r *Report, rule string) {
	r.rule(rule, 3, "Msg.CopyTo builds Answer, Ns and Extra of the destination in arrays it allocates itself")
	fn := c.ssaFunc("Msg.CopyTo")
	if fn == nil || len(fn.Params) < 2 {
		r.cerr(rule, "Msg.CopyTo", "function not found")
		return
	}
	r.fn("Msg.CopyTo")
	dst := fn.Params[1]
	for _, field := range []string{"Answer", "Ns", "Extra"} {
		var bad []string
		n := 0
		for _, st := range storesToField(fn, "Msg", field) {
			fa, ok := st.Addr.(*ssa.FieldAddr)
			if !ok || fa.X != ssa.Value(dst) {
				continue
			}
			n++
			// the stored slice: where can its backing array come from?
			fresh, old := false, false
			var walk func(v ssa.Value, d int)
			seen := map[ssa.Value]bool{}
			walk = func(v ssa.Value, d int) {
				if d > 8 || seen[v] {
					return
				}
				seen[v] = true
				switch t := v.(type) {
				case *ssa.MakeSlice:
					fresh = true
				case *ssa.Slice:
					walk(t.X, d+1)
				case *ssa.Phi:
					for _, e := range t.Edges {
						walk(e, d+1)
					}
				case *ssa.Call:
					if calleeNameSSA(&t.Call) == "builtin.append" {
						walk(t.Call.Args[0], d+1)
					}
				case *ssa.UnOp:
					if lf, ok := t.X.(*ssa.FieldAddr); ok && lf.X == ssa.Value(dst) {
						// a load of the destination's own field: fine when that field was assigned from fresh memory
						// earlier in this call, i.e. when a store to it dominates the load
						dominated := false
						for _, s2 := range storesToField(fn, "Msg", fieldNameOf(lf)) {
							f2, ok := s2.Addr.(*ssa.FieldAddr)
							if ok && f2.X == ssa.Value(dst) && s2 != st && (s2.Block().Dominates(t.Block()) && s2.Block() != t.Block() || (s2.Block() == t.Block() && instrIndex(s2) < instrIndex(t))) {
								dominated = true
								walk(s2.Val, d+1)
							}
						}
						if !dominated {
							old = true
						}
					}
				}
			}
			walk(st.Val, 0)
			if old || !fresh {
				bad = append(bad, c.pos(st.Pos()))
			}
		}
		if n == 0 {
			bad = append(bad, "never assigned")
		}
		sort.Strings(bad)
		r.check(len(bad) == 0, rule, "Msg.CopyTo:"+field, c.pos(fn.Pos()), "freshly allocated", "the destination's %s is built in the array the destination already had (%s): after `d := *m; m.CopyTo(&d)` source and copy share it and the copy's records overwrite the source's", field, strings.Join(uniqStrings(bad), ", "))
	}
}

// c18NoSizeRefusal: SIG.Sign sizes its buffer from the uncompressed length (so that PackBuffer does not reallocate)
// but must not refuse a message because of that length: what counts is the packed size, which PackBuffer reports.
func c18NoSizeRefusal(c *Ctx, r *Report, rule string) {
	r.rule(rule, 1, "SIG.Sign has no error exit conditioned on the length estimate made before packing")
	fn := c.ssaFunc("SIG.Sign")
	if fn == nil {
		r.cerr(rule, "SIG.Sign", "function not found")
		return
	}
	r.fn("SIG.Sign")
	isEstimate := func(v ssa.Value) bool {
		call, ok := v.(*ssa.Call)
		if !ok {
			return false
		}
		cn := calleeNameSSA(&call.Call)
		return cn == "msgLenWithCompressionMap" || cn == "Len" || strings.HasSuffix(cn, "Msg).Len")
	}
	var packBlk *ssa.BasicBlock
	for _, ci := range callsIn(fn, "(Msg).PackBuffer") {
		packBlk = ci.(ssa.Instruction).Block()
	}
	if packBlk == nil {
		r.undecided(rule, "SIG.Sign", c.pos(fn.Pos()), "no PackBuffer call found")
		return
	}
	var bad []string
	for _, b := range fn.Blocks {
		ret, ok := b.Instrs[len(b.Instrs)-1].(*ssa.Return)
		if !ok || len(ret.Results) != 2 {
			continue
		}
		if k, isK := ret.Results[1].(*ssa.Const); isK && k.Value == nil {
			continue
		}
		if packBlk.Dominates(b) {
			continue // after packing: the packed size is known
		}
		for _, f := range factsAt(fn, b) {
			bin, ok := f.Atom.(*ssa.BinOp)
			if !ok {
				continue
			}
			switch bin.Op {
			case token.LSS, token.LEQ, token.GTR, token.GEQ:
			default:
				continue
			}
			if anyIn(sliceOf(bin.X), isEstimate) || anyIn(sliceOf(bin.Y), isEstimate) {
				bad = append(bad, fmt.Sprintf("%s (on %v = %v)", c.pos(ret.Pos()), f.Atom, f.Holds))
			}
		}
	}
	sort.Strings(bad)
	r.check(len(bad) == 0, rule, "SIG.Sign", c.pos(fn.Pos()), "no length-based refusal", "Sign returns an error at %s because of the uncompressed length estimate: a message that compresses below the limit (21 KB on the wire, 66 KB uncompressed) is refused although it can be packed, signed and verified", strings.Join(uniqStrings(bad), ", "))
}

// c08LenForm: the C08.R1.len-form rule on its own (for borrowing).
func c08LenForm(c *Ctx, r *Report) {
	r.rule("C08.R1.len-form", 81, "len adds the kind's length term for every wire field")
	for _, t := range c.rrTypes() {
		if t.Name == "PrivateRR" {
			continue
		}
		c.checkLenForm(r, "C08.R1.len-form", t)
	}
}

// genericPrefix: typeToInt / classToInt read the number behind TYPE / CLASS; they are called for any token that is
// not a mnemonic (the bitmap parsers call them without looking at the token first), so they test the prefix
// themselves: the number is parsed only on the edge where the first octets compared equal to the prefix.
func genericPrefix(c *Ctx, r *Report, rule string) {
	r.rule(rule, 2, "typeToInt / classToInt parse the number only after comparing the token's prefix with TYPE / CLASS")
	for _, spec := range []struct{ fn, prefix string }{{"typeToInt", "TYPE"}, {"classToInt", "CLASS"}} {
		fn := c.ssaFunc(spec.fn)
		if fn == nil {
			r.cerr(rule, spec.fn, "function not found")
			continue
		}
		r.fn(spec.fn)
		okAll := true
		n := 0
		for _, ci := range callsIn(fn, "strconv.ParseUint", "strconv.ParseInt", "strconv.Atoi") {
			n++
			guarded := false
			for _, f := range factsAt(fn, ci.(ssa.Instruction).Block()) {
				call, ok := f.Atom.(*ssa.Call)
				if !ok || !f.Holds {
					continue
				}
				cn := calleeNameSSA(&call.Call)
				if cn != "strings.EqualFold" && cn != "strings.HasPrefix" {
					continue
				}
				for _, a := range call.Call.Args {
					if k, ok := a.(*ssa.Const); ok && k.Value != nil && k.Value.Kind() == constant.String && strings.EqualFold(constant.StringVal(k.Value), spec.prefix) {
						guarded = true
					}
				}
			}
			if !guarded {
				okAll = false
			}
		}
		if n == 0 {
			r.undecided(rule, spec.fn, c.pos(fn.Pos()), "no number parse found")
			continue
		}
		r.check(okAll, rule, spec.fn, c.pos(fn.Pos()), "prefix compared", "%s parses the digits behind the first %d octets without comparing those octets with %q: every token whose tail is a number is taken for the generic form (`NSEC bar XXXX12 A` reads as PTR A, `host7` in a CSYNC bitmap as MB), so a typo in a bitmap silently becomes another type", spec.fn, len(spec.prefix), spec.prefix)
	}
}

// c18KeyIdentity: SIG.Verify succeeds only with the key the signature names: algorithm and key tag of the SIG equal
// those of the KEY on every path to a success return (RRSIG.Verify makes the same two checks: C10.R1.verify-guards).
func c18KeyIdentity(c *Ctx, r *Report, rule string) {
	r.rule(rule, 2, "every success return of SIG.Verify is preceded by rr.KeyTag == k.KeyTag() and rr.Algorithm == k.Algorithm")
	fn := c.ssaFunc("SIG.Verify")
	if fn == nil {
		r.cerr(rule, "SIG.Verify", "function not found")
		return
	}
	r.fn("SIG.Verify")
	rr, k := fn.Params[0], paramOf(fn, "k")
	guards := []Guard{
		{Name: "rr.KeyTag == k.KeyTag()", Op: "eq", A: func(v ssa.Value) bool {
			return fieldPathOf(isValue(rr), "KeyTag")(v) || fieldPathOf(isValue(rr), "RRSIG.KeyTag")(v)
		}, B: func(v ssa.Value) bool {
			call, ok := v.(*ssa.Call)
			if !ok || !strings.HasSuffix(calleeNameSSA(&call.Call), "KeyTag") || len(call.Call.Args) == 0 {
				return false
			}
			a := call.Call.Args[0]
			if fa, isFA := a.(*ssa.FieldAddr); isFA {
				a = fa.X
			}
			return a == k
		}, Holds: true},
		{Name: "rr.Algorithm == k.Algorithm", Op: "eq", A: func(v ssa.Value) bool {
			return fieldPathOf(isValue(rr), "Algorithm")(v) || fieldPathOf(isValue(rr), "RRSIG.Algorithm")(v)
		}, B: func(v ssa.Value) bool {
			return fieldPathOf(isValue(k), "Algorithm")(v) || fieldPathOf(isValue(k), "DNSKEY.Algorithm")(v)
		}, Holds: true},
	}
	for _, g := range guards {
		var bad []string
		for _, rp := range returnPoints(fn, 0) {
			if kk, ok := rp.Results[0].(*ssa.Const); !ok || kk.Value != nil {
				// a verdict returned by a verifier call (rsa.VerifyPKCS1v15) is a possible success as well
				if _, isCall := rp.Results[0].(*ssa.Call); !isCall {
					continue
				}
			}
			if miss := guardsMissing(fn, rp.Block, []Guard{g}); len(miss) > 0 {
				bad = append(bad, c.pos(rp.Pos))
			}
		}
		sort.Strings(bad)
		r.check(len(bad) == 0, rule, "SIG.Verify:"+g.Name, c.pos(fn.Pos()), "on every success path", "success at %s is reachable without the test %s: a message signed with one algorithm verifies against a KEY record that names another (same key material, different algorithm and key tag), i.e. against a key the signature does not name", strings.Join(uniqStrings(bad), ", "), g.Name)
	}
}

// nodeIDFormat: the NID / L64 text form is four groups of four hex digits separated by colons: 19 characters, a
// colon at positions 4, 9 and 14. The digits are parsed only where all of that has been established.
func nodeIDFormat(c *Ctx, r *Report, rule string) {
	r.rule(rule, 1, "stringToNodeID parses the digits only for a token of exactly 19 characters with ':' at positions 4, 9 and 14")
	fn := c.ssaFunc("stringToNodeID")
	if fn == nil {
		r.cerr(rule, "stringToNodeID", "function not found")
		return
	}
	r.fn("stringToNodeID")
	var parse ssa.CallInstruction
	for _, ci := range callsIn(fn, "strconv.ParseUint") {
		parse = ci
	}
	if parse == nil {
		r.undecided(rule, "stringToNodeID", c.pos(fn.Pos()), "no ParseUint call found")
		return
	}
	blk := parse.(ssa.Instruction).Block()
	colons := map[int64]bool{}
	lo, hi := int64(-1), int64(1<<40)
	for _, f := range factsAt(fn, blk) {
		bin, ok := f.Atom.(*ssa.BinOp)
		if !ok {
			continue
		}
		// token[k] == ':'
		if k, isK := constIntOf(bin.Y); isK && k == ':' && ((bin.Op == token.EQL && f.Holds) || (bin.Op == token.NEQ && !f.Holds)) {
			var idx ssa.Value
			switch t := bin.X.(type) {
			case *ssa.Index:
				idx = t.Index
			case *ssa.Lookup:
				idx = t.Index
			}
			if idx != nil {
				if pos, isP := constIntOf(idx); isP {
					colons[pos] = true
				}
			}
		}
		isLen := func(v ssa.Value) bool {
			call, ok := v.(*ssa.Call)
			return ok && calleeNameSSA(&call.Call) == "builtin.len"
		}
		l, h, hasL, hasH := intervalFromFact(f, isLen)
		if hasL && l > lo {
			lo = l
		}
		if hasH && h < hi {
			hi = h
		}
		if k, isK := constIntOf(bin.Y); isK && isLen(bin.X) && ((bin.Op == token.EQL && f.Holds) || (bin.Op == token.NEQ && !f.Holds)) {
			lo, hi = k, k
		}
	}
	var ps []string
	for _, p := range []int64{4, 9, 14} {
		if !colons[p] {
			ps = append(ps, fmt.Sprintf("no test that position %d holds a colon dominates the parse", p))
		}
	}
	if lo != 19 || hi != 19 {
		ps = append(ps, fmt.Sprintf("the token length is not pinned to 19 (known: %d..%d)", lo, hi))
	}
	r.check(len(ps) == 0, rule, "stringToNodeID", c.pos(parse.Pos()), "19 characters, three colons", "%s: text such as 0014:4fffxff20:ee64 or 0014:4fff:ff20:ee64zzzz is accepted and silently read as 0014:4fff:ff20:ee64", strings.Join(ps, "; "))
}

// ttlUnitsNeedNumbers: in a TTL with unit suffixes every unit letter follows a number, and the empty token is not
// a TTL: (a) the loop carries a boolean "the previous character was a digit" whose false value sends a non-digit to
// the rejecting return, (b) the success return is behind len(token) != 0.
func ttlUnitsNeedNumbers(c *Ctx, r *Report, rule string) {
	r.rule(rule, 2, "stringToTTL rejects a unit letter that does not follow a digit, and the empty token")
	fn := c.ssaFunc("stringToTTL")
	if fn == nil {
		r.cerr(rule, "stringToTTL", "function not found")
		return
	}
	r.fn("stringToTTL")
	isReject := func(b *ssa.BasicBlock) bool {
		ret, ok := b.Instrs[len(b.Instrs)-1].(*ssa.Return)
		if !ok || len(ret.Results) != 2 {
			return false
		}
		v, isB := constBool(ret.Results[1])
		return isB && !v
	}
	// (a)
	found := false
	allInstrs(fn, func(in ssa.Instruction) {
		phi, ok := in.(*ssa.Phi)
		if !ok {
			return
		}
		if bt, ok := phi.Type().Underlying().(*types.Basic); !ok || bt.Kind() != types.Bool {
			return
		}
		hdr := phi.Block()
		loop := false
		for _, p := range hdr.Preds {
			if hdr.Dominates(p) {
				loop = true
			}
		}
		if !loop {
			return
		}
		for _, ref := range *phi.Referrers() {
			iff, ok := ref.(*ssa.If)
			if !ok {
				continue
			}
			// phi false -> reject
			if isReject(iff.Block().Succs[1]) {
				found = true
			}
		}
	})
	r.check(found, rule, "stringToTTL:unit-after-digit", c.pos(fn.Pos()), "previous-was-digit flag", "no loop-carried 'previous character was a digit' flag sends a non-digit that follows a non-digit (or starts the token) to the rejecting return: `s`, `wd`, `$TTL h` are accepted as TTL 0 and `1hm` as 3600")
	// (b)
	okEmpty := true
	n := 0
	for _, b := range fn.Blocks {
		ret, ok := b.Instrs[len(b.Instrs)-1].(*ssa.Return)
		if !ok || len(ret.Results) != 2 {
			continue
		}
		if v, isB := constBool(ret.Results[1]); !isB || !v {
			continue
		}
		n++
		nonEmpty := false
		for _, f := range factsAt(fn, b) {
			bin, ok := f.Atom.(*ssa.BinOp)
			if !ok {
				continue
			}
			call, isCall := bin.X.(*ssa.Call)
			k, isK := constIntOf(bin.Y)
			if isCall && calleeNameSSA(&call.Call) == "builtin.len" && isK && k == 0 && ((bin.Op == token.EQL && !f.Holds) || (bin.Op == token.NEQ && f.Holds) || (bin.Op == token.GTR && f.Holds)) {
				nonEmpty = true
			}
		}
		if !nonEmpty {
			okEmpty = false
		}
	}
	r.check(okEmpty && n > 0, rule, "stringToTTL:empty-token", c.pos(fn.Pos()), "len(token) != 0", "the success return is reachable for the empty token: an empty TTL token is accepted as 0")
}

// escapeToggle: a scanner that tracks "the previous character was an unescaped backslash" in a loop-carried flag
// must toggle it on a backslash: after `\\` the next character is not escaped. The value the flag has when the loop
// comes round from the backslash arm is evaluated for both values of the flag on entry: it must be the negation.
func escapeToggle(c *Ctx, r *Report, rule, fname, consequence string) {
	fn := c.ssaFunc(fname)
	if fn == nil {
		r.cerr(rule, fname, "function not found")
		return
	}
	r.fn(fname)
	n := 0
	allInstrs(fn, func(in ssa.Instruction) {
		phi, ok := in.(*ssa.Phi)
		if !ok {
			return
		}
		if bt, ok := phi.Type().Underlying().(*types.Basic); !ok || bt.Kind() != types.Bool {
			return
		}
		hdr := phi.Block()
		isLoop := false
		for _, p := range hdr.Preds {
			if hdr.Dominates(p) {
				isLoop = true
			}
		}
		if !isLoop {
			return
		}
		// the arm taken on a backslash: a block dominated by `c == '\\'`
		var arm *ssa.BasicBlock
		for _, b := range fn.Blocks {
			if !hdr.Dominates(b) || b == hdr {
				continue
			}
			for _, f := range factsAt(fn, b) {
				bin, ok := f.Atom.(*ssa.BinOp)
				if !ok || bin.Op != token.EQL || !f.Holds {
					continue
				}
				if k, isK := constIntOf(bin.Y); isK && k == '\\' && f.If != nil && f.If.Block().Succs[0] == b {
					arm = b
				}
			}
		}
		if arm == nil {
			return
		}
		n++
		// evaluate the flag's next value along the path arm -> ... -> header for old in {false, true}
		var eval func(v ssa.Value, old bool, from *ssa.BasicBlock, d int) (bool, bool)
		eval = func(v ssa.Value, old bool, from *ssa.BasicBlock, d int) (bool, bool) {
			if d > 6 {
				return false, false
			}
			if v == ssa.Value(phi) {
				return old, true
			}
			switch t := v.(type) {
			case *ssa.Const:
				return constBool(t)
			case *ssa.UnOp:
				if t.Op == token.NOT {
					x, ok := eval(t.X, old, from, d+1)
					return !x, ok
				}
			case *ssa.Phi:
				// a merge between the arm and the header: take the edge that comes from the arm (or from a block the arm
				// dominates)
				for i, p := range t.Block().Preds {
					if p == arm || arm.Dominates(p) {
						return eval(t.Edges[i], old, p, d+1)
					}
				}
			}
			return false, false
		}
		good := true
		var got []string
		for i, p := range hdr.Preds {
			if !hdr.Dominates(p) {
				continue
			}
			e := phi.Edges[i]
			for _, old := range []bool{false, true} {
				v, ok := eval(e, old, p, 0)
				if !ok {
					good = false
					got = append(got, fmt.Sprintf("%v -> ?", old))
					continue
				}
				got = append(got, fmt.Sprintf("%v -> %v", old, v))
				if v != !old {
					good = false
				}
			}
		}
		name := phi.Comment
		if name == "" {
			name = phi.Name()
		}
		r.check(good, rule, fmt.Sprintf("%s:%s", fname, name), c.pos(arm.Instrs[0].Pos()), "toggled on a backslash", "on a backslash the escape flag goes %s instead of being toggled: after an escaped backslash the next character is still taken as escaped, so %s", strings.Join(got, ", "), consequence)
	})
	if n == 0 {
		r.undecided(rule, fname, c.pos(fn.Pos()), "no loop-carried escape flag with a backslash arm found")
	}
}

// backslashScanReachesZero: a backward scan over the backslashes in front of a dot decides whether the dot is
// escaped; it has to be able to reach index 0 (a name that starts with backslashes).
func backslashScanReachesZero(c *Ctx, r *Report, rule string, fnames []string, consequence string) {
	for _, fname := range fnames {
		fn := c.ssaFunc(fname)
		if fn == nil {
			r.cerr(rule, fname, "function not found")
			continue
		}
		r.fn(fname)
		n := 0
		allInstrs(fn, func(in ssa.Instruction) {
			phi, ok := in.(*ssa.Phi)
			if !ok {
				return
			}
			// a counter that steps down by one
			down := false
			for _, e := range phi.Edges {
				if b, ok := e.(*ssa.BinOp); ok && b.X == ssa.Value(phi) {
					if k, isK := constIntOf(b.Y); isK && ((b.Op == token.SUB && k == 1) || (b.Op == token.ADD && k == -1)) {
						down = true
					}
				}
			}
			if !down {
				return
			}
			blk := phi.Block()
			iff, ok := blk.Instrs[len(blk.Instrs)-1].(*ssa.If)
			if !ok {
				return
			}
			// the body tests a character against the backslash
			isBackslashLoop := false
			for _, b := range fn.Blocks {
				if !blk.Dominates(b) {
					continue
				}
				for _, x := range b.Instrs {
					if bin, ok := x.(*ssa.BinOp); ok && (bin.Op == token.EQL || bin.Op == token.NEQ) {
						if k, isK := constIntOf(bin.Y); isK && k == '\\' && anyIn(sliceOf(bin.X), isValue(phi)) {
							isBackslashLoop = true
						}
					}
				}
			}
			if !isBackslashLoop {
				return
			}
			lo, _, hasLo, _ := intervalFromFact(Fact{If: iff, Atom: iff.Cond, Holds: true}, isValue(phi))
			if !hasLo {
				return
			}
			n++
			r.check(lo == 0, rule, fmt.Sprintf("%s:backslash-scan#%d", fname, n), c.pos(iff.Pos()), "reaches index 0", "the backward scan over backslashes stops at index %d: a backslash at the very start of the name is not counted, the escape parity of the first dot flips, and %s", lo, consequence)
		})
		if n == 0 {
			if found, problems := forwardRunCounter(c, fn); found {
				r.check(len(problems) == 0, rule, fname+":run-counter", c.pos(fn.Pos()), "forward scan: run counter +1 on a backslash, 0 on every other octet", "the counter of backslashes in front of the current octet is wrong on some way round the loop (%s): the escape parity of a dot is judged with a stale count, and %s", strings.Join(problems, "; "), consequence)
				continue
			}
			r.undecided(rule, fname, c.pos(fn.Pos()), "no backward scan over backslashes found")
		}
	}
}

// fqdnTrailingRun: whether the final dot is escaped depends on the run of backslashes directly in front of it; the
// parity that is tested is of a position found by scanning back from the end, not of a count over the whole name.
func fqdnTrailingRun(c *Ctx, r *Report, rule string) {
	r.rule(rule, 1, "IsFqdn tests the parity of the backslash run directly before the final dot (found by scanning back from the end)")
	fn := c.ssaFunc("IsFqdn")
	if fn == nil {
		r.cerr(rule, "IsFqdn", "function not found")
		return
	}
	r.fn("IsFqdn")
	n := 0
	allInstrs(fn, func(in ssa.Instruction) {
		rem, ok := in.(*ssa.BinOp)
		if !ok || rem.Op != token.REM {
			return
		}
		if k, isK := constIntOf(rem.Y); !isK || k != 2 {
			return
		}
		n++
		fromEnd, whole, runeStart := false, false, false
		for o := range sliceOf(rem.X) {
			if call, ok := o.(*ssa.Call); ok {
				switch calleeNameSSA(&call.Call) {
				case "strings.LastIndexFunc", "strings.LastIndexByte", "strings.LastIndex", "strings.LastIndexAny", "strings.TrimRight", "strings.TrimRightFunc":
					fromEnd = true
				case "strings.Count", "bytes.Count":
					whole = true
				}
			}
			if phi, ok := o.(*ssa.Phi); ok {
				// a hand-written backward loop: the value is the descending index itself, or a counter
				// advanced in a loop whose index descends
				for _, e := range phi.Edges {
					if b, ok := e.(*ssa.BinOp); ok && b.X == ssa.Value(phi) && b.Op == token.SUB {
						fromEnd = true
					}
					if b, ok := e.(*ssa.BinOp); ok && b.X == ssa.Value(phi) && b.Op == token.ADD {
						for _, in2 := range phi.Block().Instrs {
							if p2, ok := in2.(*ssa.Phi); ok && p2 != phi {
								for _, e2 := range p2.Edges {
									if b2, ok := e2.(*ssa.BinOp); ok && b2.X == ssa.Value(p2) && b2.Op == token.SUB {
										fromEnd = true
									}
								}
							}
						}
					}
				}
			}
		}
		// the distance len(s) - i is a count of backslashes only if i is the index of the octet before the run:
		// strings.LastIndexFunc hands out the index at which a RUNE starts, so after a multi-byte rune the
		// distance is too long by the rune's extra octets and the parity flips
		for o := range sliceOf(rem.X) {
			if call, ok := o.(*ssa.Call); ok && (calleeNameSSA(&call.Call) == "strings.LastIndexFunc" || calleeNameSSA(&call.Call) == "strings.IndexFunc") {
				runeStart = true
			}
		}
		if fromEnd && !whole && runeStart {
			r.fail(rule, fmt.Sprintf("IsFqdn:parity#%d", n), c.pos(rem.Pos()), "the length of the backslash run is taken as the distance from the index strings.LastIndexFunc returns, which is where a rune STARTS: after a 2- or 4-octet rune the distance is too long by 1 or 3 and the parity flips (`é\\\\.` is taken for not fully qualified, `é\\.` for fully qualified and packed as the root); names are strings of octets")
			return
		}
		r.check(fromEnd && !whole, rule, fmt.Sprintf("IsFqdn:parity#%d", n), c.pos(rem.Pos()), "run before the final dot", "the parity tested is not that of the backslash run directly before the final dot (scan from the end: %v, count over the whole name: %v): a backslash elsewhere in the name flips the verdict, `a\\\\.b\\\\.` is taken for fully qualified and packed without its last label", fromEnd, whole)
	})
	// the parity kept as a flag that is flipped once per backslash of the run
	allInstrs(fn, func(in ssa.Instruction) {
		flag, ok := in.(*ssa.Phi)
		if !ok {
			return
		}
		flips := false
		for i, e := range flag.Edges {
			if !flag.Block().Dominates(flag.Block().Preds[i]) {
				continue
			}
			if u, isU := e.(*ssa.UnOp); isU && u.Op == token.NOT && u.X == ssa.Value(flag) {
				flips = true
			}
		}
		if !flips {
			return
		}
		n++
		fromEnd := false
		for _, in2 := range flag.Block().Instrs {
			if p2, ok := in2.(*ssa.Phi); ok && p2 != flag {
				for _, e2 := range p2.Edges {
					if b2, ok := e2.(*ssa.BinOp); ok && b2.X == ssa.Value(p2) && b2.Op == token.SUB {
						fromEnd = true
					}
				}
			}
		}
		decides := false
		for _, rp := range returnPoints(fn, 0) {
			if sliceOf(rp.Results[0])[flag] {
				decides = true
			}
		}
		r.check(fromEnd && decides, rule, fmt.Sprintf("IsFqdn:parity#%d", n), c.pos(flag.Pos()), "run before the final dot", "the parity flag is not flipped along a scan back from the end, or does not decide the result (scan from the end: %v, decides the result: %v)", fromEnd, decides)
	})
	if n == 0 {
		r.undecided(rule, "IsFqdn", c.pos(fn.Pos()), "no parity test found")
	}
}
