package main

import (
	"fmt"
	"go/constant"
	"go/token"
	"go/types"
	"sort"
	"strings"

	"golang.org/x/tools/go/ssa"
)

// Rules added after the fifth round of independent breaking changes (part 3).

// fieldTouchBlocks: the blocks of fn in which field `owner.field` of the receiver is written (write) or read,
// directly or by a callee that is handed the receiver (per the E2 effect summaries).
func fieldTouchBlocks(e *aliasEngine, fn *ssa.Function, owner, field string, write bool) map[*ssa.BasicBlock]bool {
	out := map[*ssa.BasicBlock]bool{}
	key := owner + "." + field
	recv := fn.Params[0]
	isRecv := func(v ssa.Value) bool {
		for o := range sliceOf(v) {
			if o == ssa.Value(recv) {
				return true
			}
		}
		return false
	}
	for _, b := range fn.Blocks {
		for _, in := range b.Instrs {
			switch t := in.(type) {
			case *ssa.Store:
				if write {
					if fa, ok := t.Addr.(*ssa.FieldAddr); ok && fieldNameOf(fa) == field && isRecv(fa.X) {
						out[b] = true
					}
				}
			case *ssa.UnOp:
				if !write && t.Op == token.MUL {
					if fa, ok := t.X.(*ssa.FieldAddr); ok && fieldNameOf(fa) == field && isRecv(fa.X) {
						out[b] = true
					}
				}
			case *ssa.Range:
				if !write {
					if ld, ok := t.X.(*ssa.UnOp); ok {
						if fa, ok := ld.X.(*ssa.FieldAddr); ok && fieldNameOf(fa) == field && isRecv(fa.X) {
							out[b] = true
						}
					}
				}
			case ssa.CallInstruction:
				cc := t.Common()
				callees, _ := e.resolve(cc)
				args := cc.Args
				for _, g := range callees {
					sum := e.summary(g)
					for i, a := range args {
						if !isRecv(a) {
							continue
						}
						rt := root{Kind: rkParam, Fn: g, Idx: i}
						if write {
							if _, ok := sum.writes[rt][key]; ok {
								out[b] = true
							}
						} else if sum.reads[rt][key] {
							out[b] = true
						}
					}
				}
			}
		}
	}
	return out
}

// textAllPaths: C05.R1 asks that String reads and parse assigns every wire field somewhere; here, on every path:
// no success return of parse, and no return of String, is reachable from the entry without passing a block that
// touches the field. Fields that are legitimately optional are listed with their reason.
var textPathExceptions = map[string]string{
	"HINFO.Cpu:parse":             "an empty RDATA (no character-string at all) is accepted and leaves the record empty",
	"HINFO.Os:parse":              "as HINFO.Cpu",
	"ISDN.Address:parse":          "as HINFO.Cpu",
	"ISDN.SubAddress:parse":       "as HINFO.Cpu",
	"UINFO.Uinfo:parse":           "as HINFO.Cpu",
	"L64.Locator64:parse":         "`if e1 != nil || l.err { return e1 }`: on the lexer-error edge e1 may be nil; ZoneParser.Next reports the lexer error afterwards (C07.R3.sticky rdata-lexer-error)",
	"NID.NodeID:parse":            "as L64.Locator64",
	"NSEC3.Salt:parse":            "the salt `-` denotes the empty salt and leaves the field empty",
	"NSEC3PARAM.Salt:parse":       "as NSEC3.Salt",
	"SOA.Serial:parse":            "the five numbers are assigned by a `switch i` inside a counted loop; the path analysis does not unroll it",
	"SOA.Refresh:parse":           "as SOA.Serial",
	"SOA.Retry:parse":             "as SOA.Serial",
	"SOA.Expire:parse":            "as SOA.Serial",
	"SOA.Minttl:parse":            "as SOA.Serial",
	"IPSECKEY.GatewayHost:String": "printed through the union with GatewayAddr, selected by GatewayType",
	"AMTRELAY.GatewayHost:String": "as IPSECKEY.GatewayHost",
}

func textAllPaths(c *Ctx, r *Report, ruleString, ruleParse string) {
	r.rule(ruleString, 60, "every return of String has read every wire field on the way (a list by ranging over it)")
	r.rule(ruleParse, 60, "every success return of parse has assigned every (scalar) wire field on the way")
	e := newAliasEngine(c)
	e.solve()
	for _, t := range c.rrTypes() {
		if _, skip := noPresentationFormat[t.Name]; skip {
			continue
		}
		owner := t.Name
		if t.Embeds != "" {
			owner = t.Embeds
		}
		for _, spec := range []struct {
			rule, method string
			write        bool
		}{{ruleString, "String", false}, {ruleParse, "parse", true}} {
			fn := c.ssaFunc(t.Name + "." + spec.method)
			if fn == nil || len(fn.Params) == 0 {
				continue
			}
			var missing []string
			for _, f := range t.Fields {
				key := owner + "." + f.Name
				if _, ok := textCoverExceptions[key]; ok {
					continue
				}
				if _, ok := textPathExceptions[t.Name+"."+f.Name+":"+spec.method]; ok {
					continue
				}
				if f.Tag == "-" {
					continue
				}
				// scalars only: a list may be empty, and is then neither printed nor assigned
				if _, isSl := f.Type.Underlying().(*types.Slice); isSl && spec.write {
					continue
				}
				touch := fieldTouchBlocks(e, fn, owner, f.Name, spec.write)
				if len(touch) == 0 || touch[fn.Blocks[0]] {
					continue // never touched: C05.R1 reports that; touched at entry: on every path
				}
				for b := range reach(fn.Blocks[0], nil, touch) {
					ret, ok := b.Instrs[len(b.Instrs)-1].(*ssa.Return)
					if !ok || len(ret.Results) == 0 {
						continue
					}
					if spec.write {
						// error returns do not count
						switch v := ret.Results[0].(type) {
						case *ssa.Alloc, *ssa.MakeInterface:
							_ = v
							continue
						case *ssa.Const:
						default:
							// the result of a helper (slurpRemainder ...): may be nil, unless this is the `e != nil` edge
							if nonNilAt(fn, b, func(x ssa.Value) bool { return x == ret.Results[0] }) {
								continue
							}
						}
					}
					missing = append(missing, fmt.Sprintf("%s (return at %s)", f.Name, c.pos(ret.Pos())))
				}
			}
			sort.Strings(missing)
			verb := "printing"
			what := "the text form loses the field for the records that take that path, and does not read back to the same RDATA"
			if spec.write {
				verb = "assigning"
				what = "text that takes that path is accepted and the field silently keeps its zero value"
			}
			r.fn(fnDisplay(fn))
			r.check(len(missing) == 0, spec.rule, t.Name, c.pos(fn.Pos()), "every path", "%s.%s can return without %s %s: %s", t.Name, spec.method, verb, strings.Join(uniqStrings(missing), ", "), what)
		}
	}
}

// zeroPadded: a number formatted to a fixed width inside a record's text is padded with zeros, never with blanks
// (a blank is a field separator in the master-file format).
func zeroPadded(c *Ctx, r *Report, rule string) {
	r.rule(rule, 5, "fixed-width integer verbs in the printers' formats pad with zeros (flag 0 or a precision), not with blanks")
	e := newAliasEngine(c)
	var entries []*ssa.Function
	for _, T := range c.rrTypes() {
		if f := c.ssaFunc(T.Name + ".String"); f != nil {
			entries = append(entries, f)
		}
	}
	scope := e.reachable(entries)
	var fns []*ssa.Function
	for f := range scope {
		fns = append(fns, f)
	}
	sort.Slice(fns, func(i, j int) bool { return fnDisplay(fns[i]) < fnDisplay(fns[j]) })
	n := 0
	for _, f := range fns {
		for _, ci := range callsIn(f, "fmt.Sprintf", "fmt.Fprintf") {
			args := ci.Common().Args
			var format string
			found := false
			for _, a := range args {
				if k, ok := a.(*ssa.Const); ok && k.Value != nil && k.Value.Kind() == constant.String {
					format, found = constant.StringVal(k.Value), true
					break
				}
			}
			if !found {
				continue
			}
			var bad []string
			i := 0
			widths := 0
			for i < len(format) {
				if format[i] != '%' {
					i++
					continue
				}
				j := i + 1
				zero := false
				for j < len(format) && strings.ContainsRune("+-# 0", rune(format[j])) {
					if format[j] == '0' {
						zero = true
					}
					j++
				}
				w, p := 0, -1
				for j < len(format) && format[j] >= '0' && format[j] <= '9' {
					w = w*10 + int(format[j]-'0')
					j++
				}
				if j < len(format) && format[j] == '.' {
					j++
					p = 0
					for j < len(format) && format[j] >= '0' && format[j] <= '9' {
						p = p*10 + int(format[j]-'0')
						j++
					}
				}
				if j < len(format) && strings.ContainsRune("dxXob", rune(format[j])) && w > 0 {
					widths++
					if !zero && p < w {
						bad = append(bad, format[i:j+1])
					}
				}
				i = j + 1
			}
			if widths == 0 {
				continue
			}
			n++
			r.fn(fnDisplay(f))
			r.check(len(bad) == 0, rule, fmt.Sprintf("%s:format#%d", fnDisplay(f), n), c.pos(ci.Pos()), format, "the format %q pads %s with blanks: a value with fewer digits prints with blanks inside the field, which the zone parser reads as field separators (the text does not read back)", format, strings.Join(bad, ", "))
		}
	}
	if n == 0 {
		r.undecided(rule, "printers", "", "no fixed-width integer format found")
	}
}

// parseNarrowing: the value strconv.ParseUint / ParseInt yields for bit size N is converted only to integer types of
// at least N bits; narrowing silently wraps a number that was accepted because it fits N bits.
func parseNarrowing(c *Ctx, r *Report, rule string) {
	r.rule(rule, 60, "the result of strconv.ParseUint/ParseInt(…, N) is never converted to an integer type narrower than N bits")
	sizes := types.SizesFor("gc", "amd64")
	n := 0
	for _, f := range c.allFuncs() {
		for _, sub := range withAnon(f) {
			allInstrs(sub, func(in ssa.Instruction) {
				call, ok := in.(*ssa.Call)
				if !ok {
					return
				}
				cn := calleeNameSSA(&call.Call)
				if cn != "strconv.ParseUint" && cn != "strconv.ParseInt" {
					return
				}
				bits, okB := constIntOf(call.Call.Args[2])
				if !okB {
					return
				}
				if bits == 0 {
					bits = 64
				}
				for _, ref := range *call.Referrers() {
					ex, ok := ref.(*ssa.Extract)
					if !ok || ex.Index != 0 {
						continue
					}
					for _, r2 := range *ex.Referrers() {
						cv, ok := r2.(*ssa.Convert)
						if !ok {
							continue
						}
						bt, ok := cv.Type().Underlying().(*types.Basic)
						if !ok || bt.Info()&types.IsInteger == 0 {
							continue
						}
						n++
						m := sizes.Sizeof(bt) * 8
						r.fn(fnDisplay(sub))
						r.check(m >= bits, rule, fmt.Sprintf("%s:%s#%d", fnDisplay(sub), bt.Name(), n), c.pos(cv.Pos()), fmt.Sprintf("%d bits into %d", bits, m), "a number parsed with bit size %d is narrowed to %s: values that do not fit %d bits are accepted and wrap (CLASS65537 is read as class 1) instead of being refused", bits, bt.Name(), m)
					}
				}
			})
		}
	}
	if n == 0 {
		r.undecided(rule, "module", "", "no converted ParseUint result found")
	}
}

// c06GenerateInherits: the $GENERATE sub-parser takes over the includer's TTL state whenever there is one; the
// library default applies only when no TTL has been stated at all.
func c06GenerateInherits(c *Ctx, r *Report, rule string) {
	r.rule(rule, 1, "generate falls back to the default TTL only on the edge zp.defttl == nil")
	fn := c.ssaFunc("ZoneParser.generate")
	if fn == nil {
		r.cerr(rule, "ZoneParser.generate", "function not found")
		return
	}
	r.fn("ZoneParser.generate")
	n := 0
	for _, ci := range callsIn(fn, "(ZoneParser).SetDefaultTTL") {
		n++
		blk := ci.(ssa.Instruction).Block()
		// every way into this block is the nil edge of a test of zp.defttl: no other condition may send a parser that
		// has a TTL state to the default
		okAll := len(blk.Preds) > 0
		for _, p := range blk.Preds {
			ef, ok := edgeFact(p, blk)
			if !ok {
				okAll = false
				continue
			}
			bin, isB := ef.Atom.(*ssa.BinOp)
			isNilTest := false
			if isB && (bin.Op == token.EQL || bin.Op == token.NEQ) {
				if k, isK := bin.Y.(*ssa.Const); isK && k.Value == nil && anyIn(sliceOf(bin.X), readsField("ZoneParser", "defttl")) {
					isNilTest = (bin.Op == token.EQL) == ef.Holds
				}
			}
			if !isNilTest {
				okAll = false
			}
		}
		r.check(okAll, rule, fmt.Sprintf("generate:default-ttl#%d", n), c.pos(ci.Pos()), "only when defttl == nil", "the sub-parser is given the library default TTL on an edge other than `zp.defttl == nil`: generated records then get 3600 although a TTL was stated before the directive (the most recently stated TTL, or the configured default, is lost for the expansion only)")
	}
	if n == 0 {
		r.undecided(rule, "ZoneParser.generate", c.pos(fn.Pos()), "no SetDefaultTTL call found")
	}
}

// c07FalseIsEOF: when zlexer.Next reports "no more tokens" (false) the token it hands out is of class zEOF: the
// rest-of-line loops of the RDATA parsers (`for l.value != zNewline && l.value != zEOF`) end on it.
func c07FalseIsEOF(c *Ctx, r *Report, rule string) {
	fn := c.ssaFunc("zlexer.Next")
	eof, okK := c.constInt("zEOF")
	if fn == nil || !okK {
		r.cerr(rule, "zlexer.Next", "function or zEOF not found")
		return
	}
	n := 0
	for _, b := range fn.Blocks {
		ret, ok := b.Instrs[len(b.Instrs)-1].(*ssa.Return)
		if !ok || len(ret.Results) != 2 {
			continue
		}
		if v, isB := constBool(ret.Results[1]); !isB || v {
			continue
		}
		n++
		okTok := false
		if ld, ok := ret.Results[0].(*ssa.UnOp); ok {
			if al, ok := ld.X.(*ssa.Alloc); ok {
				for _, ref := range *al.Referrers() {
					fa, ok := ref.(*ssa.FieldAddr)
					if !ok || fieldNameOf(fa) != "value" {
						continue
					}
					for _, r2 := range *fa.Referrers() {
						if st, ok := r2.(*ssa.Store); ok {
							if k, isK := constIntOf(st.Val); isK && k == eof {
								okTok = true
							}
						}
					}
				}
			}
		}
		if k, ok := ret.Results[0].(*ssa.Const); ok && k.Value == nil && eof == 0 {
			okTok = true // the zero lex is of class zEOF
		}
		r.check(okTok, rule, fmt.Sprintf("zlexer.Next:false-return#%d", n), c.pos(ret.Pos()), "lex{value: zEOF}", "Next returns false with a token that is not the literal lex{value: zEOF}: after a lexer error the parsers that read to the end of the line (NSEC, NSEC3, CSYNC, SVCB, LOC, APL ...) never see zEOF or a newline and loop for ever")
	}
	if n == 0 {
		r.undecided(rule, "zlexer.Next", c.pos(fn.Pos()), "no (token, false) return found")
	}
}
