package main

import (
	"fmt"
	"go/token"
	"go/types"
	"strings"

	"golang.org/x/tools/go/ssa"
)

func init() { register("C12", true, true, checkC12) }

const c12Explanation = `Decided statically on every path of client.go/server.go (all build configurations in the thorough tier): (R1) stream framing on input: every stream read is 'binary.Read of a 2-octet big-endian length from the connection, then io.ReadFull from the same connection into a buffer of exactly that length' (readTCP, Conn.ReadMsgHeader, Conn.Read; Conn.Read refuses a length above len(p)); a raw Read on a connection is made only on the isPacketConn edge; (R2) stream framing on output: response.Write (TCP) and Conn.Write (stream) issue one Write of a fresh buffer of 2+len(m) octets whose first two octets are uint16(len(m)) big-endian and whose rest is a copy of m, only when len(m) <= MaxMsgSize (65535); datagram writes pass m itself; (R3) ID matching: ExchangeWithConnContext can return a nil error only when reply ID == query ID; the skip-and-retry loop exists only on the isPacketConn edge, the stream branch fails with ErrId; (R4) pooled receive buffers: in the per-request function no instruction after udpPool.Put reads the buffer; (R5) each request/connection gets a freshly allocated response writer that is not stored into the Server or a global. The decoded request sharing no memory with the receive buffer is decided under C16.R2. NOT decided: all interleavings, short reads/writes and early EOF at every offset: schedules and fault sequences - the facts above are the per-path necessary conditions.`

func checkC12(c *Ctx, r *Report) {
	r.Explanation = c12Explanation
	r.Trusted = []string{"go/ssa translation", "io.ReadFull / binary.Read semantics"}
	c12R1(c, r)
	c12R2(c, r)
	c12R3(c, r)
	c12R4(c, r)
	borrow(c, r, c14R1, "C14.R1.paths", "C12.R5.rejected-not-handled", 1, "a message the accept function rejected or ignored, or that did not decode, never reaches the handler", nil, "the handler is then given the library's own error reply (QR set, sections wiped) as if a client had sent it, and its answer is a second frame on the connection")
	c12UDPSizePrecedence(c, r, "C12.R3.udpsize-precedence")
	c12NoReleaseAfterServe(c, r, "C12.R4.no-release-after-serve")
	borrow(c, r, func(c *Ctx, r *Report) { c15Loop(c, r, "Transfer.inAxfr"); c15Loop(c, r, "Transfer.inIxfr") }, "C15.R2.no-error-guards", "C12.R2.transfer-id", 2, "every envelope of a transfer is delivered error-free only when its ID equals the query's", func(k string) bool { return strings.Contains(k, "q.Id == in.Id") }, "a stream exchange accepts a reply whose ID differs instead of failing with ErrId")
	borrow(c, r, checkC16, "C16.R2.no-buffer-alias", "C12.R4.no-buffer-alias", 100, "the decoded request shares no memory with the recycled receive buffer", nil, "the handler sees its request change when the buffer, back in the pool, receives another client's datagram")
	borrow(c, r, c14R1, "C14.R1.short-packet", "C12.R2.short-packet", 1, "only datagrams shorter than a header are dropped before the handler", nil, "a request of exactly twelve octets (a bare header) never reaches its handler and gets no reply")
	writeDeadline(c, r, "C12.R2.write-deadline")
	readErrorKept(c, r, "C12.R1.read-error-kept")
	readErrorNotOverwritten(c, r, "C12.R1.read-error-not-overwritten")
	readersCutToCount(c, r, "C12.R4.readers-cut-to-count")
	noReadAhead(c, r, "C12.R1.no-read-ahead")
	udpSessionWrite(c, r, "C12.R2.udp-session-write")
	matchingIdEndsWait(c, r, "C12.R3.matching-id-ends-wait")
	round12(c, r, "C12")
	round13(c, r, "C12")
}

func isConnRead(call *ssa.Call) bool {
	if !call.Call.IsInvoke() || call.Call.Method.Name() != "Read" {
		return false
	}
	return strings.HasSuffix(typeStr(call.Call.Value.Type()), "net.Conn")
}

func c12R1(c *Ctx, r *Report) {
	r.rule("C12.R1.stream-read", 3, "length-prefixed stream read: binary.Read(2 octets) then io.ReadFull of exactly that many from the same connection")
	r.rule("C12.R1.raw-read", 1, "raw connection reads only on the packet-connection edge")
	for _, name := range []string{"Server.readTCP", "Conn.ReadMsgHeader", "Conn.Read"} {
		fn := c.ssaFunc(name)
		if fn == nil {
			r.cerr("C12.R1.stream-read", name, "function not found")
			continue
		}
		r.fn(name)
		var problems []string
		brs := callsIn(fn, "binary.Read")
		rfs := callsIn(fn, "io.ReadFull")
		// the prefix is read either with binary.Read into a uint16, or with io.ReadFull into two octets that are then
		// decoded big-endian (what binary.Read does for a *uint16)
		var br, rf *ssa.Call
		var isLenLoad func(v ssa.Value) bool
		constLen2 := func(buf ssa.Value) bool {
			v := buf
			for {
				if sl, ok := v.(*ssa.Slice); ok && sl.Low == nil {
					if sl.High != nil {
						if k, isK := constIntOf(sl.High); !isK || k != 2 {
							break
						}
					}
					v = sl.X
					continue
				}
				break
			}
			switch t := v.(type) {
			case *ssa.MakeSlice:
				k, ok := constIntOf(t.Len)
				return ok && k == 2
			case *ssa.Alloc:
				arr, ok := t.Type().Underlying().(*types.Pointer).Elem().Underlying().(*types.Array)
				return ok && arr.Len() == 2
			}
			return false
		}
		switch {
		case len(brs) == 1 && len(rfs) == 1:
			br, rf = brs[0].(*ssa.Call), rfs[0].(*ssa.Call)
			// length cell: *uint16
			var cell ssa.Value
			data := br.Call.Args[2]
			if mi, ok := data.(*ssa.MakeInterface); ok {
				data = mi.X
			}
			if al, ok := data.(*ssa.Alloc); ok {
				if b, ok := al.Type().Underlying().(*types.Pointer).Elem().Underlying().(*types.Basic); ok && b.Kind() == types.Uint16 {
					cell = al
				}
			}
			if cell == nil {
				problems = append(problems, "the length prefix is not read into a uint16")
			}
			if !anyIn(sliceOf(br.Call.Args[1]), func(v ssa.Value) bool {
				g, ok := v.(*ssa.Global)
				return ok && g.Name() == "BigEndian"
			}) {
				problems = append(problems, "the length prefix is not read big-endian")
			}
			isLenLoad = func(v ssa.Value) bool {
				u, ok := v.(*ssa.UnOp)
				return ok && u.Op == token.MUL && u.X == cell
			}
		case len(brs) == 0 && len(rfs) == 2:
			a, b := rfs[0].(*ssa.Call), rfs[1].(*ssa.Call)
			if constLen2(b.Call.Args[1]) && !constLen2(a.Call.Args[1]) {
				a, b = b, a
			}
			if !constLen2(a.Call.Args[1]) || constLen2(b.Call.Args[1]) {
				problems = append(problems, "two io.ReadFull calls, but not one into a two-octet prefix buffer and one into the body")
				break
			}
			br, rf = a, b
			prefixBuf := sliceOf(br.Call.Args[1])
			decoded := false
			isLenLoad = func(v ssa.Value) bool {
				call, ok := v.(*ssa.Call)
				if !ok || !strings.HasSuffix(calleeNameSSA(&call.Call), "bigEndian).Uint16") || len(call.Call.Args) == 0 {
					return false
				}
				for o := range sliceOf(call.Call.Args[len(call.Call.Args)-1]) {
					if _, isAlloc := o.(*ssa.Alloc); isAlloc && prefixBuf[o] {
						return true
					}
					if _, isMk := o.(*ssa.MakeSlice); isMk && prefixBuf[o] {
						return true
					}
				}
				return false
			}
			allInstrs(fn, func(in ssa.Instruction) {
				if v, ok := in.(ssa.Value); ok && isLenLoad(v) {
					decoded = true
				}
			})
			if !decoded {
				problems = append(problems, "the two prefix octets are not decoded with binary.BigEndian.Uint16")
			}
		default:
			problems = append(problems, fmt.Sprintf("%d binary.Read and %d io.ReadFull calls; a stream message must be read as length prefix + body", len(brs), len(rfs)))
		}
		if br != nil && rf != nil && isLenLoad != nil {
			// same reader
			same := func(a, b ssa.Value) bool {
				ua, ub := a, b
				if mi, ok := ua.(*ssa.MakeInterface); ok {
					ua = mi.X
				}
				if mi, ok := ub.(*ssa.MakeInterface); ok {
					ub = mi.X
				}
				if ci, ok := ua.(*ssa.ChangeInterface); ok {
					ua = ci.X
				}
				if ci, ok := ub.(*ssa.ChangeInterface); ok {
					ub = ci.X
				}
				if ua == ub {
					return true
				}
				// two loads of the same field
				la, oka := ua.(*ssa.UnOp)
				lb, okb := ub.(*ssa.UnOp)
				if oka && okb {
					fa, okfa := la.X.(*ssa.FieldAddr)
					fb, okfb := lb.X.(*ssa.FieldAddr)
					return okfa && okfb && fa.Field == fb.Field && fa.X == fb.X
				}
				return false
			}
			if !same(br.Call.Args[0], rf.Call.Args[0]) {
				problems = append(problems, "length prefix and body are read from different readers")
			}
			if !precedes(br, rf) {
				problems = append(problems, "the body is read before the length prefix")
			}
			// buffer of exactly `length` octets
			exact := false
			switch b := rf.Call.Args[1].(type) {
			case *ssa.MakeSlice:
				if anyIn(shallowOrigins(b.Len), isLenLoad) && len(shallowOrigins(b.Len)) == 1 {
					exact = true
				}
			case *ssa.Slice:
				if b.Low == nil && b.High != nil && anyIn(shallowOrigins(b.High), isLenLoad) && len(shallowOrigins(b.High)) == 1 {
					exact = true
					// refuse lengths above the caller's buffer
					lenOfBuf := func(v ssa.Value) bool {
						cl, ok := v.(*ssa.Call)
						return ok && calleeNameSSA(&cl.Call) == "builtin.len" && cl.Call.Args[0] == b.X
					}
					if miss := guardsMissing(fn, rf.Block(), []Guard{{Name: "int(length) <= len(p)", Op: "lt", A: lenOfBuf, B: func(v ssa.Value) bool { return anyIn(shallowOrigins(v), isLenLoad) }, Holds: false}}); len(miss) > 0 {
						problems = append(problems, "a length above len(p) is not refused before slicing p[:length]")
					}
				}
			}
			if !exact {
				problems = append(problems, fmt.Sprintf("the body buffer %v does not have exactly the announced length", rf.Call.Args[1]))
			}
			// binary.Read's error leads to an error return
			// (the ReadFull is on the err == nil edge of binary.Read)
			if miss := guardsMissing(fn, rf.Block(), []Guard{{Name: "binary.Read err == nil", Op: "eq", A: isValue(br), B: isNilConst, Holds: true}}); len(miss) > 0 {
				problems = append(problems, "the body is read although reading the length prefix failed")
			}
			// once the prefix was consumed the body is consumed too: no return between the two leaves the
			// payload in the stream (the next read on this connection would take payload octets for a prefix);
			// the only accepted refusal is io.ErrShortBuffer for a caller-supplied buffer that is too small
			errNil := Guard{Name: "binary.Read err == nil", Op: "eq", A: isValue(br), B: isNilConst, Holds: true}
			okAll, blk := mustPassExit(fn, br.Block(), instrIndex(br), func(in ssa.Instruction) bool { return in == ssa.Instruction(rf) }, func(ret *ssa.Return) bool {
				if len(guardsMissing(fn, ret.Block(), []Guard{errNil})) > 0 {
					return false // the prefix could not be read
				}
				res := unspill(ret.Block(), ret)
				if anyIn(sliceOf(res[len(res)-1]), isGlobal("ErrShortBuffer")) {
					return false
				}
				return true
			})
			if !okAll {
				problems = append(problems, fmt.Sprintf("%s: returns after the length prefix was read but before the announced octets were read: they stay in the stream and the next message on this connection is framed from the middle of this one", c.pos(blk.Instrs[len(blk.Instrs)-1].Pos())))
			}
		}
		r.check(len(problems) == 0, "C12.R1.stream-read", name, c.pos(fn.Pos()), "uint16 big-endian length, then exactly that many octets", "%s", strings.Join(problems, "; "))
	}
	// raw reads
	var problems []string
	n := 0
	for _, m := range c.allFuncs() {
		file := c.Fset.Position(m.Pos()).Filename
		if !(strings.HasSuffix(file, "/client.go") || strings.HasSuffix(file, "/server.go") || strings.HasSuffix(file, "/xfr.go")) {
			continue
		}
		allInstrs(m, func(in ssa.Instruction) {
			call, ok := in.(*ssa.Call)
			if !ok || !isConnRead(call) {
				return
			}
			n++
			if miss := guardsMissing(m, call.Block(), []Guard{{Name: "isPacketConn(conn)", Op: "call", A: callsFunc("isPacketConn"), Holds: true}}); len(miss) > 0 {
				problems = append(problems, fmt.Sprintf("%s: %s reads the connection raw outside the packet-connection edge: on a stream a read may return any part of the length prefix or the body", c.pos(call.Pos()), fnDisplay(m)))
			}
		})
	}
	if n == 0 {
		problems = append(problems, "no packet read found")
	}
	r.check(len(problems) == 0, "C12.R1.raw-read", "client.go/server.go", "", fmt.Sprintf("%d raw reads, all on the packet edge", n), "%s", strings.Join(problems, "; "))
}

// allFuncs lists the source functions of package dns (with closures).
func (c *Ctx) allFuncs() []*ssa.Function {
	seen := map[*ssa.Function]bool{}
	var out []*ssa.Function
	add := func(f *ssa.Function) {
		for _, a := range withAnon(f) {
			if !seen[a] && len(a.Blocks) > 0 && a.Synthetic == "" {
				seen[a] = true
				out = append(out, a)
			}
		}
	}
	for _, m := range c.SSA.Members {
		switch t := m.(type) {
		case *ssa.Function:
			add(t)
		case *ssa.Type:
			for _, tt := range []types.Type{t.Type(), types.NewPointer(t.Type())} {
				ms := c.Prog.MethodSets.MethodSet(tt)
				for i := 0; i < ms.Len(); i++ {
					if f := c.Prog.MethodValue(ms.At(i)); f != nil && f.Pkg == c.SSA {
						add(f)
					}
				}
			}
		}
	}
	return out
}

func c12R2(c *Ctx, r *Report) {
	r.rule("C12.R2.stream-write", 2, "stream writes: one Write of [uint16(len(m)) big-endian | m] in a fresh buffer, refused above 65535")
	maxMsg, _ := c.constInt("MaxMsgSize")
	for _, spec := range []struct{ fn, param string }{{"response.Write", "m"}, {"Conn.Write", "p"}} {
		fn := c.ssaFunc(spec.fn)
		if fn == nil {
			r.cerr("C12.R2.stream-write", spec.fn, "function not found")
			continue
		}
		r.fn(spec.fn)
		m := paramOf(fn, spec.param)
		var problems []string
		if maxMsg != 65535 {
			problems = append(problems, fmt.Sprintf("MaxMsgSize = %d; a 2-octet length prefix carries at most 65535", maxMsg))
		}
		nStream := 0
		allInstrs(fn, func(in ssa.Instruction) {
			call, ok := in.(*ssa.Call)
			if !ok || !call.Call.IsInvoke() || (call.Call.Method.Name() != "Write" && call.Call.Method.Name() != "WriteTo") {
				return
			}
			arg := call.Call.Args[0]
			if arg == m {
				// datagram write: must be on a packet edge (udp != nil / isPacketConn)
				return
			}
			mk, ok := arg.(*ssa.MakeSlice)
			okPrefix, okCopy := false, false
			var frameDone ssa.Instruction = call // the prefix has to be written before this
			if ap, isAp := arg.(*ssa.Call); !ok && isAp && calleeNameSSA(&ap.Call) == "builtin.append" && len(ap.Call.Args) == 2 && ap.Call.Args[1] == m {
				// the frame is a fresh two-octet prefix with the message appended to it
				if mk2, isMk := ap.Call.Args[0].(*ssa.MakeSlice); isMk {
					if k, isK := constIntOf(mk2.Len); isK && k == 2 {
						mk, ok, okCopy, frameDone = mk2, true, true, ap
					}
				}
			}
			if ap, isAp := arg.(*ssa.Call); !ok && isAp && calleeNameSSA(&ap.Call) == "builtin.append" && len(ap.Call.Args) == 2 && ap.Call.Args[1] == m {
				// binary.BigEndian.AppendUint16(make([]byte, 0, n), uint16(len(m))) with the message appended to it
				if pre, isCall := ap.Call.Args[0].(*ssa.Call); isCall {
					name := calleeNameSSA(&pre.Call)
					if strings.HasSuffix(name, "bigEndian).AppendUint16") && len(pre.Call.Args) == 3 {
						mk2, isMk := pre.Call.Args[1].(*ssa.MakeSlice)
						v := pre.Call.Args[2]
						if cv, isCv := v.(*ssa.Convert); isCv {
							v = cv.X
						}
						l2, isLen := v.(*ssa.Call)
						if isMk && isLen && calleeNameSSA(&l2.Call) == "builtin.len" && l2.Call.Args[0] == m {
							if k, isK := constIntOf(mk2.Len); isK && k == 0 {
								mk, ok, okCopy, okPrefix, frameDone = mk2, true, true, true, ap
							}
						}
					}
				}
			}
			if !ok {
				problems = append(problems, fmt.Sprintf("%s: writes %v, neither the message nor a freshly framed copy", c.pos(call.Pos()), arg))
				return
			}
			nStream++
			// length 2+len(m)
			if !okCopy {
				base, k := offsetOf(mk.Len)
				lc, isLen := base.(*ssa.Call)
				if !isLen || calleeNameSSA(&lc.Call) != "builtin.len" || lc.Call.Args[0] != m || k != 2 {
					problems = append(problems, fmt.Sprintf("%s: the frame is %v octets long, want 2+len(message)", c.pos(mk.Pos()), mk.Len))
				}
			}
			for _, a := range byteAccesses(fn) {
				if a.Write && a.Buf == mk && a.Base == nil && a.K == 0 && a.N == 2 {
					v := a.Val
					if cv, ok := v.(*ssa.Convert); ok {
						v = cv.X
					}
					if l2, ok := v.(*ssa.Call); ok && calleeNameSSA(&l2.Call) == "builtin.len" && l2.Call.Args[0] == m && precedes(a.Instr, frameDone) {
						okPrefix = true
					}
				}
			}
			for _, cp := range callsIn(fn, "builtin.copy") {
				dst, isSl := cp.Common().Args[0].(*ssa.Slice)
				if isSl && dst.X == mk && dst.High == nil && cp.Common().Args[1] == m {
					if k2, ok := constIntOf(dst.Low); ok && k2 == 2 && precedes(cp.(ssa.Instruction), call) {
						okCopy = true
					}
				}
			}
			if !okPrefix {
				problems = append(problems, "the first two octets of the frame are not uint16(len(message)) big-endian")
			}
			if !okCopy {
				problems = append(problems, "the message is not copied to offset 2 of the frame")
			}
			// size guard
			lenM := func(v ssa.Value) bool {
				cl, ok := v.(*ssa.Call)
				return ok && calleeNameSSA(&cl.Call) == "builtin.len" && cl.Call.Args[0] == m
			}
			_, hi, _, hasHi := intervalAt(fn, call.Block(), lenM)
			if !hasHi || hi != 65535 {
				problems = append(problems, fmt.Sprintf("%s: a message longer than 65535 octets is not refused before being framed (its length would wrap in the prefix)", c.pos(call.Pos())))
			}
		})
		if nStream != 1 {
			problems = append(problems, fmt.Sprintf("%d framed stream writes", nStream))
		}
		r.check(len(problems) == 0, "C12.R2.stream-write", spec.fn, c.pos(fn.Pos()), "2+len(m) octets, prefix, copy, <= 65535", "%s", strings.Join(problems, "; "))
	}
}

func c12R3(c *Ctx, r *Report) {
	r.rule("C12.R3.id-match", 2, "an exchange returns without error only for a reply whose ID equals the query's; replies are skipped only on packet connections")
	fn := c.ssaFunc("Client.ExchangeWithConnContext")
	if fn == nil {
		r.cerr("C12.R3.id-match", "Client.ExchangeWithConnContext", "function not found")
		return
	}
	r.fn("Client.ExchangeWithConnContext")
	m := paramOf(fn, "m")
	var problems []string
	isReply := func(v ssa.Value) bool {
		e, ok := v.(*ssa.Extract)
		if !ok || e.Index != 0 {
			return false
		}
		call, ok := e.Tuple.(*ssa.Call)
		return ok && calleeNameSSA(&call.Call) == "(Conn).ReadMsg"
	}
	idEq := Guard{Name: "r.Id == m.Id", Op: "eq", A: fieldPathOf(func(v ssa.Value) bool { return isReply(v) || anyIn(shallowOrigins(v), isReply) }, "MsgHdr.Id"), B: fieldPathOf(isValue(m), "MsgHdr.Id"), Holds: true}
	nOK := 0
	for _, rp := range returnPoints(fn, 2) {
		v := rp.Results[2]
		if isErrorValue(fn, rp.Block, v, rp.EdgeFacts...) {
			continue
		}
		if isNilConst(v) {
			problems = append(problems, fmt.Sprintf("%s: returns a constant nil error", c.pos(rp.Pos)))
			continue
		}
		// a possibly-nil error: the reply read on this path must carry the query's ID
		nOK++
		found := false
		for _, f := range rp.factsOf(fn) {
			b, ok := f.Atom.(*ssa.BinOp)
			if !ok || (b.Op != token.EQL && b.Op != token.NEQ) {
				continue
			}
			holds := f.Holds
			if b.Op == token.NEQ {
				holds = !holds
			}
			sx, sy := sliceOf(b.X), sliceOf(b.Y)
			isRid := func(s map[ssa.Value]bool) bool {
				return anyIn(s, readsField("MsgHdr", "Id")) && anyIn(s, func(x ssa.Value) bool { return isReply(x) })
			}
			isMid := func(s map[ssa.Value]bool) bool {
				return anyIn(s, readsField("MsgHdr", "Id")) && anyIn(s, isValue(m))
			}
			if holds && ((isRid(sx) && isMid(sy)) || (isRid(sy) && isMid(sx))) {
				found = true
			}
		}
		if !found {
			problems = append(problems, fmt.Sprintf("%s: a nil error can be returned for a reply whose ID was not found equal to the query's", c.pos(rp.Pos)))
		}
	}
	_ = idEq
	if nOK == 0 {
		problems = append(problems, "no success path found")
	}
	r.check(len(problems) == 0, "C12.R3.id-match", "ExchangeWithConnContext:success", c.pos(fn.Pos()), fmt.Sprintf("%d success paths guarded by ID equality", nOK), "%s", strings.Join(problems, "; "))
	// skip loop only on packet connections; stream mismatch -> ErrId
	problems = nil
	back := backEdges(fn)
	inLoop := func(b *ssa.BasicBlock) bool {
		for e := range back {
			if reach(e.to, nil, nil)[b] && reach(b, nil, nil)[e.from] {
				return true
			}
		}
		return false
	}
	nLoop, nStraight := 0, 0
	for _, ci := range callsIn(fn, "(Conn).ReadMsg") {
		facts := factsAt(fn, ci.Block())
		pkt := ""
		for _, f := range facts {
			if matchGuard(f, Guard{Op: "call", A: callsFunc("isPacketConn"), Holds: true}) {
				pkt = "packet"
			}
			if matchGuard(f, Guard{Op: "call", A: callsFunc("isPacketConn"), Holds: false}) {
				pkt = "stream"
			}
		}
		if inLoop(ci.Block()) {
			nLoop++
			if pkt != "packet" {
				problems = append(problems, fmt.Sprintf("%s: replies are re-read in a loop on a connection not established to be a packet connection by isPacketConn (a foreign-ID reply on a stream would be skipped instead of failing with ErrId)", c.pos(ci.Pos())))
			}
		} else {
			nStraight++
			if pkt != "stream" {
				problems = append(problems, fmt.Sprintf("%s: the single-read branch is not the !isPacketConn branch", c.pos(ci.Pos())))
			}
		}
	}
	if nLoop != 1 || nStraight != 1 {
		problems = append(problems, fmt.Sprintf("%d looping and %d single reads", nLoop, nStraight))
	}
	// ErrId assigned on the stream branch
	okErrId := false
	allInstrs(fn, func(in ssa.Instruction) {
		u, ok := in.(*ssa.UnOp)
		if !ok || u.Op != token.MUL {
			return
		}
		if g, isG := u.X.(*ssa.Global); isG && g.Name() == "ErrId" {
			for _, f := range factsAt(fn, u.Block()) {
				if matchGuard(f, Guard{Op: "call", A: callsFunc("isPacketConn"), Holds: false}) {
					okErrId = true
				}
			}
		}
	})
	if !okErrId {
		problems = append(problems, "a stream reply with a foreign ID does not yield ErrId")
	}
	r.check(len(problems) == 0, "C12.R3.id-match", "ExchangeWithConnContext:branches", c.pos(fn.Pos()), "loop on packets, ErrId on streams", "%s", strings.Join(problems, "; "))
	// the skip loop ends "when the deadline arrives": the read deadline armed before it is the earlier of the client's
	// own read timeout and the context's deadline, decided by comparing the context's deadline with the read deadline itself
	{
		var problems []string
		nSet := 0
		for _, kind := range []string{"SetReadDeadline", "SetWriteDeadline"} {
			for _, ci := range callsIn(fn, "(Conn)."+kind, "(net.Conn)."+kind) {
				nSet++
				arg := ci.Common().Args[len(ci.Common().Args)-1]
				var own ssa.Value
				var ctxEdges []int
				phi, isPhi := arg.(*ssa.Phi)
				if !isPhi {
					problems = append(problems, fmt.Sprintf("%s: %s is not given min(own timeout, context deadline)", c.pos(ci.Pos()), kind))
					continue
				}
				leaves := phiLeaves(phi)
				for _, l := range leaves {
					if call, ok := l.(*ssa.Call); ok && calleeNameSSA(&call.Call) == "(time.Time).Add" {
						own = l
					}
				}
				_ = ctxEdges
				if own == nil {
					problems = append(problems, fmt.Sprintf("%s: %s does not start from now + the client's timeout", c.pos(ci.Pos()), kind))
					continue
				}
				// every edge that carries the context's deadline is taken on deadline.Before(<this very deadline>)
				var check func(p *ssa.Phi, seen map[*ssa.Phi]bool)
				check = func(p *ssa.Phi, seen map[*ssa.Phi]bool) {
					if seen[p] {
						return
					}
					seen[p] = true
					for i, e := range p.Edges {
						if q, ok := e.(*ssa.Phi); ok {
							check(q, seen)
							continue
						}
						if e == own {
							continue
						}
						pred := p.Block().Preds[i]
						fs := factsAt(fn, pred)
						if ef, ok := edgeFact(pred, p.Block()); ok {
							fs = append(fs, ef)
						}
						okCmp := false
						for _, fc := range fs {
							call, isCall := fc.Atom.(*ssa.Call)
							if !isCall || calleeNameSSA(&call.Call) != "(time.Time).Before" || !fc.Holds {
								continue
							}
							if call.Call.Args[0] == e && call.Call.Args[1] == own {
								okCmp = true
							}
						}
						if !okCmp {
							problems = append(problems, fmt.Sprintf("%s: the context's deadline replaces the %s deadline on a comparison with another value, not with that deadline itself: with ReadTimeout != WriteTimeout a context deadline between the two is not applied to one of them (the datagram skip loop then runs past the context's deadline)", c.pos(ci.Pos()), strings.TrimSuffix(strings.TrimPrefix(kind, "Set"), "Deadline")))
						}
					}
				}
				check(phi, map[*ssa.Phi]bool{})
			}
		}
		if nSet != 2 {
			problems = append(problems, fmt.Sprintf("%d deadline calls, want SetWriteDeadline and SetReadDeadline", nSet))
		}
		r.check(len(uniqStrings(problems)) == 0, "C12.R3.id-match", "ExchangeWithConnContext:deadlines", c.pos(fn.Pos()), "min(own, ctx) each by its own comparison", "%s", strings.Join(uniqStrings(problems), "; "))
	}
}

func c12R4(c *Ctx, r *Report) {
	r.rule("C12.R4.pool-release", 2, "no use of the receive buffer after it was returned to the pool in the per-request function")
	r.rule("C12.R5.fresh-writer", 2, "a fresh response writer per request/connection, not stored into shared state")
	fn := c.ssaFunc("Server.serveDNS")
	if fn == nil {
		r.cerr("C12.R4.pool-release", "Server.serveDNS", "function not found")
		return
	}
	r.fn("Server.serveDNS")
	m := paramOf(fn, "m")
	n := 0
	// a release: Put(m[...]) itself, or a helper of the package that is handed m and puts that parameter back
	releases := func(call *ssa.Call) bool {
		if calleeNameSSA(&call.Call) == "(sync.Pool).Put" {
			return anyIn(sliceOf(call.Call.Args[1]), isValue(m))
		}
		g := call.Call.StaticCallee()
		if g == nil || g.Pkg != fn.Pkg || len(g.Blocks) == 0 {
			return false
		}
		for i, a := range call.Call.Args {
			if a != m || i >= len(g.Params) {
				continue
			}
			p := g.Params[i]
			for _, ci := range callsIn(g, "(sync.Pool).Put") {
				if anyIn(sliceOf(ci.Common().Args[1]), isValue(p)) {
					return true
				}
			}
		}
		return false
	}
	allInstrs(fn, func(in ssa.Instruction) {
		call, ok := in.(*ssa.Call)
		if !ok || !releases(call) {
			return
		}
		n++
		var problems []string
		// instructions after the Put
		after := map[ssa.Instruction]bool{}
		blk := call.Block()
		for i := instrIndex(call) + 1; i < len(blk.Instrs); i++ {
			after[blk.Instrs[i]] = true
		}
		for b := range reach(blk, nil, nil) {
			if b == blk {
				// reachable again only through a cycle
				continue
			}
			for _, x := range b.Instrs {
				after[x] = true
			}
		}
		for x := range after {
			for _, op := range x.Operands(nil) {
				if *op == m {
					problems = append(problems, fmt.Sprintf("%s: the receive buffer is used after being returned to the pool (another request may already be reading into it)", c.pos(x.Pos())))
				}
			}
		}
		r.check(len(problems) == 0, "C12.R4.pool-release", fmt.Sprintf("Server.serveDNS:Put#%d", n), c.pos(call.Pos()), "no later use of m", "%s", strings.Join(uniqStrings(problems), "; "))
	})
	if n == 0 {
		r.fail("C12.R4.pool-release", "Server.serveDNS", c.pos(fn.Pos()), "the receive buffer is never returned to the pool")
	}
	for _, name := range []string{"Server.serveUDPPacket", "Server.serveTCPConn"} {
		f := c.ssaFunc(name)
		if f == nil {
			r.cerr("C12.R5.fresh-writer", name, "function not found")
			continue
		}
		r.fn(name)
		var w *ssa.Alloc
		allInstrs(f, func(in ssa.Instruction) {
			if al, ok := in.(*ssa.Alloc); ok {
				if nm := derefNamed(al.Type()); nm != nil && nm.Obj().Name() == "response" {
					w = al
				}
			}
		})
		var problems []string
		cells := map[*ssa.Alloc]bool{}
		if w == nil {
			problems = append(problems, "no freshly allocated response writer")
		} else {
			allInstrs(f, func(in ssa.Instruction) {
				st, ok := in.(*ssa.Store)
				if !ok {
					return
				}
				v := st.Val
				if mi, ok := v.(*ssa.MakeInterface); ok {
					v = mi.X
				}
				if v != w {
					return
				}
				// allowed: into w's own fields
				if fa, ok := st.Addr.(*ssa.FieldAddr); ok && fa.X == w {
					return
				}
				// allowed: the function's own variable (a cell of its own when a closure of this function captures w)
				if cell, ok := st.Addr.(*ssa.Alloc); ok && cell.Parent() == f {
					cells[cell] = true
					return
				}
				problems = append(problems, fmt.Sprintf("%s: the response writer is stored into %v (shared between requests)", c.pos(st.Pos()), st.Addr))
			})
			// serveDNS gets this writer
			okPass := false
			for _, ci := range callsIn(f, "(Server).serveDNS") {
				a := ci.Common().Args[2]
				if ld, ok := a.(*ssa.UnOp); ok {
					if cell, ok := ld.X.(*ssa.Alloc); ok && cells[cell] {
						a = w
					}
				}
				if a == w {
					okPass = true
				}
			}
			if !okPass {
				problems = append(problems, "serveDNS is not given the fresh writer")
			}
		}
		r.check(len(problems) == 0, "C12.R5.fresh-writer", name, c.pos(f.Pos()), "new(response) per call", "%s", strings.Join(problems, "; "))
	}
	// what goes back into the buffer pool has the pool's element size: a short slice would be handed to a later read
	r.rule("C12.R4.pool-put-size", 2, "every buffer returned to the UDP pool is re-sliced to srv.UDPSize (or is the untouched buffer just taken from it), unless every Get compares the length with srv.UDPSize")
	nPut := 0
	getsGuarded := poolGetsGuarded(c)
	for _, f := range c.allFuncs() {
		name := fnDisplay(f)
		for _, ci := range callsIn(f, "(sync.Pool).Put") {
			if !anyIn(sliceOf(ci.Common().Args[0]), readsField("Server", "udpPool")) {
				continue
			}
			nPut++
			arg := ci.Common().Args[1]
			if mi, ok := arg.(*ssa.MakeInterface); ok {
				arg = mi.X
			}
			ok := false
			if sl, isSl := arg.(*ssa.Slice); isSl && sl.Low == nil && sl.High != nil && anyIn(sliceOf(sl.High), readsField("Server", "UDPSize")) {
				ok = true
			}
			if ta, isTA := arg.(*ssa.TypeAssert); isTA {
				if call, isCall := ta.X.(*ssa.Call); isCall && calleeNameSSA(&call.Call) == "(sync.Pool).Get" {
					ok = true
				}
			}
			if ex, isEx := arg.(*ssa.Extract); isEx {
				// m, ok := Get().([]byte)
				if ta, isTA := ex.Tuple.(*ssa.TypeAssert); isTA {
					if call, isCall := ta.X.(*ssa.Call); isCall && calleeNameSSA(&call.Call) == "(sync.Pool).Get" {
						ok = true
					}
				}
			}
			if call, isCall := arg.(*ssa.Call); isCall {
				// the untouched result of a helper that hands out full-size buffers only
				if g := call.Call.StaticCallee(); g != nil && fullSizeBuffers(g) {
					ok = true
				}
			}
			if !ok && getsGuarded {
				// a buffer that enters the pool short never reaches a read: the Get side compares its length
				// with srv.UDPSize and drops it (C14.R1.pool-get-size decides that)
				r.ok("C12.R4.pool-put-size", fmt.Sprintf("%s:Put#%d", name, nPut), c.pos(ci.Pos()), "not re-sliced, but every Get checks the length")
				continue
			}
			r.check(ok, "C12.R4.pool-put-size", fmt.Sprintf("%s:Put#%d", name, nPut), c.pos(ci.Pos()), "m[:UDPSize]", "a buffer goes back into the pool at the length of the datagram it last held, not re-sliced to srv.UDPSize: the next read that gets it can take at most that many octets, so later (larger) requests are truncated and dropped")
		}
	}
	// a TCP connection reuses its writer: per-request state is reset for every request
	r.rule("C12.R5.writer-reset", 1, "the per-request TSIG state of a reused response writer is reset before the handler runs")
	if status, chain, pos, ok := serverTsigState(c); !ok {
		r.cerr("C12.R5.writer-reset", "Server.serveDNS", "function not found")
	} else {
		all := append(append([]string{}, status...), chain...)
		r.check(len(all) == 0, "C12.R5.writer-reset", "Server.serveDNS", pos, "tsigStatus, tsigTimersOnly, tsigRequestMAC", "%s", strings.Join(all, "; "))
	}
}

// fullSizeBuffers: every value g returns is a buffer just taken from the UDP pool or a fresh make([]byte, srv.UDPSize).
func fullSizeBuffers(g *ssa.Function) bool {
	if len(g.Blocks) == 0 || g.Signature.Results().Len() != 1 {
		return false
	}
	n := 0
	for _, b := range g.Blocks {
		ret, ok := b.Instrs[len(b.Instrs)-1].(*ssa.Return)
		if !ok {
			continue
		}
		for _, l := range phiLeaves(ret.Results[0]) {
			n++
			switch t := l.(type) {
			case *ssa.TypeAssert:
				call, ok := t.X.(*ssa.Call)
				if !ok || calleeNameSSA(&call.Call) != "(sync.Pool).Get" {
					return false
				}
			case *ssa.MakeSlice:
				if !anyIn(sliceOf(t.Len), readsField("Server", "UDPSize")) {
					return false
				}
			default:
				return false
			}
		}
	}
	return n > 0
}

// poolGetsGuarded: every buffer taken from the UDP pool is size-checked before use (the pool-get-size rule holds).
func poolGetsGuarded(c *Ctx) bool {
	sub := newReport("tmp", "quick")
	poolGetSize(c, sub, "tmp.get", "")
	n := 0
	for _, o := range sub.obls {
		if o.Rule != "tmp.get" {
			continue
		}
		n++
		if o.Status != stOK {
			return false
		}
	}
	return n > 0
}
