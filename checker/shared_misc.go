package main

import (
	"fmt"
	"go/token"
	"strings"

	"golang.org/x/tools/go/ssa"
)

// intToBytesRule: intToBytes(i, length) left-pads the big-endian octets of i to exactly length octets whatever
// the number of leading zero octets Bytes() dropped: the padded result is a make of `length` octets with the
// value copied to its end.
func intToBytesRule(c *Ctx, r *Report, rule string) {
	fn := c.ssaFunc("intToBytes")
	if fn == nil {
		r.cerr(rule, "intToBytes", "function not found")
		return
	}
	r.fn("intToBytes")
	length := fn.Params[1]
	var problems []string
	n := 0
	for _, rp := range returnPoints(fn, 0) {
		v := rp.Results[0]
		// the unpadded value itself is returned only when it is already long enough
		if call, ok := v.(*ssa.Call); ok && strings.HasSuffix(calleeNameSSA(&call.Call), ".Bytes") {
			short := false
			for _, f := range rp.factsOf(fn) {
				if matchGuard(f, Guard{Op: "lt", A: callsFunc("builtin.len"), B: isValue(length), Holds: false}) {
					short = true
				}
			}
			if !short {
				problems = append(problems, fmt.Sprintf("%s: the unpadded octets are returned without len(buf) >= length having been established", c.pos(rp.Pos)))
			}
			continue
		}
		n++
		ok := false
		for o := range shallowOrigins(v) {
			if mk, isMk := o.(*ssa.MakeSlice); isMk && mk.Len == length {
				ok = true
			}
		}
		if !ok {
			problems = append(problems, fmt.Sprintf("%s: the padded result is not a buffer of exactly `length` octets: a value that lost more than one leading zero octet comes out short (an ECDSA r or s below 2^(8(n-2)) gives a 63- or 95-octet signature)", c.pos(rp.Pos)))
		}
	}
	// the value is copied to the end: copy(b[length-len(buf):], buf)
	okCopy := false
	for _, ci := range callsIn(fn, "builtin.copy") {
		if sl, isSl := ci.Common().Args[0].(*ssa.Slice); isSl && sl.Low != nil && sl.High == nil {
			if sub, isSub := sl.Low.(*ssa.BinOp); isSub && sub.Op == token.SUB && sub.X == length {
				okCopy = true
			}
		}
	}
	if n > 0 && !okCopy {
		problems = append(problems, "the value is not copied to the end of the padded buffer (copy(b[length-len(buf):], buf))")
	}
	if n == 0 {
		problems = append(problems, "no padded result")
	}
	r.check(len(problems) == 0, rule, "intToBytes", c.pos(fn.Pos()), "make(length); copy to the end", "%s", strings.Join(uniqStrings(problems), "; "))
}
