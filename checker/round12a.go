package main

// Rules added after the twelfth round of independent breaking changes.

import (
	"strings"
)

var _ = strings.Join

// round12 runs, under property p, the rules and borrowed rules that were added after round 12.
func round12(c *Ctx, r *Report, p string) {
	switch p {
	case "C01":
		packSizeRefusalExact(c, r, "C01.R2.pack-size-refusal-exact")
		optionBodyWhole(c, r, "C01.R4.option-body-whole")
		borrow(c, r, c04R4b, "C04.R4.accessors", "C01.R2.compression-keys-exact", 3, "the compression map is indexed with the name as given: a pointer is written only to an earlier name with the same octets", nil, "a name is packed as a pointer to an earlier name that differs from it in the case of a letter and reads back with that other name's spelling")
	case "C03":
		specialOctetsPrintable(c, r, "C03.R3.special-printable")
		borrow(c, r, c04R4b, "C04.R4.accessors", "C03.R4.compression-keys-exact", 3, "the compression map is indexed with the name as given", nil, "a name no longer reads back with the octets it was packed from: the pointer leads to a name spelled in another case")
	case "C08":
		insertAlwaysStores(c, r, "C08.R4.insert-always-stores")
		borrow(c, r, c03R4, "C03.R4.fqdn-gate", "C08.R3.fqdn-gate", 2, "packDomainName writes nothing unless the name is fully qualified", nil, "Len counts len(s)+1 octets for a name; a name without its closing dot that is packed as if it had one takes one octet more than Len said")
	case "C12":
		borrow(c, r, c04FreshMap, "C04.R3.fresh-map", "C12.R4.fresh-map", 1, "PackBuffer compresses with a map made for this call: no state of another message, goroutine or client enters a reply", nil, "a message that failed to pack leaves its offsets behind, and the next reply packed (for any client, on any goroutine) points into octets that are not its own")
	case "C18":
		borrow(c, r, c08R3, "C08.R3.buffer", "C18.R3.pack-in-place", 1, "PackBuffer returns the buffer it was given whenever that buffer holds the uncompressed message: SIG.Sign tests &buf[0] against the result", nil, "SIG.Sign refuses with ErrBuf every message PackBuffer moved into a buffer of its own")
	case "C07":
		subParserInheritsFS(c, r, "C07.R5.sub-parser-inherits-fs")
		readRRReportsErr(c, r, "C07.R4.readrr-reports-err")
	case "C17":
		iterationsOnlyHashed(c, r, "C17.R4.iterations-only-hashed")
	case "C05":
		typeSpellingsAgree(c, r, "C05.R3.type-spellings-agree")
		signKeptInSplitNumber(c, r, "C05.R3.sign-kept-in-split-number")
		formatsInUTC(c, r, "C05.R3.formats-in-utc")
	case "C11":
		tsigVerifiedWhenPresent(c, r, "C11.R1.verified-when-present")
	case "C15":
		ixfrReadByIxfr(c, r, "C15.R2.reader-by-question")
	case "C13":
		noNestedAcquire(c, r, "C13.R2.no-nested-acquire")
		startedNotClearedByLoops(c, r, "C13.R4.started-not-cleared-by-loops")
	case "C14":
		matchFromRegistry(c, r, "C14.R3.match-from-registry")
	case "C10":
		canonicalOnlyListed(c, r, "C10.R3.canonical-only-listed")
		algorithmComparedAsIs(c, r, "C10.R1.algorithm-as-is", "RRSIG.Verify", "RRSIG")
	case "C19":
		trimNeverEmpty(c, r, "C19.R6.trim-never-empty")
		namesNotComparedAsStrings(c, r, "C19.R6.names-not-compared-as-strings")
		noOverlappingScratch(c, r, "C19.R2.no-overlapping-scratch", []string{"CompareDomainName", "Split", "IsSubDomain", "CountLabel"})
	case "C06":
		directiveArgsNotKeywords(c, r, "C06.R2.directive-args-not-keywords")
		digitShortcutTestsWhatItPrints(c, r, "C06.R5.digit-shortcut")
	case "C20":
		dedupLeavesScratchEmpty(c, r, "C20.R3.dedup-leaves-scratch-empty")
		foldNotEscapeConditioned(c, r, "C20.R4.fold-not-escape-conditioned")
	}
}
