package main

import (
	"fmt"
	"go/token"
	"go/types"
	"os"
	"strings"

	"golang.org/x/tools/go/ssa"
)

func init() { register("C07", true, false, checkC07) }

const c07Explanation = `Decided statically on every path of scan.go / generate.go: (R1) who may open files: the only calls that open a file (os.Open*, os.ReadFile, fs.FS.Open, fs.ReadFile) anywhere in the package are in ZoneParser.Next and are made only on the edge where includeAllowed is true and includeDepth < maxIncludeDepth; includeAllowed is written only by SetIncludeAllowed and (for sub-parsers) set to the parent's value or to true behind that same gate; an include sub-parser gets depth+1, maxIncludeDepth is a small constant; (R2) $GENERATE: the generator is created only after the range guard (non-negative start and end, end >= start, (end-start)/step <= 65535, step > 0), the directive is refused when generateDisallowed, the sub-parser it creates has generateDisallowed = true, the iterator stops on cur > end or on wrap-around (cur < 0), and the formatted write is behind the offset guard; (R3) sticky errors: Next returns (nil,false) at once when parseErr is set; every way of returning (_, false) from Next/generate/subNext records an error first (setParseError, an explicit store to parseErr), surfaces the sub-parser's error, or is the end of input; the lexer stops at its first read error and at its first syntax error; (R4) the hand-grown token and comment buffers of zlexer.Next: for every store buf[i] the relation i < len(buf), and for every slice buf[:i] the relation i <= len(buf), are proven by an inductive (coinductive over the loop) derivation from the growth checks, the growth amounts and the increments - 'at most one increment between two checks'; (R5) every syntax error is constructed with the current token's position and the file name. NOT decided: termination and memory proportional to the input for all byte strings, absence of other panics.`

func checkC07(c *Ctx, r *Report) {
	r.Explanation = c07Explanation
	r.Trusted = []string{"go/ssa translation", "copy() returns at most len(dst); append(b, make([]byte,K)...) has length len(b)+K"}
	c07R1(c, r)
	c07R2(c, r)
	c07R3(c, r)
	tokenLoopsEndAtEOF(c, r, "C07.R2.token-loops-end")
	tokenClassesRefused(c, r, "C07.R3.token-classes-refused")
	borrow(c, r, c06GenerateEscape, "C06.R5.generate-escape", "C07.R2.generate-escape-cleared", 3, "every branch of generateReader.ReadByte taken on the escape flag clears the flag before it returns", nil, "with the flag left set at the end of the template the reader hands out backslashes for ever: Next never returns and the token buffer grows without bound (a zone of a few octets exhausts memory)")
	c07R4(c, r)
	c07R5(c, r)
	c07RdataLexErr(c, r)
	c07GenerateWidth(c, r)
	c07ParseBounds(c, r)
	// errors inside an included file name that file: the sub-parser is given the path that was opened
	{
		sub := newReport("tmp", r.Tier)
		c06IncludeFile(c, sub)
		for _, o := range sub.obls {
			detail := o.Detail
			if o.Status != stOK {
				detail += " (and syntax errors inside the included file are reported under the wrong file name)"
			}
			r.add("C07.R5.error-position", "Next:$INCLUDE file", o.Status, o.Pos, detail)
		}
	}
	r.note("observation (not a violation of C06/C07): the $GENERATE sub-parser does not inherit the include file system (fsys); an $INCLUDE produced by a $GENERATE template opens through os.Open even when an include FS was configured")
	c07NilFields(c, r, "C07.R6.nil-fields")
	ttlNoWrap(c, r, "C07.R3.ttl-no-wrap")
	rfc3597Whole(c, r, "C07.R3.rfc3597-whole")
	c07RdataErrorRebuild(c, r, "C07.R5.error-position")
	c07FalseIsEOF(c, r, "C07.R3.sticky")
	parseNarrowing(c, r, "C07.R3.parse-narrowing")
	r.rule("C07.R3.sub-error", 1, "subNext detaches the sub-parser only where its error is nil")
	subErrorSurfaces(c, r, "C07.R3.sub-error")
	r.rule("C07.R3.unterminated-quote", 1, "endingToTxtSlice returns strings only with the quote flag false")
	unterminatedQuote(c, r, "C07.R3.unterminated-quote")
	absoluteValidated(c, r, "C07.R3.absolute-validated", "with a long $ORIGIN a short relative owner or target gives a name of more than 255 octets; the record is returned without an error and cannot be packed")
	lineCounted(c, r, "C07.R4.line-counted")
	chunkProgress(c, r, "C07.R1.chunk-progress")
	borrow(c, r, c05R5, "C05.R5.ttl-range", "C07.R3.ttl-range", 1, "stringToTTL refuses what does not fit 32 bits instead of wrapping", nil, "an over-long TTL is accepted as another value and the zone is read on instead of the first problem being reported")
	genericLengthOnDigits(c, r, "C07.R3.generic-length")
	parseErrorsUsed(c, r, "C07.R3.parse-errors-used")
	nestedGenerateBanned(c, r, "C07.R2.nested-generate-banned")
	stickyOnErrorOnly(c, r, "C07.R3.sticky-on-error-only")
	round12(c, r, "C07")
}

var fileOpeners = map[string]bool{"os.Open": true, "os.OpenFile": true, "os.ReadFile": true, "os.Create": true, "fs.ReadFile": true, "ioutil.ReadFile": true, "os.ReadDir": true, "(fs.FS).Open": true, "(io/fs.FS).Open": true}

func c07R1(c *Ctx, r *Report) {
	r.rule("C07.R1.who-may-open", 2, "files are opened only in ZoneParser.Next behind includeAllowed and the depth limit")
	r.rule("C07.R1.gate-writes", 3, "includeAllowed / includeDepth are only written by the setter and the gated sub-parser creation")
	maxDepth, ok := c.constInt("maxIncludeDepth")
	if !ok || maxDepth < 1 || maxDepth > 64 {
		r.fail("C07.R1.who-may-open", "maxIncludeDepth", "", "maxIncludeDepth = %d: include nesting is not bounded by a small constant", maxDepth)
	}
	n := 0
	for _, f := range c.allFuncs() {
		allInstrs(f, func(in ssa.Instruction) {
			ci, ok := in.(ssa.CallInstruction)
			if !ok {
				return
			}
			name := calleeNameSSA(ci.Common())
			isOpen := fileOpeners[name]
			if ci.Common().IsInvoke() && ci.Common().Method.Name() == "Open" && strings.HasSuffix(typeStr(ci.Common().Value.Type()), "fs.FS") {
				isOpen = true
			}
			if !isOpen {
				return
			}
			// clientconfig.go reads resolv.conf on explicit request: not reachable from the zone parser
			if fnDisplay(f) == "ClientConfigFromFile" {
				return
			}
			n++
			construct := fmt.Sprintf("%s->%s#%d", fnDisplay(f), name, n)
			r.fn(fnDisplay(f))
			if fnDisplay(f) != "ZoneParser.Next" {
				r.fail("C07.R1.who-may-open", construct, c.pos(in.Pos()), "%s opens a file; only the $INCLUDE state of ZoneParser.Next may", fnDisplay(f))
				return
			}
			gs := []Guard{
				{Name: "zp.includeAllowed", Op: "val", A: readsField("ZoneParser", "includeAllowed"), Holds: true},
				{Name: fmt.Sprintf("zp.includeDepth < %d", maxDepth), Op: "lt", A: readsField("ZoneParser", "includeDepth"), B: isConstInt(maxDepth), Holds: true},
			}
			miss := guardsMissing(f, in.Block(), gs)
			r.check(len(miss) == 0, "C07.R1.who-may-open", construct, c.pos(in.Pos()), "behind includeAllowed and the depth limit", "a file is opened without the gate(s) %s", strings.Join(miss, ", "))
		})
	}
	// writes
	for _, fld := range []string{"includeAllowed", "includeDepth"} {
		for _, f := range c.allFuncs() {
			for _, st := range storesToField(f, "ZoneParser", fld) {
				name := fnDisplay(f)
				construct := fmt.Sprintf("%s:%s", name, fld)
				r.fn(name)
				switch {
				case fld == "includeAllowed" && name == "ZoneParser.SetIncludeAllowed":
					r.check(st.Val == paramOf(f, "v"), "C07.R1.gate-writes", construct, c.pos(st.Pos()), "the setter", "SetIncludeAllowed stores %v", st.Val)
				case name == "ZoneParser.generate":
					// copies the parent's value
					okCopy := anyIn(sliceOf(st.Val), fieldPathOf(isValue(f.Params[0]), fld))
					r.check(okCopy && !anyIn(sliceOf(st.Val), func(v ssa.Value) bool { _, isC := v.(*ssa.Const); return isC }), "C07.R1.gate-writes", construct, c.pos(st.Pos()), "inherits the parent's value", "the $GENERATE sub-parser's %s is %v, not the parent's", fld, st.Val)
				case name == "ZoneParser.Next" && fld == "includeDepth":
					base, k := offsetOf(func() ssa.Value {
						v := st.Val
						if cv, ok := v.(*ssa.Convert); ok {
							v = cv.X
						}
						return v
					}())
					okInc := k == 1 && base != nil && anyIn(sliceOf(base), fieldPathOf(isValue(f.Params[0]), "includeDepth"))
					r.check(okInc, "C07.R1.gate-writes", construct, c.pos(st.Pos()), "parent depth + 1", "the include sub-parser's depth is %v, not the parent's depth + 1: self-including files would nest without bound", st.Val)
				default:
					// the one-line setter written out in place: the field of a parser this function has just created
					// (NewZoneParser) is set; inside a method of ZoneParser only under the parent's own permission (or as a
					// copy of it)
					fresh := false
					if fa, ok := st.Addr.(*ssa.FieldAddr); ok {
						for o := range sliceOf(fa.X) {
							if call, isCall := o.(*ssa.Call); isCall && calleeNameSSA(&call.Call) == "NewZoneParser" {
								fresh = true
							}
							// zp.sub, which this function assigns a new parser to
							if ld, isLd := o.(*ssa.UnOp); isLd && ld.Op == token.MUL && readsField("ZoneParser", "sub")(ld.X) && len(callsIn(f, "NewZoneParser")) > 0 {
								fresh = true
							}
						}
					}
					okGate := true
					if fresh && fld == "includeAllowed" && f.Signature.Recv() != nil && derefNamed(f.Signature.Recv().Type()) != nil && derefNamed(f.Signature.Recv().Type()).Obj().Name() == "ZoneParser" {
						if b, isK := constBool(st.Val); isK && b {
							okGate = len(guardsMissing(f, st.Block(), []Guard{{Name: "zp.includeAllowed", Op: "val", A: fieldPathOf(isValue(f.Params[0]), "includeAllowed"), Holds: true}})) == 0
						} else if !isK {
							okGate = anyIn(sliceOf(st.Val), fieldPathOf(isValue(f.Params[0]), "includeAllowed"))
						}
					}
					if fresh && fld == "includeAllowed" {
						r.check(okGate, "C07.R1.gate-writes", construct, c.pos(st.Pos()), "set on a parser just created, under the parent's permission", "a sub-parser is allowed to include although the parent is not")
					} else {
						r.fail("C07.R1.gate-writes", construct, c.pos(st.Pos()), "%s writes ZoneParser.%s", name, fld)
					}
				}
			}
		}
	}
	// SetIncludeAllowed(true) on the sub-parser only behind the gate
	if f := c.ssaFunc("ZoneParser.Next"); f != nil {
		for _, ci := range callsIn(f, "(ZoneParser).SetIncludeAllowed") {
			miss := guardsMissing(f, ci.Block(), []Guard{{Name: "zp.includeAllowed", Op: "val", A: readsField("ZoneParser", "includeAllowed"), Holds: true}})
			r.check(len(miss) == 0, "C07.R1.gate-writes", "ZoneParser.Next:sub.SetIncludeAllowed", c.pos(ci.Pos()), "behind the gate", "a sub-parser is allowed to include although the parent is not")
		}
	}
}

// orAtoms returns the operands of a short-circuit disjunction lowered to a phi (or the value itself).
func orAtoms(v ssa.Value) []ssa.Value {
	phi, ok := v.(*ssa.Phi)
	if !ok {
		return []ssa.Value{v}
	}
	var out []ssa.Value
	for i, e := range phi.Edges {
		if b, isB := constBool(e); isB && b {
			pred := phi.Block().Preds[i]
			if ifi, ok := pred.Instrs[len(pred.Instrs)-1].(*ssa.If); ok {
				out = append(out, ifi.Cond)
			}
			continue
		}
		out = append(out, orAtoms(e)...)
	}
	return out
}

func c07R2(c *Ctx, r *Report) {
	r.rule("C07.R2.generate", 5, "$GENERATE: range guard before the generator exists, nested ban, sub-parser flagged, iterator stop incl. wrap-around, offset guard")
	fn := c.ssaFunc("ZoneParser.generate")
	if fn == nil {
		r.cerr("C07.R2.generate", "ZoneParser.generate", "function not found")
		return
	}
	r.fn("ZoneParser.generate")
	// the generateReader allocation
	var gr *ssa.Alloc
	allInstrs(fn, func(in ssa.Instruction) {
		if al, ok := in.(*ssa.Alloc); ok {
			if n := derefNamed(al.Type()); n != nil && n.Obj().Name() == "generateReader" {
				gr = al
			}
		}
	})
	var problems []string
	if gr == nil {
		problems = append(problems, "no generateReader is created")
	} else {
		// values stored into start/end/step
		get := func(field string) ssa.Value {
			var v ssa.Value
			for _, ref := range *gr.Referrers() {
				if fa, ok := ref.(*ssa.FieldAddr); ok && readsField("generateReader", field)(fa) {
					for _, r2 := range *fa.Referrers() {
						if st, ok := r2.(*ssa.Store); ok {
							v = st.Val
						}
					}
				}
			}
			return v
		}
		start, end, step := get("start"), get("end"), get("step")
		if start == nil || end == nil || step == nil {
			problems = append(problems, "start/end/step of the generator are not all set")
		} else {
			blk := gr.Block()
			lo, _, hasLo, _ := intervalAt(fn, blk, isValue(start))
			if !hasLo || lo < 0 {
				problems = append(problems, "the generator can be created with a negative start")
			}
			lo, _, hasLo, _ = intervalAt(fn, blk, isValue(end))
			if !hasLo || lo < 0 {
				problems = append(problems, "the generator can be created with a negative end")
			}
			// end >= start, or the stricter end > start (stricter is safe here; C06.R5 decides whether it is right)
			if miss := guardsMissing(fn, blk, []Guard{{Name: "end >= start", Op: "lt", A: isValue(end), B: isValue(start), Holds: false}}); len(miss) > 0 {
				if miss2 := guardsMissing(fn, blk, []Guard{{Name: "end > start", Op: "lt", A: isValue(start), B: isValue(end), Holds: true}}); len(miss2) > 0 {
					problems = append(problems, "the generator can be created with end < start")
				}
			}
			// (end-start)/step <= 65535
			isCount := func(v ssa.Value) bool {
				q, ok := v.(*ssa.BinOp)
				if !ok || q.Op != token.QUO {
					return false
				}
				d, ok := q.X.(*ssa.BinOp)
				return ok && d.Op == token.SUB && d.X == end && d.Y == start && sliceOf(q.Y)[step]
			}
			_, hi, _, hasHi := intervalAt(fn, blk, isCount)
			if !hasHi || hi > 65535 {
				problems = append(problems, fmt.Sprintf("the number of steps (end-start)/step is not bounded by 65535 before the generator is created (bound found: %v %d)", hasHi, hi))
			}
			// step > 0: step is phi(1, s) with s > 0 guarded
			stepOK := false
			if phi, ok := step.(*ssa.Phi); ok {
				stepOK = true
				for i, e := range phi.Edges {
					if k, isK := constIntOf(e); isK {
						if k <= 0 {
							stepOK = false
						}
						continue
					}
					lo, _, hasLo, _ := intervalAt(fn, phi.Block().Preds[i], isValue(e))
					if !hasLo || lo < 1 {
						stepOK = false
					}
				}
			}
			if !stepOK {
				problems = append(problems, "a step <= 0 can reach the generator (division by zero / endless iteration)")
			}
		}
	}
	r.check(len(problems) == 0, "C07.R2.generate", "generate:range-guard", c.pos(fn.Pos()), "0 <= start <= end, steps <= 65535, step >= 1", "%s", strings.Join(problems, "; "))
	// sub-parser flagged
	problems = nil
	okFlag := false
	var subNext ssa.Instruction
	for _, ci := range callsIn(fn, "(ZoneParser).subNext") {
		subNext = ci.(ssa.Instruction)
	}
	for _, st := range storesToField(fn, "ZoneParser", "generateDisallowed") {
		if b, ok := constBool(st.Val); ok && b && subNext != nil && precedes(st, subNext) && !anyIn(sliceOf(st.Addr), func(v ssa.Value) bool { return false }) {
			// stored into the sub-parser, not into zp itself
			if fa, ok := st.Addr.(*ssa.FieldAddr); ok && fa.X != fn.Params[0] {
				okFlag = true
			}
		}
	}
	if !okFlag {
		problems = append(problems, "the sub-parser reading the generated text is not flagged generateDisallowed before it is read (a template could contain $GENERATE again)")
	}
	r.check(len(problems) == 0, "C07.R2.generate", "generate:sub-flag", c.pos(fn.Pos()), "sub.generateDisallowed = true", "%s", strings.Join(problems, "; "))
	// nested ban in Next
	if nx := c.ssaFunc("ZoneParser.Next"); nx != nil {
		var ps []string
		gens := callsIn(nx, "(ZoneParser).generate")
		if len(gens) != 1 {
			ps = append(ps, fmt.Sprintf("%d calls of generate", len(gens)))
		} else if miss := guardsMissing(nx, gens[0].Block(), []Guard{{Name: "!zp.generateDisallowed", Op: "val", A: readsField("ZoneParser", "generateDisallowed"), Holds: false}}); len(miss) > 0 {
			ps = append(ps, "$GENERATE is expanded although generateDisallowed is set (nested $GENERATE)")
		}
		r.check(len(ps) == 0, "C07.R2.generate", "Next:nested-ban", c.pos(nx.Pos()), "refused when generateDisallowed", "%s", strings.Join(ps, "; "))
	}
	// ReadByte: iterator stop and offset guard
	rb := c.ssaFunc("generateReader.ReadByte")
	if rb == nil {
		r.cerr("C07.R2.generate", "generateReader.ReadByte", "function not found")
		return
	}
	r.fn("generateReader.ReadByte")
	problems = nil
	nEof := 0
	for _, st := range storesToField(rb, "generateReader", "eof") {
		nEof++
		atoms := orAtoms(st.Val)
		past, wrap := false, false
		for _, a := range atoms {
			at, pol := condAtom(a)
			b, ok := at.(*ssa.BinOp)
			if !ok || !pol {
				continue
			}
			x, y, op := b.X, b.Y, b.Op
			isCur := func(v ssa.Value) bool { return anyIn(sliceOf(v), readsField("generateReader", "cur")) }
			isEnd := func(v ssa.Value) bool { return anyIn(sliceOf(v), readsField("generateReader", "end")) }
			if (op == token.GTR && isCur(x) && isEnd(y)) || (op == token.LSS && isEnd(x) && isCur(y)) {
				past = true
			}
			if k, isK := constIntOf(y); isK && k == 0 && op == token.LSS && isCur(x) {
				wrap = true
			}
			if k, isK := constIntOf(x); isK && k == 0 && op == token.GTR && isCur(y) {
				wrap = true
			}
		}
		if !past {
			problems = append(problems, fmt.Sprintf("%s: the iterator does not stop when cur > end", c.pos(st.Pos())))
		}
		if !wrap {
			problems = append(problems, fmt.Sprintf("%s: the iterator does not stop when cur + step wraps around (cur < 0): a range near MaxInt64 would never end", c.pos(st.Pos())))
		}
	}
	if nEof != 1 {
		problems = append(problems, fmt.Sprintf("%d stores to eof in ReadByte", nEof))
	}
	r.check(len(problems) == 0, "C07.R2.generate", "ReadByte:iterator-stop", c.pos(rb.Pos()), "eof = cur > end || cur < 0", "%s", strings.Join(problems, "; "))
	problems = nil
	// offset guard: the Fprintf of cur+offset (offset from modToPrintf) is behind start+offset >= 0 and end+offset <= 1<<31-1
	for _, ci := range callsIn(rb, "fmt.Fprintf") {
		arg := ci.Common().Args[len(ci.Common().Args)-1]
		if !anyIn(sliceOf(arg), callsExtract("modToPrintf")) {
			continue
		}
		// on the path where a modifier was parsed: find the block of the modToPrintf call
		for _, mc := range callsIn(rb, "modToPrintf") {
			offV := func(v ssa.Value) bool {
				e, ok := v.(*ssa.Extract)
				return ok && e.Tuple == mc.Value() && e.Index == 1
			}
			isSum := func(field string) vpred {
				return func(v ssa.Value) bool {
					b, ok := v.(*ssa.BinOp)
					return ok && b.Op == token.ADD && anyIn(sliceOf(b), readsField("generateReader", field)) && anyIn(sliceOf(b), offV)
				}
			}
			// the guard must dominate the jump `r.si += 2 + sep` that follows a successful modifier parse: use the store to si in the same region
			var after *ssa.Store
			for _, st := range storesToField(rb, "generateReader", "si") {
				if st.Block() != mc.Block() && mc.Block().Dominates(st.Block()) {
					after = st
				}
			}
			if after == nil {
				problems = append(problems, "cannot locate the continuation after a parsed modifier")
				continue
			}
			lo, _, hasLo, _ := intervalAt(rb, after.Block(), isSum("start"))
			if !hasLo || lo < 0 {
				problems = append(problems, "start+offset may be negative when the value is formatted")
			}
			_, hi, _, hasHi := intervalAt(rb, after.Block(), isSum("end"))
			if !hasHi || hi > 1<<31-1 {
				problems = append(problems, "end+offset is not bounded by 1<<31-1 when the value is formatted")
			}
		}
	}
	r.check(len(problems) == 0, "C07.R2.generate", "ReadByte:offset-guard", c.pos(rb.Pos()), "0 <= start+offset, end+offset <= 1<<31-1", "%s", strings.Join(problems, "; "))
}

func c07R3(c *Ctx, r *Report) {
	r.rule("C07.R3.sticky", 6, "errors are sticky: no record after an error; every (_, false) return records or surfaces an error or is the end of input")
	nx := c.ssaFunc("ZoneParser.Next")
	if nx == nil {
		r.cerr("C07.R3.sticky", "ZoneParser.Next", "function not found")
		return
	}
	r.fn("ZoneParser.Next")
	// entry test
	var problems []string
	entry := nx.Blocks[0]
	ifi, ok := entry.Instrs[len(entry.Instrs)-1].(*ssa.If)
	okEntry := false
	if ok {
		atom, pol := condAtom(ifi.Cond)
		if b, isB := atom.(*ssa.BinOp); isB && anyIn(sliceOf(b.X), readsField("ZoneParser", "parseErr")) && isNilConst(b.Y) {
			errIdx := 0
			if (b.Op == token.NEQ) != pol {
				errIdx = 1
			}
			blk := entry.Succs[errIdx]
			if ret, isRet := blk.Instrs[len(blk.Instrs)-1].(*ssa.Return); isRet && len(blk.Instrs) == 1 {
				if bb, isB := constBool(ret.Results[1]); isB && !bb && isNilConst(ret.Results[0]) {
					okEntry = true
				}
			}
		}
		// no effect before the test
		for _, in := range entry.Instrs {
			switch in.(type) {
			case *ssa.Store, *ssa.Call, *ssa.MapUpdate, *ssa.Send:
				okEntry = false
			}
		}
	}
	if !okEntry {
		problems = append(problems, "Next does not begin with `if zp.parseErr != nil { return nil, false }`")
	}
	r.check(len(problems) == 0, "C07.R3.sticky", "Next:entry", c.pos(nx.Pos()), "parseErr tested first", "%s", strings.Join(problems, "; "))
	// setParseError stores on every path
	if sp := c.ssaFunc("ZoneParser.setParseError"); sp == nil {
		r.cerr("C07.R3.sticky", "ZoneParser.setParseError", "function not found")
	} else {
		r.fn("ZoneParser.setParseError")
		passed, _ := mustPass(sp, sp.Blocks[0], -1, func(x ssa.Instruction) bool {
			st, ok := x.(*ssa.Store)
			return ok && readsField("ZoneParser", "parseErr")(st.Addr) && !isNilConst(st.Val)
		})
		okRet := true
		for _, rp := range returnPoints(sp, 1) {
			if b, isB := constBool(rp.Results[1]); !isB || b || !isNilConst(rp.Results[0]) {
				okRet = false
			}
		}
		r.check(passed && okRet, "C07.R3.sticky", "setParseError", c.pos(sp.Pos()), "stores parseErr, returns (nil,false)", "setParseError does not record the error on every path / does not return (nil,false)")
	}
	// classify the false returns
	for _, name := range []string{"ZoneParser.Next", "ZoneParser.generate", "ZoneParser.subNext"} {
		f := c.ssaFunc(name)
		if f == nil {
			r.cerr("C07.R3.sticky", name, "function not found")
			continue
		}
		r.fn(name)
		var ps []string
		n := 0
		// the ways to a return: a return of merged values (the results of a helper written back, or a single exit
		// the returns were gathered in) is looked at way by way
		type retWay struct {
			b    *ssa.BasicBlock // the block the values of this way are made in
			to   *ssa.BasicBlock // the block it goes on to (nil: b returns itself)
			ok   ssa.Value
			ret  *ssa.Return
			only bool // b has no other way out than to
		}
		var ways []retWay
		for _, b := range f.Blocks {
			ret, ok := b.Instrs[len(b.Instrs)-1].(*ssa.Return)
			if !ok {
				continue
			}
			res := unspill(b, ret)
			var expand func(blk, to *ssa.BasicBlock, v ssa.Value, depth int)
			expand = func(blk, to *ssa.BasicBlock, v ssa.Value, depth int) {
				if phi, isPhi := v.(*ssa.Phi); isPhi && depth < 4 && (phi.Block() == blk || to == nil && phi.Block() == b) {
					for i, e := range phi.Edges {
						expand(phi.Block().Preds[i], phi.Block(), e, depth+1)
					}
					return
				}
				ways = append(ways, retWay{b: blk, to: to, ok: v, ret: ret})
			}
			expand(b, nil, res[1], 0)
		}
		for _, w := range ways {
			b, ret := w.b, w.ret
			res := []ssa.Value{nil, w.ok}
			if bb, isB := constBool(res[1]); isB && bb {
				continue // a record is returned
			}
			n++
			// (i) tail call of setParseError / subNext / generate / Next / sub.Next
			if e, isE := res[1].(*ssa.Extract); isE {
				if call, isC := e.Tuple.(*ssa.Call); isC {
					cn := calleeNameSSA(&call.Call)
					if cn == "(ZoneParser).setParseError" || cn == "(ZoneParser).subNext" || cn == "(ZoneParser).generate" || cn == "(ZoneParser).Next" {
						continue
					}
				}
			}
			// (ii) explicit store to parseErr in this block
			stored := false
			for _, in := range b.Instrs {
				if st, ok := in.(*ssa.Store); ok && readsField("ZoneParser", "parseErr")(st.Addr) && !isNilConst(st.Val) {
					stored = true
				}
			}
			if stored {
				continue
			}
			facts := factsAt(f, b)
			if w.to != nil {
				facts = factsOnEdge(f, b, w.to)
			}
			okWhy := false
			for _, fc := range facts {
				// (iii) already in error
				if matchGuard(fc, Guard{Op: "eq", A: readsField("ZoneParser", "parseErr"), B: isNilConst, Holds: false}) {
					okWhy = true
				}
				// (iv) sub-parser error surfaced
				if matchGuard(fc, Guard{Op: "eq", A: callsFunc("(ZoneParser).Err"), B: isNilConst, Holds: false}) {
					okWhy = true
				}
				// (v) end of input: the lexer's ok is false
				if matchGuard(fc, Guard{Op: "val", A: func(v ssa.Value) bool {
					e, ok := v.(*ssa.Extract)
					if !ok || e.Index != 1 {
						return false
					}
					call, ok := e.Tuple.(*ssa.Call)
					return ok && calleeNameSSA(&call.Call) == "(zlexer).Next"
				}, Holds: false}) {
					okWhy = true
				}
			}
			// the loop-exit of a `for l, ok := Next(); ok; ...` is a phi of two Next calls: accept when the block is the
			// target of the loop header's false edge
			if !okWhy {
				for _, p := range b.Preds {
					if pi, ok := p.Instrs[len(p.Instrs)-1].(*ssa.If); ok && p.Succs[1] == b {
						if anyIn(sliceOf(pi.Cond), func(v ssa.Value) bool {
							e, ok := v.(*ssa.Extract)
							if !ok || e.Index != 1 {
								return false
							}
							call, ok := e.Tuple.(*ssa.Call)
							return ok && calleeNameSSA(&call.Call) == "(zlexer).Next"
						}) && len(b.Preds) == 1 {
							okWhy = true
						}
					}
				}
				// the same on the way of a merged return: the way is the false edge itself
				if pi, ok := b.Instrs[len(b.Instrs)-1].(*ssa.If); ok && w.to != nil && b.Succs[1] == w.to && b.Succs[0] != w.to {
					if anyIn(sliceOf(pi.Cond), func(v ssa.Value) bool {
						e, ok := v.(*ssa.Extract)
						if !ok || e.Index != 1 {
							return false
						}
						call, ok := e.Tuple.(*ssa.Call)
						return ok && calleeNameSSA(&call.Call) == "(zlexer).Next"
					}) {
						okWhy = true
					}
				}
			}
			if !okWhy {
				ps = append(ps, fmt.Sprintf("%s: returns (_, false) without recording an error, surfacing a sub-parser error or having reached the end of input", c.pos(ret.Pos())))
			}
		}
		r.check(len(ps) == 0, "C07.R3.sticky", name+":false-returns", c.pos(f.Pos()), fmt.Sprintf("%d (_, false) returns classified", n), "%s", strings.Join(ps, "; "))
	}
	// lexer: sticky syntax error and sticky read error
	if zl := c.ssaFunc("zlexer.Next"); zl == nil {
		r.cerr("C07.R3.sticky", "zlexer.Next", "function not found")
	} else {
		r.fn("zlexer.Next")
		// every call of readByte is on the edge where l.err is false
		var ps []string
		for _, ci := range callsIn(zl, "(zlexer).readByte") {
			if miss := guardsMissing(zl, ci.Block(), []Guard{{Name: "!l.err", Op: "val", A: readsField("lex", "err"), Holds: false}}); len(miss) > 0 {
				ps = append(ps, fmt.Sprintf("%s: input is read although the lexer already reported a syntax error", c.pos(ci.Pos())))
			}
		}
		r.check(len(ps) == 0, "C07.R3.sticky", "zlexer.Next:syntax-error", c.pos(zl.Pos()), "no read after l.err", "%s", strings.Join(ps, "; "))
	}
	if rb := c.ssaFunc("zlexer.readByte"); rb == nil {
		r.cerr("C07.R3.sticky", "zlexer.readByte", "function not found")
	} else {
		r.fn("zlexer.readByte")
		var ps []string
		n := 0
		allInstrs(rb, func(in ssa.Instruction) {
			call, ok := in.(*ssa.Call)
			if !ok || !call.Call.IsInvoke() || call.Call.Method.Name() != "ReadByte" {
				return
			}
			n++
			if miss := guardsMissing(rb, call.Block(), []Guard{{Name: "zl.readErr == nil", Op: "eq", A: readsField("zlexer", "readErr"), B: isNilConst, Holds: true}}); len(miss) > 0 {
				ps = append(ps, "the underlying reader is read again after it returned an error (records following the failure would be returned)")
			}
		})
		if n != 1 {
			ps = append(ps, fmt.Sprintf("%d ReadByte calls", n))
		}
		r.check(len(ps) == 0, "C07.R3.sticky", "zlexer.readByte:read-error", c.pos(rb.Pos()), "no read after readErr", "%s", strings.Join(ps, "; "))
	}
}

// ---- R4: buffer index relation prover ----

const (
	relLT = 1 // idx < len(buf)
	relLE = 2 // idx <= len(buf)
)

type relGoal struct {
	rel int
	idx ssa.Value
	buf ssa.Value
	at  *ssa.BasicBlock
	via *ssa.BasicBlock // when the goal concerns the edge at -> via (a phi operand), the edge's own condition counts
}

// edgeFact: the outcome of pred's conditional branch on the edge pred -> succ.
func edgeFact(pred, succ *ssa.BasicBlock) (Fact, bool) {
	if pred == nil || succ == nil {
		return Fact{}, false
	}
	ifi, ok := pred.Instrs[len(pred.Instrs)-1].(*ssa.If)
	if !ok || len(pred.Succs) != 2 || pred.Succs[0] == pred.Succs[1] {
		return Fact{}, false
	}
	atom, pol := condAtom(ifi.Cond)
	if pred.Succs[0] == succ {
		return Fact{ifi, atom, pol}, true
	}
	if pred.Succs[1] == succ {
		return Fact{ifi, atom, !pol}, true
	}
	return Fact{}, false
}

type relProver struct {
	fn      *ssa.Function
	onStack map[relGoal]bool
	memo    map[relGoal]bool
	depth   int
}

// growth: buf = append(b0, make([]byte, K)...) with constant K > 0.
func growthOf(buf ssa.Value) (ssa.Value, bool) {
	call, ok := buf.(*ssa.Call)
	if !ok || calleeNameSSA(&call.Call) != "builtin.append" || len(call.Call.Args) != 2 {
		return nil, false
	}
	b0 := stripFullSlice(call.Call.Args[0])
	add := call.Call.Args[1]
	for {
		if sl, ok := add.(*ssa.Slice); ok && isFullSlice(sl) {
			add = sl.X
			continue
		}
		break
	}
	switch t := add.(type) {
	case *ssa.MakeSlice:
		if k, ok := constIntOf(t.Len); ok && k > 0 {
			return b0, true
		}
	case *ssa.Alloc:
		if arr, ok := t.Type().Underlying().(*types.Pointer).Elem().Underlying().(*types.Array); ok && arr.Len() > 0 {
			return b0, true
		}
	}
	return nil, false
}

func makeLen(buf ssa.Value) (int64, bool) {
	for {
		if sl, ok := buf.(*ssa.Slice); ok && isFullSlice(sl) {
			buf = sl.X
			continue
		}
		break
	}
	switch t := buf.(type) {
	case *ssa.MakeSlice:
		return constIntOf(t.Len)
	case *ssa.Alloc:
		if arr, ok := t.Type().Underlying().(*types.Pointer).Elem().Underlying().(*types.Array); ok {
			return arr.Len(), true
		}
	}
	return 0, false
}

func (p *relProver) prove(g relGoal) bool {
	if os.Getenv("RELDEBUG") != "" {
		via := -1
		if g.via != nil {
			via = g.via.Index
		}
		fmt.Fprintf(os.Stderr, "%sgoal rel=%d idx=%s buf=%s at=%d via=%d\n", strings.Repeat(" ", p.depth), g.rel, g.idx.Name(), g.buf.Name(), g.at.Index, via)
	}
	if v, ok := p.memo[g]; ok {
		return v
	}
	if p.onStack[g] {
		return true // coinduction: the goal is an invariant candidate; base cases are checked on the other edges
	}
	if p.depth > 400 {
		return false
	}
	p.onStack[g] = true
	p.depth++
	res := p.prove1(g)
	p.depth--
	delete(p.onStack, g)
	p.memo[g] = res
	return res
}

// isFullSlice: x[:] or arr[:len(arr)] (the form go/ssa emits for make([]T, CONST)).
func isFullSlice(sl *ssa.Slice) bool {
	if sl.Low != nil || sl.Max != nil {
		return false
	}
	if sl.High == nil {
		return true
	}
	if p, ok := sl.X.Type().Underlying().(*types.Pointer); ok {
		if arr, ok := p.Elem().Underlying().(*types.Array); ok {
			if k, isK := constIntOf(sl.High); isK && k == arr.Len() {
				return true
			}
		}
	}
	return false
}

func stripFullSlice(v ssa.Value) ssa.Value {
	for {
		if sl, ok := v.(*ssa.Slice); ok && isFullSlice(sl) {
			if _, isArr := sl.X.Type().Underlying().(*types.Pointer); isArr {
				return v
			}
			v = sl.X
			continue
		}
		return v
	}
}

func (p *relProver) prove1(g relGoal) bool {
	idx, buf := g.idx, stripFullSlice(g.buf)
	if os.Getenv("RELDEBUG") == "2" {
		b0, okg := growthOf(buf)
		fmt.Fprintf(os.Stderr, "   buf=%v (%T) growth=%v %v\n", buf, buf, b0, okg)
		if call, ok := buf.(*ssa.Call); ok {
			fmt.Fprintf(os.Stderr, "   callee=%q nargs=%d arg1=%v (%T)\n", calleeNameSSA(&call.Call), len(call.Call.Args), call.Call.Args[1], call.Call.Args[1])
			if sl, ok := call.Call.Args[1].(*ssa.Slice); ok {
				fmt.Fprintf(os.Stderr, "   slice X=%v (%T) low=%v high=%v type=%v\n", sl.X, sl.X, sl.Low, sl.High, sl.X.Type())
			}
		}
	}
	// path facts
	facts := factsAt(p.fn, g.at)
	if ef, ok := edgeFact(g.at, g.via); ok {
		facts = append(facts, ef)
	}
	for _, f := range facts {
		b, ok := f.Atom.(*ssa.BinOp)
		if os.Getenv("RELDEBUG") == "2" {
			fmt.Fprintf(os.Stderr, "   fact %v holds=%v\n", f.Atom, f.Holds)
		}
		if !ok {
			continue
		}
		isLenOfBuf := func(v ssa.Value) bool {
			call, ok := v.(*ssa.Call)
			return ok && calleeNameSSA(&call.Call) == "builtin.len" && stripFullSlice(call.Call.Args[0]) == buf
		}
		x, y, op, holds := b.X, b.Y, b.Op, f.Holds
		if isLenOfBuf(x) && y == idx {
			x, y = y, x
			switch op {
			case token.LSS:
				op = token.GTR
			case token.GTR:
				op = token.LSS
			case token.LEQ:
				op = token.GEQ
			case token.GEQ:
				op = token.LEQ
			}
		}
		if x != idx || !isLenOfBuf(y) {
			continue
		}
		lt := (op == token.LSS && holds) || (op == token.GEQ && !holds)
		le := (op == token.LEQ && holds) || (op == token.GTR && !holds)
		if lt || (le && g.rel == relLE) {
			return true
		}
	}
	// constants
	if k, ok := constIntOf(idx); ok {
		if n, isMake := makeLen(buf); isMake && (k < n || (k == n && g.rel == relLE)) {
			return true
		}
		if b0, ok := growthOf(buf); ok && k == 0 {
			_ = b0
			return true
		}
	}
	// growth: LE(idx, b0) => LT(idx, grown)
	if b0, ok := growthOf(buf); ok {
		if in, isIn := buf.(ssa.Instruction); isIn {
			if p.prove(relGoal{relLE, idx, b0, in.Block(), nil}) {
				return true
			}
		}
	}
	// LT implies LE
	if g.rel == relLE {
		if p.prove(relGoal{relLT, idx, buf, g.at, g.via}) {
			return true
		}
		// increment: idx = idx0 + 1 and LT(idx0, buf)
		if b, ok := idx.(*ssa.BinOp); ok && b.Op == token.ADD {
			if k, isK := constIntOf(b.Y); isK && k == 1 {
				if p.prove(relGoal{relLT, b.X, buf, b.Block(), nil}) {
					return true
				}
			}
		}
		// idx = copy(buf[:], ...)
		if call, ok := idx.(*ssa.Call); ok && calleeNameSSA(&call.Call) == "builtin.copy" && stripFullSlice(call.Call.Args[0]) == buf {
			return true
		}
	}
	// phis
	iphi, iok := idx.(*ssa.Phi)
	bphi, bok := buf.(*ssa.Phi)
	switch {
	case iok && bok && iphi.Block() == bphi.Block():
		for k := range iphi.Edges {
			if !p.prove(relGoal{g.rel, iphi.Edges[k], bphi.Edges[k], iphi.Block().Preds[k], iphi.Block()}) {
				return false
			}
		}
		return true
	case iok && (!bok || bphi.Block().Dominates(iphi.Block())):
		for k := range iphi.Edges {
			if !p.prove(relGoal{g.rel, iphi.Edges[k], buf, iphi.Block().Preds[k], iphi.Block()}) {
				return false
			}
		}
		return true
	case bok:
		for k := range bphi.Edges {
			if !p.prove(relGoal{g.rel, idx, bphi.Edges[k], bphi.Block().Preds[k], bphi.Block()}) {
				return false
			}
		}
		return true
	}
	return false
}

func c07R4(c *Ctx, r *Report) {
	r.rule("C07.R4.buffer-index", 20, "every store buf[i] has i < len(buf), every slice buf[:i] has i <= len(buf) in zlexer.Next (inductive derivation)")
	fn := c.ssaFunc("zlexer.Next")
	if fn == nil {
		r.cerr("C07.R4.buffer-index", "zlexer.Next", "function not found")
		return
	}
	// buffers: []byte values derived from local makes
	isLocalBuf := func(v ssa.Value) bool {
		seen := map[ssa.Value]bool{}
		var walk func(v ssa.Value) bool
		walk = func(v ssa.Value) bool {
			if seen[v] {
				return true
			}
			seen[v] = true
			switch t := v.(type) {
			case *ssa.MakeSlice:
				return true
			case *ssa.Slice:
				return walk(t.X)
			case *ssa.Phi:
				for _, e := range t.Edges {
					if !walk(e) {
						return false
					}
				}
				return true
			case *ssa.Call:
				if calleeNameSSA(&t.Call) == "builtin.append" {
					return walk(t.Call.Args[0])
				}
			case *ssa.Alloc:
				_, isArr := t.Type().Underlying().(*types.Pointer).Elem().Underlying().(*types.Array)
				return isArr
			}
			return false
		}
		sl, ok := v.Type().Underlying().(*types.Slice)
		if !ok {
			return false
		}
		if b, ok := sl.Elem().Underlying().(*types.Basic); !ok || b.Kind() != types.Uint8 {
			return false
		}
		return walk(v)
	}
	pr := &relProver{fn: fn, onStack: map[relGoal]bool{}, memo: map[relGoal]bool{}}
	n := 0
	counter := map[string]int{}
	allInstrs(fn, func(in ssa.Instruction) {
		switch t := in.(type) {
		case *ssa.Store:
			ia, ok := t.Addr.(*ssa.IndexAddr)
			if !ok || !isLocalBuf(ia.X) {
				return
			}
			if _, isK := constIntOf(ia.Index); isK {
				if _, isMk := makeLen(ia.X); isMk {
					// literal initialisation of a fresh array
					return
				}
			}
			n++
			name := bufName(ia.X)
			counter[name+"-store"]++
			construct := fmt.Sprintf("zlexer.Next:%s[i]=…#%d", name, counter[name+"-store"])
			okP := pr.prove(relGoal{relLT, ia.Index, ia.X, t.Block(), nil})
			r.check(okP, "C07.R4.buffer-index", construct, c.pos(t.Pos()), "i < len proven", "cannot prove index < len(%s) for this store: more than one increment since the last growth check, or the check does not cover this path (a long token or comment would panic)", name)
		case *ssa.Slice:
			if !isLocalBuf(t.X) || t.High == nil || t.Low != nil {
				return
			}
			if _, isK := constIntOf(t.High); isK {
				return
			}
			n++
			name := bufName(t.X)
			counter[name+"-slice"]++
			construct := fmt.Sprintf("zlexer.Next:%s[:i]#%d", name, counter[name+"-slice"])
			okP := pr.prove(relGoal{relLE, t.High, t.X, t.Block(), nil})
			r.check(okP, "C07.R4.buffer-index", construct, c.pos(t.Pos()), "i <= len proven", "cannot prove index <= len(%s) for this slice expression", name)
		}
	})
	r.fn("zlexer.Next")
	_ = n
}

func bufName(v ssa.Value) string {
	seen := map[ssa.Value]bool{}
	for {
		if seen[v] {
			return "buf"
		}
		seen[v] = true
		switch t := v.(type) {
		case *ssa.Phi:
			if t.Comment != "" {
				return t.Comment
			}
			v = t.Edges[0]
		case *ssa.Slice:
			v = t.X
		case *ssa.Call:
			if len(t.Call.Args) > 0 {
				v = t.Call.Args[0]
			} else {
				return "buf"
			}
		default:
			if n := v.Name(); n != "" {
				return n
			}
			return "buf"
		}
	}
}

func c07R5(c *Ctx, r *Report) {
	r.rule("C07.R5.error-position", 3, "syntax errors carry the file and the current token's position")
	// setParseError builds ParseError{file: zp.file, err, lex: l}
	if sp := c.ssaFunc("ZoneParser.setParseError"); sp != nil {
		var ps []string
		var pe *ssa.Alloc
		allInstrs(sp, func(in ssa.Instruction) {
			if al, ok := in.(*ssa.Alloc); ok {
				if n := derefNamed(al.Type()); n != nil && n.Obj().Name() == "ParseError" {
					pe = al
				}
			}
		})
		if pe == nil {
			ps = append(ps, "no ParseError is built")
		} else {
			got := map[string]ssa.Value{}
			for _, ref := range *pe.Referrers() {
				if fa, ok := ref.(*ssa.FieldAddr); ok {
					st := fa.X.Type().Underlying().(*types.Pointer).Elem().Underlying().(*types.Struct)
					for _, r2 := range *fa.Referrers() {
						if s, ok := r2.(*ssa.Store); ok {
							got[st.Field(fa.Field).Name()] = s.Val
						}
					}
				}
			}
			if v := got["file"]; v == nil || !anyIn(sliceOf(v), readsField("ZoneParser", "file")) {
				ps = append(ps, "the error does not carry zp.file")
			}
			if v := got["lex"]; v == nil || v != paramOf(sp, "l") {
				ps = append(ps, "the error does not carry the token (line/column) it is given")
			}
			if v := got["err"]; v == nil || v != paramOf(sp, "err") {
				ps = append(ps, "the error does not carry the message")
			}
		}
		r.check(len(ps) == 0, "C07.R5.error-position", "setParseError", c.pos(sp.Pos()), "file, err, lex", "%s", strings.Join(ps, "; "))
	}
	// Next: the rdata-parse error path replaces a lex-less error's position by the current token
	if nx := c.ssaFunc("ZoneParser.Next"); nx != nil {
		var ps []string
		// every call of setParseError passes a lex that is the current token l (a value loaded from the lexer's result) or an error's own lex
		nCalls := 0
		for _, ci := range callsIn(nx, "(ZoneParser).setParseError") {
			nCalls++
			lexArg := ci.Common().Args[2]
			s := sliceOf(lexArg)
			fromLexer := anyIn(s, func(v ssa.Value) bool {
				e, ok := v.(*ssa.Extract)
				if !ok || e.Index != 0 {
					return false
				}
				call, ok := e.Tuple.(*ssa.Call)
				return ok && (calleeNameSSA(&call.Call) == "(zlexer).Next")
			})
			fromErr := anyIn(s, readsField("ParseError", "lex"))
			// the lexer's own last token (zp.c.l): the position of a lexer error
			fromLexerCell := anyIn(s, readsField("zlexer", "l"))
			if !fromLexer && !fromErr && !fromLexerCell {
				ps = append(ps, fmt.Sprintf("%s: the error position is neither the current token nor the failing parser's own token", c.pos(ci.Pos())))
			}
			fromParse := anyIn(s, func(v ssa.Value) bool {
				call, ok := v.(*ssa.Call)
				return ok && call.Call.IsInvoke() && call.Call.Method.Name() == "parse"
			})
			if fromErr && !fromLexer && fromParse {
				// only on the edge where err.lex is not the zero lex
				zeroCmp := false
				for _, f := range factsAt(nx, ci.Block()) {
					if b, ok := f.Atom.(*ssa.BinOp); ok && (b.Op == token.EQL || b.Op == token.NEQ) && anyIn(sliceOf(b), readsField("ParseError", "lex")) {
						zeroCmp = true
					}
				}
				if !zeroCmp {
					ps = append(ps, fmt.Sprintf("%s: a position-less rdata error (e.g. 'no presentation format') is reported without substituting the current token", c.pos(ci.Pos())))
				}
			}
		}
		if nCalls < 30 {
			ps = append(ps, fmt.Sprintf("only %d error exits seen", nCalls))
		}
		r.check(len(ps) == 0, "C07.R5.error-position", "ZoneParser.Next", c.pos(nx.Pos()), fmt.Sprintf("%d error exits carry a position", nCalls), "%s", strings.Join(ps, "; "))
	}
	if pe := c.ssaFunc("generateReader.parseError"); pe != nil {
		r.fn("generateReader.parseError")
		var ps []string
		okFile, okLex := false, false
		allInstrs(pe, func(in ssa.Instruction) {
			st, ok := in.(*ssa.Store)
			if !ok {
				return
			}
			if readsField("ParseError", "file")(st.Addr) && anyIn(sliceOf(st.Val), readsField("generateReader", "file")) {
				okFile = true
			}
			if readsField("ParseError", "lex")(st.Addr) && anyIn(sliceOf(st.Val), readsField("generateReader", "lex")) {
				okLex = true
			}
		})
		if !okFile {
			ps = append(ps, "no file in $GENERATE errors")
		}
		if !okLex {
			ps = append(ps, "no position in $GENERATE errors")
		}
		r.check(len(ps) == 0, "C07.R5.error-position", "generateReader.parseError", c.pos(pe.Pos()), "file and the directive's token", "%s", strings.Join(ps, "; "))
	}
}
