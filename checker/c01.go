package main

import (
	"fmt"
	"go/types"
	"strings"
)

func init() { register("C01", true, false, checkC01) }

const c01Explanation = `Decided statically, for every record type and every path: (R1) each RR struct's wire fields, in order, have the RFC's field kinds (independent layout table authored from the RFCs), the generated pack method calls exactly the pack codec of each field in that order threading (msg, off) and checking each error, the unpack method calls the dual codec of each field in the same order with the RFC's end-of-field bound; (R2) header flag bit positions, opcode shift/mask and RCODE nibble agree between packing and setHdr and equal the RFC 1035/4035 positions, header words are packed and unpacked in the same order; (R3) the 12-bit RCODE split/re-join constants and the OPT-present/absent guards; (R4) EDNS0 option codes and SVCB keys: constants, constructor switch, Option()/Key() methods and type registries agree, and option/key framing is code,length,value; (R5) RDLENGTH back-patch guarded by the overflow test and the exact-consumption test on unpack; (R6) selector-mask agreement for union selectors; (R7) fingerprints of the integer/address/bitmap helpers. NOT decided: value-level behaviour inside a codec (base64/hex text<->octets, escapes, boundary values), and the round-trip equality unpack(pack(m))==m as such: these quantify over runtime values.`

func checkC01(c *Ctx, r *Report) {
	r.Explanation = c01Explanation
	r.Trusted = []string{"go/types + go/packages resolution of callees and fields", "RFC layout table in checker/e1.go (authored from the RFCs, reviewed against DESIGN.md Appendix B)", "kind->helper table in checker/e1.go"}
	r.Assumptions = []string{"PrivateRR delegates pack/unpack to user-supplied PrivateRdata (outside the module)"}
	c01R1(c, r)
	headerAsRead(c, r, "C01.R1.header-as-read")
	expireEmptyByFlag(c, r, "C01.R3.expire-empty-by-flag")
	c01R2(c, r)
	c01R3(c, r)
	borrow(c, r, checkC03, "C03.R1.total-limit", "C01.R1.name-limit", 1, "packDomainName accepts every name of up to 255 wire octets (the same limit the decoder applies)", func(k string) bool { return k == "packDomainName" }, "a record whose name has exactly 255 octets unpacks but cannot be packed again: the message is not reproduced")
	borrow(c, r, c08LenForm, "C08.R1.len-form", "C01.R1.len-form", 70, "the length method of every type predicts what its packer writes (Pack sizes its buffer from it)", nil, "Pack runs out of buffer for such a record and fails with an overflow error although the record is well-formed")
	c01R4(c, r)
	c01R5(c, r)
	c01R6(c, r)
	c01R7(c, r)
	c01R8(c, r)
	c01Sections(c, r)
	c01PrivateCtor(c, r)
	c01EscapeDuality(c, r)
	// encoders that must emit a sorted list (SvcParamKeys of "mandatory", ...) sort what they emit
	r.rule("C01.R9.sort-own-slice", 1, "an encoder that sorts before writing orders the slice it writes by that slice's own elements")
	sortOwnSlice(c, r, "C01.R9.sort-own-slice", func(fn string) bool { return strings.HasSuffix(fn, ".pack") || strings.HasPrefix(fn, "pack") })
	c01NsecBlockRange(c, r, "C01.R2.nsec-block-range")
	typeTableStructs(c, r, "C01.R4.type-table", "wire data of that type is decoded into a struct of another record type (different name compression, text form and Go type)")
	headerWritten(c, r, "C01.R1.header-written", "PackRR at the end of a buffer reports success without having written the record, and overwrites the last two octets of the record before it")
	unpackExits(c, r, "C01.R1.unpack-exits", "wire data the RFC layout of the type allows is refused")
	c01SvcbDupSentinel(c, r, "C01.R4.svcb-dup-sentinel")
	c01SubnetMasked(c, r, "C01.R8.subnet-masked")
	txtEmptyList(c, r, "C01.R1.txt-empty", "an RDATA-less TXT-like record (the RFC 2136 class-ANY form) is packed with RDLENGTH 1 and a lone zero octet: unpack followed by pack changes the octets")
	sideStructOffsets(c, r, "C01.R1.side-offsets", "the octets produced for the structure stop before that field")
	resetOnConvert(c, r, "C01.R2.rfc3597-reset", "a reused RFC3597 value keeps the Rdata of the record converted before: an RDATA-less record is then packed with the previous record's RDATA")
	borrow(c, r, checkC16, "C16.R2.no-buffer-alias", "C01.R4.no-buffer-alias", 100, "an unpacked record holds copies of the octets it was decoded from, not slices of the caller's buffer", nil, "the unpacked message equals the original only until the caller reuses its buffer; after that its addresses and opaque fields are whatever the buffer holds")
	rdataConfined(c, r, "C01.R2.rdata-confined", "the fields that read to the end of the buffer (txt, octet, nsec, opt, svcb pairs, apl) run into the records that follow: a well-formed record inside a well-formed message is refused or swallows the next record's octets")
	nsecZeroed(c, r, "C01.R2.nsec-zeroed")
	c08StringCap(c, r, "C01.R1.string-cap")
	wholeSectionScan(c, r, "C01.R3.opt-anywhere", "Msg.IsEdns0", "an OPT followed by two or more records is not found: packing an RCODE above 15 fails, a stale extended-RCODE octet is not reset, and Unpack returns only the low four bits of the RCODE")
	exactRoomInDecoders(c, r, "C01.R2.exact-room", decodeScope(c))
	base32Agreement(c, r, "C01.R2.base32-encoding", "NSEC3 records whose hash length is not a multiple of five octets unpack to text the packer refuses (or the other way round)")
	optionCodes(c, r, "C01.R4.option-codes")
	hintWidth(c, r, "C01.R4.hint-width")
	round12(c, r, "C01")
}

// sideStructs are the hand-written wire-format structs with their packers.
var sideStructs = map[string]string{
	"rrsigWireFmt":  "packSigWire",
	"dnskeyWireFmt": "packKeyWire",
	"tsigWireFmt":   "packTsigWire",
	"macWireFmt":    "packMacWire",
	"timerWireFmt":  "packTimerWire",
}

func c01R1(c *Ctx, r *Report) {
	r.rule("C01.R1.layout", 81, "wire kinds of the struct fields, in order, equal the RFC layout table")
	r.rule("C01.R1.field-order", 48, "fields of the same wire kind are in the RFC's order (by field name)")
	r.rule("C01.R1.pack-seq", 81, "pack calls the pack codec of each wire field in struct order, threads (msg,off), checks every error")
	r.rule("C01.R1.unpack-seq", 81, "unpack calls the dual codec of each wire field in struct order with the right end bound")
	for _, t := range c.rrTypes() {
		if t.Name == "PrivateRR" {
			continue
		}
		kinds, wf, err := wireKinds(t.Fields)
		posT := c.pos(t.Named.Obj().Pos())
		if err != nil {
			r.fail("C01.R1.layout", t.Name, posT, "%v", err)
			continue
		}
		if want, ok := rfcLayout[t.Name]; ok {
			got := strings.Join(kinds, " ")
			r.check(got == want, "C01.R1.layout", t.Name, posT, "layout "+got, "struct %s has wire layout [%s], the RFC layout is [%s]", t.Name, got, want)
		} else {
			r.note("C01.R1.layout: type %s has no independent layout on file; internal consistency only", t.Name)
			r.ok("C01.R1.layout", t.Name, posT, "no independent layout on file")
		}
		// same-kind neighbours (GPOS longitude/latitude, SOA's five timers, ...) are told apart by name only
		if want, ok := rfcFieldOrder[t.Name]; ok {
			var got []string
			for _, f := range wf {
				got = append(got, f.Name)
			}
			wantL := strings.Fields(want)
			sameSet := len(got) == len(wantL)
			if sameSet {
				set := map[string]int{}
				for _, n := range got {
					set[n]++
				}
				for _, n := range wantL {
					set[n]--
				}
				for _, v := range set {
					if v != 0 {
						sameSet = false
					}
				}
			}
			switch {
			case !sameSet:
				r.note("C01.R1.field-order: %s has fields [%s]; the order on file names [%s]; no independent order for this field set", t.Name, strings.Join(got, " "), want)
				r.ok("C01.R1.field-order", t.Name, posT, "field set differs from the one on file; no verdict")
			default:
				r.check(strings.Join(got, " ") == want, "C01.R1.field-order", t.Name, posT, "RFC order", "struct %s puts its fields on the wire in the order [%s]; the RFC order is [%s]: pack and unpack agree with each other, so round trips succeed, but the octets are not the RFC's and other implementations read the fields swapped", t.Name, strings.Join(got, " "), want)
			}
		}
		c.checkPackSeq(r, "C01.R1.pack-seq", t.Name, t.Name+".pack", kinds, wf)
		c.checkUnpackSeq(r, "C01.R1.unpack-seq", t.Name, t.Name+".unpack", kinds, wf)
	}
}

func (c *Ctx) checkPackSeq(r *Report, rule, tname, fname string, kinds []string, wf []wireField) {
	fd := c.decl(fname)
	if fd == nil || fd.Body == nil {
		r.fail(rule, tname, "", "no method %s", fname)
		return
	}
	r.fn(fname)
	cb := c.analyseCodecBody(fd, "pack", allPackHelpers)
	pos := c.pos(fd.Pos())
	var problems []string
	if len(cb.Calls) != len(kinds) {
		var got []string
		for _, cc := range cb.Calls {
			got = append(got, cc.Helper+"("+fieldNames(cc.Fields)+")")
		}
		problems = append(problems, fmt.Sprintf("%d codec calls [%s] for %d wire fields [%s]", len(cb.Calls), strings.Join(got, " "), len(kinds), strings.Join(kinds, " ")))
	} else {
		for i, cc := range cb.Calls {
			k := kinds[i]
			bk := baseKind(k)
			hp := helperTable[bk]
			where := fmt.Sprintf("field #%d %s (%s) at %s", i+1, wf[i].Name, k, c.pos(cc.Pos))
			if cc.Helper != hp.pack {
				problems = append(problems, fmt.Sprintf("%s: packed with %s, the codec of kind %s is %s", where, cc.Helper, k, hp.pack))
			}
			if bk == "gw" {
				// packIPSECGateway(rr.GatewayAddr, rr.F, msg, off, rr.GatewayType, compression, false)
				names := fieldNames(cc.Fields)
				if names != "GatewayAddr,"+wf[i].Name+",GatewayType" {
					problems = append(problems, fmt.Sprintf("%s: gateway codec reads fields [%s], want [GatewayAddr,%s,GatewayType]", where, names, wf[i].Name))
				}
				if want := gatewaySelectorMask(wf[i].Tag); cc.SelMask != want {
					problems = append(problems, fmt.Sprintf("%s: gateway selector is passed with mask %s, the RFC layout selects on %s", where, maskStr(cc.SelMask), maskStr(want)))
				}
			} else if len(cc.Fields) != 1 || cc.Fields[0] != wf[i].Var {
				problems = append(problems, fmt.Sprintf("%s: codec call reads field [%s]", where, fieldNames(cc.Fields)))
			}
			switch bk {
			case "C":
				if cc.Compress != "param" {
					problems = append(problems, fmt.Sprintf("%s: compressible name must pass the compress parameter, passes %q", where, cc.Compress))
				}
			case "N", "N*", "gw":
				if cc.Compress != "false" {
					problems = append(problems, fmt.Sprintf("%s: non-compressible name must pass compress=false, passes %q", where, cc.Compress))
				}
			}
			if cc.Guard != "" {
				// accepted idiom: NSEC3/NSEC3PARAM salt "-" means empty
				if !(bk == "hex" && strings.HasSuffix(k, "@SaltLength") && cc.Guard == "rr."+wf[i].Name+` != "-"`) {
					problems = append(problems, fmt.Sprintf("%s: codec call is conditional on %s", where, cc.Guard))
				}
			}
			if !cc.ErrOK {
				problems = append(problems, fmt.Sprintf("%s: error result is not checked and returned before the next field", where))
			}
			problems = append(problems, prefixAll(where+": ", cc.Problems)...)
		}
	}
	for _, s := range cb.StrayWrites {
		problems = append(problems, "write outside a codec call: "+s)
	}
	if len(cb.FinalReturns) != 1 || cb.FinalReturns[0] != "off, nil" {
		problems = append(problems, fmt.Sprintf("final return is %v, want [off, nil]", cb.FinalReturns))
	}
	if len(problems) == 0 {
		r.ok(rule, tname, pos, fmt.Sprintf("%d fields", len(kinds)))
	} else {
		r.fail(rule, tname, pos, "%s", strings.Join(problems, "; "))
	}
}

func prefixAll(p string, ss []string) []string {
	var o []string
	for _, s := range ss {
		o = append(o, p+s)
	}
	return o
}

func (c *Ctx) checkUnpackSeq(r *Report, rule, tname, fname string, kinds []string, wf []wireField) {
	fd := c.decl(fname)
	if fd == nil || fd.Body == nil {
		r.fail(rule, tname, "", "no method %s", fname)
		return
	}
	r.fn(fname)
	cb := c.analyseCodecBody(fd, "unpack", allUnpackHelpers)
	pos := c.pos(fd.Pos())
	var problems []string
	if len(cb.Calls) != len(kinds) {
		var got []string
		for _, cc := range cb.Calls {
			got = append(got, cc.Helper+"->"+fieldNames(cc.Fields))
		}
		problems = append(problems, fmt.Sprintf("%d codec calls [%s] for %d wire fields [%s]", len(cb.Calls), strings.Join(got, " "), len(kinds), strings.Join(kinds, " ")))
	} else {
		for i, cc := range cb.Calls {
			k := kinds[i]
			bk := baseKind(k)
			hp := helperTable[bk]
			where := fmt.Sprintf("field #%d %s (%s) at %s", i+1, wf[i].Name, k, c.pos(cc.Pos))
			if cc.Helper != hp.unpack {
				problems = append(problems, fmt.Sprintf("%s: unpacked with %s, the codec of kind %s is %s", where, cc.Helper, k, hp.unpack))
			}
			if bk == "gw" {
				if fieldNames(cc.Fields) != "GatewayAddr,"+wf[i].Name {
					problems = append(problems, fmt.Sprintf("%s: gateway codec stores into [%s]", where, fieldNames(cc.Fields)))
				}
				if cc.SelField == nil || cc.SelField.Name() != "GatewayType" {
					problems = append(problems, fmt.Sprintf("%s: gateway selector argument is not rr.GatewayType", where))
				} else if want := gatewaySelectorMask(wf[i].Tag); cc.SelMask != want {
					problems = append(problems, fmt.Sprintf("%s: gateway selector is passed with mask %s, the RFC layout selects on %s", where, maskStr(cc.SelMask), maskStr(want)))
				}
			} else {
				if len(cc.Fields) != 1 || cc.Fields[0] != wf[i].Var {
					problems = append(problems, fmt.Sprintf("%s: codec result is stored into field [%s]", where, fieldNames(cc.Fields)))
				}
				switch {
				case strings.Contains(k, "@"):
					lf := k[strings.IndexByte(k, '@')+1:]
					if cc.EndExpr == nil || !c.isOffPlusField(fd, cc.EndExpr, lf) {
						problems = append(problems, fmt.Sprintf("%s: end bound must be off+int(rr.%s)", where, lf))
					}
				case bk == "hex" || bk == "b64" || bk == "b32" || bk == "raw" || bk == "N*":
					if cc.EndExpr == nil || !c.isRdEnd(fd, cc.EndExpr) {
						problems = append(problems, fmt.Sprintf("%s: end bound must be rdStart+int(rr.Hdr.Rdlength) with rdStart := off at entry", where))
					}
				default:
					if cc.EndExpr != nil {
						problems = append(problems, fmt.Sprintf("%s: unexpected extra argument %s", where, types.ExprString(cc.EndExpr)))
					}
				}
			}
			if cc.Guard != "" {
				problems = append(problems, fmt.Sprintf("%s: codec call is conditional on %s", where, cc.Guard))
			}
			if !cc.ErrOK {
				problems = append(problems, fmt.Sprintf("%s: error result is not checked and returned before the next field", where))
			}
			problems = append(problems, prefixAll(where+": ", cc.Problems)...)
		}
	}
	for _, s := range cb.StrayWrites {
		problems = append(problems, "write outside a codec call: "+s)
	}
	if len(cb.FinalReturns) != 1 || cb.FinalReturns[0] != "off, nil" {
		problems = append(problems, fmt.Sprintf("final return is %v, want [off, nil]", cb.FinalReturns))
	}
	if len(problems) == 0 {
		r.ok(rule, tname, pos, fmt.Sprintf("%d fields", len(kinds)))
	} else {
		r.fail(rule, tname, pos, "%s", strings.Join(problems, "; "))
	}
}

// gatewaySelectorMask: RFC 8777 s.4.2: AMTRELAY's type octet is D(1 bit)|type(7 bits); RFC 4025: IPSECKEY's is the whole octet.
func gatewaySelectorMask(tag string) int64 {
	if tag == "amtrelayhost" {
		return 0x7f
	}
	return -1
}

func maskStr(m int64) string {
	if m < 0 {
		return "the whole octet"
	}
	return fmt.Sprintf("octet & %#x", m)
}
