package main

import (
	"fmt"
	"strings"

	"golang.org/x/tools/go/ssa"
)

// c07RdataLexErr: the lexer reports a syntax error in-band: it returns a token whose err flag is set and whose
// text is the error message, and from then on end-of-input. About a quarter of the RDATA parsers' token reads
// never look at that flag (34 of 150 sites on the pinned tree: type-bitmap loops, the SVCB parameter loop,
// NSEC3PARAM's salt, ...), so the discipline cannot be "every parser checks every token". The structural
// necessary condition decided here is the central one: ZoneParser.Next returns a record parsed by a type's
// parse method only after having tested the lexer's own error flag (zp.c.l.err) with the outcome false.
// c07GenerateWidth: a ${offset,width,base} modifier pads every generated value to `width` characters; the width is
// parsed as an 8-bit number, so one directive cannot blow each of its (at most 65536) records up beyond 255 characters
// per iterator position. This is the bound that keeps $GENERATE's output proportional to its input.
func c07GenerateWidth(c *Ctx, r *Report) {
	fn := c.ssaFunc("modToPrintf")
	if fn == nil {
		r.cerr("C07.R2.generate", "modToPrintf:width", "function not found")
		return
	}
	var problems []string
	n := 0
	for _, ci := range callsIn(fn, "strconv.ParseUint", "strconv.ParseInt", "strconv.Atoi") {
		cn := calleeNameSSA(ci.Common())
		// the width is the value that reaches a "%0*"-style format: take the unsigned parse as the width
		if cn != "strconv.ParseUint" {
			continue
		}
		n++
		bits, ok := constIntOf(ci.Common().Args[2])
		if !ok || bits != 8 {
			problems = append(problems, fmt.Sprintf("%s: the modifier width is parsed with bit size %d: widths above 255 are accepted, so a 100-byte directive can produce megabytes per record (memory is no longer proportional to the input)", c.pos(ci.Pos()), bits))
		}
	}
	if n != 1 {
		problems = append(problems, fmt.Sprintf("%d unsigned parses in modToPrintf, want exactly one (the width)", n))
	}
	r.check(len(problems) == 0, "C07.R2.generate", "modToPrintf:width", c.pos(fn.Pos()), "width <= 255", "%s", strings.Join(problems, "; "))
}

func c07RdataLexErr(c *Ctx, r *Report) {
	fn := c.ssaFunc("ZoneParser.Next")
	if fn == nil {
		r.cerr("C07.R3.sticky", "Next:rdata-lexer-error", "function not found")
		return
	}
	var parses []*ssa.Call
	allInstrs(fn, func(in ssa.Instruction) {
		if call, ok := in.(*ssa.Call); ok && call.Call.IsInvoke() && call.Call.Method.Name() == "parse" {
			parses = append(parses, call)
		}
	})
	if len(parses) == 0 {
		r.cerr("C07.R3.sticky", "Next:rdata-lexer-error", "no RDATA parse call found in ZoneParser.Next")
		return
	}
	lexErr := Guard{Name: "!zp.c.l.err", Op: "val", Holds: false, A: func(v ssa.Value) bool {
		fa, ok := v.(*ssa.FieldAddr)
		if !ok || !readsField("lex", "err")(fa) {
			return false
		}
		return anyIn(sliceOf(fa.X), readsField("zlexer", "l"))
	}}
	var problems []string
	n := 0
	for _, rp := range returnPoints(fn, 1) {
		if b, ok := constBool(rp.Results[1]); !ok || !b {
			continue
		}
		after := false
		for _, p := range parses {
			if p.Block() == rp.Block || p.Block().Dominates(rp.Block) {
				after = true
			}
		}
		if !after {
			continue
		}
		n++
		found := false
		for _, f := range rp.factsOf(fn) {
			if matchGuard(f, lexErr) {
				found = true
			}
		}
		if !found {
			problems = append(problems, fmt.Sprintf("%s: a record is returned after its RDATA was parsed without the lexer's error flag having been tested: a syntax error the type's parser read past (a stray ')' taken for a salt, a blank or the end of a bitmap) is swallowed, the record is returned without an error and the rest of the zone is silently dropped", c.pos(rp.Pos)))
		}
	}
	if n == 0 {
		problems = append(problems, "no success return after the RDATA parse")
	}
	// ... and the token loop's end (the lexer has nothing more) is the last place where an error token that a
	// directive state consumed without looking can still be reported: the plain end-of-input return is behind the same test
	{
		var ps []string
		m := 0
		for _, rb := range fn.Blocks {
			ret, ok := rb.Instrs[len(rb.Instrs)-1].(*ssa.Return)
			if !ok {
				continue
			}
			res := unspill(rb, ret)
			if b, isB := constBool(res[1]); !isB || b || !isNilConst(res[0]) {
				continue
			}
			// the plain (nil, false): not the result of setParseError / subNext, not the sticky-error entry
			entry := false
			for _, f := range factsAt(fn, rb) {
				if anyIn(sliceOf(f.Atom), readsField("ZoneParser", "parseErr")) {
					// parseErr != nil came out true
					if b, ok := f.Atom.(*ssa.BinOp); ok && ((b.Op.String() == "!=" && f.Holds) || (b.Op.String() == "==" && !f.Holds)) {
						entry = true
					}
				}
			}
			for _, in := range rb.Instrs {
				if st, ok := in.(*ssa.Store); ok && readsField("ZoneParser", "parseErr")(st.Addr) {
					entry = true // an error is recorded right here
				}
			}
			if entry {
				continue
			}
			m++
			found := false
			for _, f := range factsAt(fn, rb) {
				if matchGuard(f, lexErr) {
					found = true
				}
			}
			if !found {
				ps = append(ps, fmt.Sprintf("%s: end of input is reported without the lexer's error flag having been tested: an error token that a directive state ($INCLUDE, $ORIGIN ...) consumed without looking is never reported, and everything after it is silently dropped", c.pos(ret.Pos())))
			}
		}
		if m == 0 {
			ps = append(ps, "no end-of-input return found")
		}
		r.check(len(ps) == 0, "C07.R3.sticky", "Next:end-of-input-lexer-error", c.pos(fn.Pos()), "behind !zp.c.l.err", "%s", strings.Join(ps, "; "))
	}
	r.check(len(problems) == 0, "C07.R3.sticky", "Next:rdata-lexer-error", c.pos(fn.Pos()), fmt.Sprintf("%d success return(s) behind !zp.c.l.err", n), "%s", strings.Join(problems, "; "))
}
