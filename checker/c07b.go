package main

import (
	"fmt"
	"sort"
	"strings"

	"golang.org/x/tools/go/ssa"
)

// c07RdataLexErr: the lexer reports a syntax error in-band: it returns a token whose err flag is set and whose
// text is the error message, and from then on end-of-input. About a quarter of the RDATA parsers' token reads
// never look at that flag (34 of 150 sites on the pinned tree: type-bitmap loops, the SVCB parameter loop,
// NSEC3PARAM's salt, ...), so the discipline cannot be "every parser checks every token". The structural
// necessary condition decided here is the central one: ZoneParser.Next returns a record parsed by a type's
// parse method only after having tested the lexer's own error flag (zp.c.l.err) with the outcome false.
// c07GenerateWidth: a ${offset,width,base} modifier pads every generated value to `width` characters; the width is
// parsed as an 8-bit number, so one directive cannot blow each of its (at most 65536) records up beyond 255 characters
// per iterator position. This is the bound that keeps $GENERATE's output proportional to its input.
func c07GenerateWidth(c *Ctx, r *Report) {
	fn := c.ssaFunc("modToPrintf")
	if fn == nil {
		r.cerr("C07.R2.generate", "modToPrintf:width", "function not found")
		return
	}
	var problems []string
	n := 0
	for _, ci := range callsIn(fn, "strconv.ParseUint", "strconv.ParseInt", "strconv.Atoi") {
		cn := calleeNameSSA(ci.Common())
		// the width is the value that reaches a "%0*"-style format: take the unsigned parse as the width
		if cn != "strconv.ParseUint" {
			continue
		}
		n++
		bits, ok := constIntOf(ci.Common().Args[2])
		if !ok || bits != 8 {
			problems = append(problems, fmt.Sprintf("%s: the modifier width is parsed with bit size %d: widths above 255 are accepted, so a 100-byte directive can produce megabytes per record (memory is no longer proportional to the input)", c.pos(ci.Pos()), bits))
		}
	}
	if n != 1 {
		problems = append(problems, fmt.Sprintf("%d unsigned parses in modToPrintf, want exactly one (the width)", n))
	}
	r.check(len(problems) == 0, "C07.R2.generate", "modToPrintf:width", c.pos(fn.Pos()), "width <= 255", "%s", strings.Join(problems, "; "))
	// the offset: ReadByte guards start+offset and end+offset in int64; the sums cannot wrap only if the offset itself is
	// bounded (a 32-bit parse)
	var ps []string
	m := 0
	for _, ci := range callsIn(fn, "strconv.ParseInt") {
		m++
		bits, ok := constIntOf(ci.Common().Args[2])
		if !ok || bits == 0 || bits > 32 {
			ps = append(ps, fmt.Sprintf("%s: the modifier offset is parsed with bit size %d: start+offset / end+offset in generateReader.ReadByte's guard can wrap around int64, so ${9223372036854775807} passes the guard and generates negative numbers", c.pos(ci.Pos()), bits))
		}
	}
	if m != 1 {
		ps = append(ps, fmt.Sprintf("%d signed parses in modToPrintf, want exactly one (the offset)", m))
	}
	r.check(len(ps) == 0, "C07.R2.generate", "modToPrintf:offset", c.pos(fn.Pos()), "|offset| < 2^31", "%s", strings.Join(ps, "; "))
}

func c07RdataLexErr(c *Ctx, r *Report) {
	fn := c.ssaFunc("ZoneParser.Next")
	if fn == nil {
		r.cerr("C07.R3.sticky", "Next:rdata-lexer-error", "function not found")
		return
	}
	var parses []*ssa.Call
	allInstrs(fn, func(in ssa.Instruction) {
		if call, ok := in.(*ssa.Call); ok && call.Call.IsInvoke() && call.Call.Method.Name() == "parse" {
			parses = append(parses, call)
		}
	})
	if len(parses) == 0 {
		r.cerr("C07.R3.sticky", "Next:rdata-lexer-error", "no RDATA parse call found in ZoneParser.Next")
		return
	}
	lexErr := Guard{Name: "!zp.c.l.err", Op: "val", Holds: false, A: func(v ssa.Value) bool {
		fa, ok := v.(*ssa.FieldAddr)
		if !ok || !readsField("lex", "err")(fa) {
			return false
		}
		return anyIn(sliceOf(fa.X), readsField("zlexer", "l"))
	}}
	var problems []string
	n := 0
	for _, rp := range returnPoints(fn, 1) {
		if b, ok := constBool(rp.Results[1]); !ok || !b {
			continue
		}
		after := false
		for _, p := range parses {
			if p.Block() == rp.Block || p.Block().Dominates(rp.Block) {
				after = true
			}
		}
		if !after {
			continue
		}
		n++
		found := false
		for _, f := range rp.factsOf(fn) {
			if matchGuard(f, lexErr) {
				found = true
			}
		}
		if !found {
			problems = append(problems, fmt.Sprintf("%s: a record is returned after its RDATA was parsed without the lexer's error flag having been tested: a syntax error the type's parser read past (a stray ')' taken for a salt, a blank or the end of a bitmap) is swallowed, the record is returned without an error and the rest of the zone is silently dropped", c.pos(rp.Pos)))
		}
	}
	if n == 0 {
		problems = append(problems, "no success return after the RDATA parse")
	}
	// ... and the token loop's end (the lexer has nothing more) is the last place where an error token that a
	// directive state consumed without looking can still be reported: the plain end-of-input return is behind the same test
	{
		var ps []string
		m := 0
		for _, rb := range fn.Blocks {
			ret, ok := rb.Instrs[len(rb.Instrs)-1].(*ssa.Return)
			if !ok {
				continue
			}
			res := unspill(rb, ret)
			if b, isB := constBool(res[1]); !isB || b || !isNilConst(res[0]) {
				continue
			}
			// the plain (nil, false): not the result of setParseError / subNext, not the sticky-error entry
			entry := false
			for _, f := range factsAt(fn, rb) {
				if anyIn(sliceOf(f.Atom), readsField("ZoneParser", "parseErr")) {
					// parseErr != nil came out true
					if b, ok := f.Atom.(*ssa.BinOp); ok && ((b.Op.String() == "!=" && f.Holds) || (b.Op.String() == "==" && !f.Holds)) {
						entry = true
					}
				}
			}
			for _, in := range rb.Instrs {
				if st, ok := in.(*ssa.Store); ok && readsField("ZoneParser", "parseErr")(st.Addr) {
					entry = true // an error is recorded right here
				}
			}
			if entry {
				continue
			}
			m++
			found := false
			for _, f := range factsAt(fn, rb) {
				if matchGuard(f, lexErr) {
					found = true
				}
			}
			if !found {
				ps = append(ps, fmt.Sprintf("%s: end of input is reported without the lexer's error flag having been tested: an error token that a directive state ($INCLUDE, $ORIGIN ...) consumed without looking is never reported, and everything after it is silently dropped", c.pos(ret.Pos())))
			}
		}
		if m == 0 {
			ps = append(ps, "no end-of-input return found")
		}
		r.check(len(ps) == 0, "C07.R3.sticky", "Next:end-of-input-lexer-error", c.pos(fn.Pos()), "behind !zp.c.l.err", "%s", strings.Join(ps, "; "))
	}
	r.check(len(problems) == 0, "C07.R3.sticky", "Next:rdata-lexer-error", c.pos(fn.Pos()), fmt.Sprintf("%d success return(s) behind !zp.c.l.err", n), "%s", strings.Join(problems, "; "))
}

// c07ParseBounds: "reading records terminates without panicking", the index part. Every index and slice expression
// on a byte buffer or a string in the code the zone parser runs for a record (the RDATA parsers, the directive and
// header state machine, the $GENERATE reader) is entailed in bounds: upper end <= len, lo <= hi, and 0 <= index where
// the index is a difference. zlexer.Next itself is decided by C07.R4. The facts come from the dominating comparisons,
// loop invariants, caller-established preconditions, memory versions of the parser's struct fields, non-negativity
// invariants of unexported counters, and the lexer contract below.
func c07ParseBounds(c *Ctx, r *Report) {
	r.rule("C07.R6.parse-bounds", 170, "every index / slice on text and buffers in the RDATA parsers, ZoneParser.Next and the $GENERATE reader is entailed in bounds (upper end, lo <= hi, and 0 <= a difference used as index)")
	r.rule("C07.R6.zstring-nonempty", 30, "lexer contract used by the parsers: a token classified zString is never empty (every store to the lexer's token is non-empty, zString is stored together with its token, Next returns only copies of it)")
	e := newAliasEngine(c)
	var entries []*ssa.Function
	for _, T := range c.rrTypes() {
		if f := c.ssaFunc(T.Name + ".parse"); f != nil {
			entries = append(entries, f)
		}
	}
	for _, n := range []string{"ZoneParser.Next", "zlexer.Next", "ZoneParser.generate", "generateReader.ReadByte"} {
		if f := c.ssaFunc(n); f != nil {
			entries = append(entries, f)
		} else {
			r.cerr("C07.R6.parse-bounds", n, "function not found")
		}
	}
	scope := e.reachable(entries)
	var fns []*ssa.Function
	for f := range scope {
		fns = append(fns, f)
	}
	sort.Slice(fns, func(i, j int) bool { return fnDisplay(fns[i]) < fnDisplay(fns[j]) })
	withStrings, withAllSlices = true, true
	defer func() { withStrings, withAllSlices = false, false }()
	bp := newBoundsProver(c, e, scope)
	if lc := theLexContract; lc != nil {
		r.extra["lexer_contract_constructs"] = lc.sites
		for i := 0; i < lc.sites-len(lc.problems); i++ {
			r.ok("C07.R6.zstring-nonempty", fmt.Sprintf("zlexer:construct#%d", i+1), "", "token store non-empty / zString paired with its token / returned copy")
		}
		for _, p := range lc.problems {
			r.fail("C07.R6.zstring-nonempty", "zlexer:"+p, "", "%s: a zString token may then be empty, and the RDATA parsers index token[len(token)-1] without a length test (stringToCm)", p)
		}
	} else {
		r.cerr("C07.R6.zstring-nonempty", "zlexer", "contract not evaluated")
	}
	lexNext := c.ssaFunc("zlexer.Next")
	counter := map[string]int{}
	why := map[string]int{}
	for _, f := range fns {
		if f == lexNext {
			continue
		}
		r.fn(fnDisplay(f))
		for _, s := range boundSites(f) {
			bp.prove(s)
			base := fmt.Sprintf("%s:%s", fnDisplay(f), s.describe())
			counter[base]++
			construct := base
			if counter[base] > 1 {
				construct = fmt.Sprintf("%s#%d", base, counter[base])
			}
			if s.Proven {
				why[s.Why]++
			}
			r.check(s.Proven, "C07.R6.parse-bounds", construct, c.pos(s.Instr.Pos()), s.Why, "the access %s is not covered by a dominating test (%s): zone text can make the parser panic", s.describe(), s.Why)
		}
	}
	r.extra["parse_bounds_proof_kinds"] = why
}
