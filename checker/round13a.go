package main

// Rules added after the short thirteenth round (eight properties, two changes each).

import (
	"fmt"
	"go/token"
	"go/types"
	"strings"

	"golang.org/x/tools/go/ssa"
)

func round13(c *Ctx, r *Report, p string) {
	switch p {
	case "C19":
		prevLabelCountOnlyDecreases(c, r, "C19.R1.prevlabel-count-only-decreases")
		addOriginLooksAtNothingButDots(c, r, "C19.R6.addorigin-unconditional")
	case "C12":
		datagramFillAccepted(c, r, "C12.R1.datagram-fill-accepted")
		readerPerConnection(c, r, "C12.R5.reader-per-connection")
	case "C09":
		keptCountAsReturned(c, r, "C09.R4.kept-count-as-returned")
	case "C13":
		callbacksOutsideLock(c, r, "C13.R2.callbacks-outside-lock")
		refusalDoesNotWait(c, r, "C13.R4.refusal-does-not-wait")
	}
}

// prevLabelCountOnlyDecreases: the number of labels PrevLabel still has to step over only ever goes down, by one per
// unescaped dot found: nothing is added to it. (The closing dot of a fully qualified name is stepped over by moving
// the index; counting it as a separator to find counts it also where the final dot is escaped and is no separator.)
func prevLabelCountOnlyDecreases(c *Ctx, r *Report, rule string) {
	r.rule(rule, 1, "PrevLabel never adds to the number of labels it was asked to step over")
	fn := c.ssaFunc("PrevLabel")
	if fn == nil || len(fn.Params) < 2 {
		r.cerr(rule, "PrevLabel", "function not found")
		return
	}
	r.fn("PrevLabel")
	n := fn.Params[1]
	var bad []string
	subs := 0
	allInstrs(fn, func(in ssa.Instruction) {
		b, ok := in.(*ssa.BinOp)
		if !ok {
			return
		}
		fromN := sliceOf(b.X)[n]
		switch b.Op {
		case token.SUB:
			if k, isK := constIntOf(b.Y); isK && k == 1 && fromN {
				subs++
			}
		case token.ADD, token.MUL, token.SHL:
			if fromN || sliceOf(b.Y)[n] {
				bad = append(bad, fmt.Sprintf("%s: %s", c.pos(b.Pos()), b.String()))
			}
		}
	})
	r.check(subs > 0 && len(bad) == 0, rule, "PrevLabel", c.pos(fn.Pos()), fmt.Sprintf("%d decrement(s), no increase", subs), "the count of labels still to step over is increased (%s): for a name whose last octet is a dot that is no separator (a relative name ending in an escaped dot) every step lands one label too far left", strings.Join(bad, "; "))
}

// addOriginLooksAtNothingButDots: dnsutil.AddOrigin decides by whether s is fully qualified, empty or "@" and whether
// the origin is empty or the root - never by how s relates to the origin: a relative name is relative whatever labels
// it ends in ("origin" under "origin." is "origin.origin."). The only functions of package dns it calls are IsFqdn and
// Fqdn.
func addOriginLooksAtNothingButDots(c *Ctx, r *Report, rule string) {
	r.rule(rule, 1, "dnsutil.AddOrigin calls nothing of package dns but IsFqdn and Fqdn")
	fn := c.ssaFuncIn("dnsutil", "AddOrigin")
	if fn == nil {
		r.cerr(rule, "AddOrigin", "function not found")
		return
	}
	r.fn(fnDisplay(fn))
	var bad []string
	n := 0
	for _, f := range localCallees(c, fn, 2) {
		allInstrs(f, func(in ssa.Instruction) {
			ci, ok := in.(ssa.CallInstruction)
			if !ok {
				return
			}
			g := ci.Common().StaticCallee()
			if g == nil || g.Pkg == nil || g.Pkg.Pkg.Path() != dnsPath {
				if g != nil && g.Pkg != nil && g.Pkg.Pkg.Path() == "strings" {
					switch g.Name() {
					case "HasSuffix", "EqualFold", "Contains", "Index", "LastIndex", "ToLower":
						bad = append(bad, fmt.Sprintf("%s: strings.%s", c.pos(in.Pos()), g.Name()))
					}
				}
				return
			}
			n++
			if g.Name() != "IsFqdn" && g.Name() != "Fqdn" {
				bad = append(bad, fmt.Sprintf("%s: dns.%s", c.pos(in.Pos()), g.Name()))
			}
		})
	}
	r.check(n > 0 && len(bad) == 0, rule, "AddOrigin", c.pos(fn.Pos()), "IsFqdn / Fqdn only", "AddOrigin looks at how its name relates to the origin (%s): a relative name that happens to end in the labels of the origin is not completed, so TrimDomainName(AddOrigin(s, o), o) is not s for it", strings.Join(uniqStrings(bad), "; "))
}

// datagramFillAccepted: Conn.ReadMsgHeader does not compare the number of octets a read returned with the size of the
// buffer it read into: a datagram that exactly fills the buffer (a reply of exactly the advertised size) is a reply.
func datagramFillAccepted(c *Ctx, r *Report, rule string) {
	r.rule(rule, 1, "Conn.ReadMsgHeader refuses no datagram for filling the receive buffer")
	fn := c.ssaFunc("Conn.ReadMsgHeader")
	if fn == nil {
		r.cerr(rule, "Conn.ReadMsgHeader", "function not found")
		return
	}
	r.fn("Conn.ReadMsgHeader")
	isReadCount := func(v ssa.Value) bool {
		e, ok := v.(*ssa.Extract)
		if !ok || e.Index != 0 {
			return false
		}
		call, ok := e.Tuple.(*ssa.Call)
		return ok && (calleeNameSSA(&call.Call) == "(Conn).Read" || strings.HasSuffix(calleeNameSSA(&call.Call), ").Read"))
	}
	isBufSize := func(v ssa.Value) bool {
		call, ok := v.(*ssa.Call)
		if !ok {
			return false
		}
		nm := calleeNameSSA(&call.Call)
		return nm == "builtin.len" || nm == "builtin.cap"
	}
	reads := 0
	var bad []string
	allInstrs(fn, func(in ssa.Instruction) {
		if v, ok := in.(ssa.Value); ok && isReadCount(v) {
			reads++
		}
		b, ok := in.(*ssa.BinOp)
		if !ok {
			return
		}
		switch b.Op {
		case token.EQL, token.NEQ, token.LSS, token.GTR, token.LEQ, token.GEQ:
		default:
			return
		}
		sx, sy := sliceOf(b.X), sliceOf(b.Y)
		if anyIn(sx, isReadCount) && anyIn(sy, isBufSize) || anyIn(sy, isReadCount) && anyIn(sx, isBufSize) {
			bad = append(bad, fmt.Sprintf("%s: %s", c.pos(b.Pos()), b.String()))
		}
	})
	r.check(reads > 0 && len(bad) == 0, rule, "Conn.ReadMsgHeader", c.pos(fn.Pos()), "the count read is not compared with the buffer size", "the number of octets read is compared with the size of the receive buffer (%s): a reply of exactly the size the client advertised (or exactly 512 octets without EDNS0) is taken for a truncated one and the exchange fails although its reply arrived intact", strings.Join(bad, "; "))
}

// readerPerConnection: the Reader serveTCPConn reads its connection with is made in serveTCPConn, for that
// connection: a DecorateReader with state of its own (a buffer, a parser position) must not be shared by connections
// that are served concurrently.
func readerPerConnection(c *Ctx, r *Report, rule string) {
	r.rule(rule, 1, "serveTCPConn reads with a Reader it made itself")
	fn := c.ssaFunc("Server.serveTCPConn")
	if fn == nil {
		r.cerr(rule, "Server.serveTCPConn", "function not found")
		return
	}
	r.fn("Server.serveTCPConn")
	n := 0
	var bad []string
	for _, f := range withAnon(fn) {
		allInstrs(f, func(in ssa.Instruction) {
			call, ok := in.(*ssa.Call)
			if !ok || !call.Call.IsInvoke() || call.Call.Method.Name() != "ReadTCP" {
				return
			}
			n++
			for _, l := range phiLeaves(call.Call.Value) {
				switch t := l.(type) {
				case *ssa.MakeInterface:
				case *ssa.Call:
					if !anyIn(sliceOf(t.Call.Value), readsField("Server", "DecorateReader")) {
						bad = append(bad, fmt.Sprintf("%s: the reader is the result of %s", c.pos(call.Pos()), calleeNameSSA(&t.Call)))
					}
				default:
					bad = append(bad, fmt.Sprintf("%s: the reader is %s, made outside this function", c.pos(call.Pos()), describeValue(l)))
				}
			}
		})
	}
	r.check(n > 0 && len(bad) == 0, rule, "Server.serveTCPConn", c.pos(fn.Pos()), fmt.Sprintf("%d read site(s), reader made here", n), "%s: one decorated Reader serves every connection of the listener, and a decorator with state of its own (a receive buffer, a frame counter) mixes the requests of connections that are served at the same time", strings.Join(uniqStrings(bad), "; "))
}

// keptCountAsReturned: the number of records Truncate keeps of a section is the number truncateLoop returned for that
// section (or 0 where the section was not walked): nothing is computed from it. Every record the walk found to fit is
// kept: "the first dropped record would not have fitted".
func keptCountAsReturned(c *Ctx, r *Report, rule string) {
	r.rule(rule, 3, "Truncate cuts each section at the count truncateLoop returned for it, as returned")
	fn := c.ssaFunc("Msg.Truncate")
	if fn == nil {
		r.cerr(rule, "Msg.Truncate", "function not found")
		return
	}
	r.fn("Msg.Truncate")
	for _, sec := range []string{"Answer", "Ns", "Extra"} {
		n := 0
		var bad []string
		for _, st := range storesToField(fn, "Msg", sec) {
			sl, ok := st.Val.(*ssa.Slice)
			if !ok || sl.High == nil || !anyIn(sliceOf(sl.X), readsField("Msg", sec)) {
				continue
			}
			n++
			for _, l := range phiLeaves(stripConv(sl.High)) {
				l = stripConv(l)
				if k, isK := constIntOf(l); isK && k == 0 {
					continue
				}
				if e, isE := l.(*ssa.Extract); isE && e.Index == 1 {
					if call, isCall := e.Tuple.(*ssa.Call); isCall && calleeNameSSA(&call.Call) == "truncateLoop" && anyIn(sliceOf(call.Call.Args[0]), readsField("Msg", sec)) {
						continue
					}
				}
				bad = append(bad, fmt.Sprintf("%s: dns.%s is cut at %s", c.pos(st.Pos()), sec, describeValue(l)))
			}
		}
		r.check(n > 0 && len(bad) == 0, rule, "Msg.Truncate:"+sec, c.pos(fn.Pos()), "cut at truncateLoop's count", "%s, which is not the count truncateLoop returned for that section: records the walk found to fit are dropped (or records it found not to fit are kept)", strings.Join(uniqStrings(bad), "; "))
	}
}

// callbacksOutsideLock: no function-valued field of the Server (NotifyStartedFunc, the decorators, the accept and
// invalid-message callbacks) is called while Server.lock is held: the callback is the owner's code and may take any
// time, and everything that needs the lock - a second start that must be refused, ShutdownContext and its context -
// would wait for it.
func callbacksOutsideLock(c *Ctx, r *Report, rule string) {
	r.rule(rule, 1, "no callback field of the Server is called while Server.lock is held")
	var all []*ssa.Function
	for _, f := range c.allFuncs() {
		all = append(all, withAnon(f)...)
	}
	isCallbackField := func(v ssa.Value) bool {
		for x := range sliceOf(v) {
			fa, ok := x.(*ssa.FieldAddr)
			if !ok {
				continue
			}
			nt := derefNamed(fa.X.Type())
			if nt == nil || nt.Obj().Name() != "Server" {
				continue
			}
			if _, isSig := fa.Type().Underlying().(*types.Pointer).Elem().Underlying().(*types.Signature); isSig {
				return true
			}
		}
		return false
	}
	n, sites := 0, 0
	var bad []string
	for _, f := range all {
		li := computeLocks(f, "Server", "lock", lkNone)
		if li.touches {
			n++
		}
		allInstrs(f, func(in ssa.Instruction) {
			call, ok := in.(*ssa.Call)
			if !ok || call.Call.IsInvoke() || call.Call.StaticCallee() != nil {
				return
			}
			if _, isB := call.Call.Value.(*ssa.Builtin); isB || !isCallbackField(call.Call.Value) {
				return
			}
			sites++
			if li.at[in] != lkNone {
				bad = append(bad, fmt.Sprintf("%s: %s calls %s with the %s held", c.pos(call.Pos()), fnDisplay(f), describeValue(call.Call.Value), lkName(li.at[in])))
			}
		})
	}
	r.check(n > 0 && sites > 0 && len(bad) == 0, rule, "Server callbacks", "", fmt.Sprintf("%d callback call sites, none under the lock", sites), "%s: while the owner's callback runs, a second start blocks instead of being refused and ShutdownContext blocks on the lock whatever its context says", strings.Join(uniqStrings(bad), "; "))
}

// refusalDoesNotWait: the way out of ShutdownContext for a server that is not started waits for nothing: between the
// not-started edge and the return there is no channel receive and no select.
func refusalDoesNotWait(c *Ctx, r *Report, rule string) {
	r.rule(rule, 1, "ShutdownContext refuses a server that is not started without waiting for anything")
	fn := c.ssaFunc("Server.ShutdownContext")
	if fn == nil {
		r.cerr(rule, "Server.ShutdownContext", "function not found")
		return
	}
	r.fn("Server.ShutdownContext")
	n := 0
	var bad []string
	for _, b := range fn.Blocks {
		iff, ok := b.Instrs[len(b.Instrs)-1].(*ssa.If)
		if !ok {
			continue
		}
		atom, pol := condAtom(iff.Cond)
		if !anyIn(sliceOf(atom), readsField("Server", "started")) {
			continue
		}
		if _, isBin := atom.(*ssa.BinOp); isBin {
			continue
		}
		n++
		notStarted := b.Succs[1]
		if !pol {
			notStarted = b.Succs[0]
		}
		if len(notStarted.Preds) != 1 {
			continue
		}
		for x := range reach(notStarted, nil, nil) {
			// only what lies on the refusal side: blocks the not-started edge dominates
			if x != notStarted && !notStarted.Dominates(x) {
				continue
			}
			for _, in := range x.Instrs {
				switch t := in.(type) {
				case *ssa.Select:
					bad = append(bad, fmt.Sprintf("%s: select", c.pos(t.Pos())))
				case *ssa.UnOp:
					if t.Op == token.ARROW {
						bad = append(bad, fmt.Sprintf("%s: channel receive", c.pos(t.Pos())))
					}
				}
			}
		}
	}
	r.check(n > 0 && len(bad) == 0, rule, "Server.ShutdownContext", c.pos(fn.Pos()), "no wait on the not-started side", "the refusal of a server that is not started waits (%s): after a start that failed (init made a drain channel no serve loop will ever close) Shutdown blocks for ever instead of answering 'server not started'", strings.Join(uniqStrings(bad), "; "))
}
